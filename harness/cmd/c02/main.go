// Development binary for one check: VERIF_CMD=c02 ./run C02 quick
package main

import (
	_ "verif/harness/internal/c02"
	"verif/harness/internal/core"
)

func main() { core.Main() }
