// Development binary for one check: VERIF_CMD=c17 ./run C17 quick
package main

import (
	_ "verif/harness/internal/c17"
	"verif/harness/internal/core"
)

func main() { core.Main() }
