// Development binary for one check: VERIF_CMD=c14 ./run C07 quick
package main

import (
	_ "verif/harness/internal/c14"
	"verif/harness/internal/core"
)

func main() { core.Main() }
