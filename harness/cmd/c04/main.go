// Development binary for one check: VERIF_CMD=c04 ./run C04 quick
package main

import (
	_ "verif/harness/internal/c04"
	"verif/harness/internal/core"
)

func main() { core.Main() }
