// Development binary for one check: VERIF_CMD=c12 ./run C12 quick
package main

import (
	_ "verif/harness/internal/c12"
	"verif/harness/internal/core"
)

func main() { core.Main() }
