// Development binary for one check: VERIF_CMD=c16 ./run C16 quick
package main

import (
	_ "verif/harness/internal/c16"
	"verif/harness/internal/core"
)

func main() { core.Main() }
