// Development binary for one check: VERIF_CMD=c06 ./run C04 quick
package main

import (
	_ "verif/harness/internal/c06"
	"verif/harness/internal/core"
)

func main() { core.Main() }
