// Development binary for one check: VERIF_CMD=c13 ./run C07 quick
package main

import (
	_ "verif/harness/internal/c13"
	"verif/harness/internal/core"
)

func main() { core.Main() }
