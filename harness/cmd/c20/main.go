// Development binary for one check: VERIF_CMD=c20 ./run C20 quick
package main

import (
	_ "verif/harness/internal/c20"
	"verif/harness/internal/core"
)

func main() { core.Main() }
