// Development binary for one check: VERIF_CMD=c10 ./run C07 quick
package main

import (
	_ "verif/harness/internal/c10"
	"verif/harness/internal/core"
)

func main() { core.Main() }
