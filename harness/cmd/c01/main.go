// Development binary for one check: VERIF_CMD=c01 ./run C07 quick
package main

import (
	_ "verif/harness/internal/c01"
	"verif/harness/internal/core"
)

func main() { core.Main() }
