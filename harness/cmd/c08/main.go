// Development binary for one check: VERIF_CMD=c08 ./run C08 quick
package main

import (
	_ "verif/harness/internal/c08"
	"verif/harness/internal/core"
)

func main() { core.Main() }
