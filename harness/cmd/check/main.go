// Command check is the single binary of the harness: `check drive` runs a
// property check (spawning `check shard` worker processes), `check meta` tells
// the run script whether the -race build is needed.
package main

import (
	_ "verif/harness/internal/checks"
	"verif/harness/internal/core"
)

func main() { core.Main() }
