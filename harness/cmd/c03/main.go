// Development binary for one check: VERIF_CMD=c03 ./run C03 quick
package main

import (
	_ "verif/harness/internal/c03"
	"verif/harness/internal/core"
)

func main() { core.Main() }
