// Development binary for one check: VERIF_CMD=c05 ./run C04 quick
package main

import (
	_ "verif/harness/internal/c05"
	"verif/harness/internal/core"
)

func main() { core.Main() }
