// Development binary for one check: VERIF_CMD=c18 ./run C18 quick
package main

import (
	_ "verif/harness/internal/c18"
	"verif/harness/internal/core"
)

func main() { core.Main() }
