// Development binary for one check: VERIF_CMD=c07 ./run C07 quick
package main

import (
	_ "verif/harness/internal/c07"
	"verif/harness/internal/core"
)

func main() { core.Main() }
