// Development binary for one check: VERIF_CMD=c19 ./run C07 quick
package main

import (
	_ "verif/harness/internal/c19"
	"verif/harness/internal/core"
)

func main() { core.Main() }
