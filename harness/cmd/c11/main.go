// Development binary for one check: VERIF_CMD=c11 ./run C11 quick
package main

import (
	_ "verif/harness/internal/c11"
	"verif/harness/internal/core"
)

func main() { core.Main() }
