// Development binary for one check: VERIF_CMD=c15 ./run C07 quick
package main

import (
	_ "verif/harness/internal/c15"
	"verif/harness/internal/core"
)

func main() { core.Main() }
