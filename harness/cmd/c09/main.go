// Development binary for one check: VERIF_CMD=c09 ./run C09 quick
package main

import (
	_ "verif/harness/internal/c09"
	"verif/harness/internal/core"
)

func main() { core.Main() }
