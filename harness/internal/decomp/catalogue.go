package decomp

import (
	"fmt"
	"strconv"
)

// The attribute catalogue. Merge classes follow the C04 statement:
//
//	scalars are replaced                                    -> replace
//	mappings merge key by key recursively                   -> map-recursive
//	sequences are appended                                  -> append
//	KEY=VALUE style attributes merge by key, any spelling   -> kv-by-key
//	command / entrypoint / healthcheck test replaced        -> wholesale
//	ports, volumes, devices by target; secrets, configs by
//	  target                                                -> keyed(target)
//	env/label/cap/dns/sysctl style entries by key           -> kv-by-key / append-unique
//
// and the intersection discipline of DESIGN.md section 4/C04:
//
//	ports         colliding entries share ip/published/target/protocol and
//	              differ only in mode/name/app_protocol; others differ in target
//	extra_hosts   parts use disjoint host names
//	logging       the driver never changes across parts
//	ulimits.<n>   atomic value
//	plain lists   never repeat an element across parts
//	!reset        at attribute level only

// ---- keyed lists -------------------------------------------------------------

type portMeta struct {
	IP, Published, Proto string
	Target               int
}

func portEntry(g *G, m portMeta) Entry {
	mode := g.pick("ingress", "ingress", "host")
	name, app := "", ""
	if g.chance(0.3) {
		name = fmt.Sprintf("port%d", g.U())
	}
	if g.chance(0.25) {
		app = g.pick("http", "grpc", "https")
	}
	long := OM{{"target", m.Target}}
	if m.Published != "" {
		long = append(long, KVp{"published", Quoted(m.Published)})
	}
	if m.IP != "" {
		long = append(long, KVp{"host_ip", m.IP})
	}
	long = append(long, KVp{"protocol", m.Proto}, KVp{"mode", mode})
	if name != "" {
		long = append(long, KVp{"name", name})
	}
	if app != "" {
		long = append(long, KVp{"app_protocol", app})
	}
	e := Entry{Key: strconv.Itoa(m.Target), Spells: []any{long}, Meta: m}
	if mode == "ingress" && name == "" && app == "" {
		s := ""
		if m.IP != "" {
			s = m.IP + ":"
			if m.Published == "" {
				s += ":"
			}
		}
		if m.Published != "" {
			s += m.Published + ":"
		}
		s += strconv.Itoa(m.Target)
		short := s
		if m.Proto != "tcp" {
			short += "/" + m.Proto
		}
		e.Spells = append(e.Spells, Quoted(short), Quoted(s+"/"+m.Proto))
		if m.IP == "" && m.Published == "" && m.Proto == "tcp" {
			e.Spells = append(e.Spells, m.Target)
		}
	}
	return e
}

func portsAttr() *Attr {
	a := &Attr{Name: "ports", Kind: KKeyed, Class: "keyed(target)"}
	a.Gen = func(g *G) *Val {
		v := &Val{A: a}
		n := 1 + g.R.Intn(3)
		for i := 0; i < n; i++ {
			m := portMeta{Target: 1000 + g.U(), Proto: g.pick("tcp", "tcp", "udp")}
			if g.chance(0.7) {
				m.Published = strconv.Itoa(20000 + g.U())
				if g.chance(0.3) {
					m.IP = g.pick("127.0.0.1", "10.0.0.5")
				}
			}
			v.Ents = append(v.Ents, portEntry(g, m))
		}
		return v
	}
	a.Stale = func(g *G, e Entry) Entry { return portEntry(g, e.Meta.(portMeta)) }
	return a
}

type volMeta struct{ Target string }

func volumeEntry(g *G, target string) Entry {
	ro := g.chance(0.4)
	e := Entry{Key: target, Meta: volMeta{target}}
	kind := g.R.Intn(10)
	switch {
	case kind < 4 && len(g.Volumes) > 0: // named volume
		src := g.pick(g.Volumes...)
		long := OM{{"type", "volume"}, {"source", src}, {"target", target}}
		short := src + ":" + target
		if ro {
			long = append(long, KVp{"read_only", true})
			short += ":ro"
		}
		if g.chance(0.25) {
			long = append(long, KVp{"volume", OM{{"nocopy", true}}})
			e.Spells = []any{long, short + map[bool]string{true: ",nocopy", false: ":nocopy"}[ro]}
		} else {
			e.Spells = []any{long, short}
		}
	case kind < 8: // bind
		src := g.Path()
		if g.chance(0.3) {
			src = fmt.Sprintf("/abs/dir%d", g.U())
		}
		long := OM{{"type", "bind"}, {"source", src}, {"target", target}}
		short := src + ":" + target
		if ro {
			long = append(long, KVp{"read_only", true})
			short += ":ro"
		}
		if g.chance(0.25) {
			// options only the long syntax can say
			long = append(long, KVp{"bind", OM{{"propagation", g.pick("rprivate", "shared", "rslave")}, {"create_host_path", g.chance(0.5)}}})
			e.Spells = []any{long}
		} else {
			long = append(long, KVp{"bind", OM{{"create_host_path", true}}})
			e.Spells = []any{long, short}
		}
	case kind < 9: // tmpfs
		long := OM{{"type", "tmpfs"}, {"target", target}, {"tmpfs", OM{{"size", 1048576 * (1 + g.R.Intn(8))}}}}
		e.Spells = []any{long}
	default: // anonymous volume
		long := OM{{"type", "volume"}, {"target", target}}
		e.Spells = []any{long, target}
	}
	return e
}

func volumesAttr() *Attr {
	a := &Attr{Name: "volumes", Kind: KKeyed, Class: "keyed(target)"}
	a.Gen = func(g *G) *Val {
		v := &Val{A: a}
		n := 1 + g.R.Intn(3)
		for i := 0; i < n; i++ {
			v.Ents = append(v.Ents, volumeEntry(g, fmt.Sprintf("/data/t%d", g.U())))
		}
		return v
	}
	a.Stale = func(g *G, e Entry) Entry { return volumeEntry(g, e.Key) }
	return a
}

func deviceEntry(g *G, target string) Entry {
	src := fmt.Sprintf("/dev/src%d", g.U())
	perm := g.pick("rwm", "r", "rw", "mr")
	return Entry{Key: target, Spells: []any{
		src + ":" + target + ":" + perm,
		OM{{"source", src}, {"target", target}, {"permissions", perm}},
	}}
}

func devicesAttr() *Attr {
	a := &Attr{Name: "devices", Kind: KKeyed, Class: "keyed(target)"}
	a.Gen = func(g *G) *Val {
		v := &Val{A: a}
		n := 1 + g.R.Intn(3)
		for i := 0; i < n; i++ {
			v.Ents = append(v.Ents, deviceEntry(g, fmt.Sprintf("/dev/tgt%d", g.U())))
		}
		return v
	}
	a.Stale = func(g *G, e Entry) Entry { return deviceEntry(g, e.Key) }
	return a
}

type mountMeta struct {
	Source, Target string // Target "" = implicit (derived from the source name)
}

func mountEntry(g *G, m mountMeta, noMode bool) Entry {
	e := Entry{Meta: m}
	long := OM{{"source", m.Source}}
	extras := false
	if m.Target != "" {
		long = append(long, KVp{"target", m.Target})
		e.Key = m.Target
		extras = true
	} else {
		e.Key = "implicit:" + m.Source
	}
	if !noMode && g.chance(0.3) {
		long = append(long, KVp{"mode", g.pick("0440", "0400", "0444")})
		extras = true
	}
	if g.chance(0.2) {
		long = append(long, KVp{"uid", strconv.Itoa(100 + g.R.Intn(5))}, KVp{"gid", strconv.Itoa(200 + g.R.Intn(5))})
		extras = true
	}
	e.Spells = []any{long}
	if !extras {
		e.Spells = append(e.Spells, m.Source)
	}
	return e
}

// mountsAttr builds secrets / configs (pool selects which declared names are referred to).
func mountsAttr(name string, pool func(g *G) []string, noCollide bool) *Attr {
	a := &Attr{Name: name, Kind: KKeyed, Class: "keyed(target)", NoCollide: noCollide}
	a.Gen = func(g *G) *Val {
		names := pool(g)
		if len(names) == 0 {
			return nil
		}
		v := &Val{A: a}
		for _, src := range g.subset(names, 2) {
			v.Ents = append(v.Ents, mountEntry(g, mountMeta{Source: src}, noCollide))
		}
		if g.chance(0.5) {
			v.Ents = append(v.Ents, mountEntry(g, mountMeta{Source: g.pick(names...), Target: fmt.Sprintf("/etc/mnt/f%d", g.U())}, noCollide))
		}
		return v
	}
	a.Stale = func(g *G, e Entry) Entry {
		m := e.Meta.(mountMeta)
		if m.Target != "" {
			// same explicit target, any declared source
			m.Source = g.pick(pool(g)...)
		}
		for i := 0; i < 8; i++ {
			n := mountEntry(g, m, noCollide)
			if len(n.Spells) == 1 || m.Target != "" { // stale implicit entries carry extras, so they differ
				return n
			}
		}
		return mountEntry(g, m, noCollide)
	}
	return a
}

// ---- KEY=VALUE variants ------------------------------------------------------

func extraHosts(name string) *Attr {
	a := &Attr{Name: name, Kind: KKV, Class: "kv-by-key", NoCollide: true}
	ip := func(g *G) any {
		if g.chance(0.25) {
			return fmt.Sprintf("fd00::%d", 1+g.R.Intn(200))
		}
		return fmt.Sprintf("10.%d.%d.%d", g.R.Intn(200), g.R.Intn(200), 1+g.R.Intn(200))
	}
	a.Gen = func(g *G) *Val {
		v := &Val{A: a}
		n := 1 + g.R.Intn(3)
		for i := 0; i < n; i++ {
			v.KVs = append(v.KVs, KV{K: fmt.Sprintf("host%d.example", g.U()), V: ip(g)})
		}
		return v
	}
	return a
}

func sshAttr() *Attr {
	a := &Attr{Name: "ssh", Kind: KKV, Class: "kv-by-key"}
	a.Value = func(g *G, _ string) any { return fmt.Sprintf("/ssh/key%d", g.U()) }
	a.StaleKV = func(g *G, kv KV) (KV, bool) {
		if kv.V == nil {
			// `default` without a path: not combined with an earlier `default=path`
			// (a null in a mapping override is "not mentioned" under the mapping rule
			// and "valueless key wins" under the KEY=VALUE rule: outside the intersection)
			return kv, false
		}
		return KV{K: kv.K, V: a.Value(g, kv.K)}, true
	}
	a.Gen = func(g *G) *Val {
		v := &Val{A: a}
		if g.chance(0.5) {
			var val any
			if g.chance(0.4) {
				val = a.Value(g, "default")
			}
			v.KVs = append(v.KVs, KV{K: "default", V: val})
		}
		n := g.R.Intn(3)
		if len(v.KVs) == 0 && n == 0 {
			n = 1
		}
		for i := 0; i < n; i++ {
			k := fmt.Sprintf("id%d", g.U())
			v.KVs = append(v.KVs, KV{K: k, V: a.Value(g, k)})
		}
		return v
	}
	return a
}

// ---- files -------------------------------------------------------------------

func envFileAttr() *Attr {
	a := &Attr{Name: "env_file", Kind: KList, Class: "append", StrOrList: true}
	a.Gen = func(g *G) *Val {
		v := &Val{A: a}
		n := 1 + g.R.Intn(3)
		for i := 0; i < n; i++ {
			tok := g.Path()
			if g.chance(0.15) {
				// optional and missing
				v.Items = append(v.Items, Item{ID: tok, Spells: []any{OM{{"path", tok + ".env"}, {"required", false}}}})
				continue
			}
			g.Files[tok+".env"] = fmt.Sprintf("FROM_FILE_%d=f%d\nSHARED_FROM_FILE=%s\n", g.U(), g.U(), tok)
			v.Items = append(v.Items, Item{ID: tok, Spells: []any{tok + ".env", OM{{"path", tok + ".env"}}, OM{{"path", tok + ".env"}, {"required", true}}}})
		}
		return v
	}
	return a
}

func labelFileAttr() *Attr {
	a := &Attr{Name: "label_file", Kind: KList, Class: "append"}
	a.Gen = func(g *G) *Val {
		v := &Val{A: a}
		n := 1 + g.R.Intn(2)
		for i := 0; i < n; i++ {
			tok := g.Path()
			g.Files[tok+".labels"] = fmt.Sprintf("from.file.l%d=f%d\nshared.from.file=%s\n", g.U(), g.U(), tok)
			v.Items = append(v.Items, Item{ID: tok, Spells: []any{tok + ".labels"}})
		}
		return v
	}
	return a
}

// ---- mappings with free keys ---------------------------------------------------

func dependsOnAttr() *Attr {
	elem := structAttr("depends_on.*", 0.5,
		enum("condition", "service_started", "service_healthy", "service_completed_successfully"),
		boolean("restart"),
		boolean("required"),
	)
	elem.NoTag = true
	elem.Field("condition").Required = true
	a := &Attr{Name: "depends_on", Kind: KMapOf, Class: "map-recursive", Elem: elem}
	isDefault := func(el *Val) bool {
		if len(el.Keys) != 2 {
			return false
		}
		c, r := el.Sub["condition"], el.Sub["required"]
		return c != nil && r != nil && c.Tag == "" && r.Tag == "" && c.Spells[0] == "service_started" && r.Spells[0] == true
	}
	a.ListIf = isDefault
	a.Gen = func(g *G) *Val {
		if g.SvcIdx == 0 {
			return nil
		}
		v := &Val{A: a}
		for _, s := range g.subset(g.Services[:g.SvcIdx], 2) {
			var el *Val
			if g.chance(0.4) {
				el = &Val{A: elem}
				el.Set("condition", rep(elem.Field("condition"), "service_started"))
				el.Set("required", rep(elem.Field("required"), true))
			} else {
				el = elem.Gen(g)
				if el.Sub["condition"] == nil {
					el.Set("condition", elem.Field("condition").Gen(g))
				}
			}
			v.Set(s, el)
		}
		return v
	}
	// decoys of the default element's fields should also hit the default values often
	return a
}

func serviceNetworksAttr() *Attr {
	elem := structAttr("networks.*", 0.3,
		uniqueList("aliases", "Aliases", func(g *G) string { return fmt.Sprintf("alias%d", g.U()) }, 3),
		scalarAttr("ipv4_address", func(g *G) any { return fmt.Sprintf("172.16.%d.%d", g.R.Intn(250), 2+g.R.Intn(250)) }),
		scalarAttr("ipv6_address", func(g *G) any { return fmt.Sprintf("2001:db8::%d", 1+g.R.Intn(999)) }),
		list("link_local_ips", func(g *G) string { return fmt.Sprintf("169.254.%d.%d", g.R.Intn(250), 1+g.R.Intn(250)) }, 2),
		scalarAttr("mac_address", func(g *G) any { return fmt.Sprintf("02:42:ac:11:%02x:%02x", g.R.Intn(256), g.R.Intn(256)) }),
		free("driver_opts", "nopt"),
		integer("priority", 0, 1000),
	)
	elem.NoTag = true
	a := &Attr{Name: "networks", Kind: KMapOf, Class: "map-recursive", Elem: elem}
	a.ListIf = func(el *Val) bool { return el.Empty() }
	a.Gen = func(g *G) *Val {
		if len(g.Networks) == 0 {
			return nil
		}
		v := &Val{A: a}
		for _, n := range g.subset(g.Networks, 3) {
			if g.chance(0.5) {
				v.Set(n, &Val{A: elem})
			} else {
				v.Set(n, elem.Gen(g))
			}
		}
		return v
	}
	return a
}

// ulimitsAttr: every limit is an atomic value (single number | soft+hard pair).
// sameShape keeps decoys in the target's shape: the statement does not say what
// a number overriding a mapping (or the reverse) means, and only
// services.*.ulimits has that combination pinned by the existing suite.
func ulimitsAttr(name string, sameShape bool) *Attr {
	elem := &Attr{Name: name + ".*", Kind: KReplace, Class: "atomic", NoTag: true}
	single := func(g *G) *Val { return rep(elem, 1024*(1+g.R.Intn(64))) }
	pair := func(g *G) *Val {
		soft := 1024 * (1 + g.R.Intn(32))
		return rep(elem, OM{{"soft", soft}, {"hard", soft * (1 + g.R.Intn(3))}})
	}
	elem.Gen = func(g *G) *Val {
		if g.chance(0.5) {
			return single(g)
		}
		return pair(g)
	}
	if sameShape {
		elem.Decoy = func(g *G, t *Val) *Val {
			if _, ok := t.Spells[0].(int); ok {
				return single(g)
			}
			return pair(g)
		}
	}
	a := &Attr{Name: name, Kind: KMapOf, Class: "map-recursive", Elem: elem}
	a.Gen = func(g *G) *Val {
		v := &Val{A: a}
		for _, n := range g.subset([]string{"nofile", "nproc", "core", "memlock", "stack"}, 3) {
			v.Set(n, elem.Gen(g))
		}
		return v
	}
	return a
}

// ---- structs -----------------------------------------------------------------

func healthcheckAttr() *Attr {
	test := &Attr{Name: "test", Kind: KReplace, Class: "wholesale"}
	test.Gen = func(g *G) *Val {
		switch g.R.Intn(5) {
		case 0:
			return rep(test, []any{"NONE"})
		case 1, 2:
			s := fmt.Sprintf("curl -f http://localhost:%d/health || exit 1", 8000+g.U())
			return rep(test, []any{"CMD-SHELL", s}, s)
		}
		return rep(test, []any{"CMD", "check", fmt.Sprintf("--n=%d", g.U())})
	}
	return structAttr("healthcheck", 0.45,
		test, duration("interval"), duration("timeout"), integer("retries", 1, 9),
		duration("start_period"), duration("start_interval"), boolean("disable"))
}

func loggingAttr() *Attr {
	driver := enum("driver", "json-file", "syslog", "journald", "local")
	driver.Fixed = true
	a := structAttr("logging", 0.7, driver, free("options", "lopt"))
	return a
}

func deviceRequests(name string) *Attr {
	return rawList(name, func(g *G) Item {
		m := OM{{"capabilities", []any{g.pick("gpu", "tpu", "compute")}}, {"driver", fmt.Sprintf("drv%d", g.U())}}
		if g.chance(0.5) {
			m = append(m, KVp{"count", 1 + g.R.Intn(4)})
		} else {
			m = append(m, KVp{"device_ids", []any{fmt.Sprintf("dev%d", g.U())}})
		}
		if g.chance(0.3) {
			m = append(m, KVp{"options", OM{{fmt.Sprintf("o%d", g.U()), "x"}}})
		}
		return Item{ID: fmt.Sprint(g.U()), Spells: []any{m}}
	}, 2)
}

func updateConfig(name string) *Attr {
	return structAttr(name, 0.4,
		integer("parallelism", 0, 5), duration("delay"), enum("failure_action", "continue", "rollback", "pause"),
		duration("monitor"), scalarAttr("max_failure_ratio", func(g *G) any { return g.pick("0.1", "0.25", "0.5") }),
		enum("order", "start-first", "stop-first"))
}

func deployAttr() *Attr {
	limits := structAttr("limits", 0.6,
		scalarAttr("cpus", func(g *G) any { return g.pick("0.25", "0.5", "1.5", "2") }),
		bytesize("memory"), integer("pids", 10, 500))
	reservations := structAttr("reservations", 0.5,
		scalarAttr("cpus", func(g *G) any { return g.pick("0.1", "0.2", "0.75") }),
		bytesize("memory"),
		rawList("generic_resources", func(g *G) Item {
			return Item{ID: fmt.Sprint(g.U()), Spells: []any{OM{{"discrete_resource_spec", OM{{"kind", fmt.Sprintf("res%d", g.U())}, {"value", 1 + g.R.Intn(8)}}}}}}
		}, 2),
		deviceRequests("devices"))
	return structAttr("deploy", 0.3,
		enum("mode", "replicated", "global"),
		enum("endpoint_mode", "vip", "dnsrr"),
		integer("replicas", 0, 4),
		kv("labels", "deploy.label", false),
		updateConfig("rollback_config"),
		updateConfig("update_config"),
		structAttr("resources", 0.6, limits, reservations),
		structAttr("restart_policy", 0.5, enum("condition", "none", "on-failure", "any"), duration("delay"), integer("max_attempts", 1, 9), duration("window")),
		structAttr("placement", 0.5,
			list("constraints", func(g *G) string { return fmt.Sprintf("node.labels.c%d==x", g.U()) }, 3),
			rawList("preferences", func(g *G) Item {
				return Item{ID: fmt.Sprint(g.U()), Spells: []any{OM{{"spread", fmt.Sprintf("node.labels.z%d", g.U())}}}}
			}, 2),
			integer("max_replicas_per_node", 1, 5)),
	)
}

func buildAttr() *Attr {
	context := scalarAttr("context", func(g *G) any { return g.Path() })
	a := structAttr("build", 0.25,
		context,
		uniq("dockerfile", "Dockerfile.v"),
		kv("args", "ARG", true),
		sshAttr(),
		kv("labels", "build.label", false),
		list("cache_from", func(g *G) string { return fmt.Sprintf("type=registry,ref=cache%d", g.U()) }, 3),
		list("cache_to", func(g *G) string { return fmt.Sprintf("type=local,dest=/cache%d", g.U()) }, 2),
		boolean("no_cache"),
		kvPaths("additional_contexts"),
		enum("network", "host", "none", "default"),
		boolean("pull"),
		uniq("target", "stage"),
		bytesize("shm_size"),
		extraHosts("extra_hosts"),
		enum("isolation", "default", "process", "hyperv"),
		boolean("privileged"),
		mountsAttr("secrets", func(g *G) []string { return g.Secrets }, true),
		list("tags", func(g *G) string { return fmt.Sprintf("registry.example/img:t%d", g.U()) }, 3),
		ulimitsAttr("ulimits", true),
		list("platforms", func(g *G) string { return fmt.Sprintf("linux/arch%d", g.U()) }, 3),
		list("entitlements", func(g *G) string { return fmt.Sprintf("ent%d", g.U()) }, 2),
	)
	a.Short = func(v *Val) (any, bool) {
		if len(v.Keys) == 1 && v.Keys[0] == "context" && v.Sub["context"].Tag == "" {
			return v.Sub["context"].Spells[0], true
		}
		return nil, false
	}
	return a
}

// kvPaths: KEY=VALUE set whose values are relative paths (build.additional_contexts).
func kvPaths(name string) *Attr {
	a := &Attr{Name: name, Kind: KKV, Class: "kv-by-key"}
	a.Value = func(g *G, _ string) any {
		if g.chance(0.3) {
			return fmt.Sprintf("docker-image://img%d", g.U())
		}
		return g.Path()
	}
	a.Gen = func(g *G) *Val {
		v := &Val{A: a}
		n := 1 + g.R.Intn(3)
		for i := 0; i < n; i++ {
			k := fmt.Sprintf("ctx%d", g.U())
			v.KVs = append(v.KVs, KV{K: k, V: a.Value(g, k)})
		}
		return v
	}
	return a
}

func blkioAttr() *Attr {
	rate := func(name string) *Attr {
		return rawList(name, func(g *G) Item {
			return Item{ID: fmt.Sprint(g.U()), Spells: []any{OM{{"path", fmt.Sprintf("/dev/blk%d", g.U())}, {"rate", g.pick("1mb", "512k", "2048")}}}}
		}, 2)
	}
	return structAttr("blkio_config", 0.4,
		integer("weight", 10, 1000),
		rawList("weight_device", func(g *G) Item {
			return Item{ID: fmt.Sprint(g.U()), Spells: []any{OM{{"path", fmt.Sprintf("/dev/blk%d", g.U())}, {"weight", 10 + g.R.Intn(900)}}}}
		}, 2),
		rate("device_read_bps"), rate("device_read_iops"), rate("device_write_bps"), rate("device_write_iops"))
}

func hookList(name string) *Attr {
	return rawList(name, func(g *G) Item {
		m := OM{{"command", []any{"hook", fmt.Sprintf("h%d", g.U())}}}
		if g.chance(0.4) {
			m = append(m, KVp{"user", fmt.Sprintf("u%d", g.U())})
		}
		if g.chance(0.3) {
			m = append(m, KVp{"environment", OM{{fmt.Sprintf("HK%d", g.U()), "1"}}})
		}
		return Item{ID: fmt.Sprint(g.U()), Spells: []any{m}}
	}, 2)
}

func developAttr() *Attr {
	return structAttr("develop", 1,
		rawList("watch", func(g *G) Item {
			m := OM{{"path", g.Path()}, {"action", g.pick("sync", "rebuild", "sync+restart")}, {"target", fmt.Sprintf("/app/w%d", g.U())}}
			if g.chance(0.4) {
				m = append(m, KVp{"ignore", []any{fmt.Sprintf("ign%d/", g.U())}})
			}
			return Item{ID: fmt.Sprint(g.U()), Spells: []any{m}}
		}, 3))
}

// ---- the service row ---------------------------------------------------------

// ServiceAttr is the catalogue of service attributes.
var ServiceAttr *Attr

// RootAttr is the whole model: services, networks, volumes, secrets, configs.
var RootAttr *Attr

// NetworkAttr, VolumeAttr, SecretAttr, ConfigAttr are the top-level resource rows.
var NetworkAttr, VolumeAttr, SecretAttr, ConfigAttr *Attr

func init() {
	svcRef := func(g *G) string { return g.Services[g.R.Intn(g.SvcIdx)] }
	links := list("links", func(g *G) string {
		s := svcRef(g)
		if g.chance(0.4) {
			return s + ":" + fmt.Sprintf("lnk%d", g.U())
		}
		return s
	}, 2)
	linksGen := links.Gen
	links.Gen = func(g *G) *Val {
		if g.SvcIdx == 0 {
			return nil
		}
		v := linksGen(g)
		// one link per referenced service (the same service twice would be two spellings of one dependency)
		seen := map[string]bool{}
		var out []Item
		for _, it := range v.Items {
			name := it.ID
			for i := 0; i < len(name); i++ {
				if name[i] == ':' {
					name = name[:i]
					break
				}
			}
			if !seen[name] {
				seen[name] = true
				out = append(out, it)
			}
		}
		v.Items = out
		return v
	}
	expose := &Attr{Name: "expose", Kind: KList, Class: "append"}
	expose.Gen = func(g *G) *Val {
		v := &Val{A: expose}
		n := 1 + g.R.Intn(3)
		for i := 0; i < n; i++ {
			p := 3000 + g.U()
			v.Items = append(v.Items, Item{ID: strconv.Itoa(p), Spells: []any{Quoted(strconv.Itoa(p)), p}})
		}
		return v
	}
	groupAdd := &Attr{Name: "group_add", Kind: KList, Class: "append"}
	groupAdd.Gen = func(g *G) *Val {
		v := &Val{A: groupAdd}
		n := 1 + g.R.Intn(3)
		for i := 0; i < n; i++ {
			if g.chance(0.5) {
				v.Items = append(v.Items, Item{ID: fmt.Sprint(g.U()), Spells: []any{fmt.Sprintf("grp%d", g.U())}})
			} else {
				p := 5000 + g.U()
				v.Items = append(v.Items, Item{ID: strconv.Itoa(p), Spells: []any{Quoted(strconv.Itoa(p)), p}})
			}
		}
		return v
	}
	tmpfs := list("tmpfs", func(g *G) string { return fmt.Sprintf("/tmp/fs%d", g.U()) }, 3)
	tmpfs.StrOrList = true
	dns := uniqueList("dns", "DNS", func(g *G) string { return fmt.Sprintf("10.9.%d.%d", g.R.Intn(250), 1+g.R.Intn(250)) }, 3)
	dns.StrOrList = true
	dnsSearch := uniqueList("dns_search", "DNSSearch", func(g *G) string { return fmt.Sprintf("dom%d.example", g.U()) }, 3)
	dnsSearch.StrOrList = true
	caps := []string{"NET_ADMIN", "SYS_ADMIN", "SYS_PTRACE", "CHOWN", "KILL", "MKNOD", "NET_RAW", "SETUID", "SETGID", "ALL"}

	ServiceAttr = structAttr("services.*", 0.12,
		// scalars are replaced
		uniq("image", "registry.example/app:v"),
		uniq("container_name", "cname"),
		uniq("hostname", "host"),
		uniq("domainname", "domain"),
		uniq("user", "user"),
		uniq("working_dir", "/work/dir"),
		enum("restart", "no", "always", "on-failure", "unless-stopped", "on-failure:3"),
		enum("stop_signal", "SIGTERM", "SIGINT", "SIGQUIT", "SIGUSR1"),
		duration("stop_grace_period"),
		enum("platform", "linux/amd64", "linux/arm64", "linux/arm/v7"),
		uniq("runtime", "runc"),
		enum("pull_policy", "always", "never", "missing", "build", "if_not_present"),
		boolean("privileged"), boolean("read_only"), boolean("init"), boolean("tty"),
		boolean("stdin_open"), boolean("oom_kill_disable"), boolean("attach"),
		integer("oom_score_adj", -500, 500),
		integer("cpu_count", 1, 8), integer("cpu_percent", 1, 100), integer("cpu_shares", 2, 2048),
		integer("cpu_quota", 1000, 90000), integer("cpu_period", 1000, 90000),
		integer("cpu_rt_period", 1000, 90000), integer("cpu_rt_runtime", 1000, 90000),
		scalarAttr("cpus", func(g *G) any { return g.pick("0.25", "0.5", "1.5", "2") }),
		enum("cpuset", "0", "0-3", "0,2", "1-2"),
		bytesize("mem_limit"), bytesize("mem_reservation"), bytesize("memswap_limit"), bytesize("shm_size"),
		integer("mem_swappiness", 0, 100),
		integer("pids_limit", 10, 500),
		scalarAttr("mac_address", func(g *G) any { return fmt.Sprintf("02:42:ac:12:%02x:%02x", g.R.Intn(256), g.R.Intn(256)) }),
		enum("ipc", "host", "shareable", "private", "none"),
		enum("pid", "host"),
		enum("uts", "host"),
		enum("cgroup", "host", "private"),
		uniq("cgroup_parent", "cgparent"),
		enum("isolation", "default", "process", "hyperv"),
		enum("userns_mode", "host"),
		enum("network_mode", "host", "none", "bridge"),
		integer("scale", 0, 4),
		// replaced wholesale
		wholesale("command"),
		wholesale("entrypoint"),
		// sequences are appended
		list("security_opt", func(g *G) string { return fmt.Sprintf("label=opt%d", g.U()) }, 3),
		groupAdd,
		list("device_cgroup_rules", func(g *G) string { return fmt.Sprintf("c %d:%d rmw", g.U(), g.R.Intn(64)) }, 3),
		list("external_links", func(g *G) string { return fmt.Sprintf("ext%d:alias%d", g.U(), g.U()) }, 3),
		list("volumes_from", func(g *G) string { return fmt.Sprintf("container:ctr%d", g.U()) }, 2),
		list("profiles", func(g *G) string { return fmt.Sprintf("prof%d", g.U()) }, 2),
		links,
		expose,
		tmpfs,
		envFileAttr(),
		labelFileAttr(),
		hookList("post_start"),
		hookList("pre_stop"),
		deviceRequests("gpus"),
		// entries keyed by themselves (statement: cap / dns style entries)
		uniqueList("cap_add", "CapAdd", func(g *G) string { return g.pick(caps...) }, 4),
		uniqueList("cap_drop", "CapDrop", func(g *G) string { return g.pick(caps...) }, 4),
		dns,
		uniqueList("dns_opt", "DNSOpts", func(g *G) string { return fmt.Sprintf("opt%d:1", g.U()) }, 3),
		dnsSearch,
		// KEY=VALUE
		kv("environment", "ENV", true),
		kv("labels", "label.k", false),
		kv("annotations", "anno.k", false),
		kv("sysctls", "net.sys", false),
		extraHosts("extra_hosts"),
		// keyed lists
		portsAttr(),
		volumesAttr(),
		devicesAttr(),
		mountsAttr("secrets", func(g *G) []string { return g.Secrets }, false),
		mountsAttr("configs", func(g *G) []string { return g.Configs }, false),
		// mappings
		buildAttr(),
		healthcheckAttr(),
		loggingAttr(),
		deployAttr(),
		blkioAttr(),
		developAttr(),
		structAttr("credential_spec", 1, uniq("file", "cred"), uniq("registry", "HKLM")),
		free("storage_opt", "size"),
		dependsOnAttr(),
		serviceNetworksAttr(),
		ulimitsAttr("ulimits", false),
	)
	ServiceAttr.NoTag = true
	// image is mandatory for every generated service and never reset
	ServiceAttr.Field("image").NoTag = true

	ipamConfig := rawList("config", func(g *G) Item {
		n := g.U()
		m := OM{{"subnet", fmt.Sprintf("10.%d.%d.0/24", n/250%250, n%250)}}
		if g.chance(0.5) {
			m = append(m, KVp{"gateway", fmt.Sprintf("10.%d.%d.1", n/250%250, n%250)})
		}
		if g.chance(0.3) {
			m = append(m, KVp{"ip_range", fmt.Sprintf("10.%d.%d.128/25", n/250%250, n%250)})
		}
		if g.chance(0.2) {
			m = append(m, KVp{"aux_addresses", OM{{fmt.Sprintf("aux%d", g.U()), fmt.Sprintf("10.%d.%d.5", n/250%250, n%250)}}})
		}
		return Item{ID: fmt.Sprint(n), Spells: []any{m}}
	}, 3)
	external := func() *Attr {
		// `external: true` marks a resource the model only refers to; it is never decoyed or reset
		return &Attr{Name: "external", Kind: KReplace, Class: "replace", Fixed: true, NoTag: true}
	}
	NetworkAttr = structAttr("networks.*", 0.3,
		enum("driver", "bridge", "overlay", "macvlan"),
		free("driver_opts", "com.net.opt"),
		structAttr("ipam", 0.6, enum("driver", "default", "custom"), ipamConfig, free("options", "ipamopt")),
		boolean("internal"), boolean("attachable"), boolean("enable_ipv6"),
		kv("labels", "net.label", false),
		uniq("name", "netname"),
		external(),
	)
	NetworkAttr.NoTag = true
	VolumeAttr = structAttr("volumes.*", 0.35,
		enum("driver", "local", "nfs", "custom"),
		free("driver_opts", "vol.opt"),
		kv("labels", "vol.label", false),
		uniq("name", "volname"),
		external(),
	)
	VolumeAttr.NoTag = true
	SecretAttr = structAttr("secrets.*", 0.35,
		scalarAttr("file", func(g *G) any { return g.Path() }),
		uniq("environment", "SECRET_ENV_"),
		kv("labels", "sec.label", false),
		uniq("name", "secname"),
		external(),
	)
	SecretAttr.NoTag = true
	ConfigAttr = structAttr("configs.*", 0.35,
		scalarAttr("file", func(g *G) any { return g.Path() }),
		uniq("environment", "CONFIG_ENV_"),
		uniq("content", "inline content "),
		kv("labels", "cfg.label", false),
		uniq("name", "cfgname"),
		external(),
	)
	ConfigAttr.NoTag = true

	mapOf := func(name string, elem *Attr) *Attr {
		return &Attr{Name: name, Kind: KMapOf, Class: "map-recursive", Elem: elem, NoTag: true}
	}
	RootAttr = &Attr{Name: "", Kind: KStruct, Class: "map-recursive", NoTag: true, Fields: []*Attr{
		mapOf("services", ServiceAttr),
		mapOf("networks", NetworkAttr),
		mapOf("volumes", VolumeAttr),
		mapOf("secrets", SecretAttr),
		mapOf("configs", ConfigAttr),
	}}
}
