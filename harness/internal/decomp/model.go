package decomp

import (
	"fmt"
	"sort"
	"strings"
)

// ModelOpts steers the target model generator.
type ModelOpts struct {
	Services int     // number of services (default 1..3)
	Density  float64 // probability of each top-level service attribute (default 0.12)
	// Force lists dotted attribute paths (relative to a service, e.g.
	// "deploy.resources.limits") that the last service must carry.
	Force []string
	// ForceResource lists "networks.ipam.config"-style paths (first segment = resource kind).
	ForceResource []string
	// Resources: minimum number of declared resources of each kind.
	MinResources int
	// NoExternal suppresses external resources.
	NoExternal bool
}

// Model draws a consistent target model.
func (g *G) Model(o ModelOpts) *Val {
	root := &Val{A: RootAttr}
	ns := o.Services
	if ns == 0 {
		ns = 1 + g.R.Intn(3)
	}
	g.Services = nil
	// service names are user-chosen keys: a third of the models use legal names containing dots
	style := g.R.Intn(3)
	for i := 0; i < ns; i++ {
		switch {
		case style == 0 && i%2 == 0:
			g.Services = append(g.Services, fmt.Sprintf("svc.%c", 'a'+i))
		case style == 0:
			g.Services = append(g.Services, fmt.Sprintf("eu.west.svc-%c", 'a'+i))
		default:
			g.Services = append(g.Services, fmt.Sprintf("svc-%c", 'a'+i))
		}
	}
	count := func(max int) int {
		n := g.R.Intn(max + 1)
		if n < o.MinResources {
			n = o.MinResources
		}
		return n
	}
	names := func(prefix string, n int) []string {
		var out []string
		for i := 1; i <= n; i++ {
			out = append(out, fmt.Sprintf("%s%d", prefix, i))
		}
		return out
	}
	g.Networks = names("net", count(3))
	g.Volumes = names("vol", count(2))
	g.Secrets = names("sec", count(2))
	g.Configs = names("cfg", count(2))

	forceRes := map[string][]string{}
	for _, f := range o.ForceResource {
		kind, rest, _ := strings.Cut(f, ".")
		forceRes[kind] = append(forceRes[kind], rest)
	}
	resource := func(kind string, elem *Attr, names []string, mk func() *Val) {
		if len(names) == 0 {
			return
		}
		m := &Val{A: RootAttr.Field(kind)}
		for i, n := range names {
			var v *Val
			if !o.NoExternal && g.chance(0.15) && !(i == 0 && len(forceRes[kind]) > 0) {
				v = &Val{A: elem}
				v.Set("external", rep(elem.Field("external"), true))
				if g.chance(0.5) {
					v.Set("name", elem.Field("name").Gen(g))
				}
			} else {
				v = mk()
			}
			if i == 0 {
				for _, p := range forceRes[kind] {
					if p == "file" || p == "environment" || p == "content" {
						// the sources of a secret / config are mutually exclusive
						v.Del("file")
						v.Del("environment")
						v.Del("content")
					}
					forcePath(g, v, elem, strings.Split(p, "."))
				}
			}
			m.Set(n, v)
		}
		root.Set(kind, m)
	}
	resource("networks", NetworkAttr, g.Networks, func() *Val {
		if g.chance(0.4) {
			return &Val{A: NetworkAttr}
		}
		return NetworkAttr.Gen(g)
	})
	resource("volumes", VolumeAttr, g.Volumes, func() *Val {
		if g.chance(0.4) {
			return &Val{A: VolumeAttr}
		}
		return VolumeAttr.Gen(g)
	})
	fileObject := func(elem *Attr, sources ...string) func() *Val {
		return func() *Val {
			skip := map[string]bool{}
			for _, s := range sources {
				skip[s] = true
			}
			v := genStruct(g, elem, 0.3, skip)
			if v == nil {
				v = &Val{A: elem}
			}
			src := g.pick(sources...)
			v.Set(src, elem.Field(src).Gen(g))
			g.R.Shuffle(len(v.Keys), func(i, j int) { v.Keys[i], v.Keys[j] = v.Keys[j], v.Keys[i] })
			return v
		}
	}
	resource("secrets", SecretAttr, g.Secrets, fileObject(SecretAttr, "file", "environment"))
	resource("configs", ConfigAttr, g.Configs, fileObject(ConfigAttr, "file", "environment", "content"))

	density := o.Density
	if density == 0 {
		density = 0.12
	}
	svcs := &Val{A: RootAttr.Field("services")}
	for i, name := range g.Services {
		g.SvcIdx = i
		s := genStruct(g, ServiceAttr, density, map[string]bool{"image": true})
		if s == nil {
			s = &Val{A: ServiceAttr}
		}
		if i == len(g.Services)-1 {
			for _, p := range o.Force {
				forcePath(g, s, ServiceAttr, strings.Split(p, "."))
			}
		}
		s.Set("image", ServiceAttr.Field("image").Gen(g))
		FixService(s)
		g.R.Shuffle(len(s.Keys), func(a, b int) { s.Keys[a], s.Keys[b] = s.Keys[b], s.Keys[a] })
		svcs.Set(name, s)
	}
	root.Set("services", svcs)
	return root
}

// forcePath makes sure the struct value v (of row a) carries the attribute at path.
func forcePath(g *G, v *Val, a *Attr, path []string) {
	f := a.Field(path[0])
	if f == nil {
		return
	}
	c := v.Sub[path[0]]
	if len(path) == 1 {
		if c == nil && f.Gen != nil {
			if nv := f.Gen(g); nv != nil {
				v.Set(path[0], nv)
			}
		}
		return
	}
	if f.Kind != KStruct {
		return
	}
	if c == nil {
		c = &Val{A: f}
		v.Set(path[0], c)
	}
	forcePath(g, c, f, path[1:])
}

func intOf(v *Val) (int, bool) {
	if v == nil || len(v.Spells) == 0 {
		return 0, false
	}
	n, ok := v.Spells[0].(int)
	return n, ok
}

// FixService removes attribute combinations the model rules out (C10's
// rules), so that the target is a consistent model by construction.
func FixService(s *Val) {
	if s.Sub["networks"] != nil {
		s.Del("network_mode")
	}
	if s.Get("deploy", "replicas") != nil {
		s.Del("scale")
	}
	if n, ok := intOf(s.Get("deploy", "replicas")); ok && n > 1 {
		s.Del("container_name")
	}
	if n, ok := intOf(s.Sub["scale"]); ok && n > 1 {
		s.Del("container_name")
	}
	if s.Get("deploy", "resources", "limits") != nil {
		s.Del("cpus")
		s.Del("mem_limit")
		s.Del("pids_limit")
	}
	if s.Get("deploy", "resources", "reservations") != nil {
		s.Del("mem_reservation")
	}
	if s.Get("build", "platforms") != nil {
		s.Del("platform")
	}
}

// Doc renders a (part of a) model as one YAML document.
func Doc(root *Val) string {
	return Marshal(root.Render())
}

// AttrPaths lists the dotted paths of all rows below a (struct children are
// descended; KMapOf elements are written "*").
func AttrPaths(a *Attr) []string {
	var out []string
	var walk func(a *Attr, prefix string)
	walk = func(a *Attr, prefix string) {
		for _, f := range a.Fields {
			p := f.Name
			if prefix != "" {
				p = prefix + "." + f.Name
			}
			out = append(out, p)
			if f.Kind == KStruct {
				walk(f, p)
			}
		}
	}
	walk(a, "")
	sort.Strings(out)
	return out
}

// Lookup finds the row at a dotted path below a.
func Lookup(a *Attr, path string) *Attr {
	for _, seg := range strings.Split(path, ".") {
		a = a.Field(seg)
		if a == nil {
			return nil
		}
	}
	return a
}
