// Package decomp is the decomposition engine of DESIGN.md section 3.3, shared
// by C04 (parts -> files / `---` documents), C05 (parts -> extends chain) and
// C06 (resources -> main + included files).
//
// A seeded generator draws a *target model* as a tree of catalogue values; the
// engine splits every attribute's final value into 1..n parts whose in-order
// application by the merge rules *as worded in the C04 statement* gives the
// target back. The target is the oracle: there is no reference merge
// implementation, so the oracle cannot share a bug with the code's merge.
//
// The attribute catalogue (catalogue.go) is transcribed from the Compose
// specification's merge rules as the C04 statement words them, not from
// compose-go's mergeSpecials / unique tables.
package decomp

import (
	"bytes"
	"fmt"
	"regexp"
	"strconv"

	"gopkg.in/yaml.v3"
)

// Raw trees are what gets rendered to YAML: string, int, float64, bool, nil,
// []any, OM (ordered mapping) and Tagged (a node carrying !reset / !override).

// KVp is one entry of an ordered mapping.
type KVp struct {
	K string
	V any
}

// OM is an ordered mapping.
type OM []KVp

// Get returns the value stored under k.
func (m OM) Get(k string) (any, bool) {
	for _, e := range m {
		if e.K == k {
			return e.V, true
		}
	}
	return nil, false
}

// Tagged wraps a raw value with a YAML tag (`!reset`, `!override`).
type Tagged struct {
	Tag string
	V   any
}

// Quoted is a string that must be rendered double-quoted (port specs etc.).
type Quoted string

// ToNode converts a raw tree to a yaml.Node.
func ToNode(v any) *yaml.Node {
	switch x := v.(type) {
	case nil:
		return &yaml.Node{Kind: yaml.ScalarNode, Tag: "!!null", Value: "null"}
	case string:
		return &yaml.Node{Kind: yaml.ScalarNode, Tag: "!!str", Value: x}
	case Quoted:
		return &yaml.Node{Kind: yaml.ScalarNode, Tag: "!!str", Value: string(x), Style: yaml.DoubleQuotedStyle}
	case int:
		return &yaml.Node{Kind: yaml.ScalarNode, Tag: "!!int", Value: strconv.Itoa(x)}
	case int64:
		return &yaml.Node{Kind: yaml.ScalarNode, Tag: "!!int", Value: strconv.FormatInt(x, 10)}
	case float64:
		return &yaml.Node{Kind: yaml.ScalarNode, Tag: "!!float", Value: strconv.FormatFloat(x, 'f', -1, 64)}
	case bool:
		return &yaml.Node{Kind: yaml.ScalarNode, Tag: "!!bool", Value: strconv.FormatBool(x)}
	case []any:
		n := &yaml.Node{Kind: yaml.SequenceNode, Tag: "!!seq"}
		for _, e := range x {
			n.Content = append(n.Content, ToNode(e))
		}
		return n
	case []string:
		n := &yaml.Node{Kind: yaml.SequenceNode, Tag: "!!seq"}
		for _, e := range x {
			n.Content = append(n.Content, ToNode(e))
		}
		return n
	case OM:
		n := &yaml.Node{Kind: yaml.MappingNode, Tag: "!!map"}
		for _, e := range x {
			n.Content = append(n.Content, &yaml.Node{Kind: yaml.ScalarNode, Tag: "!!str", Value: e.K}, ToNode(e.V))
		}
		return n
	case Tagged:
		n := ToNode(x.V)
		n.Tag = x.Tag
		if n.Kind == yaml.ScalarNode && x.V == nil {
			n.Value = "null"
		}
		return n
	}
	panic(fmt.Sprintf("decomp.ToNode: unsupported raw value %T", v))
}

// Marshal renders a raw tree as YAML text.
func Marshal(v any) string {
	var buf bytes.Buffer
	enc := yaml.NewEncoder(&buf)
	enc.SetIndent(2)
	if err := enc.Encode(ToNode(v)); err != nil {
		panic(err)
	}
	enc.Close()
	return buf.String()
}

// MapStrings returns a copy of the raw tree with f applied to every string
// value (mapping keys are left alone).
func MapStrings(v any, f func(string) string) any {
	switch x := v.(type) {
	case string:
		return f(x)
	case Quoted:
		return Quoted(f(string(x)))
	case []any:
		out := make([]any, len(x))
		for i, e := range x {
			out[i] = MapStrings(e, f)
		}
		return out
	case []string:
		out := make([]any, len(x))
		for i, e := range x {
			out[i] = f(e)
		}
		return out
	case OM:
		out := make(OM, len(x))
		for i, e := range x {
			out[i] = KVp{e.K, MapStrings(e.V, f)}
		}
		return out
	case Tagged:
		return Tagged{x.Tag, MapStrings(x.V, f)}
	}
	return v
}

// PathToken matches the unique relative-path tokens the generator hands out
// (`./pth<N>`); checks that distribute parts over directories rewrite them.
var PathToken = regexp.MustCompile(`\./pth[0-9]+`)

// Tokens lists the path tokens occurring in the strings of a raw tree.
func Tokens(v any) []string {
	var out []string
	MapStrings(v, func(s string) string {
		out = append(out, PathToken.FindAllString(s, -1)...)
		return s
	})
	return out
}
