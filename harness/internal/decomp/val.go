package decomp

import (
	"fmt"
	"math/rand"
	"sort"
	"strconv"
)

// Kind is the structural kind of a catalogue value.
type Kind int

const (
	// KReplace: a value that is only ever replaced as a whole (scalars,
	// command/entrypoint/healthcheck.test, ulimits.<name>). Spells lists
	// equivalent raw spellings.
	KReplace Kind = iota
	// KList: a sequence (stated rule: appended). Unique marks the lists whose
	// entries the statement keys by themselves (cap/dns style).
	KList
	// KKV: KEY=VALUE set, list or mapping spelling, merged by key.
	KKV
	// KKeyed: list keyed by target (ports, volumes, devices, secrets, configs).
	KKeyed
	// KStruct: mapping with a fixed set of sub-attributes, merged recursively.
	KStruct
	// KFree: mapping with free keys and scalar values (driver_opts, options).
	KFree
	// KMapOf: mapping with free keys whose values are catalogue values
	// (services, depends_on, service networks, ulimits, top-level resources).
	KMapOf
)

// Attr is one row of the attribute catalogue.
type Attr struct {
	Name  string
	Kind  Kind
	Class string // merge class as the statement words it (coverage key)

	Fields []*Attr // KStruct: sub-attributes
	Elem   *Attr   // KMapOf: element attribute

	// Gen draws a fresh value (targets, decoys and garbage all come from it).
	Gen func(g *G) *Val
	// Stale draws an entry with the same key and a different payload (KKeyed).
	Stale func(g *G, e Entry) Entry
	// Value draws a fresh value for a key (KKV, KFree: stale payloads).
	Value func(g *G, key string) any

	// Decoy draws a stale value given the target (default: Gen).
	Decoy func(g *G, t *Val) *Val
	// StaleKV draws a stale entry for a key of a KKV set (default: Value); ok=false: none.
	StaleKV func(g *G, kv KV) (KV, bool)

	Required  bool   // sub-attribute the schema requires whenever the enclosing mapping is present
	Unique    bool   // KList: duplicates collapse (statement: cap/dns/... entries by key)
	StrOrList bool   // KList: a one-element part may be spelled as a plain string
	Valueless bool   // KKV: keys without value are admitted
	NoCollide bool   // KKV/KKeyed/KFree: parts never repeat a key (intersection discipline)
	Fixed     bool   // KReplace: never decoyed, only repeated (logging.driver)
	NoTag     bool   // never carries !reset / !override
	Sep       string // KKV list-spelling separator (default "=")
	GoField   string // Go field name, for order-insensitive comparison after de-duplication
	// Short gives an alternative non-mapping spelling of a struct (build: DIR).
	Short func(v *Val) (any, bool)
	// ListIf reports whether element el of a KMapOf may be spelled as a bare list entry.
	ListIf func(el *Val) bool
}

// Path-ish identification of an attribute for coverage tables.
func (a *Attr) String() string { return a.Name }

// Item is one element of a KList.
type Item struct {
	ID     string
	Spells []any
}

// KV is one entry of a KKV (V == nil: valueless key) or KFree (V scalar) set.
type KV struct {
	K string
	V any // string | int | nil
}

// Entry is one element of a KKeyed list.
type Entry struct {
	Key    string
	Spells []any
	Meta   any // generator's own record of the entry's identity
}

// Val is a catalogue value: a target, a part of a target, a decoy or garbage.
type Val struct {
	A      *Attr
	Spells []any           // KReplace
	Items  []Item          // KList
	KVs    []KV            // KKV, KFree
	Ents   []Entry         // KKeyed
	Sub    map[string]*Val // KStruct, KMapOf
	Keys   []string        // order of Sub
	Tag    string          // "", "!reset", "!override"
	Sp     uint32          // spelling seed
}

// Clone deep-copies the value structure (raw spell trees are shared: immutable).
func (v *Val) Clone() *Val {
	if v == nil {
		return nil
	}
	c := *v
	c.Spells = append([]any(nil), v.Spells...)
	c.Items = append([]Item(nil), v.Items...)
	c.KVs = append([]KV(nil), v.KVs...)
	c.Ents = append([]Entry(nil), v.Ents...)
	c.Keys = append([]string(nil), v.Keys...)
	if v.Sub != nil {
		c.Sub = make(map[string]*Val, len(v.Sub))
		for k, s := range v.Sub {
			c.Sub[k] = s.Clone()
		}
	}
	return &c
}

// Set stores a child of a struct / map value.
func (v *Val) Set(k string, c *Val) {
	if v.Sub == nil {
		v.Sub = map[string]*Val{}
	}
	if _, ok := v.Sub[k]; !ok {
		v.Keys = append(v.Keys, k)
	}
	v.Sub[k] = c
}

// Del removes a child.
func (v *Val) Del(k string) {
	if _, ok := v.Sub[k]; !ok {
		return
	}
	delete(v.Sub, k)
	for i, x := range v.Keys {
		if x == k {
			v.Keys = append(v.Keys[:i:i], v.Keys[i+1:]...)
			break
		}
	}
}

// Get walks a path of child keys.
func (v *Val) Get(path ...string) *Val {
	for _, k := range path {
		if v == nil || v.Sub == nil {
			return nil
		}
		v = v.Sub[k]
	}
	return v
}

// Empty reports whether the value carries no content (a null map element).
func (v *Val) Empty() bool {
	return len(v.Spells) == 0 && len(v.Items) == 0 && len(v.KVs) == 0 && len(v.Ents) == 0 && len(v.Keys) == 0
}

func mix(a uint32, i int) uint32 {
	x := a ^ (uint32(i)+1)*0x9E3779B1
	x ^= x >> 15
	x *= 0x85EBCA6B
	x ^= x >> 13
	return x
}

func pickSpell(sp []any, seed uint32) any {
	return sp[int(seed%uint32(len(sp)))]
}

// Reseed gives the value tree fresh spelling seeds.
func (v *Val) Reseed(r *rand.Rand) {
	if v == nil {
		return
	}
	v.Sp = r.Uint32()
	for _, c := range v.Sub {
		c.Reseed(r)
	}
}

// Canonical forces the first spelling everywhere (Sp = 0 choices).
func (v *Val) Canonical() {
	if v == nil {
		return
	}
	v.Sp = 0
	for _, c := range v.Sub {
		c.Canonical()
	}
}

func kvValueString(x any) string {
	switch t := x.(type) {
	case string:
		return t
	case int:
		return strconv.Itoa(t)
	}
	return fmt.Sprint(x)
}

// Render turns a value into the raw tree of one of its spellings.
func (v *Val) Render() any {
	a := v.A
	if v.Tag == "!reset" {
		if v.Sp&4 == 0 || v.Empty() {
			return Tagged{"!reset", nil}
		}
		c := *v
		c.Tag = ""
		return Tagged{"!reset", c.Render()}
	}
	var raw any
	switch a.Kind {
	case KReplace:
		raw = pickSpell(v.Spells, v.Sp)
	case KList:
		if a.StrOrList && len(v.Items) == 1 && v.Sp&1 == 1 {
			if s, ok := v.Items[0].Spells[0].(string); ok {
				raw = s
				break
			}
		}
		l := make([]any, 0, len(v.Items))
		for i, it := range v.Items {
			l = append(l, pickSpell(it.Spells, mix(v.Sp, i)))
		}
		raw = l
	case KKV:
		sep := a.Sep
		if sep == "" {
			sep = "="
		}
		if v.Sp&1 == 1 {
			l := make([]any, 0, len(v.KVs))
			for _, kv := range v.KVs {
				if kv.V == nil {
					l = append(l, kv.K)
				} else {
					l = append(l, kv.K+sep+kvValueString(kv.V))
				}
			}
			raw = l
		} else {
			m := make(OM, 0, len(v.KVs))
			for i, kv := range v.KVs {
				val := kv.V
				// a numeric-looking string may also be written as a YAML number in the mapping spelling
				if s, ok := val.(string); ok && mix(v.Sp, i)&1 == 1 {
					if n, err := strconv.Atoi(s); err == nil && strconv.Itoa(n) == s {
						val = n
					}
				}
				m = append(m, KVp{kv.K, val})
			}
			raw = m
		}
	case KFree:
		m := make(OM, 0, len(v.KVs))
		for _, kv := range v.KVs {
			m = append(m, KVp{kv.K, kv.V})
		}
		raw = m
	case KKeyed:
		l := make([]any, 0, len(v.Ents))
		for i, e := range v.Ents {
			l = append(l, pickSpell(e.Spells, mix(v.Sp, i)))
		}
		raw = l
	case KStruct:
		if a.Short != nil && v.Sp&1 == 1 && v.Tag == "" {
			if s, ok := a.Short(v); ok {
				raw = s
				break
			}
		}
		if len(v.Keys) == 0 {
			raw = nil
			if v.Sp&2 == 2 {
				raw = OM{}
			}
			break
		}
		m := make(OM, 0, len(v.Keys))
		for _, k := range v.Keys {
			m = append(m, KVp{k, v.Sub[k].Render()})
		}
		raw = m
	case KMapOf:
		if a.ListIf != nil && v.Sp&1 == 1 && len(v.Keys) > 0 {
			ok := true
			for _, k := range v.Keys {
				if v.Sub[k].Tag != "" || !a.ListIf(v.Sub[k]) {
					ok = false
					break
				}
			}
			if ok {
				l := make([]any, 0, len(v.Keys))
				for _, k := range v.Keys {
					l = append(l, k)
				}
				raw = l
				break
			}
		}
		m := make(OM, 0, len(v.Keys))
		for _, k := range v.Keys {
			m = append(m, KVp{k, v.Sub[k].Render()})
		}
		raw = m
	}
	if v.Tag != "" {
		return Tagged{v.Tag, raw}
	}
	return raw
}

// SortedKeys returns the child keys in lexical order.
func (v *Val) SortedKeys() []string {
	k := append([]string(nil), v.Keys...)
	sort.Strings(k)
	return k
}

// Walk visits v and every descendant value with its path.
func (v *Val) Walk(path string, f func(path string, x *Val)) {
	if v == nil {
		return
	}
	f(path, v)
	for _, k := range v.Keys {
		p := k
		if v.A.Kind == KMapOf {
			p = "*"
		}
		if path != "" {
			p = path + "." + p
		}
		v.Sub[k].Walk(p, f)
	}
}

// RawLeaves calls f with every raw spelling tree stored in v (all spellings).
func (v *Val) RawLeaves(f func(raw any)) {
	v.Walk("", func(_ string, x *Val) {
		for _, s := range x.Spells {
			f(s)
		}
		for _, it := range x.Items {
			for _, s := range it.Spells {
				f(s)
			}
		}
		for _, e := range x.Ents {
			for _, s := range e.Spells {
				f(s)
			}
		}
		for _, kv := range x.KVs {
			f(kv.V)
		}
	})
}

// MapStrings rewrites every string of every spelling in the value tree (in place).
func (v *Val) MapStrings(f func(string) string) {
	v.Walk("", func(_ string, x *Val) {
		for i, s := range x.Spells {
			x.Spells[i] = MapStrings(s, f)
		}
		for i, it := range x.Items {
			ns := make([]any, len(it.Spells))
			for j, s := range it.Spells {
				ns[j] = MapStrings(s, f)
			}
			x.Items[i].Spells = ns
		}
		for i, e := range x.Ents {
			ns := make([]any, len(e.Spells))
			for j, s := range e.Spells {
				ns[j] = MapStrings(s, f)
			}
			x.Ents[i].Spells = ns
		}
		for i, kv := range x.KVs {
			x.KVs[i].V = MapStrings(kv.V, f)
		}
	})
}
