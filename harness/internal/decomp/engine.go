package decomp

import (
	"math/rand"
)

// Engine splits target values into parts. The inverse rules are the ones the
// C04 statement gives:
//
//	replace / wholesale   the last part that mentions the attribute carries the
//	                      target; earlier mentions are decoys
//	mapping               sub-attributes / keys are decomposed independently
//	sequence              consecutive chunks of the target; for lists the
//	                      statement keys by entry, a later chunk may repeat an
//	                      entry of an earlier one (exact duplicate)
//	KEY=VALUE, keyed list the last part that mentions a key carries the target
//	                      entry; earlier parts may carry the same key with a
//	                      stale payload or an exact duplicate; every part is
//	                      spelled independently
//	!reset                parts before it are garbage; the parts after it
//	                      decompose the target (possibly: attribute absent)
//	!override             parts before it are garbage; the tagged part and the
//	                      ones after it decompose the target
//	silence               a part that says nothing about an attribute
type Engine struct {
	G *G
	R *rand.Rand
	// Tags enables !reset / !override decompositions with this probability per eligible attribute.
	PTag float64
	// PResetAbsent: probability, per struct, of planting one attribute that
	// the target lacks (garbage followed by !reset).
	PResetAbsent float64
	// PStale: probability that an earlier part carries a stale entry for a key.
	PStale float64
	// PDup: probability of an exact duplicate of an entry in an earlier part.
	PDup float64

	// Single lists attributes that must be carried whole by a single part in
	// this case (used by checks to keep an attribute with a recorded finding
	// from masking the rest of a multi-attribute case).
	Single map[*Attr]bool

	// Observations about the decomposition just produced.
	Touched   int             // attributes mentioned by >= 2 parts
	Unordered map[string]bool // Go fields whose list got an exact duplicate (order after de-duplication unspecified)
	Shapes    map[string]int  // class/shape -> count (coverage)
}

// NewEngine returns an engine with the default mix.
func NewEngine(g *G) *Engine {
	return &Engine{G: g, R: g.R, PTag: 0.12, PResetAbsent: 0.15, PStale: 0.4, PDup: 0.25,
		Unordered: map[string]bool{}, Shapes: map[string]int{}}
}

func (e *Engine) shape(a *Attr, s string) { e.Shapes[a.Class+"/"+s]++ }

func mentions(parts []*Val) int {
	n := 0
	for _, p := range parts {
		if p != nil {
			n++
		}
	}
	return n
}

// Decompose returns n parts (nil = the part is silent about the attribute)
// whose in-order application by the stated rules yields t (nil = absent).
func (e *Engine) Decompose(t *Val, a *Attr, n int) []*Val {
	return e.dec(t, a, n, e.PTag > 0)
}

func (e *Engine) fresh(v *Val) *Val {
	c := v.Clone()
	c.Reseed(e.R)
	return c
}

func (e *Engine) dec(t *Val, a *Attr, n int, tags bool) []*Val {
	if n <= 0 {
		return nil
	}
	if tags && !a.NoTag && !a.Fixed && !a.Required && !e.Single[a] && n >= 2 && a.Gen != nil && e.R.Float64() < e.PTag {
		if p := e.decTagged(t, a, n); p != nil {
			return p
		}
	}
	parts := make([]*Val, n)
	if t == nil {
		return parts
	}
	if e.Single[a] {
		// quarantined attribute: carried whole by one part
		parts[e.R.Intn(n)] = e.fresh(t)
		e.shape(a, "single-mention")
		return parts
	}
	switch a.Kind {
	case KReplace:
		m := e.R.Intn(n)
		parts[m] = e.fresh(t)
		for i := 0; i < m; i++ {
			switch {
			case a.Fixed:
				if e.R.Intn(2) == 0 {
					parts[i] = e.fresh(t)
				}
			case e.R.Float64() < 0.6:
				var d *Val
				if a.Decoy != nil {
					d = a.Decoy(e.G, t)
				} else {
					d = a.Gen(e.G)
				}
				if d != nil {
					d.Reseed(e.R)
					parts[i] = d
				}
			}
		}
		if mentions(parts) >= 2 {
			e.Touched++
			e.shape(a, "decoy-then-target")
		} else {
			e.shape(a, "single-mention")
		}
	case KList:
		e.decList(t, a, parts)
	case KKV, KFree:
		e.decKV(t, a, parts)
	case KKeyed:
		e.decKeyed(t, a, parts)
	case KStruct:
		e.decStruct(t, a, parts, tags)
	case KMapOf:
		e.decMapOf(t, a, parts, tags)
	}
	return parts
}

// decTagged plants a !reset or !override. Returns nil when not applicable.
func (e *Engine) decTagged(t *Val, a *Attr, n int) []*Val {
	parts := make([]*Val, n)
	// garbage: the parts before the tag are themselves a valid decomposition of
	// some other value of the attribute (so they merge among themselves), which
	// the tag then discards.
	garbage := func(upto int) bool {
		gt := a.Gen(e.G)
		if gt == nil || upto <= 0 {
			return false
		}
		gp := e.dec(gt, a, upto, false)
		copy(parts, gp)
		return mentions(gp) > 0
	}
	reset := t == nil || (n >= 3 && e.R.Intn(3) == 0)
	if reset {
		// garbage .. !reset .. normal decomposition of the target
		j := 1 + e.R.Intn(n-1)
		if t != nil && j == n-1 {
			j = n - 2
		}
		if j < 1 {
			return nil
		}
		if !garbage(j) {
			return nil
		}
		rv := a.Gen(e.G)
		if rv == nil {
			rv = &Val{A: a}
		}
		rv.Reseed(e.R)
		rv.Tag = "!reset"
		clearTags(rv)
		rv.Tag = "!reset"
		parts[j] = rv
		rest := e.dec(t, a, n-j-1, false)
		copy(parts[j+1:], rest)
		if t == nil {
			e.shape(a, "reset-to-absent")
		} else {
			if mentions(rest) == 0 {
				return nil
			}
			e.shape(a, "reset-then-set")
		}
		e.Touched++
		return parts
	}
	// garbage .. !override part .. normal parts
	if a.Kind == KReplace && !stringish(t) {
		// a tagged plain scalar is read as a string by any YAML parser: `!override 5` is not the integer 5
		return nil
	}
	j := 1 + e.R.Intn(n-1)
	rest := e.dec(t, a, n-j, false)
	f := -1
	for i, p := range rest {
		if p != nil {
			f = i
			break
		}
	}
	if f < 0 {
		return nil
	}
	if a.Kind == KStruct && a.Short != nil {
		rest[f].Sp &^= 1 // the tagged node is written as a mapping
	}
	rest[f].Tag = "!override"
	garbage(j + f)
	copy(parts[j+f:], rest[f:])
	e.Touched++
	e.shape(a, "override")
	return parts
}

// stringish: every spelling of a replace-class value is a string, a sequence or a mapping.
func stringish(v *Val) bool {
	for _, sp := range v.Spells {
		switch sp.(type) {
		case string, Quoted, []any, OM:
		default:
			return false
		}
	}
	return true
}

func clearTags(v *Val) {
	v.Walk("", func(_ string, x *Val) { x.Tag = "" })
}

func (e *Engine) decList(t *Val, a *Attr, parts []*Val) {
	n := len(parts)
	k := len(t.Items)
	// nondecreasing assignment of elements to parts
	assign := make([]int, k)
	cur := 0
	for i := range assign {
		for cur < n-1 && e.R.Intn(k+1) < n-1 {
			cur++
		}
		assign[i] = cur
	}
	if k > 0 && e.R.Intn(2) == 0 {
		// shift so that the first chunk does not always start in part 0
		maxShift := n - 1 - assign[k-1]
		if maxShift > 0 {
			s := e.R.Intn(maxShift + 1)
			for i := range assign {
				assign[i] += s
			}
		}
	}
	for i, it := range t.Items {
		p := parts[assign[i]]
		if p == nil {
			p = &Val{A: a, Sp: e.R.Uint32()}
			parts[assign[i]] = p
		}
		p.Items = append(p.Items, it)
	}
	if k == 0 {
		// an empty list target: one part mentions it as empty
		parts[e.R.Intn(n)] = &Val{A: a, Sp: e.R.Uint32()}
	}
	if a.Unique && k > 0 && e.R.Float64() < e.PDup {
		// exact duplicate of an earlier entry in a later part
		i := e.R.Intn(k)
		if assign[i] < n-1 {
			q := assign[i] + 1 + e.R.Intn(n-1-assign[i])
			p := parts[q]
			if p == nil {
				p = &Val{A: a, Sp: e.R.Uint32()}
				parts[q] = p
			}
			pos := e.R.Intn(len(p.Items) + 1)
			p.Items = append(p.Items[:pos:pos], append([]Item{t.Items[i]}, p.Items[pos:]...)...)
			if a.GoField != "" {
				e.Unordered[a.GoField] = true
			}
			e.shape(a, "append-with-duplicate")
		}
	}
	if mentions(parts) >= 2 {
		e.Touched++
		e.shape(a, "append-chunks")
	} else {
		e.shape(a, "single-mention")
	}
}

func (e *Engine) decKV(t *Val, a *Attr, parts []*Val) {
	n := len(parts)
	add := func(i int, kv KV) {
		p := parts[i]
		if p == nil {
			p = &Val{A: a, Sp: e.R.Uint32()}
			parts[i] = p
		}
		pos := e.R.Intn(len(p.KVs) + 1)
		p.KVs = append(p.KVs[:pos:pos], append([]KV{kv}, p.KVs[pos:]...)...)
	}
	collided := false
	for _, kv := range t.KVs {
		last := e.R.Intn(n)
		add(last, kv)
		if a.NoCollide {
			continue
		}
		for i := 0; i < last; i++ {
			x := e.R.Float64()
			switch {
			case x < e.PStale && a.StaleKV != nil:
				if st, ok := a.StaleKV(e.G, kv); ok {
					add(i, st)
					collided = true
					e.shape(a, "same-key-stale")
				}
			case x < e.PStale && a.Value != nil:
				st := KV{K: kv.K, V: a.Value(e.G, kv.K)}
				if a.Valueless && kv.V != nil && e.R.Intn(5) == 0 {
					st.V = nil
				}
				add(i, st)
				collided = true
				e.shape(a, "same-key-stale")
			case x < e.PStale+e.PDup*0.5:
				add(i, kv)
				collided = true
				e.shape(a, "exact-duplicate")
			}
		}
	}
	if len(t.KVs) == 0 {
		parts[e.R.Intn(n)] = &Val{A: a, Sp: e.R.Uint32()}
	}
	if mentions(parts) >= 2 {
		e.Touched++
		if !collided {
			e.shape(a, "new-keys")
		}
		sp := map[uint32]bool{}
		for _, p := range parts {
			if p != nil {
				sp[p.Sp&1] = true
			}
		}
		if a.Kind == KKV && len(sp) == 2 {
			e.shape(a, "mixed-spelling")
		}
	} else {
		e.shape(a, "single-mention")
	}
}

func (e *Engine) decKeyed(t *Val, a *Attr, parts []*Val) {
	n := len(parts)
	add := func(i int, en Entry) {
		p := parts[i]
		if p == nil {
			p = &Val{A: a, Sp: e.R.Uint32()}
			parts[i] = p
		}
		pos := e.R.Intn(len(p.Ents) + 1)
		p.Ents = append(p.Ents[:pos:pos], append([]Entry{en}, p.Ents[pos:]...)...)
	}
	collided := false
	for _, en := range t.Ents {
		last := e.R.Intn(n)
		add(last, en)
		if a.NoCollide {
			continue
		}
		for i := 0; i < last; i++ {
			x := e.R.Float64()
			switch {
			case x < e.PStale && a.Stale != nil:
				add(i, a.Stale(e.G, en))
				collided = true
				e.shape(a, "same-key-stale")
			case x < e.PStale+e.PDup*0.5:
				add(i, en)
				collided = true
				e.shape(a, "exact-duplicate")
			}
		}
	}
	if len(t.Ents) == 0 {
		parts[e.R.Intn(n)] = &Val{A: a, Sp: e.R.Uint32()}
	}
	if mentions(parts) >= 2 {
		e.Touched++
		if !collided {
			e.shape(a, "new-keys")
		}
	} else {
		e.shape(a, "single-mention")
	}
}

func (e *Engine) decStruct(t *Val, a *Attr, parts []*Val, tags bool) {
	n := len(parts)
	put := func(name string, cp []*Val) {
		for i, c := range cp {
			if c == nil {
				continue
			}
			if parts[i] == nil {
				parts[i] = &Val{A: a, Sp: e.R.Uint32()}
			}
			parts[i].Set(name, c)
		}
	}
	byName := map[string]*Attr{}
	for _, f := range a.Fields {
		byName[f.Name] = f
	}
	for _, k := range t.Keys {
		f := byName[k]
		if f == nil {
			f = t.Sub[k].A
		}
		put(k, e.dec(t.Sub[k], f, n, tags))
	}
	// an attribute the target lacks: garbage followed by !reset
	if tags && n >= 2 && e.R.Float64() < e.PResetAbsent {
		var cands []*Attr
		for _, f := range a.Fields {
			if _, ok := t.Sub[f.Name]; !ok && !f.NoTag && !f.Fixed && !f.Required && !e.Single[f] && f.Gen != nil && e.G.Admissible(t, f) {
				cands = append(cands, f)
			}
		}
		if len(cands) > 0 {
			f := cands[e.R.Intn(len(cands))]
			save := e.PTag
			e.PTag = 1
			cp := e.dec(nil, f, n, true)
			e.PTag = save
			put(f.Name, cp)
		}
	}
	// sub-attributes the schema requires must be present from the first mention
	// of the mapping on (every intermediate state is schema-validated)
	for _, f := range a.Fields {
		if !f.Required || t.Sub[f.Name] == nil {
			continue
		}
		for _, p := range parts {
			if p == nil {
				continue
			}
			if p.Sub[f.Name] == nil {
				d := f.Gen(e.G)
				d.Reseed(e.R)
				p.Set(f.Name, d)
			}
			break
		}
	}
	// shuffle key order per part
	for _, p := range parts {
		if p != nil {
			e.R.Shuffle(len(p.Keys), func(i, j int) { p.Keys[i], p.Keys[j] = p.Keys[j], p.Keys[i] })
		}
	}
	if len(t.Keys) == 0 {
		// an empty mapping / null element: handled by the parent (decMapOf)
		return
	}
}

func (e *Engine) decMapOf(t *Val, a *Attr, parts []*Val, tags bool) {
	n := len(parts)
	for _, k := range t.Keys {
		if a.Elem == ServiceAttr {
			for i, n := range e.G.Services {
				if n == k {
					e.G.SvcIdx = i // decoys and garbage refer to earlier services only
				}
			}
		}
		// elements are catalogued NoTag: the statement's `!reset` removes *the attribute*, not a key
		cp := e.dec(t.Sub[k], a.Elem, n, tags)
		if mentions(cp) == 0 {
			// every key of the target must be mentioned somewhere (null / empty element)
			cp[e.R.Intn(n)] = &Val{A: a.Elem, Sp: e.R.Uint32()}
		}
		for i, c := range cp {
			if c == nil {
				continue
			}
			if parts[i] == nil {
				parts[i] = &Val{A: a, Sp: e.R.Uint32()}
			}
			parts[i].Set(k, c)
		}
	}
	if len(t.Keys) == 0 {
		parts[e.R.Intn(n)] = &Val{A: a, Sp: e.R.Uint32()}
	}
	for _, p := range parts {
		if p != nil {
			e.R.Shuffle(len(p.Keys), func(i, j int) { p.Keys[i], p.Keys[j] = p.Keys[j], p.Keys[i] })
		}
	}
}
