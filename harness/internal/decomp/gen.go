package decomp

import (
	"fmt"
	"math/rand"
)

// G is the generation context: PRNG, unique counter, the names a value may
// refer to, and the auxiliary files (env / label files) values rely on.
type G struct {
	R *rand.Rand
	n int

	// Names declared by the model under construction (references are drawn from these).
	Services []string
	SvcIdx   int // index of the service being generated: it may refer to services[:SvcIdx] only (acyclic)
	Networks []string
	Volumes  []string
	Secrets  []string
	Configs  []string

	// Files maps a path token (`./pth<N>`) to the content of the file that must
	// exist there (env_file, label_file). Checks materialise them next to the
	// compose file that mentions the token.
	Files map[string]string

	// NoPlant names service attributes that are never planted as
	// garbage-then-!reset (attributes the target lacks).
	NoPlant map[string]bool
}

// NewG returns a generation context.
func NewG(r *rand.Rand) *G {
	return &G{R: r, Files: map[string]string{}}
}

// U returns a fresh number (values built from it never collide by accident).
func (g *G) U() int { g.n++; return g.n }

// Path returns a fresh relative path token.
func (g *G) Path() string { return fmt.Sprintf("./pth%d", g.U()) }

// Admissible reports whether attribute f may be planted (as garbage removed
// by !reset) in a struct whose target is t.
func (g *G) Admissible(t *Val, f *Attr) bool { return !(t.A == ServiceAttr && g.NoPlant[f.Name]) }

func (g *G) pick(xs ...string) string { return xs[g.R.Intn(len(xs))] }

func (g *G) chance(p float64) bool { return g.R.Float64() < p }

// ---- constructors of catalogue rows ----------------------------------------

func rep(a *Attr, spells ...any) *Val { return &Val{A: a, Spells: spells} }

// scalarAttr: a replace-class attribute whose values come from f.
func scalarAttr(name string, f func(g *G) any) *Attr {
	a := &Attr{Name: name, Kind: KReplace, Class: "replace"}
	a.Gen = func(g *G) *Val { return rep(a, f(g)) }
	return a
}

// uniq: strings made unique by a counter.
func uniq(name, prefix string) *Attr {
	return scalarAttr(name, func(g *G) any { return fmt.Sprintf("%s%d", prefix, g.U()) })
}

func enum(name string, vals ...string) *Attr {
	return scalarAttr(name, func(g *G) any { return g.pick(vals...) })
}

func boolean(name string) *Attr {
	return scalarAttr(name, func(g *G) any { return g.R.Intn(2) == 0 })
}

func integer(name string, lo, hi int) *Attr {
	return scalarAttr(name, func(g *G) any { return lo + g.R.Intn(hi-lo+1) })
}

func duration(name string) *Attr {
	return scalarAttr(name, func(g *G) any {
		return g.pick("5s", "30s", "1m30s", "2m", "750ms", "1h", "10s", "45s", "3m20s")
	})
}

func bytesize(name string) *Attr {
	return scalarAttr(name, func(g *G) any { return g.pick("64m", "128m", "256m", "512m", "1g", "2g", "300m", "96m") })
}

// wholesale: command-like attribute (list of words | shell string).
func wholesale(name string) *Attr {
	a := &Attr{Name: name, Kind: KReplace, Class: "wholesale"}
	a.Gen = func(g *G) *Val {
		n := 1 + g.R.Intn(4)
		words := make([]any, n)
		str := ""
		for i := range words {
			w := fmt.Sprintf("%s%d", g.pick("run", "arg", "--flag", "x", "sh", "-c"), g.U())
			words[i] = w
			if i > 0 {
				str += " "
			}
			str += w
		}
		return rep(a, words, str)
	}
	return a
}

// list: a sequence of strings drawn from mk (which must return distinct values).
func list(name string, mk func(g *G) string, max int) *Attr {
	a := &Attr{Name: name, Kind: KList, Class: "append"}
	a.Gen = func(g *G) *Val {
		v := &Val{A: a}
		n := 1 + g.R.Intn(max)
		seen := map[string]bool{}
		for i := 0; i < n; i++ {
			s := mk(g)
			if seen[s] {
				continue
			}
			seen[s] = true
			v.Items = append(v.Items, Item{ID: s, Spells: []any{s}})
		}
		return v
	}
	return a
}

func uniqueList(name, goField string, mk func(g *G) string, max int) *Attr {
	a := list(name, mk, max)
	a.Unique = true
	a.Class = "append-unique"
	a.GoField = goField
	return a
}

// rawList: a sequence of arbitrary raw items (structs), appended.
func rawList(name string, mk func(g *G) Item, max int) *Attr {
	a := &Attr{Name: name, Kind: KList, Class: "append"}
	a.Gen = func(g *G) *Val {
		v := &Val{A: a}
		n := 1 + g.R.Intn(max)
		for i := 0; i < n; i++ {
			v.Items = append(v.Items, mk(g))
		}
		return v
	}
	return a
}

// kv: KEY=VALUE set.
func kv(name string, keyPrefix string, valueless bool) *Attr {
	a := &Attr{Name: name, Kind: KKV, Class: "kv-by-key", Valueless: valueless}
	a.Value = func(g *G, _ string) any {
		switch g.R.Intn(8) {
		case 0:
			return ""
		case 1:
			return fmt.Sprintf("a=b%d", g.U())
		case 2:
			return fmt.Sprint(g.U())
		case 3:
			return fmt.Sprintf("two words %d", g.U())
		}
		return fmt.Sprintf("v%d", g.U())
	}
	a.Gen = func(g *G) *Val {
		v := &Val{A: a}
		n := 1 + g.R.Intn(4)
		for i := 0; i < n; i++ {
			k := fmt.Sprintf("%s%d", keyPrefix, g.U())
			e := KV{K: k, V: a.Value(g, k)}
			if valueless && g.R.Intn(6) == 0 {
				e.V = nil
			}
			v.KVs = append(v.KVs, e)
		}
		return v
	}
	return a
}

// free: mapping with free keys and scalar values.
func free(name, keyPrefix string) *Attr {
	a := &Attr{Name: name, Kind: KFree, Class: "map-recursive"}
	a.Value = func(g *G, _ string) any { return fmt.Sprintf("o%d", g.U()) }
	a.Gen = func(g *G) *Val {
		v := &Val{A: a}
		n := 1 + g.R.Intn(3)
		for i := 0; i < n; i++ {
			k := fmt.Sprintf("%s%d", keyPrefix, g.U())
			v.KVs = append(v.KVs, KV{K: k, V: a.Value(g, k)})
		}
		return v
	}
	return a
}

// structAttr: mapping with fixed sub-attributes; each is present with probability p.
func structAttr(name string, p float64, fields ...*Attr) *Attr {
	a := &Attr{Name: name, Kind: KStruct, Class: "map-recursive", Fields: fields}
	a.Gen = func(g *G) *Val { return genStruct(g, a, p, nil) }
	return a
}

func genStruct(g *G, a *Attr, p float64, skip map[string]bool) *Val {
	v := &Val{A: a}
	for tries := 0; tries < 4 && len(v.Keys) == 0; tries++ {
		for _, f := range a.Fields {
			if skip[f.Name] || f.Gen == nil || !g.chance(p) {
				continue
			}
			if c := f.Gen(g); c != nil {
				v.Set(f.Name, c)
			}
		}
	}
	if len(v.Keys) == 0 {
		for _, f := range a.Fields {
			if skip[f.Name] || f.Gen == nil {
				continue
			}
			if c := f.Gen(g); c != nil {
				v.Set(f.Name, c)
				break
			}
		}
	}
	if len(v.Keys) == 0 {
		return nil
	}
	return v
}

// Field returns the sub-attribute of a struct row by name.
func (a *Attr) Field(name string) *Attr {
	for _, f := range a.Fields {
		if f.Name == name {
			return f
		}
	}
	return nil
}

func (g *G) subset(xs []string, max int) []string {
	if len(xs) == 0 {
		return nil
	}
	idx := g.R.Perm(len(xs))
	n := 1 + g.R.Intn(max)
	if n > len(xs) {
		n = len(xs)
	}
	out := make([]string, n)
	for i := range out {
		out[i] = xs[idx[i]]
	}
	return out
}
