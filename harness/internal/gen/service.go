package gen

import (
	"fmt"
	"strings"
)

type svcInfo struct {
	name     string
	index    int
	profiles []string
	peers    []string // services this one may reference (enabled whenever it is, declared earlier)
}

// alt picks one of n alternatives: spread over the services of a saturated model, drawn otherwise.
func (g *G) alt(info *svcInfo, n int) int {
	if g.Cfg.Density >= 1 {
		return info.index % n
	}
	return g.R.Intn(n)
}

func (g *G) boolAttr(m M, path, key string) {
	if g.want(path) {
		if !g.long() && g.Cfg.Spelling != "long" && g.chance(0.1) {
			m[key] = "true" // the schema admits the string spelling
			return
		}
		if g.chance(0.2) {
			m[key] = false // spelled out: must survive a rendering whatever default applies to an absent key
			return
		}
		m[key] = true
	}
}

func (g *G) intAttr(m M, path, key string, lo, hi int) {
	if g.want(path) {
		m[key] = g.n(lo, hi)
	}
}

func (g *G) strAttr(m M, path, key string, vals ...string) {
	if g.want(path) {
		if len(vals) == 0 {
			m[key] = g.word()
			return
		}
		m[key] = pick(g, vals...)
	}
}

func (g *G) command() any {
	switch g.R.Intn(6) {
	case 0:
		return "bundle exec thin -p 3000"
	case 1:
		return L{"/code/entrypoint.sh", "-p", "3000"}
	case 2:
		return L{}
	case 3:
		return ""
	case 4:
		return L{"sh", "-c", "echo \"hello world\" && sleep 1"}
	default:
		return "echo 'single quoted arg' plain"
	}
}

func (g *G) hook(path string) M {
	h := M{"command": g.command()}
	if g.chance(0.5) {
		h["command"] = L{"echo", g.word()}
	}
	g.strAttr(h, path+".user", "user", "root", "1000:1000")
	g.boolAttr(h, path+".privileged", "privileged")
	g.strAttr(h, path+".working_dir", "working_dir", "/srv", "/tmp/work")
	if g.want(path + ".environment") {
		h["environment"] = g.kv("hook", 1, 2, true, true)
	}
	g.ext(h, path)
	return h
}

func (g *G) ulimits() M {
	u := M{}
	names := subset(g, []string{"nofile", "nproc", "core", "memlock", "stack"}, g.n(1, 3))
	for i, n := range names {
		switch (i + g.R.Intn(2)) % 3 {
		case 0:
			// the single form: a positive limit, 0, or -1 (unlimited)
			u[n] = pick(g, g.n(1, 65535), g.n(1, 65535), -1, 0)
		case 1:
			soft := g.n(1, 20000)
			l := M{"soft": soft, "hard": soft + g.n(0, 20000)}
			g.ext(l, "service.ulimits")
			u[n] = l
		default:
			u[n] = M{"soft": pick(g, 0, 0, -1), "hard": pick(g, 0, 100, -1)}
		}
	}
	return u
}

func (g *G) extraHosts() any {
	type h struct {
		name string
		ips  []string
	}
	var hs []h
	n := g.n(1, 3)
	for i := 0; i < n; i++ {
		e := h{name: fmt.Sprintf("%shost%d", pick(g, "some", "other", "my"), i)}
		switch g.R.Intn(3) {
		case 0:
			e.ips = []string{g.ipv4()}
		case 1:
			e.ips = []string{g.ipv6()}
		default:
			e.ips = []string{g.ipv4(), g.ipv6()}
		}
		hs = append(hs, e)
		if g.chance(0.3) {
			// a second, distinct name that is equal ignoring letter case (a distinct key and hosts line)
			hs = append(hs, h{name: strings.ToUpper(e.name[:1]) + e.name[1:], ips: []string{g.ipv4()}})
			if g.chance(0.5) {
				hs = append(hs, h{name: strings.ToUpper(e.name), ips: []string{g.ipv4()}})
			}
		}
	}
	if g.long() {
		m := M{}
		for _, e := range hs {
			if len(e.ips) == 1 && g.chance(0.5) {
				m[e.name] = e.ips[0]
				continue
			}
			l := L{}
			for _, ip := range e.ips {
				l = append(l, ip)
			}
			m[e.name] = l
		}
		return m
	}
	l := L{}
	sep := pick(g, "=", ":")
	for _, e := range hs {
		for _, ip := range e.ips {
			if strings.Contains(ip, ":") && g.chance(0.5) {
				ip = "[" + ip + "]"
			}
			l = append(l, e.name+sep+ip)
		}
	}
	return l
}

func (g *G) fileRefs(path string, pool []string, info *svcInfo, secret bool) L {
	out := L{}
	srcs := subset(g, pool, g.n(1, 3))
	for i, src := range srcs {
		if !g.long() {
			out = append(out, src)
			continue
		}
		m := M{"source": src}
		if g.want(path + ".target") {
			if secret && g.chance(0.5) {
				m["target"] = "my_" + src
			} else {
				m["target"] = fmt.Sprintf("/etc/%s/%s-%d", info.name, src, i)
			}
		}
		if g.want(path + ".uid") {
			m["uid"] = pick(g, "103", "0", "1000")
		}
		if g.want(path + ".gid") {
			m["gid"] = pick(g, "103", "0", "1000")
		}
		if g.want(path + ".mode") {
			m["mode"] = pick(g, 0o440, 0o400, 0o644, 0)
		}
		g.ext(m, path)
		out = append(out, m)
	}
	return out
}

func (g *G) deviceRequests(path string, requireCaps bool) L {
	out := L{}
	n := g.n(1, 2)
	for i := 0; i < n; i++ {
		d := M{}
		if requireCaps || g.want(path+".capabilities") {
			d["capabilities"] = g.words(1, 2, "gpu", "tpu", "compute", "utility")
		}
		if g.want(path + ".driver") {
			d["driver"] = pick(g, "nvidia", "cdi")
		}
		switch g.R.Intn(4) {
		case 0:
			d["count"] = "all"
		case 1:
			d["count"] = g.n(0, 4)
		case 2:
			d["device_ids"] = L{"GPU-" + g.word(), "0"}
		default: // neither: the documented default applies
		}
		if g.want(path + ".options") {
			d["options"] = g.kv("virt", 1, 2, false, true)
		}
		g.ext(d, path)
		out = append(out, d)
	}
	return out
}

func (g *G) build(info *svcInfo, platforms *[]string) any {
	b := M{}
	ctxKind := g.alt(info, 5)
	switch ctxKind {
	case 0:
		b["context"] = "./" + g.word()
	case 1:
		b["context"] = "."
	case 2:
		b["context"] = "/abs/" + g.word()
	case 3:
		b["context"] = "https://github.com/acme/" + g.word() + ".git#main"
	default: // context left implicit
	}
	simple := g.Cfg.Density < 1 && g.chance(0.15)
	if simple {
		if c, ok := b["context"]; ok && !g.long() {
			return c
		}
		return b
	}
	if g.want("build.dockerfile") {
		if g.alt(info, 3) == 1 {
			b["dockerfile_inline"] = "FROM alpine\nRUN echo \"hello\" > /world.txt\n"
		} else {
			b["dockerfile"] = pick(g, "Dockerfile", "docker/Dockerfile.dev", "../Dockerfile")
		}
	}
	if g.want("build.entitlements") {
		b["entitlements"] = g.words(1, 2, "network.host", "security.insecure")
	}
	if g.want("build.args") {
		b["args"] = g.kv("arg", 1, 3, true, true)
	}
	if g.want("build.ssh") {
		var keys []string
		n := g.n(1, 3)
		if g.Cfg.MultiSSH && n < 2 {
			n = g.n(2, 4)
		}
		for i := 0; i < n; i++ {
			keys = append(keys, fmt.Sprintf("key%d", i))
		}
		withDefault := g.chance(0.5)
		if g.long() {
			m := M{}
			if withDefault {
				m["default"] = nil
			}
			for _, k := range keys {
				m[k] = "/home/user/.ssh/" + k
			}
			if len(m) == 0 {
				m["default"] = nil
			}
			b["ssh"] = m
		} else {
			l := L{}
			if withDefault || g.chance(0.3) {
				l = append(l, "default")
				if g.chance(0.5) {
					keys = nil
				}
			}
			for _, k := range keys {
				l = append(l, k+"=/home/user/.ssh/"+k)
			}
			b["ssh"] = l
		}
	}
	if g.want("build.labels") {
		b["labels"] = g.kv("com.example.build", 1, 3, false, true)
	}
	if g.want("build.cache_from") {
		b["cache_from"] = g.words(1, 2, "alpine:latest", "type=local,src=path/to/cache", "type=gha")
	}
	if g.want("build.cache_to") {
		b["cache_to"] = g.words(1, 2, "user/app:cache", "type=local,dest=path/to/cache")
	}
	g.boolAttr(b, "build.no_cache", "no_cache")
	if g.want("build.additional_contexts") {
		if g.long() {
			b["additional_contexts"] = M{"resources": "./resources", "app": "docker-image://my-app:latest", "src": "https://github.com/acme/repo.git"}
		} else {
			b["additional_contexts"] = L{"resources=./resources", "app=docker-image://my-app:latest"}
		}
	}
	g.boolAttr(b, "build.pull", "pull")
	if g.want("build.extra_hosts") {
		b["extra_hosts"] = g.extraHosts()
	}
	g.strAttr(b, "build.isolation", "isolation", "default", "process", "hyperv")
	g.strAttr(b, "build.network", "network", "host", "none", "custom")
	g.strAttr(b, "build.target", "target", "prod", "builder")
	if g.want("build.secrets") && len(g.secrets) > 0 {
		b["secrets"] = g.fileRefs("build.secrets", g.secrets, info, true)
	}
	if g.want("build.shm_size") {
		b["shm_size"] = g.bytes()
	}
	if g.want("build.tags") {
		b["tags"] = g.words(1, 3, "foo:v1.0.0", "docker.io/username/foo:my-other-tag", "registry/app:latest")
	}
	if g.want("build.ulimits") {
		b["ulimits"] = g.ulimits()
	}
	if g.want("build.platforms") {
		p := subset(g, []string{"linux/amd64", "linux/arm64", "linux/arm/v7"}, g.n(1, 2))
		*platforms = p
		l := L{}
		for _, x := range p {
			l = append(l, x)
		}
		b["platforms"] = l
	}
	g.boolAttr(b, "build.privileged", "privileged")
	g.ext(b, "build")
	return b
}

func (g *G) updateConfig(path string) M {
	u := M{}
	g.intAttr(u, path+".parallelism", "parallelism", 0, 5)
	if g.want(path + ".delay") {
		u["delay"] = g.duration()
	}
	g.strAttr(u, path+".failure_action", "failure_action", "continue", "pause", "rollback")
	if g.want(path + ".monitor") {
		u["monitor"] = g.duration()
	}
	if g.want(path + ".max_failure_ratio") {
		u["max_failure_ratio"] = pick[any](g, 0.3, 0.25, 1, "0.5")
	}
	g.strAttr(u, path+".order", "order", "start-first", "stop-first")
	g.ext(u, path)
	return u
}

type shared struct {
	scale     *int
	mem       any
	memRes    any
	cpus      any
	pids      *int
	platforms []string
}

func (g *G) deploy(info *svcInfo, sh *shared) M {
	d := M{}
	g.strAttr(d, "deploy.mode", "mode", "replicated", "global", "replicated-job")
	if g.want("deploy.replicas") && sh.scale != nil {
		d["replicas"] = *sh.scale
	}
	if g.want("deploy.labels") {
		d["labels"] = g.kv("com.example.deploy", 1, 2, false, true)
	}
	if g.want("deploy.update_config") {
		d["update_config"] = g.updateConfig("deploy.update_config")
	}
	if g.want("deploy.rollback_config") {
		d["rollback_config"] = g.updateConfig("deploy.rollback_config")
	}
	if g.want("deploy.resources") {
		res := M{}
		if g.want("deploy.resources.limits") {
			lim := M{}
			// the deprecated top-level spellings must agree with deploy.resources when both are given
			if sh.cpus != nil {
				lim["cpus"] = sh.cpus
			}
			if sh.mem != nil {
				lim["memory"] = fmt.Sprint(sh.mem)
			}
			if sh.pids != nil {
				lim["pids"] = *sh.pids
			}
			g.ext(lim, "deploy.resources.limits")
			if len(lim) > 0 {
				res["limits"] = lim
			}
		}
		if g.want("deploy.resources.reservations") {
			r := M{}
			if g.want("deploy.resources.reservations.cpus") {
				r["cpus"] = pick[any](g, "0.25", 0.5, 1)
			}
			if sh.memRes != nil {
				r["memory"] = fmt.Sprint(sh.memRes)
			}
			if g.want("deploy.resources.reservations.devices") {
				r["devices"] = g.deviceRequests("deploy.resources.reservations.devices", true)
			}
			if g.want("deploy.resources.reservations.generic_resources") {
				gr := L{}
				for i, k := range subset(g, []string{"gpu", "ssd", "fpga"}, g.n(1, 2)) {
					spec := M{"kind": k, "value": g.n(1, 4)}
					if i == 0 {
						g.ext(spec, "deploy.resources.reservations.generic_resources.discrete_resource_spec")
					}
					e := M{"discrete_resource_spec": spec}
					g.ext(e, "deploy.resources.reservations.generic_resources")
					gr = append(gr, e)
				}
				r["generic_resources"] = gr
			}
			g.ext(r, "deploy.resources.reservations")
			if len(r) > 0 {
				res["reservations"] = r
			}
		}
		g.ext(res, "deploy.resources")
		if len(res) > 0 {
			d["resources"] = res
		}
	}
	if g.want("deploy.restart_policy") {
		rp := M{}
		g.strAttr(rp, "deploy.restart_policy.condition", "condition", "none", "on-failure", "any")
		if g.want("deploy.restart_policy.delay") {
			rp["delay"] = g.duration()
		}
		g.intAttr(rp, "deploy.restart_policy.max_attempts", "max_attempts", 0, 5)
		if g.want("deploy.restart_policy.window") {
			rp["window"] = g.duration()
		}
		g.ext(rp, "deploy.restart_policy")
		d["restart_policy"] = rp
	}
	if g.want("deploy.placement") {
		pl := M{}
		if g.want("deploy.placement.constraints") {
			pl["constraints"] = g.words(1, 2, "node.role==manager", "node.labels.disktype==ssd", "node=foo")
		}
		if g.want("deploy.placement.preferences") {
			pref := M{"spread": "node.labels.az"}
			g.ext(pref, "deploy.placement.preferences")
			pl["preferences"] = L{pref}
		}
		g.intAttr(pl, "deploy.placement.max_replicas_per_node", "max_replicas_per_node", 1, 5)
		g.ext(pl, "deploy.placement")
		if len(pl) > 0 {
			d["placement"] = pl
		}
	}
	g.strAttr(d, "deploy.endpoint_mode", "endpoint_mode", "vip", "dnsrr")
	g.ext(d, "deploy")
	return d
}

func (g *G) ports(info *svcInfo) L {
	out := L{}
	base := 3000 + info.index*100
	n := g.n(1, 4)
	for i := 0; i < n; i++ {
		target := base + i*10
		if g.long() {
			p := M{"target": target}
			if g.want("service.ports.published") {
				switch g.R.Intn(3) {
				case 0:
					p["published"] = fmt.Sprint(target + 5000)
				case 1:
					p["published"] = target + 5000
				default:
					p["published"] = fmt.Sprintf("%d-%d", target+5000, target+5005)
				}
			}
			if g.want("service.ports.host_ip") {
				p["host_ip"] = pick(g, "127.0.0.1", "0.0.0.0", "::1")
			}
			if g.want("service.ports.protocol") {
				p["protocol"] = pick(g, "tcp", "udp")
			}
			if g.want("service.ports.mode") {
				p["mode"] = pick(g, "ingress", "host")
			}
			if g.want("service.ports.name") {
				p["name"] = fmt.Sprintf("%s-%d", g.word(), i)
			}
			if g.want("service.ports.app_protocol") {
				p["app_protocol"] = pick(g, "http", "grpc")
			}
			g.ext(p, "service.ports")
			out = append(out, p)
			continue
		}
		switch g.R.Intn(8) {
		case 7: // a host range facing one container port: the engine picks a free port of the range
			out = append(out, fmt.Sprintf("%d-%d:%d", target+5000, target+5009, target))
		case 0:
			out = append(out, target)
		case 1:
			out = append(out, fmt.Sprintf("%d-%d", target, target+3))
		case 2:
			out = append(out, fmt.Sprintf("%d:%d", target+5000, target))
		case 3:
			out = append(out, fmt.Sprintf("%d-%d:%d-%d", target+5000, target+5001, target, target+1))
		case 4:
			out = append(out, fmt.Sprintf("127.0.0.1:%d:%d", target+5000, target))
		case 5:
			out = append(out, fmt.Sprintf("%d:%d/udp", target+5000, target))
		default:
			out = append(out, fmt.Sprintf("[::1]:%d:%d", target+5000, target))
		}
	}
	return out
}

func (g *G) mounts(info *svcInfo) L {
	out := L{}
	n := g.n(1, 5)
	for i := 0; i < n; i++ {
		target := fmt.Sprintf("/mnt/%s/m%d", info.name, i)
		kind := g.R.Intn(4)
		if g.Cfg.Density >= 1 {
			kind = i % 4
		}
		if !g.long() {
			switch kind {
			case 0:
				out = append(out, target) // anonymous volume
			case 1:
				out = append(out, fmt.Sprintf("%s:%s%s", pick(g, "./static", "/opt/data", "~/configs", ".", "../up"), target, pick(g, "", ":ro", ":rw", ":z", ":ro,rshared", ":Z,rw")))
			case 2:
				out = append(out, fmt.Sprintf("%s:%s%s", pick(g, g.volumes...), target, pick(g, "", ":ro", ":nocopy", ":rw")))
			default:
				out = append(out, fmt.Sprintf("%s:%s/", pick(g, g.volumes...), target))
			}
			continue
		}
		m := M{"target": target}
		switch kind {
		case 0:
			m["type"] = "volume"
			if g.chance(0.7) {
				m["source"] = pick(g, g.volumes...)
			}
			if g.want("service.volumes.volume") {
				v := M{}
				g.boolAttr(v, "service.volumes.volume.nocopy", "nocopy")
				g.strAttr(v, "service.volumes.volume.subpath", "subpath", "sub/dir")
				g.ext(v, "service.volumes.volume")
				m["volume"] = v
			}
		case 1:
			m["type"] = "bind"
			m["source"] = pick(g, "./opt", "/var/run/docker.sock", "~/data")
			if g.want("service.volumes.bind") {
				b := M{}
				g.strAttr(b, "service.volumes.bind.propagation", "propagation", "rprivate", "shared", "rslave")
				g.boolAttr(b, "service.volumes.bind.create_host_path", "create_host_path")
				g.strAttr(b, "service.volumes.bind.recursive", "recursive", "enabled", "disabled", "writable", "readonly")
				g.strAttr(b, "service.volumes.bind.selinux", "selinux", "z", "Z")
				g.ext(b, "service.volumes.bind")
				m["bind"] = b
			}
		case 2:
			m["type"] = "tmpfs"
			if g.want("service.volumes.tmpfs") {
				t := M{}
				if g.want("service.volumes.tmpfs.size") {
					t["size"] = pick[any](g, 10000, "64m", 0)
				}
				if g.want("service.volumes.tmpfs.mode") {
					t["mode"] = pick(g, 0o1777, 0o755)
				}
				g.ext(t, "service.volumes.tmpfs")
				m["tmpfs"] = t
			}
		default:
			m["type"] = pick(g, "npipe", "cluster")
			m["source"] = pick(g, "\\\\.\\pipe\\docker_engine", "cluster-vol")
		}
		g.boolAttr(m, "service.volumes.read_only", "read_only")
		g.strAttr(m, "service.volumes.consistency", "consistency", "cached", "delegated", "consistent")
		g.ext(m, "service.volumes")
		out = append(out, m)
	}
	return out
}

func (g *G) healthcheck() M {
	h := M{}
	switch g.R.Intn(5) {
	case 0:
		h["test"] = "echo \"hello world\""
	case 1:
		h["test"] = L{"CMD", "curl", "-f", "http://localhost"}
	case 2:
		h["test"] = L{"CMD-SHELL", "pg_isready -U postgres || exit 1"}
	case 3:
		h["test"] = L{"NONE"}
	default:
		h["disable"] = true
	}
	if _, ok := h["disable"]; !ok && g.Cfg.Force["healthcheck.disable"] {
		h["disable"] = true
	}
	if g.want("healthcheck.interval") {
		h["interval"] = g.duration()
	}
	if g.want("healthcheck.timeout") {
		h["timeout"] = g.duration()
	}
	if g.want("healthcheck.retries") {
		h["retries"] = g.n(0, 5)
	}
	if g.want("healthcheck.start_period") {
		h["start_period"] = g.duration()
	}
	if g.want("healthcheck.start_interval") {
		h["start_interval"] = g.duration()
	}
	g.ext(h, "healthcheck")
	return h
}

func (g *G) envFiles(info *svcInfo) any {
	n := g.n(1, 3)
	l := L{}
	for i := 0; i < n; i++ {
		body := fmt.Sprintf("EF_%s_%d=%s\nSHARED=from-file-%d\n# comment\nQUOTED=\"quoted value\"\n", strings.ToUpper(info.name), i, g.word(), i)
		if g.chance(0.5) {
			// a bare key that the declared environment never defines (inherited from nothing)
			body += "PROCESS_ONLY_VAR\n"
		}
		path := g.file("env", info.name, ".env", body)
		if !g.long() {
			l = append(l, path)
			continue
		}
		e := M{"path": path}
		switch g.R.Intn(3) {
		case 0:
			e["required"] = true
		case 1:
			e["required"] = false
			if g.chance(0.5) {
				// an optional file may be absent
				delete(g.m.Files, strings.TrimPrefix(path, "./"))
			}
		default: // required left implicit
		}
		if g.Cfg.EnvFileFormat && g.want("service.env_file.format") {
			g.m.NeedsSkipResolveEnv = true
			e["format"] = "raw"
			g.m.Files[strings.TrimPrefix(path, "./")] = fmt.Sprintf("RAW_%d=some raw value\n", i)
		}
		l = append(l, e)
	}
	if len(l) == 1 {
		if s, ok := l[0].(string); ok && !g.long() {
			return s
		}
	}
	return l
}

func (g *G) serviceNetworks(info *svcInfo) any {
	pool := append([]string(nil), g.networks...)
	if g.chance(0.3) {
		pool = append(pool, "default")
	}
	names := subset(g, pool, g.n(1, 3))
	if !g.long() {
		l := L{}
		for _, n := range names {
			l = append(l, n)
		}
		return l
	}
	m := M{}
	for i, n := range names {
		if g.Cfg.Density < 1 && g.chance(0.3) {
			m[n] = nil
			continue
		}
		c := M{}
		if g.want("service.networks.aliases") {
			c["aliases"] = g.words(1, 2, "alias1", "alias2", "alias3")
		}
		if g.want("service.networks.ipv4_address") {
			c["ipv4_address"] = g.ipv4()
		}
		if g.want("service.networks.ipv6_address") {
			c["ipv6_address"] = "2001:3984:3989::" + fmt.Sprint(10+i)
		}
		if g.want("service.networks.link_local_ips") {
			c["link_local_ips"] = L{"169.254.8.8", "fe80::8"}
		}
		if g.want("service.networks.mac_address") {
			c["mac_address"] = g.mac()
		}
		if g.want("service.networks.driver_opts") {
			c["driver_opts"] = g.strMap("nopt", 1, 2)
		}
		if g.want("service.networks.priority") {
			c["priority"] = pick(g, g.n(1, 1000), g.n(1, 1000), -5)
		}
		g.ext(c, "service.networks")
		if len(c) == 0 {
			m[n] = nil
		} else {
			m[n] = c
		}
	}
	return m
}

func (g *G) develop(info *svcInfo) M {
	w := L{}
	n := g.n(1, 3)
	for i := 0; i < n; i++ {
		t := M{"path": pick(g, "./src", "./web/app", "/abs/watch", "package.json")}
		action := []string{"rebuild", "sync", "sync+restart", "sync+exec"}[(i+g.alt(info, 4))%4]
		t["action"] = action
		if action != "rebuild" || g.chance(0.3) {
			t["target"] = "/app/" + g.word()
		}
		if action == "sync+exec" {
			t["exec"] = g.hook("develop.watch.exec")
		}
		if g.want("develop.watch.ignore") {
			t["ignore"] = g.words(1, 2, "node_modules/", "*.tmp", ".git")
		}
		g.ext(t, "develop.watch")
		w = append(w, t)
	}
	d := M{"watch": w}
	g.ext(d, "develop")
	return d
}

// service draws one service definition.
func (g *G) service(info *svcInfo) M {
	s := M{}
	sh := &shared{}
	sat := g.Cfg.Density >= 1

	// image / build: at least one
	hasBuild := g.want("service.build") && (sat && info.index != 3 || !sat && g.chance(0.5))
	if hasBuild {
		s["build"] = g.build(info, &sh.platforms)
	}
	if !hasBuild || g.chance(0.5) {
		s["image"] = pick(g, imagePool...)
	}
	if len(info.profiles) > 0 {
		l := L{}
		for _, p := range info.profiles {
			l = append(l, p)
		}
		s["profiles"] = l
	}

	// values shared between deprecated top-level attributes and deploy
	if g.want("service.scale") || g.want("deploy.replicas") {
		v := pick(g, 0, 1, 1, 2, 3)
		sh.scale = &v
	}
	if g.want("service.mem_limit") {
		sh.mem = g.bytes()
	}
	if g.want("service.mem_reservation") {
		sh.memRes = g.bytes()
	}
	if g.want("service.cpus") {
		sh.cpus = pick[any](g, 0.5, 1.5, "0.25", 2)
	}
	if g.want("service.pids_limit") {
		v := pick(g, 10, 100, -1)
		sh.pids = &v
	}

	if g.want("service.annotations") {
		s["annotations"] = g.kv("com.example", 1, 3, false, true)
	}
	if g.want("service.attach") {
		s["attach"] = g.chance(0.5)
	}
	if g.want("service.develop") {
		s["develop"] = g.develop(info)
	}
	if g.want("service.blkio_config") {
		b := M{}
		g.intAttr(b, "blkio_config.weight", "weight", 10, 1000)
		if g.want("blkio_config.weight_device") {
			b["weight_device"] = L{M{"path": "/dev/sda", "weight": g.n(10, 1000)}}
		}
		for _, k := range []string{"device_read_bps", "device_read_iops", "device_write_bps", "device_write_iops"} {
			if g.want("blkio_config." + k) {
				rate := g.bytes()
				if strings.HasSuffix(k, "iops") {
					rate = g.n(100, 5000)
				}
				b[k] = L{M{"path": "/dev/sd" + pick(g, "a", "b", "c"), "rate": rate}}
			}
		}
		if len(b) > 0 {
			s["blkio_config"] = b
		}
	}
	if g.want("service.cap_add") {
		s["cap_add"] = g.words(1, 3, capPool...)
	}
	if g.want("service.cap_drop") {
		s["cap_drop"] = g.words(1, 3, capPool...)
	}
	g.strAttr(s, "service.cgroup_parent", "cgroup_parent", "m-executor-abcd", "/docker/custom")
	g.strAttr(s, "service.cgroup", "cgroup", "host", "private")
	g.intAttr(s, "service.cpu_count", "cpu_count", 1, 8)
	g.intAttr(s, "service.cpu_percent", "cpu_percent", 1, 100)
	g.intAttr(s, "service.cpu_period", "cpu_period", 1000, 100000)
	g.intAttr(s, "service.cpu_quota", "cpu_quota", 1000, 100000)
	g.intAttr(s, "service.cpu_rt_period", "cpu_rt_period", 1000, 100000)
	g.intAttr(s, "service.cpu_rt_runtime", "cpu_rt_runtime", 1000, 100000)
	if sh.cpus != nil {
		s["cpus"] = sh.cpus
	}
	g.strAttr(s, "service.cpuset", "cpuset", "0-3", "0,1")
	g.intAttr(s, "service.cpu_shares", "cpu_shares", 2, 1024)
	if g.want("service.command") {
		s["command"] = g.command()
	}
	if g.want("service.configs") && len(g.configs) > 0 {
		s["configs"] = g.fileRefs("service.configs", g.configs, info, false)
	}
	if g.want("service.container_name") && (sh.scale == nil || *sh.scale <= 1) {
		s["container_name"] = "my-" + info.name + "-container"
	}
	if g.want("service.credential_spec") {
		c := M{}
		switch g.alt(info, 3) {
		case 0:
			c["config"] = "my_credential_spec"
		case 1:
			c["file"] = "my-credential-spec.json"
		default:
			c["registry"] = "my-credential-spec"
		}
		g.ext(c, "service.credential_spec")
		s["credential_spec"] = c
	}
	if g.want("service.depends_on") && len(info.peers) > 0 {
		deps := subset(g, info.peers, g.n(1, 2))
		if g.long() {
			m := M{}
			for _, d := range deps {
				e := M{"condition": pick(g, "service_started", "service_healthy", "service_completed_successfully")}
				if g.want("service.depends_on.restart") {
					e["restart"] = g.chance(0.7)
				}
				if g.want("service.depends_on.required") {
					e["required"] = g.chance(0.5)
				}
				g.ext(e, "service.depends_on")
				m[d] = e
			}
			s["depends_on"] = m
		} else {
			l := L{}
			for _, d := range deps {
				l = append(l, d)
			}
			s["depends_on"] = l
		}
	}
	if g.want("service.deploy") {
		d := g.deploy(info, sh)
		if len(d) > 0 {
			s["deploy"] = d
		}
	}
	if g.want("service.device_cgroup_rules") {
		s["device_cgroup_rules"] = g.words(1, 2, "c 1:3 mr", "a 7:* rmw")
	}
	if g.want("service.devices") {
		l := L{}
		for i, d := range subset(g, []string{"/dev/ttyUSB0", "/dev/sda", "/dev/fuse"}, g.n(1, 2)) {
			if g.long() {
				m := M{"source": d, "target": d + fmt.Sprint(i)}
				if g.chance(0.7) {
					m["permissions"] = pick(g, "rwm", "r", "rw")
				}
				g.ext(m, "service.devices")
				l = append(l, m)
			} else {
				l = append(l, pick(g, d, d+":"+d+"x", d+":"+d+"x:rw"))
			}
		}
		s["devices"] = l
	}
	if g.want("service.dns") {
		s["dns"] = g.stringOrList(g.words(1, 2, "8.8.8.8", "9.9.9.9", "2001:4860:4860::8888"))
	}
	if g.want("service.dns_opt") {
		s["dns_opt"] = g.words(1, 2, "use-vc", "no-tld-query", "ndots:2")
	}
	if g.want("service.dns_search") {
		s["dns_search"] = g.stringOrList(g.words(1, 2, "dc1.example.com", "dc2.example.com"))
	}
	g.strAttr(s, "service.domainname", "domainname", "foo.com", "example.org")
	if g.want("service.entrypoint") {
		s["entrypoint"] = g.command()
	}
	if g.want("service.environment") {
		s["environment"] = g.kv("env", 1, 4, true, true)
	}
	if g.want("service.env_file") {
		s["env_file"] = g.envFiles(info)
	}
	if g.want("service.expose") {
		s["expose"] = L{fmt.Sprint(7000 + info.index), 8000 + info.index, fmt.Sprintf("%d-%d", 9000+info.index*10, 9003+info.index*10)}
		if g.chance(0.5) {
			s["expose"] = append(s["expose"].(L), fmt.Sprintf("%d/udp", 6000+info.index))
		}
	}
	if g.want("service.external_links") {
		s["external_links"] = g.words(1, 3, "redis_1", "project_db_1:mysql", "project_db_1:postgresql")
	}
	if g.want("service.extra_hosts") {
		s["extra_hosts"] = g.extraHosts()
	}
	if g.want("service.group_add") {
		s["group_add"] = L{"mail", pick[any](g, "1000", 1000)}
	}
	if g.want("service.gpus") {
		s["gpus"] = g.deviceRequests("service.gpus", false)
	}
	g.strAttr(s, "service.hostname", "hostname", "foo", "my-host")
	if g.want("service.healthcheck") {
		s["healthcheck"] = g.healthcheck()
	}
	if g.want("service.init") {
		s["init"] = g.chance(0.6)
	}
	if g.want("service.ipc") {
		opts := []string{"host", "shareable", "private", "container:abc"}
		if len(info.peers) > 0 {
			opts = append(opts, "service:"+pick(g, info.peers...))
		}
		s["ipc"] = opts[(g.alt(info, len(opts))+len(opts)-1)%len(opts)]
	}
	g.strAttr(s, "service.isolation", "isolation", "default", "process", "hyperv")
	if g.want("service.labels") {
		s["labels"] = g.kv("com.example", 1, 4, false, true)
	}
	if g.want("service.label_file") {
		l := L{}
		n := g.n(1, 2)
		for i := 0; i < n; i++ {
			l = append(l, g.file("labels", info.name, ".label", fmt.Sprintf("com.file.%s.l%d=%s\nLF_SHARED=label-file-%d\n", info.name, i, g.word(), i)))
		}
		s["label_file"] = l
	}
	if g.want("service.links") && len(info.peers) > 0 {
		l := L{}
		for _, p := range subset(g, info.peers, g.n(1, 2)) {
			if g.chance(0.5) {
				l = append(l, p+":"+g.word())
			} else {
				l = append(l, p)
			}
		}
		s["links"] = l
	}
	if g.want("service.logging") {
		lg := M{}
		g.strAttr(lg, "logging.driver", "driver", "syslog", "json-file", "none")
		if g.want("logging.options") {
			o := g.strMap("log-opt", 1, 3)
			if g.chance(0.3) {
				o["nullopt"] = nil
			}
			lg["options"] = o
		}
		g.ext(lg, "logging")
		s["logging"] = lg
	}
	if sh.mem != nil {
		s["mem_limit"] = sh.mem
	}
	if sh.memRes != nil {
		s["mem_reservation"] = sh.memRes
	}
	if g.want("service.memswap_limit") {
		s["memswap_limit"] = pick[any](g, "2g", -1, 2147483648)
	}
	g.intAttr(s, "service.mem_swappiness", "mem_swappiness", 1, 100)
	if g.want("service.mac_address") {
		s["mac_address"] = g.mac()
	}
	// network_mode XOR networks
	useMode := g.want("service.network_mode") && (sat && info.index%4 == 1 || !sat && g.chance(0.25))
	if useMode {
		opts := []string{"bridge", "host", "none", "container:0cfeab0f748b"}
		if len(info.peers) > 0 {
			opts = append(opts, "service:"+info.peers[0], "service:"+info.peers[0])
		}
		s["network_mode"] = opts[len(opts)-1-g.alt(info, len(opts))%len(opts)]
		if sat {
			s["network_mode"] = opts[len(opts)-1]
		}
	} else if g.want("service.networks") {
		s["networks"] = g.serviceNetworks(info)
	}
	g.boolAttr(s, "service.oom_kill_disable", "oom_kill_disable")
	g.intAttr(s, "service.oom_score_adj", "oom_score_adj", -1000, 1000)
	if g.want("service.pid") {
		opts := []string{"host", "container:xyz"}
		if len(info.peers) > 0 {
			opts = append(opts, "service:"+pick(g, info.peers...))
		}
		s["pid"] = opts[g.alt(info, len(opts))]
	}
	if sh.pids != nil {
		s["pids_limit"] = *sh.pids
	}
	if g.want("service.platform") {
		if len(sh.platforms) > 0 {
			s["platform"] = sh.platforms[0]
		} else {
			s["platform"] = "linux/amd64"
		}
	}
	if g.want("service.ports") && !useMode {
		s["ports"] = g.ports(info)
	}
	g.boolAttr(s, "service.privileged", "privileged")
	g.strAttr(s, "service.pull_policy", "pull_policy", "always", "never", "missing", "build", "if_not_present")
	g.boolAttr(s, "service.read_only", "read_only")
	g.strAttr(s, "service.restart", "restart", "no", "always", "on-failure", "on-failure:3", "unless-stopped")
	g.strAttr(s, "service.runtime", "runtime", "runc", "nvidia")
	if sh.scale != nil && g.want("service.scale") {
		s["scale"] = *sh.scale
	}
	if g.want("service.secrets") && len(g.secrets) > 0 {
		s["secrets"] = g.fileRefs("service.secrets", g.secrets, info, true)
	}
	if g.want("service.security_opt") {
		s["security_opt"] = g.words(1, 2, "label=level:s0:c100,c200", "label=type:svirt_apache_t", "no-new-privileges:true")
	}
	if g.want("service.shm_size") {
		s["shm_size"] = g.bytes()
	}
	g.boolAttr(s, "service.stdin_open", "stdin_open")
	if g.want("service.stop_grace_period") {
		s["stop_grace_period"] = g.duration()
	}
	g.strAttr(s, "service.stop_signal", "stop_signal", "SIGUSR1", "SIGTERM")
	if g.want("service.storage_opt") {
		s["storage_opt"] = M{"size": pick[any](g, "20G", "1G")}
	}
	if g.want("service.sysctls") {
		if g.long() {
			s["sysctls"] = M{"net.core.somaxconn": 1024, "net.ipv4.tcp_syncookies": pick[any](g, 0, "1")}
		} else {
			s["sysctls"] = L{"net.core.somaxconn=1024", "net.ipv4.tcp_syncookies=0"}
		}
	}
	if g.want("service.tmpfs") {
		s["tmpfs"] = g.stringOrList(g.words(1, 2, "/run", "/tmp", "/run/lock:size=64m"))
	}
	g.boolAttr(s, "service.tty", "tty")
	if g.want("service.ulimits") {
		s["ulimits"] = g.ulimits()
	}
	g.strAttr(s, "service.user", "user", "someone", "1000:1000", "0")
	g.strAttr(s, "service.userns_mode", "userns_mode", "host")
	g.strAttr(s, "service.uts", "uts", "host")
	if g.want("service.volumes") {
		s["volumes"] = g.mounts(info)
	}
	if g.want("service.volumes_from") && len(info.peers) > 0 {
		l := L{}
		for _, p := range subset(g, info.peers, g.n(1, 2)) {
			l = append(l, p+pick(g, "", ":ro", ":rw"))
		}
		if g.chance(0.3) {
			l = append(l, "container:some-container:ro")
		}
		s["volumes_from"] = l
	}
	g.strAttr(s, "service.working_dir", "working_dir", "/code", "/srv/app")
	if g.want("service.post_start") {
		s["post_start"] = L{g.hook("service.post_start")}
	}
	if g.want("service.pre_stop") {
		s["pre_stop"] = L{g.hook("service.pre_stop"), g.hook("service.pre_stop")}
	}
	if g.Cfg.Deprecated {
		// attributes the typed model still carries but the schema no longer lists
		if !useMode && g.chance(0.5) {
			s["net"] = "bridge"
		}
		s["log_driver"] = "syslog"
		s["log_opt"] = M{"syslog-address": "tcp://192.168.0.42:123"}
		s["dockerfile"] = "Dockerfile.old"
		s["volume_driver"] = "local"
		if b, ok := s["blkio_config"].(M); ok {
			b["x-blkio"] = "ext"
			for _, k := range []string{"weight_device", "device_read_bps"} {
				if l, ok := b[k].(L); ok && len(l) > 0 {
					l[0].(M)["x-dev"] = "ext"
				}
			}
		}
		g.m.NeedsSkipValidation = true
	}
	g.ext(s, "service")
	return s
}
