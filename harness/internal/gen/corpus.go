package gen

import (
	"os"
	"path/filepath"
	"runtime/debug"
	"sort"
	"strings"

	"verif/harness/internal/ld"
)

// RepoDir returns the directory of the compose-go tree this binary was built
// against (the target of the module replacement), or "".
func RepoDir() string {
	bi, ok := debug.ReadBuildInfo()
	if !ok {
		return ""
	}
	for _, d := range bi.Deps {
		if d.Path == "github.com/compose-spec/compose-go/v2" && d.Replace != nil {
			return d.Replace.Path
		}
	}
	return ""
}

// Corpus returns the compose files shipped with the loader of the tree under
// test (full-example.yml and loader/testdata/**) as self-contained cases: each
// case carries every non-Go file of the loader directory and loads one compose
// file from its own directory. Cases are sorted by name. Many of them are
// deliberately invalid (cycles, missing files): callers must not expect a
// successful load.
func Corpus() []*ld.Case {
	root := RepoDir()
	if root == "" {
		return nil
	}
	base := filepath.Join(root, "loader")
	files := map[string]string{}
	var composes []string
	_ = filepath.Walk(base, func(p string, info os.FileInfo, err error) error {
		if err != nil || info.IsDir() || strings.HasSuffix(p, ".go") || info.Size() > 1<<20 {
			return nil
		}
		rel, err := filepath.Rel(base, p)
		if err != nil {
			return nil
		}
		b, err := os.ReadFile(p)
		if err != nil {
			return nil
		}
		files[rel] = string(b)
		if strings.HasSuffix(rel, ".yaml") || strings.HasSuffix(rel, ".yml") {
			composes = append(composes, rel)
		}
		return nil
	})
	sort.Strings(composes)
	var out []*ld.Case
	for _, c := range composes {
		cs := &ld.Case{Files: files, ComposeFiles: []string{c}, WorkingDir: filepath.Dir(c),
			Env: map[string]string{"HOME": "/home/verif", "BAR": "bar-from-env", "QUX": "qux-from-env"}}
		out = append(out, cs)
	}
	return out
}
