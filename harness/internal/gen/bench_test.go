package gen

import (
	"math/rand"
	"os"
	"testing"
	"time"

	"verif/harness/internal/ld"
)

func TestSpeed(t *testing.T) {
	work := t.TempDir()
	os.Setenv("HOME", work)
	for _, d := range []float64{0.1, 0.1, 0.3, 0.6, 1} {
		m := Draw(rand.New(rand.NewSource(5)), Config{Density: d, Profiles: true})
		c := m.Case(ld.Opts{})
		t0 := time.Now()
		n := 0
		for i := 0; i < 10; i++ {
			_, res := ld.Run(work, c)
			if res.Err == nil {
				n++
			}
		}
		size := 0
		for _, f := range c.Files {
			size += len(f)
		}
		t.Logf("density %.1f: %v per load (%d ok), %d bytes", d, time.Since(t0)/10, n, size)
	}
}
