// Package gen draws rich, valid Compose models by seed.
//
// A Model is a *semantic* single document (Doc: a tree of map[string]any /
// []any / scalars, consistent by construction: every reference is declared,
// the dependency graph is acyclic, exclusive attributes are never combined)
// plus the auxiliary files it references, the environment of the load and an
// optional Layout that says how the document is spread over several files
// (override file, extends bases, included file). Materialisation
// (Model.Case) is a pure function of the model, so a model can be pruned
// (Shrink, Remove) or rewritten (Walk) and materialised again.
//
// Attribute values are transcribed from the Compose specification (service,
// build, deploy, develop chapters), never from compose-go's own tables.
// Every attribute has a path ("service.cpu_count", "build.ssh",
// "deploy.update_config", "network.ipam" ...) which Config.Force / Config.Avoid
// / Config.Density act on; Paths() lists them all.
package gen

import (
	"fmt"
	"math/rand"
	"sort"
	"strings"

	"verif/harness/internal/ld"
)

// M and L are the node types of a document tree.
type (
	M = map[string]any
	L = []any
)

// Config steers a draw.
type Config struct {
	// MaxServices bounds the number of services (default 4).
	MaxServices int
	// Density is the probability with which each optional attribute is present
	// (1 = saturated model: every attribute that can be combined is present).
	Density float64
	// Force lists attribute paths that must be present whenever their parent is.
	Force map[string]bool
	// Avoid lists attribute paths never generated.
	Avoid map[string]bool
	// Spelling: "" mixed short/long syntaxes, "long" canonical long forms only.
	Spelling string
	// Profiles enables services with profiles (and a drawn set of active profiles).
	Profiles bool
	// Layout enables multi-file layouts (override file, extends, include).
	Layout bool
	// Variables replaces some string scalars by ${VAR} references resolved from Env.
	Variables bool
	// Deprecated adds attributes the JSON schema does not know (net, log_driver,
	// log_opt, dockerfile, volume_driver); such a model only loads with SkipValidation.
	Deprecated bool
	// TrickyText allows scalar texts that look like other YAML types or need quoting.
	TrickyText bool
	// EnvFileFormat lets env_file entries carry `format` (no format is registered in
	// compose-go itself, so such a model only loads with SkipResolveEnvironment).
	EnvFileFormat bool
	// SharedFiles makes two or more services list the same env file and the same label file,
	// whose values refer to a variable that the file listed before it defines differently for
	// each service (the content of such a file depends on the service it is read for).
	SharedFiles bool
	// MultiSSH makes build.ssh (when drawn) carry at least two keys.
	MultiSSH bool
}

// Model is one generated input.
type Model struct {
	// Doc is the semantic single-file document.
	Doc M `json:"doc"`
	// Files are the auxiliary files (env files, label files, secret and config
	// sources, .env of an included project), relative to the case directory.
	Files map[string]string `json:"files,omitempty"`
	// Env is the environment handed to the loader.
	Env map[string]string `json:"env,omitempty"`
	// Vars are the variables the documents refer to (set in Env, or unset with a default in the reference).
	Vars []string `json:"vars,omitempty"`
	// Profiles are the active profiles.
	Profiles []string `json:"profiles,omitempty"`
	// Layout spreads Doc over several files (nil: single compose.yaml).
	Layout *Layout `json:"layout,omitempty"`
	// NameInFile: the project name is given by the `name:` key of Doc, not imperatively.
	NameInFile bool `json:"name_in_file,omitempty"`
	// Order seeds the key order of rendered mappings (0: sorted keys).
	Order int64 `json:"order,omitempty"`
	// NeedsSkipValidation: the model uses attributes unknown to the schema.
	NeedsSkipValidation bool `json:"needs_skip_validation,omitempty"`
	// NeedsSkipResolveEnv: the model uses an env_file format only a client registers.
	NeedsSkipResolveEnv bool `json:"needs_skip_resolve_env,omitempty"`
}

// G is a generator instance.
type G struct {
	R   *rand.Rand
	Cfg Config

	m        *Model
	networks []string
	volumes  []string
	secrets  []string
	configs  []string
	nfile    int
	nvar     int
	rec      map[string]bool
}

// Draw generates one model from r under cfg.
func Draw(r *rand.Rand, cfg Config) *Model {
	if cfg.MaxServices <= 0 {
		cfg.MaxServices = 4
	}
	g := &G{R: r, Cfg: cfg, m: &Model{Doc: M{}, Files: map[string]string{}, Env: map[string]string{}}}
	g.project()
	if cfg.Variables {
		g.variablise()
	}
	if cfg.Layout {
		g.m.Layout = g.layout()
	}
	return g.m
}

// Paths lists the attribute paths Config.Force / Config.Avoid act on (collected from saturated draws).
func Paths() []string {
	rec := map[string]bool{}
	for seed := int64(1); seed <= 8; seed++ {
		cfg := Saturated()
		cfg.EnvFileFormat = true
		g := &G{R: rand.New(rand.NewSource(seed)), Cfg: cfg, rec: rec, m: &Model{Doc: M{}, Files: map[string]string{}, Env: map[string]string{}}}
		g.project()
	}
	out := make([]string, 0, len(rec))
	for p := range rec {
		out = append(out, p)
	}
	sort.Strings(out)
	return out
}

// Saturated is the configuration that makes every attribute present.
func Saturated() Config {
	return Config{MaxServices: 4, Density: 1, Profiles: true, TrickyText: true}
}

// want decides whether the optional attribute at path is generated.
func (g *G) want(path string) bool {
	if g.rec != nil {
		g.rec[path] = true
	}
	if g.Cfg.Avoid[path] {
		return false
	}
	if g.Cfg.Force[path] {
		return true
	}
	if g.Cfg.Density >= 1 {
		return true
	}
	return g.R.Float64() < g.Cfg.Density
}

func (g *G) chance(p float64) bool { return g.R.Float64() < p }
func (g *G) n(lo, hi int) int      { return lo + g.R.Intn(hi-lo+1) }
func (g *G) long() bool            { return g.Cfg.Spelling == "long" || g.chance(0.5) }

func pick[T any](g *G, xs ...T) T { return xs[g.R.Intn(len(xs))] }

// subset returns k distinct elements of xs (k clipped), in a drawn order.
func subset[T any](g *G, xs []T, k int) []T {
	if k > len(xs) {
		k = len(xs)
	}
	idx := g.R.Perm(len(xs))[:k]
	out := make([]T, 0, k)
	for _, i := range idx {
		out = append(out, xs[i])
	}
	return out
}

func (g *G) file(dir, base, ext, content string) string {
	g.nfile++
	name := fmt.Sprintf("%s/%s%d%s", dir, base, g.nfile, ext)
	g.m.Files[name] = content
	return "./" + name
}

// project draws the whole document.
func (g *G) project() {
	doc := g.m.Doc
	nNet, nVol, nSec, nCfg := g.n(1, 3), g.n(1, 3), g.n(1, 3), g.n(1, 3)
	if g.Cfg.Density >= 1 {
		nNet, nVol, nSec, nCfg = 4, 4, 4, 4
	}
	// environment available to interpolation / environment resolution
	g.m.Env["FROM_ENV"] = "from-env"
	g.m.Env["SECRET_ENV"] = "s3cr3t-value"
	g.m.Env["CONFIG_ENV"] = "config value from env"

	nets, vols, secs, cfgs := M{}, M{}, M{}, M{}
	for i := 0; i < nNet; i++ {
		name := fmt.Sprintf("net%d", i)
		nets[name] = g.network(i)
		g.networks = append(g.networks, name)
	}
	for i := 0; i < nVol; i++ {
		name := fmt.Sprintf("vol%d", i)
		vols[name] = g.volume(i)
		g.volumes = append(g.volumes, name)
	}
	for i := 0; i < nSec; i++ {
		name := fmt.Sprintf("sec%d", i)
		secs[name] = g.secret(i)
		g.secrets = append(g.secrets, name)
	}
	for i := 0; i < nCfg; i++ {
		name := fmt.Sprintf("cfg%d", i)
		cfgs[name] = g.config(i)
		g.configs = append(g.configs, name)
	}

	nSvc := g.n(1, g.Cfg.MaxServices)
	if g.Cfg.Density >= 1 {
		nSvc = g.Cfg.MaxServices
	}
	services := M{}
	var infos []*svcInfo
	profilePool := []string{"debug", "tools"}
	for i := 0; i < nSvc; i++ {
		info := &svcInfo{name: fmt.Sprintf("%s%d", pick(g, "web", "db", "api", "job", "cache", "web.api", "db.primary.eu"), i), index: i} // some names contain dots (legal user-chosen keys)
		if g.Cfg.Profiles && i > 0 && g.chance(0.35) {
			info.profiles = subset(g, profilePool, g.n(1, 2))
			sort.Strings(info.profiles)
		}
		// services this one may reference: earlier ones that are enabled whenever it is
		for _, o := range infos {
			if len(o.profiles) == 0 || strings.Join(o.profiles, ",") == strings.Join(info.profiles, ",") {
				info.peers = append(info.peers, o.name)
			}
		}
		services[info.name] = g.service(info)
		infos = append(infos, info)
	}
	doc["services"] = services
	if g.Cfg.SharedFiles && len(infos) >= 2 {
		g.sharedFiles(services, infos)
	}
	usesDefault := false
	for _, s := range services {
		sm := s.(M)
		if _, ok := sm["network_mode"]; ok {
			continue
		}
		n, ok := sm["networks"]
		if !ok {
			usesDefault = true
			continue
		}
		switch v := n.(type) {
		case L:
			for _, e := range v {
				if e == "default" {
					usesDefault = true
				}
			}
		case M:
			if _, ok := v["default"]; ok {
				usesDefault = true
			}
		}
	}
	if usesDefault && g.want("network.default-declared") && g.chance(0.5) {
		nets["default"] = g.network(99)
	}
	doc["networks"] = nets
	doc["volumes"] = vols
	doc["secrets"] = secs
	doc["configs"] = cfgs
	if g.want("project.extensions") {
		doc["x-top"] = g.extValue(0)
		if g.chance(0.5) {
			doc["x-list"] = L{"a", 1, M{"k": "v"}}
		}
	}
	if g.Cfg.Profiles {
		switch g.R.Intn(3) {
		case 0:
		case 1:
			g.m.Profiles = []string{"debug"}
		case 2:
			g.m.Profiles = []string{"debug", "tools"}
		}
	}
	if g.chance(0.15) && !g.Cfg.Avoid["project.name"] {
		g.m.NameInFile = true
		doc["name"] = pick(g, "myproj", "app-1", "demo_2")
	}
}

// sharedFiles makes several services list one env file and one label file whose content
// depends on what the file listed before defines.
func (g *G) sharedFiles(services M, infos []*svcInfo) {
	g.m.Files["env/shared.env"] = "SHARED_QUEUE=jobs-${TIER}\nSHARED_PLAIN=plain\nSHARED_DEFAULT=${TIER_UNSET:-none}\n"
	g.m.Files["labels/shared.label"] = "com.shared.queue=queue-${LTIER}\ncom.shared.plain=plain\n"
	users := subset(g, infos, g.n(2, len(infos)))
	for _, info := range users {
		s := services[info.name].(M)
		if _, mode := s["env_file"].(L); !mode {
			if v, ok := s["env_file"].(string); ok {
				s["env_file"] = L{v}
			} else if s["env_file"] == nil {
				s["env_file"] = L{}
			}
		}
		tier := "env/" + info.name + "-tier.env"
		g.m.Files[tier] = "TIER=" + info.name + "\n"
		var shared any = "./env/shared.env"
		if g.long() {
			shared = M{"path": "./env/shared.env", "required": true}
		}
		s["env_file"] = append(s["env_file"].(L), "./"+tier, shared)
		ltier := "labels/" + info.name + "-tier.label"
		g.m.Files[ltier] = "LTIER=" + info.name + "\n"
		lf, _ := s["label_file"].(L)
		s["label_file"] = append(lf, "./"+ltier, "./labels/shared.label")
	}
}

// Case materialises the model as a loadable case.
func (m *Model) Case(opts ld.Opts) *ld.Case {
	c := &ld.Case{Files: map[string]string{}, Env: map[string]string{}, Opts: opts}
	for k, v := range m.Files {
		c.Files[k] = v
	}
	for k, v := range m.Env {
		c.Env[k] = v
	}
	c.Opts.Profiles = append([]string(nil), m.Profiles...)
	if m.NameInFile {
		c.Opts.Name = "-"
	}
	if m.NeedsSkipValidation {
		c.Opts.SkipValidation = true
	}
	if m.NeedsSkipResolveEnv {
		c.Opts.SkipResolveEnvironment = true
	}
	for _, dir := range m.Layout.MirrorDirs() {
		for k, v := range m.Files {
			c.Files[dir+"/"+k] = v
		}
	}
	for i, d := range m.Layout.Apply(m.Doc) {
		var text []byte
		for j, doc := range d.Docs {
			var order *rand.Rand
			if m.Order != 0 {
				order = rand.New(rand.NewSource(m.Order + int64(i*16+j)))
			}
			if j > 0 {
				text = append(text, "---\n"...)
			}
			text = append(text, Render(doc, order)...)
		}
		c.Files[d.Name] = string(text)
		if d.Compose {
			c.ComposeFiles = append(c.ComposeFiles, d.Name)
		}
	}
	return c
}

// Clone deep-copies the model.
func (m *Model) Clone() *Model {
	n := *m
	n.Doc = CloneTree(m.Doc).(M)
	n.Files = map[string]string{}
	for k, v := range m.Files {
		n.Files[k] = v
	}
	n.Env = map[string]string{}
	for k, v := range m.Env {
		n.Env[k] = v
	}
	n.Profiles = append([]string(nil), m.Profiles...)
	n.Vars = append([]string(nil), m.Vars...)
	if m.Layout != nil {
		n.Layout = m.Layout.clone()
	}
	return &n
}

// CloneTree deep-copies a document tree.
func CloneTree(v any) any {
	switch t := v.(type) {
	case M:
		c := make(M, len(t))
		for k, e := range t {
			c[k] = CloneTree(e)
		}
		return c
	case L:
		c := make(L, len(t))
		for i, e := range t {
			c[i] = CloneTree(e)
		}
		return c
	default:
		return v
	}
}

// Key is a stable textual form of the model's input (for distinct counting).
func (m *Model) Key() string {
	c := m.Case(ld.Opts{})
	return c.Key()
}
