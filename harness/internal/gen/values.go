package gen

import (
	"fmt"
	"strings"
)

var (
	wordPool = []string{"alpha", "beta", "gamma", "delta", "omega", "north", "south", "blue", "green", "red"}
	capPool  = []string{"ALL", "NET_ADMIN", "SYS_ADMIN", "SYS_PTRACE", "CHOWN", "NET_RAW", "MKNOD"}
	// texts that resolve to another YAML type unless quoted, or need escaping
	trickyPool = []string{
		"true", "false", "yes", "no", "on", "off", "y", "n", "null", "~", "", "42", "007", "0x1F", "0o17", "1e3", "1.50", ".5", "-1",
		"1_000", "12:30:45", "2001-12-14", ".inf", ".nan", "=", "a=b", "a: b", "a #b", "#hash", "- dash", "[x]", "{x}", "*star", "&amp", "!bang",
		"|pipe", ">gt", "%pct", "@at", "`tick", "'single'", "\"double\"", "back\\slash", " lead", "trail ", "tab\there", "multi\nline", "multi\nline\n",
		"café", "日本", "a,b", "a;b", "?q", ": colon", "x:", "<<",
	}
	durationPool = []string{"10s", "1m30s", "500ms", "2h", "1h5m10s", "0s", "90s", "1.5s", "100us"}
	bytesPool    = []any{"64m", "1g", "512k", 1048576, "2gb", "100b", 4096, "1.5m"}
	imagePool    = []string{"redis", "nginx:1.25", "ghcr.io/acme/app:v1.2.3", "busybox@sha256:38a203e1986cf79639cfb9b2e1d6e773de84002feea2d4eb006b52004ee8502d", "localhost:5000/x/y"}
)

func (g *G) word() string { return pick(g, wordPool...) }

// text is a free string value (label value, env value, option value). Never contains '$'.
func (g *G) text() string {
	if g.Cfg.TrickyText && g.chance(0.3) {
		return pick(g, trickyPool...)
	}
	switch g.R.Intn(4) {
	case 0:
		return g.word()
	case 1:
		return g.word() + " " + g.word()
	case 2:
		return fmt.Sprintf("%s-%d", g.word(), g.R.Intn(100))
	default:
		return fmt.Sprintf("/%s/%s", g.word(), g.word())
	}
}

// plain is a text that is safe in `KEY=value` list spellings (single line).
func (g *G) plain() string {
	for i := 0; i < 20; i++ {
		t := g.text()
		if !strings.ContainsAny(t, "\n") {
			return t
		}
	}
	return g.word()
}

func (g *G) key(prefix string, i int) string {
	return fmt.Sprintf("%s%s%d", prefix, pick(g, ".", "_", "-", ""), i)
}

func (g *G) duration() string { return pick(g, durationPool...) }
func (g *G) bytes() any       { return pick(g, bytesPool...) }

// scalarOpt is an option value the schema admits as string or number.
func (g *G) scalarOpt() any {
	if g.chance(0.3) {
		return g.R.Intn(1000)
	}
	return g.plain()
}

// kv draws a KEY=VALUE set. nulls: entries without value are allowed
// (environment, args). numbers: mapping spelling may carry numbers.
// The result is spelled as a list or as a mapping.
func (g *G) kv(prefix string, lo, hi int, nulls, numbers bool) any {
	n := g.n(lo, hi)
	type ent struct {
		k string
		v any
	}
	var ents []ent
	for i := 0; i < n; i++ {
		e := ent{k: strings.ToUpper(prefix) + fmt.Sprintf("_%d", i)}
		if prefix == "com.example" || strings.Contains(prefix, ".") {
			e.k = fmt.Sprintf("%s.%s%d", prefix, g.word(), i)
		}
		switch {
		case nulls && g.chance(0.2):
			e.v = nil
		case numbers && g.chance(0.2):
			e.v = g.R.Intn(5000)
		default:
			e.v = g.text()
		}
		ents = append(ents, e)
	}
	if nulls && g.chance(0.3) {
		// a valueless entry resolved from the environment of the load
		ents = append(ents, ent{k: "FROM_ENV", v: nil})
	}
	asList := !g.long()
	if asList {
		for _, e := range ents {
			if s, ok := e.v.(string); ok && strings.Contains(s, "\n") {
				asList = false
			}
		}
	}
	if asList {
		l := L{}
		for _, e := range ents {
			switch v := e.v.(type) {
			case nil:
				l = append(l, e.k)
			default:
				l = append(l, fmt.Sprintf("%s=%v", e.k, v))
			}
		}
		return l
	}
	m := M{}
	for _, e := range ents {
		m[e.k] = e.v
	}
	return m
}

// strMap draws a mapping of option strings (driver_opts, options, storage_opt).
func (g *G) strMap(prefix string, lo, hi int) M {
	m := M{}
	n := g.n(lo, hi)
	for i := 0; i < n; i++ {
		m[g.key(prefix, i)] = g.scalarOpt()
	}
	return m
}

func (g *G) words(lo, hi int, pool ...string) L {
	if len(pool) == 0 {
		pool = wordPool
	}
	out := L{}
	for _, w := range subset(g, pool, g.n(lo, hi)) {
		out = append(out, w)
	}
	return out
}

// stringOrList spells a list of strings either as a list or, when it has one element, as a string.
func (g *G) stringOrList(l L) any {
	if len(l) == 1 && !g.long() {
		return l[0]
	}
	return l
}

func (g *G) extValue(depth int) any {
	if depth > 0 && g.R.Intn(12) == 0 {
		return nil // `x-foo:` without a value
	}
	switch g.R.Intn(5) {
	case 0:
		return g.text()
	case 1:
		return g.R.Intn(100)
	case 2:
		return g.chance(0.5)
	case 3:
		if depth < 2 {
			if g.chance(0.3) {
				// the payload of an extension is opaque: keys that look like extensions themselves are just keys
				return M{"k1": g.extValue(depth + 1), "x-owner": g.word(), "items": L{M{"x-note": g.word(), "n": 1}}}
			}
			return M{"k1": g.extValue(depth + 1), "k2": L{g.word(), 3, 1.5}}
		}
		return g.word()
	default:
		return L{g.word(), g.word()}
	}
}

// ext adds an x- extension to m when wanted.
func (g *G) ext(m M, path string) {
	if g.want(path + ".x") {
		m["x-"+g.word()] = g.extValue(1)
	}
}

func (g *G) ipv4() string {
	return fmt.Sprintf("172.%d.%d.%d", g.n(16, 31), g.n(0, 254), g.n(2, 254))
}

func (g *G) ipv6() string {
	return pick(g, "2001:db8::10", "fe80::1", "::1", "2001:3984:3989::10")
}

func (g *G) mac() string {
	return fmt.Sprintf("02:42:ac:11:%02x:%02x", g.R.Intn(256), g.R.Intn(256))
}

// ---- top-level resources ----------------------------------------------------

func (g *G) external(m M, path string, i int) bool {
	if !g.want(path+".external") || g.Cfg.Density < 1 && !g.chance(0.3) || g.Cfg.Density >= 1 && i != 1 {
		return false
	}
	m["external"] = true
	if g.chance(0.5) {
		m["name"] = fmt.Sprintf("ext-%s-%d", g.word(), i)
	}
	g.ext(m, path)
	return true
}

func (g *G) network(i int) any {
	m := M{}
	if i != 99 && g.external(m, "network", i) {
		return m
	}
	if g.want("network.name") && g.chance(0.5) {
		m["name"] = fmt.Sprintf("%s-net-%d", g.word(), i)
	}
	if g.want("network.driver") {
		m["driver"] = pick(g, "bridge", "overlay", "macvlan")
	}
	if g.want("network.driver_opts") {
		m["driver_opts"] = g.strMap("com.docker.network.opt", 1, 3)
	}
	if g.want("network.ipam") {
		ipam := M{}
		if g.want("network.ipam.driver") {
			ipam["driver"] = "default"
		}
		if g.want("network.ipam.config") {
			cfg := L{}
			n := g.n(1, 3)
			for k := 0; k < n; k++ {
				pool := M{}
				if k%2 == 0 {
					base := fmt.Sprintf("172.%d", 16+g.R.Intn(16))
					pool["subnet"] = base + ".0.0/16"
					if g.want("network.ipam.config.ip_range") {
						pool["ip_range"] = base + ".5.0/24"
					}
					if g.want("network.ipam.config.gateway") {
						pool["gateway"] = base + ".5.254"
					}
					if g.want("network.ipam.config.aux_addresses") {
						pool["aux_addresses"] = M{"host1": base + ".1.5", "host2": base + ".1.6"}
					}
				} else {
					pool["subnet"] = "2001:db8:" + fmt.Sprint(k) + "::/64"
					if g.want("network.ipam.config.gateway") {
						pool["gateway"] = "2001:db8:" + fmt.Sprint(k) + "::1"
					}
				}
				g.ext(pool, "network.ipam.config")
				cfg = append(cfg, pool)
			}
			ipam["config"] = cfg
		}
		g.ext(ipam, "network.ipam")
		if len(ipam) > 0 {
			m["ipam"] = ipam
		}
	}
	if g.want("network.internal") {
		m["internal"] = true
	}
	if g.want("network.attachable") {
		m["attachable"] = true
	}
	if g.want("network.enable_ipv6") {
		m["enable_ipv6"] = g.chance(0.7)
	}
	if g.want("network.labels") {
		m["labels"] = g.kv("com.example", 1, 3, false, true)
	}
	g.ext(m, "network")
	if len(m) == 0 && g.chance(0.5) {
		return nil
	}
	return m
}

func (g *G) volume(i int) any {
	m := M{}
	if g.external(m, "volume", i) {
		return m
	}
	if g.want("volume.name") && g.chance(0.5) {
		m["name"] = fmt.Sprintf("%s-vol-%d", g.word(), i)
	}
	if g.want("volume.driver") {
		m["driver"] = pick(g, "local", "flocker", "vsphere")
	}
	if g.want("volume.driver_opts") {
		m["driver_opts"] = g.strMap("opt", 1, 3)
	}
	if g.want("volume.labels") {
		m["labels"] = g.kv("com.example", 1, 3, false, true)
	}
	g.ext(m, "volume")
	if len(m) == 0 && g.chance(0.5) {
		return nil
	}
	return m
}

func (g *G) secret(i int) any {
	m := M{}
	if g.external(m, "secret", i) {
		return m
	}
	if (i%2 == 0) == (g.Cfg.Density >= 1) || g.Cfg.Density < 1 && g.chance(0.5) {
		m["file"] = g.file("secrets", "secret", ".txt", "secret-file-content-"+g.word()+"\n")
		if g.chance(0.2) {
			m["file"] = "/abs/secret_data"
		}
		if g.want("secret.driver") {
			m["driver"] = "secret-driver"
			m["driver_opts"] = g.strMap("sopt", 1, 2)
		}
	} else {
		m["environment"] = "SECRET_ENV"
	}
	if g.want("secret.name") && g.chance(0.5) {
		m["name"] = fmt.Sprintf("%s-secret-%d", g.word(), i)
	}
	if g.want("secret.labels") {
		m["labels"] = g.kv("com.example", 1, 2, false, true)
	}
	if g.want("secret.template_driver") {
		m["template_driver"] = "golang"
	}
	g.ext(m, "secret")
	return m
}

func (g *G) config(i int) any {
	m := M{}
	if g.external(m, "config", i) {
		return m
	}
	k := g.R.Intn(3)
	if g.Cfg.Density >= 1 {
		k = []int{0, 0, 1, 2}[i%4]
	}
	switch k {
	case 0:
		m["file"] = g.file("configs", "config", ".cfg", "config-file-content\n")
		if g.chance(0.15) {
			m["file"] = "~/config_data"
		}
	case 1:
		m["environment"] = "CONFIG_ENV"
	default:
		m["content"] = pick(g, "inline config content", "line1\nline2\n", "key = value")
	}
	if g.want("config.name") && g.chance(0.5) {
		m["name"] = fmt.Sprintf("%s-config-%d", g.word(), i)
	}
	if g.want("config.labels") {
		m["labels"] = g.kv("com.example", 1, 2, false, true)
	}
	if g.want("config.template_driver") {
		m["template_driver"] = "golang"
	}
	if g.Cfg.Deprecated {
		// the typed model carries driver / driver_opts for configs as well; the schema does not
		m["driver"] = "config-driver"
		m["driver_opts"] = g.strMap("copt", 1, 2)
	}
	g.ext(m, "config")
	return m
}
