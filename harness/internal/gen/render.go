package gen

import (
	"bytes"
	"math/rand"
	"sort"

	"gopkg.in/yaml.v3"
)

// topOrder is the conventional order of top-level keys when no order seed is given.
var topOrder = map[string]int{"name": 0, "include": 1, "services": 2, "networks": 3, "volumes": 4, "secrets": 5, "configs": 6}

// Render turns a document tree into YAML text. With order == nil mapping keys
// are sorted (top level: conventional order); otherwise every mapping's keys
// are permuted by order. Sequences keep their order (it is part of the model).
func Render(doc M, order *rand.Rand) []byte {
	n := node(doc, order, true)
	var buf bytes.Buffer
	enc := yaml.NewEncoder(&buf)
	enc.SetIndent(2)
	if err := enc.Encode(n); err != nil {
		panic("gen.Render: " + err.Error())
	}
	enc.Close()
	return buf.Bytes()
}

func node(v any, order *rand.Rand, top bool) *yaml.Node {
	switch t := v.(type) {
	case M:
		keys := make([]string, 0, len(t))
		for k := range t {
			keys = append(keys, k)
		}
		sort.Strings(keys)
		if order != nil {
			order.Shuffle(len(keys), func(i, j int) { keys[i], keys[j] = keys[j], keys[i] })
		} else if top {
			sort.SliceStable(keys, func(i, j int) bool {
				oi, ok := topOrder[keys[i]]
				if !ok {
					oi = 100
				}
				oj, ok := topOrder[keys[j]]
				if !ok {
					oj = 100
				}
				return oi < oj
			})
		}
		n := &yaml.Node{Kind: yaml.MappingNode, Tag: "!!map"}
		for _, k := range keys {
			kn := &yaml.Node{}
			_ = kn.Encode(k)
			n.Content = append(n.Content, kn, node(t[k], order, false))
		}
		return n
	case L:
		n := &yaml.Node{Kind: yaml.SequenceNode, Tag: "!!seq"}
		for _, e := range t {
			n.Content = append(n.Content, node(e, order, false))
		}
		return n
	case Raw:
		return &yaml.Node{Kind: yaml.ScalarNode, Tag: t.Tag, Value: t.Text}
	default:
		n := &yaml.Node{}
		if err := n.Encode(v); err != nil {
			panic("gen.Render scalar: " + err.Error())
		}
		return n
	}
}

// Raw is a scalar rendered verbatim with an explicit tag (e.g. `!reset null`,
// an octal literal). It is not produced by Draw; checks may plant it.
type Raw struct {
	Tag  string
	Text string
}

// Parse reads a YAML document into a tree of M / L / scalars.
func Parse(b []byte) (M, error) {
	var v any
	if err := yaml.Unmarshal(b, &v); err != nil {
		return nil, err
	}
	m, _ := normTree(v).(M)
	return m, nil
}

func normTree(v any) any {
	switch t := v.(type) {
	case map[string]any:
		for k, e := range t {
			t[k] = normTree(e)
		}
		return t
	case map[any]any:
		m := M{}
		for k, e := range t {
			if s, ok := k.(string); ok {
				m[s] = normTree(e)
			}
		}
		return m
	case []any:
		for i, e := range t {
			t[i] = normTree(e)
		}
		return t
	default:
		return v
	}
}
