package gen

import (
	"fmt"
	"sort"
	"strings"
)

// Layout says how a semantic document is spread over several files. Every
// split is a disjoint partition of keys, so no merge oracle is involved: the
// layout only decides *where* an attribute arrives from.
type Layout struct {
	// Override: service -> attribute keys that live in the override document.
	Override map[string][]string `json:"override,omitempty"`
	// Split: service -> attribute keys whose *entries* are divided between the main and the
	// override document (first half / second half), so that the same attribute arrives from
	// both files and the merge rules (append, KEY=VALUE by key) run. SplitFlip spells the
	// override half of a KEY=VALUE mapping as a list.
	Split     map[string][]string `json:"split,omitempty"`
	SplitFlip bool                `json:"split_flip,omitempty"`
	// OverrideTop: "section/key" resources declared in the override document.
	OverrideTop []string `json:"override_top,omitempty"`
	// MultiDoc: the override is a second YAML document of compose.yaml rather than a second file.
	MultiDoc bool `json:"multi_doc,omitempty"`
	// Extends: service -> chain of bases.
	Extends map[string]*Extend `json:"extends,omitempty"`
	// Include: services (and resources) that live in an included project.
	Include *Include `json:"include,omitempty"`
}

// Extend moves attribute keys of a service into a chain of base services.
type Extend struct {
	// File "" = bases are services of the same file; else the bases live in this file.
	File string `json:"file,omitempty"`
	// Levels[i] are the keys carried by base i; base i extends base i+1.
	Levels [][]string `json:"levels"`
	// Short: `extends: base` string spelling (same file only).
	Short bool `json:"short,omitempty"`
}

// Include moves services and resources into an included compose file.
type Include struct {
	Services []string `json:"services"`
	Top      []string `json:"top,omitempty"` // "section/key"
	// ProjectDirDot: long syntax with project_directory "." (paths keep resolving
	// against the main working directory); otherwise the short syntax is used and
	// the auxiliary files are mirrored under the included directory.
	ProjectDirDot bool `json:"project_dir_dot,omitempty"`
}

// DocFile is one rendered file of a case.
type DocFile struct {
	Name    string
	Docs    []M
	Compose bool // listed in ComposeFiles
}

const (
	IncludeDir = "inc"
	BaseDir    = "base"
)

func (l *Layout) clone() *Layout {
	n := &Layout{MultiDoc: l.MultiDoc, SplitFlip: l.SplitFlip, OverrideTop: append([]string(nil), l.OverrideTop...)}
	if l.Split != nil {
		n.Split = map[string][]string{}
		for k, v := range l.Split {
			n.Split[k] = append([]string(nil), v...)
		}
	}
	if l.Override != nil {
		n.Override = map[string][]string{}
		for k, v := range l.Override {
			n.Override[k] = append([]string(nil), v...)
		}
	}
	if l.Extends != nil {
		n.Extends = map[string]*Extend{}
		for k, v := range l.Extends {
			e := *v
			e.Levels = nil
			for _, lv := range v.Levels {
				e.Levels = append(e.Levels, append([]string(nil), lv...))
			}
			n.Extends[k] = &e
		}
	}
	if l.Include != nil {
		i := *l.Include
		i.Services = append([]string(nil), l.Include.Services...)
		i.Top = append([]string(nil), l.Include.Top...)
		n.Include = &i
	}
	return n
}

// MirrorDirs lists the directories under which the auxiliary files must also exist.
func (l *Layout) MirrorDirs() []string {
	if l == nil {
		return nil
	}
	var out []string
	if l.Include != nil && !l.Include.ProjectDirDot {
		out = append(out, IncludeDir)
	}
	for _, e := range l.Extends {
		if e.File != "" {
			out = append(out, BaseDir)
			break
		}
	}
	return out
}

func sortedKeys[V any](m map[string]V) []string {
	ks := make([]string, 0, len(m))
	for k := range m {
		ks = append(ks, k)
	}
	sort.Strings(ks)
	return ks
}

func section(doc M, name string) M {
	s, _ := doc[name].(M)
	return s
}

// Apply spreads doc over files. It never modifies doc and tolerates layouts
// that mention services or keys the (possibly pruned) document no longer has.
func (l *Layout) Apply(doc M) []DocFile {
	if l == nil {
		return []DocFile{{Name: "compose.yaml", Docs: []M{doc}, Compose: true}}
	}
	main := CloneTree(doc).(M)
	services := section(main, "services")
	if services == nil {
		return []DocFile{{Name: "compose.yaml", Docs: []M{main}, Compose: true}}
	}
	var files []DocFile
	baseFileServices := M{}
	sameFileBases := map[string][]string{} // service -> its same-file bases

	// ---- extends ----
	for _, name := range sortedKeys(l.Extends) {
		e := l.Extends[name]
		svc, ok := services[name].(M)
		if !ok || len(e.Levels) == 0 {
			continue
		}
		target := services
		if e.File != "" {
			target = baseFileServices
		}
		prev := ""
		for i := len(e.Levels) - 1; i >= 0; i-- {
			bname := fmt.Sprintf("%s-base%d", name, i)
			b := M{"image": "base-image:" + fmt.Sprint(i)}
			for _, k := range e.Levels[i] {
				if v, ok := svc[k]; ok {
					b[k] = v
					delete(svc, k)
				}
			}
			if prev != "" {
				b["extends"] = M{"service": prev}
			}
			target[bname] = b
			if e.File == "" {
				sameFileBases[name] = append(sameFileBases[name], bname)
			}
			prev = bname
		}
		switch {
		case e.File != "":
			svc["extends"] = M{"file": e.File, "service": prev}
		case e.Short:
			svc["extends"] = prev
		default:
			svc["extends"] = M{"service": prev}
		}
	}
	if len(baseFileServices) > 0 {
		files = append(files, DocFile{Name: BaseDir + "/base.yaml", Docs: []M{{"services": baseFileServices}}})
	}

	// ---- include ----
	if inc := l.Include; inc != nil {
		idoc := M{}
		isvc := M{}
		for _, name := range inc.Services {
			if s, ok := services[name]; ok {
				isvc[name] = s
				delete(services, name)
				for _, b := range sameFileBases[name] {
					isvc[b] = services[b]
					delete(services, b)
				}
			}
		}
		if len(isvc) > 0 {
			idoc["services"] = isvc
		}
		for _, ref := range inc.Top {
			sec, key, _ := strings.Cut(ref, "/")
			if s := section(main, sec); s != nil {
				if v, ok := s[key]; ok {
					is := section(idoc, sec)
					if is == nil {
						is = M{}
						idoc[sec] = is
					}
					is[key] = v
					delete(s, key)
				}
			}
		}
		if len(idoc) > 0 {
			files = append(files, DocFile{Name: IncludeDir + "/compose.yaml", Docs: []M{idoc}})
			if inc.ProjectDirDot {
				main["include"] = L{M{"path": "./" + IncludeDir + "/compose.yaml", "project_directory": "."}}
			} else {
				main["include"] = L{"./" + IncludeDir + "/compose.yaml"}
			}
		}
	}

	// ---- override ----
	over := M{}
	osvc := M{}
	for _, name := range sortedKeys(l.Override) {
		svc, ok := services[name].(M)
		if !ok {
			continue
		}
		o := M{}
		for _, k := range l.Override[name] {
			if k == "extends" {
				continue
			}
			if v, ok := svc[k]; ok {
				o[k] = v
				delete(svc, k)
			}
		}
		if len(o) > 0 {
			osvc[name] = o
		}
	}
	for _, name := range sortedKeys(l.Split) {
		svc, ok := services[name].(M)
		if !ok {
			continue
		}
		for _, k := range l.Split[name] {
			a, b, ok := splitEntries(svc[k], l.SplitFlip && kvKeys[k])
			if !ok {
				continue
			}
			o, _ := osvc[name].(M)
			if o == nil {
				o = M{}
				osvc[name] = o
			}
			if _, taken := o[k]; taken {
				continue
			}
			svc[k], o[k] = a, b
		}
	}
	if len(osvc) > 0 {
		over["services"] = osvc
	}
	for _, ref := range l.OverrideTop {
		sec, key, _ := strings.Cut(ref, "/")
		if s := section(main, sec); s != nil {
			if v, ok := s[key]; ok {
				os := section(over, sec)
				if os == nil {
					os = M{}
					over[sec] = os
				}
				os[key] = v
				delete(s, key)
			}
		}
	}
	for _, sec := range []string{"networks", "volumes", "secrets", "configs"} {
		if s, ok := main[sec].(M); ok && len(s) == 0 {
			delete(main, sec)
		}
	}
	switch {
	case len(over) == 0:
		files = append(files, DocFile{Name: "compose.yaml", Docs: []M{main}, Compose: true})
	case l.MultiDoc:
		files = append(files, DocFile{Name: "compose.yaml", Docs: []M{main, over}, Compose: true})
	default:
		files = append(files,
			DocFile{Name: "compose.yaml", Docs: []M{main}, Compose: true},
			DocFile{Name: "compose.override.yaml", Docs: []M{over}, Compose: true})
	}
	return files
}

// attributes holding KEY=VALUE sets (two spellings)
var kvKeys = map[string]bool{"environment": true, "labels": true, "annotations": true, "sysctls": true}

// attributes whose entries may be divided between two files: KEY=VALUE sets and append lists
var splittable = map[string]bool{"environment": true, "labels": true, "annotations": true, "sysctls": true, "cap_add": true, "cap_drop": true,
	"dns": true, "dns_opt": true, "dns_search": true, "tmpfs": true, "security_opt": true, "device_cgroup_rules": true, "external_links": true,
	"env_file": true, "label_file": true, "expose": true, "group_add": true, "ports": true, "volumes": true, "secrets": true, "configs": true, "devices": true}

// splitEntries divides a mapping or a list into two non-empty halves.
func splitEntries(v any, flip bool) (any, any, bool) {
	switch t := v.(type) {
	case M:
		if len(t) < 2 {
			return nil, nil, false
		}
		ks := sortedKeys(t)
		a, b := M{}, M{}
		for i, k := range ks {
			if i < len(ks)/2 {
				a[k] = t[k]
			} else {
				b[k] = t[k]
			}
		}
		if flip {
			l := L{}
			for _, k := range sortedKeys(b) {
				switch x := b[k].(type) {
				case nil:
					l = append(l, k)
				case string:
					if strings.Contains(x, "\n") {
						return a, b, true
					}
					l = append(l, k+"="+x)
				default:
					l = append(l, fmt.Sprintf("%s=%v", k, x))
				}
			}
			return a, l, true
		}
		return a, b, true
	case L:
		if len(t) < 2 {
			return nil, nil, false
		}
		return append(L{}, t[:len(t)/2]...), append(L{}, t[len(t)/2:]...), true
	}
	return nil, nil, false
}

// keys that are never moved out of a service by a layout
var pinned = map[string]bool{"image": true, "build": true, "profiles": true, "extends": true}

func (g *G) movable(svc M) []string {
	var ks []string
	for _, k := range sortedKeys(svc) {
		if !pinned[k] {
			ks = append(ks, k)
		}
	}
	return ks
}

// layout draws a multi-file layout for the current document.
func (g *G) layout() *Layout {
	l := &Layout{}
	services := section(g.m.Doc, "services")
	names := sortedKeys(services)
	for _, name := range names {
		svc := services[name].(M)
		ks := g.movable(svc)
		if len(ks) == 0 {
			continue
		}
		if g.chance(0.4) {
			e := &Extend{}
			if g.chance(0.4) {
				e.File = "./" + BaseDir + "/base.yaml"
			} else {
				e.Short = g.chance(0.5)
			}
			nl := g.n(1, 2)
			moved := subset(g, ks, g.n(1, len(ks)))
			sort.Strings(moved)
			e.Levels = make([][]string, nl)
			for i, k := range moved {
				e.Levels[i%nl] = append(e.Levels[i%nl], k)
			}
			if l.Extends == nil {
				l.Extends = map[string]*Extend{}
			}
			l.Extends[name] = e
		}
		if g.chance(0.5) {
			if l.Override == nil {
				l.Override = map[string][]string{}
			}
			moved := subset(g, ks, g.n(1, len(ks)))
			sort.Strings(moved)
			l.Override[name] = moved
		}
		if g.chance(0.5) {
			var sp []string
			for _, k := range ks {
				if splittable[k] && g.chance(0.6) {
					sp = append(sp, k)
				}
			}
			if len(sp) > 0 {
				if l.Split == nil {
					l.Split = map[string][]string{}
				}
				l.Split[name] = sp
			}
		}
	}
	var tops []string
	for _, sec := range []string{"networks", "volumes", "secrets", "configs"} {
		for _, k := range sortedKeys(section(g.m.Doc, sec)) {
			tops = append(tops, sec+"/"+k)
		}
	}
	if len(tops) > 0 && g.chance(0.5) {
		l.OverrideTop = subset(g, tops, g.n(1, (len(tops)+1)/2))
		sort.Strings(l.OverrideTop)
	}
	l.MultiDoc = g.chance(0.25)
	l.SplitFlip = g.chance(0.5)
	if len(names) > 1 && g.chance(0.4) {
		inc := &Include{ProjectDirDot: g.chance(0.5)}
		for _, n := range subset(g, names, g.n(1, len(names)-1)) {
			// a base file is addressed relative to the including file: keep such services in the main file
			if e := l.Extends[n]; e == nil || e.File == "" {
				inc.Services = append(inc.Services, n)
			}
		}
		sort.Strings(inc.Services)
		// resources not already claimed by the override document
		claimed := map[string]bool{}
		for _, t := range l.OverrideTop {
			claimed[t] = true
		}
		for _, t := range tops {
			// a config/secret sourced from the environment is resolved inside the included
			// project and then trips the file|environment|content exclusivity of the including one
			sec, key, _ := strings.Cut(t, "/")
			if r, ok := section(g.m.Doc, sec)[key].(M); ok {
				if _, ok := r["environment"]; ok {
					continue
				}
			}
			if !claimed[t] && g.chance(0.3) {
				inc.Top = append(inc.Top, t)
			}
		}
		l.Include = inc
	}
	return l
}

// ---- variables ---------------------------------------------------------------

var variableKeys = map[string]bool{"image": true, "hostname": true, "domainname": true, "working_dir": true, "user": true,
	"container_name": true, "stop_signal": true, "runtime": true, "cgroup_parent": true}

// variablise replaces some string scalars of services by variable references
// whose value (from Env, or from the default of the reference) is the original text.
func (g *G) variablise() {
	for _, name := range sortedKeys(section(g.m.Doc, "services")) {
		svc := section(g.m.Doc, "services")[name].(M)
		for _, k := range sortedKeys(svc) {
			switch v := svc[k].(type) {
			case string:
				if variableKeys[k] && g.chance(0.4) {
					svc[k] = g.varRef(v)
				}
			case M:
				if k == "labels" || k == "environment" || k == "annotations" {
					for _, lk := range sortedKeys(v) {
						if s, ok := v[lk].(string); ok && g.chance(0.3) {
							v[lk] = g.varRef(s)
						}
					}
				}
			case L:
				if k == "command" || k == "entrypoint" || k == "dns_search" || k == "cap_add" {
					for i, e := range v {
						if s, ok := e.(string); ok && g.chance(0.3) {
							v[i] = g.varRef(s)
						}
					}
				}
			}
		}
	}
}

func (g *G) varRef(value string) string {
	if strings.ContainsAny(value, "}$\n") {
		return value
	}
	g.nvar++
	name := fmt.Sprintf("GEN_VAR_%d", g.nvar)
	g.m.Vars = append(g.m.Vars, name)
	switch g.R.Intn(4) {
	case 0:
		g.m.Env[name] = value
		return "${" + name + "}"
	case 1:
		if value == "" {
			g.m.Env[name] = value
			return "${" + name + "}"
		}
		return "${" + name + ":-" + value + "}"
	case 2:
		g.m.Env[name] = value
		return "${" + name + ":-unused default}"
	default:
		g.m.Env[name] = value
		if strings.ContainsAny(value, " -:=/.,;#'\"\\\t[]{}*&!|>%@`?<+") || value == "" {
			return "${" + name + "}"
		}
		return "$" + name
	}
}
