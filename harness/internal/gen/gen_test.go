package gen

import (
	"fmt"
	"math/rand"
	"os"
	"sort"
	"testing"

	"verif/harness/internal/ld"
)

// TestValidity measures how many drawn models load (the generator aims at valid models).
func TestValidity(t *testing.T) {
	work := t.TempDir()
	os.Setenv("HOME", work)
	cfgs := map[string]Config{
		"saturated": Saturated(),
		"sparse":    {Density: 0.15, Profiles: true},
		"medium":    {Density: 0.4, Profiles: true, TrickyText: true, Variables: true},
		"layout":    {Density: 0.3, Profiles: true, Layout: true, Variables: true},
		"deprec":    {Density: 0.3, Deprecated: true},
	}
	names := make([]string, 0)
	for k := range cfgs {
		names = append(names, k)
	}
	sort.Strings(names)
	for _, name := range names {
		cfg := cfgs[name]
		errs := map[string]int{}
		ok := 0
		n := 150
		for i := 0; i < n; i++ {
			m := Draw(rand.New(rand.NewSource(int64(i)+1)), cfg)
			m.Order = int64(i % 3)
			c := m.Case(ld.Opts{})
			_, res := ld.Run(work, c)
			switch {
			case res.Panic != nil:
				errs["PANIC "+res.Panic.Site+": "+res.Panic.Value]++
			case res.Err != nil:
				e := res.Err.Error()
				if len(e) > 160 {
					e = e[:160]
				}
				errs[e]++
				if os.Getenv("GEN_DUMP") != "" && errs[e] == 1 {
					for f, content := range c.Files {
						if len(f) > 5 && (f[len(f)-5:] == ".yaml") {
							fmt.Printf("----- %s\n%s\n", f, content)
						}
					}
				}
			default:
				ok++
			}
		}
		t.Logf("%s: %d/%d load", name, ok, n)
		for e, k := range errs {
			t.Logf("   %3d x %s", k, e)
		}
		if ok < n*8/10 {
			t.Errorf("%s: only %d/%d models load", name, ok, n)
		}
	}
}

func TestPaths(t *testing.T) {
	p := Paths()
	if len(p) < 150 {
		t.Errorf("only %d attribute paths", len(p))
	}
	t.Logf("%d attribute paths, e.g. %v", len(p), p[:10])
}

func TestSharedFilesLoad(t *testing.T) {
	work := t.TempDir()
	os.Setenv("HOME", work)
	ok := 0
	for i := 0; i < 40; i++ {
		m := Draw(rand.New(rand.NewSource(int64(i)+1)), Config{Density: 0.3, SharedFiles: true, Layout: i%2 == 0})
		_, res := ld.Run(work, m.Case(ld.Opts{}))
		if res.Err != nil {
			t.Logf("%d: %v", i, res.Err)
			continue
		}
		ok++
	}
	if ok < 38 {
		t.Errorf("only %d/40 shared-file models load", ok)
	}
}
