package gen

import (
	"sort"
	"strconv"
	"strings"
)

// Shrink prunes the model while failing(candidate) stays true and returns the
// smallest model found (hierarchical delta debugging: at every mapping or
// sequence of the document, top down, subsets of the children are removed by
// ddmin, then the survivors are descended into). budget bounds the number of
// predicate calls.
func Shrink(m *Model, failing func(*Model) bool, budget int) *Model {
	cur := m.Clone()
	try := func(c *Model) bool {
		if budget <= 0 {
			return false
		}
		budget--
		if failing(c) {
			cur = c
			return true
		}
		return false
	}
	// layout, profiles, key order
	if cur.Layout != nil {
		c := cur.Clone()
		c.Layout = nil
		if !try(c) {
			for _, drop := range []func(*Layout){
				func(l *Layout) { l.Include = nil },
				func(l *Layout) { l.Extends = nil },
				func(l *Layout) { l.Override, l.OverrideTop, l.Split = nil, nil, nil },
			} {
				c := cur.Clone()
				drop(c.Layout)
				try(c)
			}
		}
	}
	if len(cur.Profiles) > 0 {
		c := cur.Clone()
		c.Profiles = nil
		try(c)
	}
	if cur.Order != 0 {
		c := cur.Clone()
		c.Order = 0
		try(c)
	}
	// children of the node at path p, as path components
	children := func(p []any) []any {
		v, ok := lookup(cur.Doc, p)
		if !ok {
			return nil
		}
		var out []any
		switch t := v.(type) {
		case M:
			// services first: once they are minimal, the resources they referenced can go
			if _, ok := t["services"]; ok && len(p) == 0 {
				out = append(out, "services")
			}
			for _, k := range sortedKeys(t) {
				if k == "services" && len(p) == 0 {
					continue
				}
				out = append(out, k)
			}
		case L:
			for i := range t {
				out = append(out, i)
			}
		}
		return out
	}
	// removeSet tries to delete the given children of p at once
	removeSet := func(p []any, kids []any) bool {
		c := cur.Clone()
		// delete higher indexes first so the lower ones stay valid
		for i := len(kids) - 1; i >= 0; i-- {
			deletePath(c.Doc, append(append([]any(nil), p...), kids[i]))
		}
		return try(c)
	}
	var reduce func(p []any, depth int)
	reduce = func(p []any, depth int) {
		if budget <= 0 || depth > 8 {
			return
		}
		kids := children(p)
		if len(kids) == 0 {
			return
		}
		// all at once
		if len(p) > 0 && len(kids) > 1 && removeSet(p, kids) {
			return
		}
		// ddmin over the children: remove chunks of decreasing size
		n := 2
		for len(kids) >= 1 && budget > 0 {
			if n > len(kids) {
				n = len(kids)
			}
			size := (len(kids) + n - 1) / n
			removedAny := false
			for start := 0; start < len(kids) && budget > 0; {
				end := start + size
				if end > len(kids) {
					end = len(kids)
				}
				chunk := kids[start:end]
				if removeSet(p, chunk) {
					removedAny = true
					kids = children(p) // indexes shift after a removal from a sequence
					if n > 2 {
						n--
					}
					if start >= len(kids) {
						break
					}
					continue
				}
				start = end
			}
			if !removedAny {
				if size == 1 {
					break
				}
				n *= 2
			}
		}
		for _, k := range children(p) {
			reduce(append(append([]any(nil), p...), k), depth+1)
		}
	}
	reduce(nil, 0)
	reduce(nil, 0) // second pass: what the first one made unreferenced
	return cur
}

func lookup(doc M, p []any) (any, bool) {
	var v any = doc
	for _, c := range p {
		switch t := v.(type) {
		case M:
			e, ok := t[c.(string)]
			if !ok {
				return nil, false
			}
			v = e
		case L:
			i := c.(int)
			if i >= len(t) {
				return nil, false
			}
			v = t[i]
		default:
			return nil, false
		}
	}
	return v, true
}

// pathsAtDepth lists the paths of exactly the given length (keys / indexes), in sorted order.
func pathsAtDepth(doc M, depth int) [][]any {
	var out [][]any
	var walk func(v any, p []any)
	walk = func(v any, p []any) {
		if len(p) == depth {
			out = append(out, append([]any(nil), p...))
			return
		}
		switch t := v.(type) {
		case M:
			for _, k := range sortedKeys(t) {
				walk(t[k], append(p, k))
			}
		case L:
			for i, e := range t {
				walk(e, append(p, i))
			}
		}
	}
	walk(doc, nil)
	return out
}

func exists(doc M, p []any) bool {
	var v any = doc
	for _, c := range p {
		switch t := v.(type) {
		case M:
			e, ok := t[c.(string)]
			if !ok {
				return false
			}
			v = e
		case L:
			i := c.(int)
			if i >= len(t) {
				return false
			}
			v = t[i]
		default:
			return false
		}
	}
	return true
}

func deletePath(doc M, p []any) {
	var parent any = doc
	var holder any
	var holderKey any
	for _, c := range p[:len(p)-1] {
		holder, holderKey = parent, c
		switch t := parent.(type) {
		case M:
			parent = t[c.(string)]
		case L:
			parent = t[c.(int)]
		}
	}
	last := p[len(p)-1]
	switch t := parent.(type) {
	case M:
		delete(t, last.(string))
	case L:
		i := last.(int)
		n := append(append(L{}, t[:i]...), t[i+1:]...)
		switch h := holder.(type) {
		case M:
			h[holderKey.(string)] = n
		case L:
			h[holderKey.(int)] = n
		}
	}
}

// structural keys are descended through when naming the culprit attribute of a minimal document
var structural = map[string]bool{"build": true, "deploy": true, "healthcheck": true, "logging": true, "develop": true,
	"credential_spec": true, "resources": true, "limits": true, "reservations": true, "update_config": true, "rollback_config": true,
	"restart_policy": true, "placement": true, "ipam": true, "watch": true, "exec": true, "config": true}

// AttrPaths names the attributes present in a (minimal) document in a generic
// form — "services.*.build.ssh", "networks.*.ipam.config" — suitable as a
// stable violation attribute. `image` is dropped when anything else remains.
func AttrPaths(doc M) []string {
	set := map[string]bool{}
	var descend func(v any, prefix string)
	descend = func(v any, prefix string) {
		switch t := v.(type) {
		case M:
			if len(t) == 0 {
				set[prefix] = true
			}
			for k, e := range t {
				if strings.HasPrefix(k, "x-") {
					set[prefix+".x-"] = true
					continue
				}
				if structural[k] {
					descend(e, prefix+"."+k)
				} else {
					set[prefix+"."+k] = true
				}
			}
		case L:
			if len(t) == 0 {
				set[prefix] = true
			}
			for _, e := range t {
				if _, ok := e.(M); ok {
					descend(e, prefix)
				} else {
					set[prefix] = true
				}
			}
		default:
			set[prefix] = true
		}
	}
	for _, sec := range sortedKeys(doc) {
		switch sec {
		case "services", "networks", "volumes", "secrets", "configs":
			m, _ := doc[sec].(M)
			for _, e := range m {
				if e == nil {
					set[sec+".*"] = true
					continue
				}
				descend(e, sec+".*")
			}
		default:
			if strings.HasPrefix(sec, "x-") {
				set["x-"] = true
			} else {
				set[sec] = true
			}
		}
	}
	for _, boiler := range []string{"services.*.image", "services.*.build", "name"} {
		if len(set) > 1 {
			delete(set, boiler)
		}
	}
	out := make([]string, 0, len(set))
	for k := range set {
		out = append(out, k)
	}
	sort.Strings(out)
	return out
}

// RemoveAttr deletes every node matching a generic attribute path (as produced
// by AttrPaths) from the document and reports how many nodes were removed.
func RemoveAttr(doc M, pattern string) int {
	parts := strings.Split(pattern, ".")
	n := 0
	var rec func(v any, parts []string)
	rec = func(v any, parts []string) {
		switch t := v.(type) {
		case M:
			if len(parts) == 1 {
				if parts[0] == "x-" {
					for k := range t {
						if strings.HasPrefix(k, "x-") {
							delete(t, k)
							n++
						}
					}
					return
				}
				if _, ok := t[parts[0]]; ok {
					delete(t, parts[0])
					n++
				}
				return
			}
			if parts[0] == "*" {
				for _, e := range t {
					rec(e, parts[1:])
				}
				return
			}
			if e, ok := t[parts[0]]; ok {
				rec(e, parts[1:])
			}
		case L:
			for _, e := range t {
				rec(e, parts)
			}
		}
	}
	rec(doc, parts)
	return n
}

func pathString(p []any) string {
	var sb strings.Builder
	for i, c := range p {
		if i > 0 {
			sb.WriteByte('.')
		}
		switch t := c.(type) {
		case string:
			sb.WriteString(t)
		case int:
			sb.WriteString(strconv.Itoa(t))
		}
	}
	return sb.String()
}

// KeepOnly prunes the document to the nodes lying on a generic attribute path
// (as produced by AttrPaths): sections other than the pattern's are dropped,
// entries that do not contain the attribute are dropped, and of the entries
// that do only the chain of keys leading to the attribute (plus `image` for
// services) is kept. It reports whether anything matched.
func KeepOnly(doc M, pattern string) bool {
	parts := strings.Split(pattern, ".")
	if len(parts) < 2 {
		return false
	}
	var prune func(v any, parts []string) (any, bool)
	prune = func(v any, parts []string) (any, bool) {
		if len(parts) == 0 {
			return v, true
		}
		switch t := v.(type) {
		case M:
			out := M{}
			switch parts[0] {
			case "*":
				for k, e := range t {
					if p, ok := prune(e, parts[1:]); ok {
						out[k] = p
					}
				}
			case "x-":
				for k, e := range t {
					if strings.HasPrefix(k, "x-") {
						out[k] = e
					}
				}
			default:
				e, ok := t[parts[0]]
				if !ok {
					return nil, false
				}
				p, ok := prune(e, parts[1:])
				if !ok {
					return nil, false
				}
				out[parts[0]] = p
			}
			return out, len(out) > 0
		case L:
			out := L{}
			for _, e := range t {
				if p, ok := prune(e, parts); ok {
					out = append(out, p)
				}
			}
			return out, len(out) > 0
		}
		return nil, false
	}
	sec, ok := doc[parts[0]]
	if !ok {
		return false
	}
	pruned, ok := prune(sec, parts[1:])
	if !ok {
		return false
	}
	if parts[0] == "services" {
		orig, _ := sec.(M)
		for name, s := range pruned.(M) {
			sm, _ := s.(M)
			om, _ := orig[name].(M)
			if img, ok := om["image"]; ok && sm != nil {
				sm["image"] = img
			} else if _, hasBuild := sm["build"]; !hasBuild && sm != nil {
				sm["image"] = "img"
			}
		}
	}
	for k := range doc {
		if k != "name" {
			delete(doc, k)
		}
	}
	doc[parts[0]] = pruned
	if parts[0] != "services" {
		doc["services"] = M{"s": M{"image": "img"}}
	}
	return true
}
