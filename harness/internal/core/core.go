// Package core is the shared machinery of the runtime-monitoring harness:
// the shard (worker-process) side API used by every check, the driver that
// spawns and watches shards, evidence accumulation and known-finding matching.
package core

import (
	"sort"
	"sync"
)

// Violation is one refutation of a property observed by a monitor.
type Violation struct {
	// Attrs identify the violation for de-duplication and for matching against
	// known_findings.json. "kind" is mandatory. No line numbers, no random data.
	Attrs map[string]string `json:"attrs"`
	// What is a one-sentence human description.
	What string `json:"what"`
	// Replay is the directory (written by the shard) holding the witness.
	Replay string `json:"replay,omitempty"`
}

// Spec describes one property check.
type Spec struct {
	ID          string
	Level       string   // evidence level: exploration | fault_enumeration | ...
	Rule        string   // how cases are generated and what makes one non-trivial
	Assumptions []string // what the check assumes or trusts
	Exhaustive  func(tier string) bool
	// Race reports whether the shards must run from the -race build for this tier.
	Race func(tier string) bool
	// Shards returns the number of worker processes (0 = number of CPUs).
	Shards func(tier string) int
	// CPUBudget is the CPU-seconds budget between two Begin calls of a shard.
	CPUBudget func(tier string) float64
	// Run is the shard body. It must derive its case list from (s.Tier, s.Seed)
	// only and run the cases for which s.Mine(i) holds.
	Run func(s *Shard)
	// Witness re-executes the stored witness of a known finding and reports
	// whether the defect still reproduces.
	Witness func(s *Shard, f Finding) (reproduces bool, detail string)
	// Replay re-runs a replay directory written by an earlier violation.
	Replay func(s *Shard, dir string)
	// Floor returns the reasons (if any) why the merged observations are too
	// thin for a "held" verdict (=> inconclusive).
	Floor func(tier string, m *Merged) []string
}

var (
	regMu    sync.Mutex
	registry = map[string]*Spec{}
)

// Register makes a check available to cmd/check.
func Register(s *Spec) {
	regMu.Lock()
	defer regMu.Unlock()
	registry[s.ID] = s
}

// Lookup returns the registered spec for id.
func Lookup(id string) *Spec {
	regMu.Lock()
	defer regMu.Unlock()
	return registry[id]
}

// IDs lists the registered property ids.
func IDs() []string {
	regMu.Lock()
	defer regMu.Unlock()
	var ids []string
	for k := range registry {
		ids = append(ids, k)
	}
	sort.Strings(ids)
	return ids
}
