package core

import (
	"bufio"
	"crypto/sha256"
	"encoding/binary"
	"encoding/hex"
	"encoding/json"
	"fmt"
	"math/rand"
	"os"
	"path/filepath"
	"sort"
	"strings"
	"sync"
	"time"
)

// Event is one line of the shard -> driver protocol (JSON lines on stdout).
type Event struct {
	T     string     `json:"t"` // B begin, P progress snapshot, V violation, I inconclusive, W witness verdict, E end
	ID    string     `json:"id,omitempty"`
	V     *Violation `json:"v,omitempty"`
	Msg   string     `json:"msg,omitempty"`
	OK    bool       `json:"ok,omitempty"`
	Stats *Stats     `json:"stats,omitempty"`
}

// Stats is the cumulative observation record of one shard incarnation.
type Stats struct {
	Evaluations int64                       `json:"evaluations"`
	Counters    map[string]int64            `json:"counters,omitempty"`
	Cover       map[string]map[string]int64 `json:"cover,omitempty"`
	Samples     []any                       `json:"samples,omitempty"`
}

// Shard is the worker-process side handle given to a check body.
type Shard struct {
	Prop  string
	Tier  string
	Seed  int64
	Index int
	Count int
	// Work is a scratch directory private to this shard (exists, empty at start).
	Work string
	// ReplayRoot is where violation witnesses are written (/verif/replay/<ID>).
	ReplayRoot string

	mu          sync.Mutex
	out         *os.File
	stats       Stats
	digests     *bufio.Writer
	digestFile  *os.File
	seen        map[uint64]struct{}
	lastP       time.Time
	resumeAfter string
	resuming    bool
	only        string // replay of a process-level violation: run nothing but this case id
	sampleCap   int
	vioPerKey   map[string]int
	curID       string
}

// NewShard is used by cmd/check.
func NewShard(prop, tier string, seed int64, index, count int, work, replayRoot, resumeAfter string) (*Shard, error) {
	if err := os.MkdirAll(work, 0o755); err != nil {
		return nil, err
	}
	df, err := os.OpenFile(filepath.Join(work, "digests.bin"), os.O_CREATE|os.O_WRONLY|os.O_APPEND, 0o644)
	if err != nil {
		return nil, err
	}
	s := &Shard{
		Prop: prop, Tier: tier, Seed: seed, Index: index, Count: count,
		Work: work, ReplayRoot: replayRoot,
		out:        os.Stdout,
		digestFile: df, digests: bufio.NewWriterSize(df, 1<<16),
		seen:        map[uint64]struct{}{},
		resumeAfter: resumeAfter, resuming: resumeAfter != "",
		sampleCap: 4,
		vioPerKey: map[string]int{},
		lastP:     time.Now(),
	}
	s.stats.Counters = map[string]int64{}
	s.stats.Cover = map[string]map[string]int64{}
	return s, nil
}

// Thorough reports whether the tier is "thorough".
func (s *Shard) Thorough() bool { return s.Tier == "thorough" }

// Pick returns q for the quick tier and t for the thorough tier.
func (s *Shard) Pick(q, t int) int {
	if s.Thorough() {
		return t
	}
	return q
}

// Mine reports whether case number i belongs to this shard.
func (s *Shard) Mine(i int) bool { return s.only != "" || s.Count <= 1 || i%s.Count == s.Index }

// Only restricts the shard to the single case id (used to replay a crash / hang / blocked case).
func (s *Shard) Only(id string) { s.only = id }

// Rand returns a PRNG determined by (seed, property, stream name) only.
func (s *Shard) Rand(stream string) *rand.Rand {
	h := sha256.Sum256([]byte(fmt.Sprintf("%s/%d/%s", s.Prop, s.Seed, stream)))
	return rand.New(rand.NewSource(int64(binary.LittleEndian.Uint64(h[:8]))))
}

func (s *Shard) emit(e Event) {
	b, _ := json.Marshal(e)
	b = append(b, '\n')
	s.out.Write(b) //nolint:errcheck
}

// Begin announces the case about to run (so the driver can attribute a crash,
// a hang or a CPU overrun to it). It returns false while the shard is skipping
// forward to the case after the one that killed its previous incarnation.
func (s *Shard) Begin(id string) bool {
	s.mu.Lock()
	defer s.mu.Unlock()
	if s.only != "" && id != s.only {
		return false
	}
	if s.resuming {
		if id == s.resumeAfter {
			s.resuming = false
		}
		return false
	}
	s.curID = id
	s.emit(Event{T: "B", ID: id})
	if time.Since(s.lastP) > time.Second {
		s.progressLocked()
	}
	return true
}

func (s *Shard) progressLocked() {
	s.lastP = time.Now()
	s.digests.Flush() //nolint:errcheck
	st := s.stats
	s.emit(Event{T: "P", Stats: &st})
}

// Eval counts n evaluations (executions of the code under test with a verdict).
func (s *Shard) Eval(n int) {
	s.mu.Lock()
	s.stats.Evaluations += int64(n)
	s.mu.Unlock()
}

// Add adds n to a named counter reported in the evidence.
func (s *Shard) Add(name string, n int) {
	s.mu.Lock()
	s.stats.Counters[name] += int64(n)
	s.mu.Unlock()
}

// Cover records that class `key` of coverage table `table` was exercised.
func (s *Shard) Cover(table, key string) {
	s.mu.Lock()
	m := s.stats.Cover[table]
	if m == nil {
		m = map[string]int64{}
		s.stats.Cover[table] = m
	}
	m[key]++
	s.mu.Unlock()
}

// Nontrivial records the input of a case that satisfied the check's
// non-triviality rule; distinct inputs are counted by digest across shards.
func (s *Shard) Nontrivial(parts ...string) {
	h := sha256.New()
	for _, p := range parts {
		h.Write([]byte(p)) //nolint:errcheck
		h.Write([]byte{0}) //nolint:errcheck
	}
	d := binary.LittleEndian.Uint64(h.Sum(nil)[:8])
	s.mu.Lock()
	if _, ok := s.seen[d]; !ok {
		s.seen[d] = struct{}{}
		var b [8]byte
		binary.LittleEndian.PutUint64(b[:], d)
		s.digests.Write(b[:]) //nolint:errcheck
	}
	s.mu.Unlock()
}

// Sample keeps a few written-out cases for the evidence file.
func (s *Shard) Sample(v any) {
	s.mu.Lock()
	if len(s.stats.Samples) < s.sampleCap {
		s.stats.Samples = append(s.stats.Samples, v)
	}
	s.mu.Unlock()
}

// WantSample reports whether another sample would be kept.
func (s *Shard) WantSample() bool {
	s.mu.Lock()
	defer s.mu.Unlock()
	return len(s.stats.Samples) < s.sampleCap
}

// AttrKey is the canonical de-duplication key of an attribute set.
func AttrKey(a map[string]string) string {
	keys := make([]string, 0, len(a))
	for k := range a {
		keys = append(keys, k)
	}
	sort.Strings(keys)
	var sb strings.Builder
	for _, k := range keys {
		sb.WriteString(k)
		sb.WriteByte('=')
		sb.WriteString(a[k])
		sb.WriteByte(';')
	}
	return sb.String()
}

// Violation reports a refutation. files are written to a fresh replay
// directory (at most 3 witnesses are kept per distinct attribute set and shard).
func (s *Shard) Violation(attrs map[string]string, what string, files map[string]any) {
	key := AttrKey(attrs)
	s.mu.Lock()
	n := s.vioPerKey[key]
	s.vioPerKey[key] = n + 1
	cur := s.curID
	s.mu.Unlock()
	s.Add("violations_observed", 1)
	if n >= 3 {
		return
	}
	h := sha256.Sum256([]byte(fmt.Sprintf("%s|%s|%d|%d|%d", key, cur, s.Index, n, s.Seed)))
	dir := filepath.Join(s.ReplayRoot, hex.EncodeToString(h[:6]))
	_ = os.MkdirAll(dir, 0o755)
	meta := map[string]any{"property": s.Prop, "attrs": attrs, "what": what, "case": cur, "seed": s.Seed, "tier": s.Tier}
	if files == nil {
		files = map[string]any{}
	}
	files["violation.json"] = meta
	for name, content := range files {
		p := filepath.Join(dir, name)
		_ = os.MkdirAll(filepath.Dir(p), 0o755)
		switch c := content.(type) {
		case []byte:
			_ = os.WriteFile(p, c, 0o644)
		case string:
			_ = os.WriteFile(p, []byte(c), 0o644)
		default:
			b, _ := json.MarshalIndent(c, "", " ")
			_ = os.WriteFile(p, b, 0o644)
		}
	}
	s.mu.Lock()
	s.emit(Event{T: "V", ID: cur, V: &Violation{Attrs: attrs, What: what, Replay: dir}})
	s.mu.Unlock()
}

// Inconclusive reports that part of the run could not reach a verdict.
func (s *Shard) Inconclusive(msg string) {
	s.mu.Lock()
	s.emit(Event{T: "I", Msg: msg})
	s.mu.Unlock()
}

// WitnessVerdict is emitted by the witness-replay mode.
func (s *Shard) WitnessVerdict(id string, reproduces bool, detail string) {
	s.mu.Lock()
	s.emit(Event{T: "W", ID: id, OK: reproduces, Msg: detail})
	s.mu.Unlock()
}

// Close flushes the final statistics.
func (s *Shard) Close() {
	s.mu.Lock()
	defer s.mu.Unlock()
	s.digests.Flush() //nolint:errcheck
	s.digestFile.Close()
	st := s.stats
	s.emit(Event{T: "E", Stats: &st})
}

// Scratch returns a fresh empty directory "<Work>/cur" for the current case;
// whatever it holds when the shard dies is copied into the replay directory.
func (s *Shard) Scratch() string {
	d := filepath.Join(s.Work, "cur")
	_ = os.RemoveAll(d)
	_ = os.MkdirAll(d, 0o755)
	return d
}
