package core

import (
	"flag"
	"fmt"
	"os"
	"runtime/debug"
)

// Main is the entry point shared by cmd/check and the per-check development binaries.
func Main() {
	if len(os.Args) < 2 {
		fmt.Fprintln(os.Stderr, "usage: check drive|shard|meta|list ...")
		os.Exit(2)
	}
	switch os.Args[1] {
	case "list":
		for _, id := range IDs() {
			fmt.Println(id)
		}
	case "meta":
		fs := flag.NewFlagSet("meta", flag.ExitOnError)
		prop := fs.String("prop", "", "")
		tier := fs.String("tier", "quick", "")
		fs.Parse(os.Args[2:]) //nolint:errcheck
		spec := Lookup(*prop)
		if spec == nil {
			fmt.Println("unknown")
			os.Exit(2)
		}
		if spec.Race != nil && spec.Race(*tier) {
			fmt.Println("race")
		} else {
			fmt.Println("norace")
		}
	case "drive":
		fs := flag.NewFlagSet("drive", flag.ExitOnError)
		prop := fs.String("prop", "", "")
		tier := fs.String("tier", "quick", "")
		seed := fs.Int64("seed", 1, "")
		root := fs.String("root", "/verif", "")
		shardBin := fs.String("shardbin", os.Args[0], "")
		race := fs.Bool("race", false, "")
		replay := fs.String("replay", "", "")
		out := fs.String("out", "", "")
		fs.Parse(os.Args[2:]) //nolint:errcheck
		spec := Lookup(*prop)
		if spec == nil {
			fmt.Printf("INCONCLUSIVE property=%s no such check\n", *prop)
			os.Exit(2)
		}
		os.Exit(Drive(spec, DriveOpts{Tier: *tier, Seed: *seed, ShardBin: *shardBin, Root: *root, ReplayDir: *replay, RaceBinary: *race, OutRoot: *out}))
	case "shard":
		fs := flag.NewFlagSet("shard", flag.ExitOnError)
		prop := fs.String("prop", "", "")
		tier := fs.String("tier", "quick", "")
		seed := fs.Int64("seed", 1, "")
		index := fs.Int("index", 0, "")
		count := fs.Int("count", 1, "")
		work := fs.String("work", "", "")
		replayRoot := fs.String("replayroot", "", "")
		resume := fs.String("resume-after", "", "")
		witness := fs.String("witness", "", "")
		replay := fs.String("replay", "", "")
		only := fs.String("only", "", "")
		fs.Parse(os.Args[2:]) //nolint:errcheck
		spec := Lookup(*prop)
		if spec == nil {
			os.Exit(2)
		}
		debug.SetMaxStack(256 << 20)
		s, err := NewShard(*prop, *tier, *seed, *index, *count, *work, *replayRoot, *resume)
		if err != nil {
			fmt.Fprintln(os.Stderr, err)
			os.Exit(2)
		}
		if *only != "" {
			s.Only(*only)
		}
		switch {
		case *witness != "":
			root := os.Getenv("VERIF_ROOT")
			fl, err := LoadFindings(root+"/known_findings.json", *prop)
			if err != nil {
				fmt.Fprintln(os.Stderr, err)
				os.Exit(2)
			}
			for _, f := range fl {
				if f.ID == *witness {
					s.Begin("witness/" + f.ID)
					ok, detail := spec.Witness(s, f)
					s.WitnessVerdict(f.ID, ok, detail)
				}
			}
		case *replay != "":
			if spec.Replay == nil {
				fmt.Fprintln(os.Stderr, "no replay for this property")
				os.Exit(2)
			}
			s.Begin("replay")
			spec.Replay(s, *replay)
		default:
			spec.Run(s)
		}
		s.Close()
	default:
		fmt.Fprintln(os.Stderr, "unknown subcommand")
		os.Exit(2)
	}
}
