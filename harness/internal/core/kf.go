package core

import (
	"encoding/json"
	"os"
	"regexp"
	"strings"
)

// Finding is one entry of /verif/known_findings.json.
type Finding struct {
	ID       string            `json:"id"`
	Status   string            `json:"status"` // "known" or "fixed"
	Property string            `json:"property"`
	Match    map[string]string `json:"match"`
	What     string            `json:"what"`
	Commit   string            `json:"commit,omitempty"`
	Witness  json.RawMessage   `json:"witness,omitempty"`
}

type findingsFile struct {
	Findings []Finding `json:"findings"`
}

// LoadFindings reads the committed known-findings file (never written at run time).
func LoadFindings(path, prop string) ([]Finding, error) {
	b, err := os.ReadFile(path)
	if err != nil {
		if os.IsNotExist(err) {
			return nil, nil
		}
		return nil, err
	}
	var f findingsFile
	if err := json.Unmarshal(b, &f); err != nil {
		return nil, err
	}
	var out []Finding
	for _, x := range f.Findings {
		if x.Property == prop {
			out = append(out, x)
		}
	}
	return out, nil
}

// Matches reports whether every key of the finding's match pattern is present
// in attrs with an equal value ("re:<regexp>" values match by full regexp).
func (f Finding) Matches(attrs map[string]string) bool {
	if len(f.Match) == 0 {
		return false
	}
	for k, want := range f.Match {
		got, ok := attrs[k]
		if !ok {
			return false
		}
		if strings.HasPrefix(want, "re:") {
			re, err := regexp.Compile("^(?:" + want[3:] + ")$")
			if err != nil || !re.MatchString(got) {
				return false
			}
			continue
		}
		if got != want {
			return false
		}
	}
	return true
}
