package core

import (
	"bufio"
	"encoding/binary"
	"encoding/json"
	"fmt"
	"io"
	"os"
	"os/exec"
	"path/filepath"
	"runtime"
	"sort"
	"strconv"
	"strings"
	"sync"
	"syscall"
	"time"
)

// DriveOpts configures one run of a check.
type DriveOpts struct {
	Tier       string
	Seed       int64
	ShardBin   string // binary used for shard processes (may be the -race build)
	Root       string // /verif
	ReplayDir  string // non-empty: replay this directory instead of running the workload
	OutRoot    string // where evidence/ and replay/ go (default Root; scratch copies of the repo get their own)
	RaceBinary bool
}

// Merged is the union of what all shards observed.
type Merged struct {
	Evaluations int64
	Distinct    int64
	Counters    map[string]int64
	Cover       map[string]map[string]int64
	Samples     []any
	Inconcl     []string
}

type procOutcome struct {
	kind   string // ok | died | hang | memory
	lastID string
	stderr string
	stats  *Stats
	events []Event
}

const rssCeiling = 4 << 30

func cpuSeconds(pid int) (float64, int64, bool) {
	b, err := os.ReadFile(fmt.Sprintf("/proc/%d/stat", pid))
	if err != nil {
		return 0, 0, false
	}
	s := string(b)
	i := strings.LastIndex(s, ")")
	if i < 0 {
		return 0, 0, false
	}
	f := strings.Fields(s[i+1:])
	if len(f) < 22 {
		return 0, 0, false
	}
	ut, _ := strconv.ParseFloat(f[11], 64)
	st, _ := strconv.ParseFloat(f[12], 64)
	rssPages, _ := strconv.ParseInt(f[21], 10, 64)
	return (ut + st) / 100.0, rssPages * int64(os.Getpagesize()), true
}

// runProc starts one shard process and watches it: CPU consumed since the last
// Begin event (the bounded restatement of "never loops forever"), resident
// memory, and exit status.
func runProc(bin string, args []string, env []string, stderrPath string, budget float64, wall time.Duration, onEvent func(Event)) procOutcome {
	cmd := exec.Command(bin, args...)
	cmd.Env = env
	// own pipe: the reader must see everything the child wrote, including the
	// final E record, before Wait is allowed to reap the process
	stdout, pw, err := os.Pipe()
	if err != nil {
		return procOutcome{kind: "died", stderr: err.Error()}
	}
	cmd.Stdout = pw
	ef, err := os.Create(stderrPath)
	if err != nil {
		return procOutcome{kind: "died", stderr: err.Error()}
	}
	defer ef.Close()
	cmd.Stderr = ef
	if err := cmd.Start(); err != nil {
		pw.Close()
		stdout.Close()
		return procOutcome{kind: "died", stderr: err.Error()}
	}
	pw.Close()
	var (
		mu      sync.Mutex
		lastID  string
		lastSt  *Stats
		ended   bool
		idEpoch int
	)
	readDone := make(chan struct{})
	go func() {
		defer close(readDone)
		defer stdout.Close()
		r := bufio.NewReaderSize(stdout, 1<<20)
		for {
			line, err := r.ReadBytes('\n')
			if len(line) > 0 {
				var e Event
				if json.Unmarshal(line, &e) == nil {
					mu.Lock()
					switch e.T {
					case "B":
						lastID = e.ID
						idEpoch++
					case "P":
						lastSt = e.Stats
					case "E":
						lastSt = e.Stats
						ended = true
					}
					mu.Unlock()
					if e.T == "V" || e.T == "I" || e.T == "W" {
						onEvent(e)
					}
				}
			}
			if err != nil {
				return
			}
		}
	}()
	waitDone := make(chan error, 1)
	go func() { waitDone <- cmd.Wait() }()

	kind := ""
	tick := time.NewTicker(200 * time.Millisecond)
	defer tick.Stop()
	start := time.Now()
	baseCPU, baseEpoch := 0.0, -1
	lastCPU, stallPolls := -1.0, 0
	var werr error
loop:
	for {
		select {
		case werr = <-waitDone:
			break loop
		case <-tick.C:
			cpu, rss, ok := cpuSeconds(cmd.Process.Pid)
			if !ok {
				continue
			}
			mu.Lock()
			ep := idEpoch
			mu.Unlock()
			if ep != baseEpoch {
				baseEpoch, baseCPU = ep, cpu
			}
			// a worker all of whose threads sleep, that has no child process and whose CPU time does
			// not move over 150 consecutive polls (30 s) is blocked for good: a starved but runnable
			// process would show a runnable thread, one waiting for a child has a child
			if cpu == lastCPU && allThreadsSleeping(cmd.Process.Pid) {
				stallPolls++
			} else {
				stallPolls = 0
			}
			lastCPU = cpu
			switch {
			case stallPolls >= 150:
				kind = "blocked"
			case rss > rssCeiling:
				kind = "memory"
			case budget > 0 && cpu-baseCPU > budget:
				kind = "hang"
			case wall > 0 && time.Since(start) > wall:
				kind = "wallclock"
			}
			if kind != "" {
				if kind == "memory" {
					_ = cmd.Process.Kill()
				} else {
					_ = cmd.Process.Signal(syscall.SIGQUIT)
					select {
					case werr = <-waitDone:
						break loop
					case <-time.After(10 * time.Second):
						_ = cmd.Process.Kill()
					}
				}
				werr = <-waitDone
				break loop
			}
		}
	}
	<-readDone
	mu.Lock()
	defer mu.Unlock()
	out := procOutcome{lastID: lastID, stats: lastSt}
	ef.Sync() //nolint:errcheck
	if b, err := os.ReadFile(stderrPath); err == nil {
		if len(b) > 64<<10 {
			b = append(b[:32<<10:32<<10], b[len(b)-(32<<10):]...)
		}
		out.stderr = string(b)
	}
	switch {
	case kind != "":
		out.kind = kind
	case ended:
		// the end-of-shard record was written: the body ran to completion (a -race
		// build exits with status 66 when it reported races; those arrive through its log)
		out.kind = "ok"
	default:
		out.kind = "died"
	}
	_ = werr
	return out
}

// allThreadsSleeping reports whether every thread of pid is in interruptible sleep and the
// process has no children.
func allThreadsSleeping(pid int) bool {
	tasks, err := os.ReadDir(fmt.Sprintf("/proc/%d/task", pid))
	if err != nil || len(tasks) == 0 {
		return false
	}
	for _, t := range tasks {
		b, err := os.ReadFile(fmt.Sprintf("/proc/%d/task/%s/stat", pid, t.Name()))
		if err != nil {
			return false
		}
		st := string(b)
		i := strings.LastIndex(st, ")")
		if i < 0 || i+2 >= len(st) || st[i+2] != 'S' {
			return false
		}
		if c, err := os.ReadFile(fmt.Sprintf("/proc/%d/task/%s/children", pid, t.Name())); err == nil && len(strings.TrimSpace(string(c))) > 0 {
			return false
		}
	}
	return true
}

func baseEnv(root string, race bool, work string) []string {
	env := []string{
		"PATH=" + os.Getenv("PATH"),
		"HOME=" + filepath.Join(work, "home"),
		"LANG=C",
		"TMPDIR=" + filepath.Join(work, "tmp"),
		"VERIF_ROOT=" + root,
		"GOTRACEBACK=all",
		"VERIF_REPO_DIR=" + os.Getenv("VERIF_REPO_DIR"),
	}
	_ = os.MkdirAll(filepath.Join(work, "home"), 0o755)
	_ = os.MkdirAll(filepath.Join(work, "tmp"), 0o755)
	if race {
		env = append(env, "GORACE=halt_on_error=0 log_path="+filepath.Join(work, "race"))
	}
	if v := os.Getenv("VERIF_DEBUG"); v != "" {
		env = append(env, "VERIF_DEBUG="+v)
	}
	return env
}

func firstFatalLine(stderr string) string {
	for _, l := range strings.Split(stderr, "\n") {
		if strings.HasPrefix(l, "fatal error:") || strings.HasPrefix(l, "panic:") || strings.HasPrefix(l, "runtime: goroutine stack exceeds") {
			if len(l) > 120 {
				l = l[:120]
			}
			return l
		}
	}
	return "exit without end-of-shard record"
}

// Drive runs one check (or a replay) and returns the process exit code.
func Drive(spec *Spec, o DriveOpts) int {
	start := time.Now()
	prop := spec.ID
	workRoot := filepath.Join(o.Root, ".work", fmt.Sprintf("%s-%d", prop, os.Getpid()))
	_ = os.RemoveAll(workRoot)
	if err := os.MkdirAll(workRoot, 0o755); err != nil {
		fmt.Printf("INCONCLUSIVE property=%s cannot create work dir: %v\n", prop, err)
		return 3
	}
	defer os.RemoveAll(workRoot)
	if o.OutRoot == "" {
		o.OutRoot = o.Root
	}
	replayRoot := filepath.Join(o.OutRoot, "replay", prop)
	if o.ReplayDir == "" {
		_ = os.RemoveAll(replayRoot)
	}

	findings, err := LoadFindings(filepath.Join(o.Root, "known_findings.json"), prop)
	if err != nil {
		fmt.Printf("INCONCLUSIVE property=%s known_findings.json unreadable: %v\n", prop, err)
		return 3
	}

	budget := 120.0
	if spec.CPUBudget != nil {
		budget = spec.CPUBudget(o.Tier)
	}
	nshards := runtime.NumCPU()
	if spec.Shards != nil {
		if n := spec.Shards(o.Tier); n > 0 {
			nshards = n
		}
	}

	var (
		vmu        sync.Mutex
		violations []Violation
		inconcl    []string
	)
	addV := func(v Violation) {
		vmu.Lock()
		violations = append(violations, v)
		vmu.Unlock()
	}
	addI := func(msg string) {
		vmu.Lock()
		inconcl = append(inconcl, msg)
		vmu.Unlock()
	}
	writeReplay := func(name string, files map[string]string, copyDir string) string {
		dir := filepath.Join(replayRoot, name)
		_ = os.MkdirAll(dir, 0o755)
		for n, c := range files {
			_ = os.WriteFile(filepath.Join(dir, n), []byte(c), 0o644)
		}
		if copyDir != "" {
			_ = exec.Command("cp", "-a", copyDir, filepath.Join(dir, "input")).Run()
		}
		return dir
	}
	common := []string{"-prop", prop, "-tier", o.Tier, "-seed", strconv.FormatInt(o.Seed, 10), "-replayroot", replayRoot}

	// ---- replay mode -----------------------------------------------------
	if o.ReplayDir != "" {
		work := filepath.Join(workRoot, "replay")
		args := append([]string{"shard"}, common...)
		args = append(args, "-work", work, "-index", "0", "-count", "1")
		// a process-level violation (worker died / hung / blocked) keeps the case id, not a case.json:
		// run the workload again restricted to that one case
		if b, err := os.ReadFile(filepath.Join(o.ReplayDir, "case.txt")); err == nil && len(strings.TrimSpace(string(b))) > 0 {
			if _, err := os.Stat(filepath.Join(o.ReplayDir, "case.json")); err != nil {
				args = append(args, "-only", strings.TrimSpace(string(b)))
			} else {
				args = append(args, "-replay", o.ReplayDir)
			}
		} else {
			args = append(args, "-replay", o.ReplayDir)
		}
		out := runProc(o.ShardBin, args, baseEnv(o.Root, o.RaceBinary, work), filepath.Join(workRoot, "replay.stderr"), budget, 0, func(e Event) {
			if e.T == "V" {
				addV(*e.V)
			}
		})
		if out.kind != "ok" {
			addV(Violation{Attrs: map[string]string{"kind": out.kind, "case": out.lastID}, What: "replay process " + out.kind + ": " + firstFatalLine(out.stderr), Replay: o.ReplayDir})
		}
		violations = append(violations, raceViolations(work, writeReplay)...)
		if len(violations) > 0 {
			for _, v := range violations {
				fmt.Printf("VIOLATION property=%s replay=%s %s\n", prop, v.Replay, v.What)
			}
			return 1
		}
		fmt.Printf("replay: no violation reproduced for %s\n", o.ReplayDir)
		return 0
	}

	// ---- witnesses of known / fixed findings -------------------------------
	reproduced := map[string]bool{}
	for _, f := range findings {
		if len(f.Witness) == 0 || spec.Witness == nil {
			continue
		}
		work := filepath.Join(workRoot, "witness-"+f.ID)
		args := append([]string{"shard"}, common...)
		args = append(args, "-work", work, "-index", "0", "-count", "1", "-witness", f.ID)
		ok := false
		detail := ""
		out := runProc(o.ShardBin, args, baseEnv(o.Root, o.RaceBinary, work), filepath.Join(workRoot, "witness-"+f.ID+".stderr"), budget, 0, func(e Event) {
			if e.T == "W" && e.ID == f.ID {
				ok = e.OK
				detail = e.Msg
			}
		})
		switch out.kind {
		case "ok":
		case "hang", "memory", "died", "blocked":
			// the witness of a crash/hang finding reproduces by killing its process
			k := out.kind
			if k == "died" {
				k = "fatal"
			}
			if (Finding{Match: map[string]string{"kind": f.Match["kind"]}}).Matches(map[string]string{"kind": k}) {
				ok = true
				detail = out.kind + ": " + firstFatalLine(out.stderr)
			} else {
				addI(fmt.Sprintf("witness %s: process %s (%s)", f.ID, out.kind, firstFatalLine(out.stderr)))
			}
		default:
			addI(fmt.Sprintf("witness %s: %s", f.ID, out.kind))
		}
		if rv := raceViolations(work, nil); len(rv) > 0 && f.Match["kind"] == "race" {
			for _, v := range rv {
				if f.Matches(v.Attrs) {
					ok = true
					detail = v.What
				}
			}
		}
		reproduced[f.ID] = ok
		if ok && f.Status == "fixed" {
			dir := writeReplay("regression-"+f.ID, map[string]string{"witness.json": string(f.Witness), "detail.txt": detail}, "")
			addV(Violation{Attrs: map[string]string{"kind": "regression", "finding": f.ID}, What: "fixed finding reproduces again: " + f.What + " (" + detail + ")", Replay: dir})
		}
	}

	// ---- workload shards ---------------------------------------------------
	merged := &Merged{Counters: map[string]int64{}, Cover: map[string]map[string]int64{}}
	var mmu sync.Mutex
	mergeStats := func(st *Stats) {
		if st == nil {
			return
		}
		mmu.Lock()
		defer mmu.Unlock()
		merged.Evaluations += st.Evaluations
		for k, v := range st.Counters {
			merged.Counters[k] += v
		}
		for t, m := range st.Cover {
			mm := merged.Cover[t]
			if mm == nil {
				mm = map[string]int64{}
				merged.Cover[t] = mm
			}
			for k, v := range m {
				mm[k] += v
			}
		}
		if len(merged.Samples) < 8 {
			for _, s := range st.Samples {
				if len(merged.Samples) < 8 {
					merged.Samples = append(merged.Samples, s)
				}
			}
		}
	}
	wall := 6 * time.Hour
	var wg sync.WaitGroup
	for i := 0; i < nshards; i++ {
		wg.Add(1)
		go func(i int) {
			defer wg.Done()
			work := filepath.Join(workRoot, fmt.Sprintf("shard-%d", i))
			resume := ""
			for incarnation := 0; ; incarnation++ {
				args := append([]string{"shard"}, common...)
				args = append(args, "-work", work, "-index", strconv.Itoa(i), "-count", strconv.Itoa(nshards))
				if resume != "" {
					args = append(args, "-resume-after", resume)
				}
				stderrPath := filepath.Join(workRoot, fmt.Sprintf("shard-%d.%d.stderr", i, incarnation))
				out := runProc(o.ShardBin, args, baseEnv(o.Root, o.RaceBinary, work), stderrPath, budget, wall, func(e Event) {
					switch e.T {
					case "V":
						addV(*e.V)
					case "I":
						addI(e.Msg)
					}
				})
				mergeStats(out.stats)
				if out.kind == "ok" {
					return
				}
				if out.kind == "wallclock" {
					addI(fmt.Sprintf("shard %d: wall-clock watchdog fired at case %q", i, out.lastID))
					return
				}
				kind := out.kind
				attrs := map[string]string{"kind": kind, "case": out.lastID}
				what := ""
				switch kind {
				case "died":
					attrs["kind"] = "fatal"
					attrs["fatal"] = firstFatalLine(out.stderr)
					attrs["site"] = PanicSite(out.stderr)
					what = fmt.Sprintf("worker process died during case %q: %s", out.lastID, attrs["fatal"])
				case "hang":
					attrs["site"] = hangSite(out.stderr)
					what = fmt.Sprintf("case %q consumed more than %.0f CPU-seconds without finishing", out.lastID, budget)
				case "blocked":
					attrs["site"] = hangSite(out.stderr)
					what = fmt.Sprintf("case %q blocked: every thread of the worker asleep, no child process, no CPU consumed over 150 consecutive polls", out.lastID)
				case "memory":
					what = fmt.Sprintf("case %q drove resident memory above %d MiB", out.lastID, rssCeiling>>20)
				}
				dir := writeReplay(fmt.Sprintf("%s-shard%d-%d", kind, i, incarnation), map[string]string{"stderr.txt": out.stderr, "case.txt": out.lastID}, filepath.Join(work, "cur"))
				vj, _ := json.MarshalIndent(map[string]any{"property": prop, "attrs": attrs, "what": what, "case": out.lastID, "seed": o.Seed, "tier": o.Tier}, "", " ")
				_ = os.WriteFile(filepath.Join(dir, "violation.json"), vj, 0o644)
				addV(Violation{Attrs: attrs, What: what, Replay: dir})
				if out.lastID == "" || incarnation > 300 {
					addI(fmt.Sprintf("shard %d could not be resumed after %s", i, kind))
					return
				}
				resume = out.lastID
			}
		}(i)
	}
	wg.Wait()

	// distinct non-trivial inputs: union of the shards' digest files
	merged.Distinct = countDigests(workRoot, nshards)

	// race detector reports
	if o.RaceBinary {
		for i := 0; i < nshards; i++ {
			violations = append(violations, raceViolations(filepath.Join(workRoot, fmt.Sprintf("shard-%d", i)), writeReplay)...)
		}
	}

	// ---- verdict -----------------------------------------------------------
	if spec.Floor != nil {
		merged.Inconcl = inconcl
		inconcl = append(inconcl, spec.Floor(o.Tier, merged)...)
	}
	if len(merged.Samples) == 0 {
		inconcl = append(inconcl, "the workload recorded no sample case")
	}
	matchedKnown := map[string]int{}
	var unmatched []Violation
	seenKey := map[string]int{}
	for _, v := range violations {
		hit := false
		for _, f := range findings {
			if f.Status == "known" && f.Matches(v.Attrs) {
				matchedKnown[f.ID]++
				hit = true
				break
			}
		}
		if hit {
			continue
		}
		k := AttrKey(v.Attrs)
		seenKey[k]++
		if seenKey[k] <= 2 {
			unmatched = append(unmatched, v)
		}
	}
	for _, f := range findings {
		if f.Status != "known" {
			continue
		}
		if reproduced[f.ID] || matchedKnown[f.ID] > 0 {
			fmt.Printf("KNOWN-FINDING: property=%s %s [%s; witness reproduces=%v, workload hits=%d]\n", prop, f.What, f.ID, reproduced[f.ID], matchedKnown[f.ID])
		} else {
			fmt.Printf("NOTE: property=%s listed finding %s did not reproduce on this tree\n", prop, f.ID)
		}
	}
	for _, v := range unmatched {
		fmt.Printf("VIOLATION property=%s replay=%s %s\n", prop, v.Replay, v.What)
	}
	for _, m := range uniq(inconcl) {
		fmt.Printf("INCONCLUSIVE property=%s %s\n", prop, m)
	}

	ev := map[string]any{
		"property_id": prop,
		"tier":        o.Tier,
		"seed":        o.Seed,
		"level":       spec.Level,
		"wall_s":      time.Since(start).Seconds(),
		"violations":  len(unmatched),
		"assumptions": spec.Assumptions,
		"coverage": map[string]any{
			"evaluations":         merged.Evaluations,
			"distinct_nontrivial": merged.Distinct,
			"rule":                spec.Rule,
			"samples":             merged.Samples,
			"exhaustive":          spec.Exhaustive != nil && spec.Exhaustive(o.Tier),
			"counters":            merged.Counters,
			"classes":             merged.Cover,
			"shards":              nshards,
			"race_detector":       o.RaceBinary,
			"inconclusive":        uniq(inconcl),
			"known_findings_hit":  matchedKnown,
			"violation_keys":      keysOf(seenKey),
		},
	}
	if merged.Samples == nil {
		ev["coverage"].(map[string]any)["samples"] = []any{}
	}
	b, _ := json.MarshalIndent(ev, "", " ")
	_ = os.MkdirAll(filepath.Join(o.OutRoot, "evidence"), 0o755)
	if err := os.WriteFile(filepath.Join(o.OutRoot, "evidence", prop+".json"), b, 0o644); err != nil {
		fmt.Printf("INCONCLUSIVE property=%s cannot write evidence: %v\n", prop, err)
		return 3
	}
	fmt.Printf("SUMMARY property=%s tier=%s seed=%d evaluations=%d distinct_nontrivial=%d violations=%d known=%d inconclusive=%d wall=%.1fs\n",
		prop, o.Tier, o.Seed, merged.Evaluations, merged.Distinct, len(unmatched), len(matchedKnown), len(uniq(inconcl)), time.Since(start).Seconds())
	if len(unmatched) > 0 {
		return 1
	}
	if len(inconcl) > 0 {
		return 3
	}
	return 0
}

func keysOf(m map[string]int) []string {
	var out []string
	for k := range m {
		out = append(out, k)
	}
	sort.Strings(out)
	return out
}

func uniq(in []string) []string {
	seen := map[string]bool{}
	out := []string{}
	for _, s := range in {
		if !seen[s] {
			seen[s] = true
			out = append(out, s)
		}
	}
	return out
}

func countDigests(workRoot string, nshards int) int64 {
	set := map[uint64]struct{}{}
	for i := 0; i < nshards; i++ {
		f, err := os.Open(filepath.Join(workRoot, fmt.Sprintf("shard-%d", i), "digests.bin"))
		if err != nil {
			continue
		}
		r := bufio.NewReaderSize(f, 1<<20)
		var b [8]byte
		for {
			if _, err := io.ReadFull(r, b[:]); err != nil {
				break
			}
			set[binary.LittleEndian.Uint64(b[:])] = struct{}{}
		}
		f.Close()
	}
	return int64(len(set))
}

// hangSite names the innermost compose-go function of the first running goroutine of a SIGQUIT dump.
func hangSite(stderr string) string {
	idx := strings.Index(stderr, "SIGQUIT")
	if idx < 0 {
		return "unknown"
	}
	return PanicSite(stderr[idx:])
}

// raceViolations turns the race detector's log files under dir into violations,
// de-duplicated by the pair of first compose-go frames of the two accesses.
func raceViolations(dir string, writeReplay func(string, map[string]string, string) string) []Violation {
	files, _ := filepath.Glob(filepath.Join(dir, "race.*"))
	var out []Violation
	seen := map[string]bool{}
	for _, fn := range files {
		b, err := os.ReadFile(fn)
		if err != nil {
			continue
		}
		blocks := strings.Split(string(b), "WARNING: DATA RACE")
		for _, blk := range blocks[1:] {
			if i := strings.Index(blk, "=================="); i >= 0 {
				blk = blk[:i]
			}
			pair := racePair(blk)
			if seen[pair] {
				continue
			}
			seen[pair] = true
			v := Violation{Attrs: map[string]string{"kind": "race", "pair": pair}, What: "data race reported by the race detector between " + pair}
			if writeReplay != nil {
				v.Replay = writeReplay("race-"+sanitize(pair), map[string]string{"race.txt": "WARNING: DATA RACE" + blk}, "")
			}
			out = append(out, v)
		}
	}
	return out
}

func sanitize(s string) string {
	var sb strings.Builder
	for _, r := range s {
		if r >= 'a' && r <= 'z' || r >= 'A' && r <= 'Z' || r >= '0' && r <= '9' || r == '.' || r == '-' {
			sb.WriteRune(r)
		} else {
			sb.WriteByte('_')
		}
	}
	if sb.Len() > 100 {
		return sb.String()[:100]
	}
	return sb.String()
}

// racePair extracts, for each of the two access stacks of a race report, the
// first frame inside compose-go (or the harness if none), sorted.
func racePair(blk string) string {
	var sites []string
	sections := strings.Split(blk, "\n\n")
	for _, sec := range sections {
		t := strings.TrimSpace(sec)
		if !(strings.HasPrefix(t, "Read at") || strings.HasPrefix(t, "Write at") || strings.HasPrefix(t, "Previous read at") || strings.HasPrefix(t, "Previous write at") || strings.HasPrefix(t, "Atomic")) && !strings.Contains(strings.SplitN(t, "\n", 2)[0], " at 0x") {
			continue
		}
		site := "non-compose-go"
		for _, l := range strings.Split(t, "\n") {
			l = strings.TrimSpace(l)
			if strings.HasPrefix(l, modPrefix) {
				fn := l[len(modPrefix):]
				if i := strings.LastIndex(fn, "("); i > 0 {
					fn = fn[:i]
				}
				site = strings.ReplaceAll(fn, "[...]", "")
				break
			}
		}
		sites = append(sites, site)
		if len(sites) == 2 {
			break
		}
	}
	sort.Strings(sites)
	return strings.Join(sites, " <-> ")
}
