package core

import (
	"fmt"
	"regexp"
	"runtime/debug"
	"strings"
)

// PanicInfo describes a recovered panic by a location-independent signature.
type PanicInfo struct {
	Value string
	Class string // interface conversion | index out of range | nil map | nil pointer | slice bounds | other:<prefix>
	Site  string // first compose-go frame: pkg.Func (no line numbers)
	Stack string
}

const modPrefix = "github.com/compose-spec/compose-go/v2/"

var frameRe = regexp.MustCompile(`^(\S+)\(.*\)$|^(\S+)\(\.\.\.\)$`)

// Guard runs fn and converts a panic into a PanicInfo.
func Guard(fn func()) (pi *PanicInfo) {
	defer func() {
		if r := recover(); r != nil {
			pi = DescribePanic(r, string(debug.Stack()))
		}
	}()
	fn()
	return nil
}

// DescribePanic builds the signature of a recovered value and its stack.
func DescribePanic(r any, stack string) *PanicInfo {
	val := fmt.Sprint(r)
	return &PanicInfo{Value: val, Class: PanicClass(val), Site: PanicSite(stack), Stack: stack}
}

// PanicClass buckets a panic message.
func PanicClass(val string) string {
	switch {
	case strings.Contains(val, "interface conversion"):
		return "interface conversion"
	case strings.Contains(val, "index out of range"):
		return "index out of range"
	case strings.Contains(val, "assignment to entry in nil map"):
		return "nil map"
	case strings.Contains(val, "nil pointer dereference"):
		return "nil pointer"
	case strings.Contains(val, "slice bounds out of range"):
		return "slice bounds"
	case strings.Contains(val, "unhashable type"), strings.Contains(val, "uncomparable type"):
		return "uncomparable"
	case strings.Contains(val, "reflect"):
		return "reflect"
	}
	if len(val) > 40 {
		val = val[:40]
	}
	return "other:" + val
}

// PanicSite extracts the first compose-go frame below the panic machinery.
func PanicSite(stack string) string {
	lines := strings.Split(stack, "\n")
	seenPanic := false
	for _, l := range lines {
		l = strings.TrimSpace(l)
		if strings.HasPrefix(l, "panic(") {
			seenPanic = true
			continue
		}
		if !seenPanic {
			continue
		}
		if strings.HasPrefix(l, modPrefix) {
			fn := l[len(modPrefix):]
			if i := strings.LastIndex(fn, "("); i > 0 {
				fn = fn[:i]
			}
			// strip generic instantiation noise
			fn = strings.ReplaceAll(fn, "[...]", "")
			return fn
		}
	}
	// fatal-error style stacks have no panic( frame: take the first compose-go frame
	for _, l := range lines {
		l = strings.TrimSpace(l)
		if strings.HasPrefix(l, modPrefix) {
			fn := l[len(modPrefix):]
			if i := strings.LastIndex(fn, "("); i > 0 {
				fn = fn[:i]
			}
			return strings.ReplaceAll(fn, "[...]", "")
		}
	}
	return "unknown"
}
