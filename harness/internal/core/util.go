package core

import (
	"encoding/json"
	"os"
)

// ReadJSON decodes the JSON file at path into v.
func ReadJSON(path string, v any) error {
	b, err := os.ReadFile(path)
	if err != nil {
		return err
	}
	return json.Unmarshal(b, v)
}
