package c03

import (
	"fmt"
	"reflect"
	"sort"
	"strconv"
	"strings"

	"gopkg.in/yaml.v3"
)

// A pcase is one generated case. It is fully serialisable: Replay re-judges it
// from case.json alone.
//
// Mode "pair":   Docs[0] is the long (canonical) spelling rendered from the
//
//	drawn semantic value, Docs[1:] are the alternative spellings
//	of the same value. Every alternative must load, and must load
//	to the typed project of Docs[0]; Expect holds direct
//	assertions derived from the drawn value (evaluated on every
//	loaded project).
//
// Mode "reject": Docs[*] each hold a near-miss string outside the grammar; the
//
//	load must fail and must not return a project.
//
// Mode "nocrash": in the grammar but without a stated meaning; only the
//
//	absence of a panic / a partial load is judged.
type pcase struct {
	Family   string            `json:"family"`
	Position string            `json:"position"` // attribute position, stable (no generated names)
	Class    string            `json:"class"`    // coverage class inside the family
	Mode     string            `json:"mode"`
	Docs     []spelled         `json:"docs"`
	Files    map[string]string `json:"files,omitempty"`
	Expect   map[string]string `json:"expect,omitempty"`
	Why      string            `json:"why,omitempty"` // reject: why the string is outside the grammar
}

type spelled struct {
	Name string `json:"name"` // spelling name: long | short | string | list | mapping | ...
	Text string `json:"text"` // the short-form text itself (for messages / distinct counting)
	YAML string `json:"yaml"`
}

// m is shorthand for a YAML mapping.
type m = map[string]any

// l is shorthand for a YAML sequence.
type l = []any

func toYAML(doc m) string {
	b, err := yaml.Marshal(doc)
	if err != nil {
		panic("c03: cannot marshal generated document: " + err.Error())
	}
	return string(b)
}

// svcDoc builds {services: {s: {image: img, <attrs>}}} plus extra top-level sections.
func svcDoc(attrs m, top m) m {
	svc := m{"image": "img"}
	for k, v := range attrs {
		svc[k] = v
	}
	doc := m{"services": m{"s": svc}}
	for k, v := range top {
		if k == "services" {
			for n, sv := range v.(m) {
				doc["services"].(m)[n] = sv
			}
			continue
		}
		doc[k] = v
	}
	return doc
}

// position describes where in a document a value with alternative spellings
// is placed. wrap returns the service attributes / top-level sections holding v.
type position struct {
	name string
	// wrap places v; it returns (service attributes, extra top-level sections).
	wrap func(v any) (m, m)
	// get is the path of the typed value inside the project (for Expect), "" if unused.
	get string
}

func (p position) doc(v any) string {
	a, t := p.wrap(v)
	return toYAML(svcDoc(a, t))
}

func svcAttr(key string) func(v any) (m, m) {
	return func(v any) (m, m) { return m{key: v}, nil }
}

// ---- reflective getter used by Expect ------------------------------------------

// lookup evaluates a path such as "Services[s].Ports[0].Target" or
// "len(Services[s].Ports)" on a typed value and prints the result.
func lookup(root any, path string) (string, error) {
	isLen, isNil := false, false
	if strings.HasPrefix(path, "len(") && strings.HasSuffix(path, ")") {
		isLen = true
		path = path[4 : len(path)-1]
	}
	if strings.HasPrefix(path, "isnil(") && strings.HasSuffix(path, ")") {
		isNil = true
		path = path[6 : len(path)-1]
	}
	v := reflect.ValueOf(root)
	i := 0
	deref := func() {
		for v.IsValid() && (v.Kind() == reflect.Ptr || v.Kind() == reflect.Interface) && !v.IsNil() {
			v = v.Elem()
		}
	}
	for i < len(path) {
		deref()
		switch path[i] {
		case '.':
			i++
		case '[':
			j := strings.IndexByte(path[i:], ']')
			if j < 0 {
				return "", fmt.Errorf("bad path %q", path)
			}
			key := path[i+1 : i+j]
			i += j + 1
			switch v.Kind() {
			case reflect.Map:
				e := v.MapIndex(reflect.ValueOf(key).Convert(v.Type().Key()))
				if !e.IsValid() {
					return "<absent>", nil
				}
				v = e
			case reflect.Slice:
				n, err := strconv.Atoi(key)
				if err != nil || n < 0 || n >= v.Len() {
					return "<absent>", nil
				}
				v = v.Index(n)
			default:
				return "<absent>", nil
			}
		default:
			j := i
			for j < len(path) && path[j] != '.' && path[j] != '[' {
				j++
			}
			name := path[i:j]
			i = j
			if v.Kind() != reflect.Struct {
				return "<absent>", nil
			}
			f := v.FieldByName(name)
			if !f.IsValid() {
				return "", fmt.Errorf("no field %s in %s", name, v.Type())
			}
			v = f
		}
	}
	if isNil {
		switch v.Kind() {
		case reflect.Ptr, reflect.Interface, reflect.Slice, reflect.Map:
			return strconv.FormatBool(v.IsNil()), nil
		}
		return "", fmt.Errorf("isnil of %s", v.Kind())
	}
	if (v.Kind() == reflect.Ptr || v.Kind() == reflect.Interface) && v.IsNil() {
		if isLen {
			return "0", nil
		}
		return "<nil>", nil
	}
	deref()
	if isLen {
		switch v.Kind() {
		case reflect.Map, reflect.Slice, reflect.String:
			return strconv.Itoa(v.Len()), nil
		}
		return "", fmt.Errorf("len of %s", v.Kind())
	}
	return printValue(v), nil
}

func printValue(v reflect.Value) string {
	switch v.Kind() {
	case reflect.Int, reflect.Int8, reflect.Int16, reflect.Int32, reflect.Int64:
		return strconv.FormatInt(v.Int(), 10)
	case reflect.Uint, reflect.Uint8, reflect.Uint16, reflect.Uint32, reflect.Uint64:
		return strconv.FormatUint(v.Uint(), 10)
	case reflect.String:
		return v.String()
	case reflect.Bool:
		return strconv.FormatBool(v.Bool())
	case reflect.Slice:
		parts := make([]string, v.Len())
		for i := range parts {
			e := v.Index(i)
			for (e.Kind() == reflect.Ptr || e.Kind() == reflect.Interface) && !e.IsNil() {
				e = e.Elem()
			}
			parts[i] = strconv.Quote(printValue(e))
		}
		return "[" + strings.Join(parts, " ") + "]"
	case reflect.Map:
		keys := v.MapKeys()
		parts := make([]string, 0, len(keys))
		for _, k := range keys {
			e := v.MapIndex(k)
			s := "<nil>"
			if !((e.Kind() == reflect.Ptr || e.Kind() == reflect.Interface) && e.IsNil()) {
				for e.Kind() == reflect.Ptr || e.Kind() == reflect.Interface {
					e = e.Elem()
				}
				s = strconv.Quote(printValue(e))
			}
			parts = append(parts, strconv.Quote(fmt.Sprint(k.Interface()))+":"+s)
		}
		sort.Strings(parts)
		return "{" + strings.Join(parts, " ") + "}"
	}
	if v.CanInterface() {
		return fmt.Sprintf("%v", v.Interface())
	}
	return fmt.Sprintf("%v", v)
}

// quoteList prints a string list the way printValue prints a []string.
func quoteList(xs []string) string {
	parts := make([]string, len(xs))
	for i, x := range xs {
		parts[i] = strconv.Quote(x)
	}
	return "[" + strings.Join(parts, " ") + "]"
}

// quoteMap prints a map[string]*string the way printValue prints a mapping.
func quoteMap(kv map[string]*string) string {
	parts := make([]string, 0, len(kv))
	for k, v := range kv {
		s := "<nil>"
		if v != nil {
			s = strconv.Quote(*v)
		}
		parts = append(parts, strconv.Quote(k)+":"+s)
	}
	sort.Strings(parts)
	return "{" + strings.Join(parts, " ") + "}"
}
