package c03

import (
	"encoding/json"
	"sort"
	"strings"

	"github.com/compose-spec/compose-go/v2/schema"

	"verif/harness/internal/core"
)

// cataloguePositions lists every attribute position the generators place a
// pair at (the harness's own statement of where the specification admits
// alternative spellings). The observation floor requires each to be exercised.
func cataloguePositions() []string {
	out := []string{
		"services.ports", "services.volumes", "services.secrets", "services.configs", "services.build.secrets",
		"services.devices", "services.build", "services.env_file",
		"services.dns", "services.dns_search", "services.tmpfs", "services.label_file",
		"services.depends_on", "services.networks", "services.extends", "services.healthcheck.test",
		"volumes.external", "networks.external", "secrets.external", "configs.external",
		"include", "include.path", "include.env_file", "services.extra_hosts", "services.build.extra_hosts", "services.build.ssh",
		"services.ulimits", "services.build.ulimits",
	}
	for _, p := range kvPositions() {
		out = append(out, p.name)
	}
	for _, p := range durationPositions() {
		out = append(out, p.name)
	}
	for _, p := range bytePositions() {
		out = append(out, p.name)
	}
	for _, p := range commandPositions() {
		out = append(out, p.name)
	}
	return out
}

// schemaGaps walks schema/compose-spec.json of the repository under test and
// records, as evidence only, the positions where the schema admits alternative
// node kinds (oneOf / several types) that no catalogue row covers.
func schemaGaps(s *core.Shard) {
	var root map[string]any
	if err := json.Unmarshal([]byte(schema.Schema), &root); err != nil {
		s.Add("schema_walk_failed", 1)
		return
	}
	defs, _ := root["definitions"].(map[string]any)
	covered := map[string]bool{}
	for _, p := range cataloguePositions() {
		covered[p] = true
	}
	// catalogue names drop list markers and map wildcards
	norm := func(p string) string {
		p = strings.ReplaceAll(p, "[]", "")
		p = strings.ReplaceAll(p, ".*", "")
		return strings.TrimPrefix(p, ".")
	}
	found := map[string]bool{}
	var walk func(node any, path string, seen map[string]bool)
	walk = func(node any, path string, seen map[string]bool) {
		n, ok := node.(map[string]any)
		if !ok {
			return
		}
		if ref, ok := n["$ref"].(string); ok {
			name := ref[strings.LastIndex(ref, "/")+1:]
			if seen[name] {
				return
			}
			s2 := map[string]bool{name: true}
			for k := range seen {
				s2[k] = true
			}
			walk(defs[name], path, s2)
			return
		}
		alts := 0
		if t, ok := n["type"].([]any); ok {
			kinds := map[string]bool{}
			for _, k := range t {
				ks, _ := k.(string)
				if ks == "null" {
					continue
				}
				if ks == "integer" {
					ks = "number"
				}
				kinds[ks] = true
			}
			alts = len(kinds)
		}
		for _, key := range []string{"oneOf", "anyOf"} {
			if a, ok := n[key].([]any); ok {
				alts += len(a)
				for _, alt := range a {
					walk(alt, path, seen)
				}
			}
		}
		if alts > 1 {
			found[norm(path)] = true
		}
		if props, ok := n["properties"].(map[string]any); ok {
			for k, v := range props {
				walk(v, path+"."+k, seen)
			}
		}
		if pp, ok := n["patternProperties"].(map[string]any); ok {
			for k, v := range pp {
				if strings.HasPrefix(k, "^x-") {
					continue
				}
				walk(v, path+".*", seen)
			}
		}
		if it, ok := n["items"].(map[string]any); ok {
			walk(it, path+"[]", seen)
		}
		if ap, ok := n["additionalProperties"].(map[string]any); ok {
			walk(ap, path+".*", seen)
		}
	}
	walk(map[string]any{"properties": root["properties"]}, "", map[string]bool{})
	var names []string
	for p := range found {
		names = append(names, p)
	}
	sort.Strings(names)
	for _, p := range names {
		if covered[p] {
			s.Cover("schema-alternatives-covered", p)
		} else {
			// number|string and boolean|string scalars are the interpolation
			// spellings of C08; listed so that new multi-kind attributes are visible
			s.Cover("schema-alternatives-not-in-C03-catalogue", p)
		}
	}
}
