package c03

import (
	"math/rand"
	"path"
	"strings"
)

// Grammar (statement): [SOURCE:]TARGET[:MODE,...]; a short spec is a bind mount
// iff its source is a path.
//
// Generator restrictions (DESIGN 4/C03): volume names have >= 2 characters,
// relative path sources start with '.', bind-only flags only with path sources,
// nocopy only with named volumes, modes only when a source is present.

type volSpec struct {
	srcKind string // none | name | dot | rel | parent | abs | home | homerel | drive | drivefwd | unc
	source  string
	target  string
	modes   []string // in written order
}

func (v volSpec) isBind() bool { return v.srcKind != "none" && v.srcKind != "name" }

func (v volSpec) short() string {
	s := v.target
	if v.srcKind != "none" {
		s = v.source + ":" + v.target
	}
	if len(v.modes) > 0 {
		s += ":" + strings.Join(v.modes, ",")
	}
	return s
}

func (v volSpec) long() m {
	e := m{"target": path.Clean(v.target)}
	if v.isBind() {
		e["type"] = "bind"
		e["source"] = v.source
		b := m{"create_host_path": true}
		for _, md := range v.modes {
			switch md {
			case "z", "Z":
				b["selinux"] = md
			case "ro", "rw", "nocopy":
			default:
				b["propagation"] = md
			}
		}
		e["bind"] = b
	} else {
		e["type"] = "volume"
		if v.srcKind == "name" {
			e["source"] = v.source
		}
		for _, md := range v.modes {
			if md == "nocopy" {
				e["volume"] = m{"nocopy": true}
			}
		}
	}
	for _, md := range v.modes {
		if md == "ro" {
			e["read_only"] = true
		}
		if md == "rw" {
			e["read_only"] = false
		}
	}
	return e
}

var (
	volNames    = []string{"data", "db-data", "my_vol", "v1", "cache.d", "DB", "a0", "vol-2_x"}
	relDirs     = []string{"./rel", "./a/b", "./.hidden", "./my dir", "./x.y-z"}
	parentDirs  = []string{"../rel", "../../up", "../a/b"}
	absDirs     = []string{"/abs", "/var/lib/data", "/opt/x y", "/a"}
	homeRel     = []string{"~/x", "~/a/b", "~/.config"}
	drives      = []string{`C:\x`, `D:\a\b`, `c:\Users\me`}
	drivesFwd   = []string{"C:/x", "d:/a/b"}
	uncs        = []string{`\\srv\share`, `\\.\pipe\docker_engine`}
	volTargets  = []string{"/data", "/var/lib/x", "/t", "/data/", "/a//b", "/a/./b", "/mnt/with space", "/x/../y"}
	propagation = []string{"rprivate", "private", "rshared", "shared", "rslave", "slave"}
	volSrcKinds = []string{"none", "name", "dot", "rel", "parent", "abs", "home", "homerel", "drive", "drivefwd", "unc"}
)

func pick(r *rand.Rand, xs []string) string { return xs[r.Intn(len(xs))] }

func drawVol(r *rand.Rand, kind string, modeMask int) volSpec {
	v := volSpec{srcKind: kind, target: pick(r, volTargets)}
	switch kind {
	case "name":
		v.source = pick(r, volNames)
	case "dot":
		v.source = "."
	case "rel":
		v.source = pick(r, relDirs)
	case "parent":
		v.source = pick(r, parentDirs)
	case "abs":
		v.source = pick(r, absDirs)
	case "home":
		v.source = "~"
	case "homerel":
		v.source = pick(r, homeRel)
	case "drive":
		v.source = pick(r, drives)
	case "drivefwd":
		v.source = pick(r, drivesFwd)
	case "unc":
		v.source = pick(r, uncs)
	}
	if kind == "none" {
		return v
	}
	// modeMask bits: 0-1 access (0 none, 1 ro, 2 rw), 2-3 selinux / nocopy, 4 propagation
	switch modeMask & 3 {
	case 1:
		v.modes = append(v.modes, "ro")
	case 2:
		v.modes = append(v.modes, "rw")
	}
	if v.isBind() {
		switch (modeMask >> 2) & 3 {
		case 1:
			v.modes = append(v.modes, "z")
		case 2:
			v.modes = append(v.modes, "Z")
		}
		if (modeMask>>4)&1 == 1 {
			v.modes = append(v.modes, pick(r, propagation))
		}
	} else if (modeMask>>2)&1 == 1 {
		v.modes = append(v.modes, "nocopy")
	}
	r.Shuffle(len(v.modes), func(i, j int) { v.modes[i], v.modes[j] = v.modes[j], v.modes[i] })
	return v
}

var volumesPosition = position{name: "services.volumes"}

func volDoc(entries l, names map[string]bool) string {
	top := m{}
	if len(names) > 0 {
		vs := m{}
		for n := range names {
			vs[n] = m{}
		}
		top["volumes"] = vs
	}
	return toYAML(svcDoc(m{"volumes": entries}, top))
}

func genVolumes(g *gen) {
	r := g.s.Rand("volumes")
	emitVol := func(v volSpec) {
		names := map[string]bool{}
		if v.srcKind == "name" {
			names[v.source] = true
		}
		typ := "volume"
		if v.isBind() {
			typ = "bind"
		}
		exp := map[string]string{
			"len(Services[s].Volumes)":      "1",
			"Services[s].Volumes[0].Type":   typ,
			"Services[s].Volumes[0].Target": path.Clean(v.target),
		}
		ro := "false"
		for _, md := range v.modes {
			if md == "ro" {
				ro = "true"
			}
		}
		exp["Services[s].Volumes[0].ReadOnly"] = ro
		if v.isBind() {
			exp["Services[s].Volumes[0].Bind.CreateHostPath"] = "true"
		}
		cls := "source=" + v.srcKind + ",modes=" + modeClass(v.modes)
		g.emit(pcase{Position: volumesPosition.name, Class: cls, Mode: "pair",
			Docs: []spelled{
				{Name: "long", Text: "type " + typ, YAML: volDoc(l{v.long()}, names)},
				{Name: "short", Text: v.short(), YAML: volDoc(l{v.short()}, names)},
			},
			Expect: exp})
	}
	// (a) every source kind x every mode combination (access x selinux|nocopy x propagation)
	reps := g.size(2, 25)
	for rep := 0; rep < reps; rep++ {
		for _, k := range volSrcKinds {
			for mask := 0; mask < 32; mask++ {
				if mask&3 == 3 || (mask>>2)&3 == 3 {
					continue
				}
				if k == "none" && mask != 0 {
					continue
				}
				if k == "name" && ((mask>>2)&3 == 2 || (mask>>4)&1 == 1) {
					continue
				}
				emitVol(drawVol(r, k, mask))
			}
		}
	}
	// (b) lists of several mounts with distinct targets
	for i := 0; i < g.size(150, 3000); i++ {
		k := 2 + r.Intn(3)
		var shorts, longs l
		var texts []string
		names := map[string]bool{}
		used := map[string]bool{}
		for len(shorts) < k {
			v := drawVol(r, pick(r, volSrcKinds), r.Intn(32)) // drawVol ignores mask fields that do not apply
			if ct := path.Clean(v.target); used[ct] {
				continue
			} else {
				used[ct] = true
			}
			if v.srcKind == "name" {
				names[v.source] = true
			}
			shorts = append(shorts, v.short())
			longs = append(longs, v.long())
			texts = append(texts, v.short())
		}
		g.emit(pcase{Position: volumesPosition.name, Class: "multi-entry", Mode: "pair",
			Docs: []spelled{
				{Name: "long", Text: "long entries", YAML: volDoc(longs, names)},
				{Name: "short", Text: strings.Join(texts, " , "), YAML: volDoc(shorts, names)},
			},
			Expect: map[string]string{"len(Services[s].Volumes)": itoa(k)}})
	}
	// (d) bind-only flags on a named volume and nocopy on a path source: what the flags mean
	// there is not stated, but "a bind mount iff its source is a path" is: assert type, source
	// and target only.
	for i := 0; i < g.size(40, 400); i++ {
		named := i%4 != 3
		var v volSpec
		if named {
			v = drawVol(r, "name", 0)
			v.modes = []string{pick(r, append([]string{"z", "Z"}, propagation...))}
			if i%3 == 0 {
				v.modes = append([]string{pick(r, []string{"ro", "rw"})}, v.modes...)
			}
		} else {
			v = drawVol(r, pick(r, []string{"rel", "abs", "homerel"}), 0)
			if !v.isBind() {
				continue
			}
			v.modes = []string{"nocopy"}
		}
		names := map[string]bool{}
		typ := "bind"
		if v.srcKind == "name" {
			names[v.source] = true
			typ = "volume"
		}
		exp := map[string]string{
			"len(Services[s].Volumes)":      "1",
			"Services[s].Volumes[0].Type":   typ,
			"Services[s].Volumes[0].Target": path.Clean(v.target),
		}
		if typ == "volume" {
			exp["Services[s].Volumes[0].Source"] = v.source
		}
		g.emit(pcase{Position: volumesPosition.name, Class: "flag-foreign-to-type,source=" + v.srcKind, Mode: "pair",
			Docs:   []spelled{{Name: "short", Text: v.short(), YAML: volDoc(l{v.short()}, names)}},
			Expect: exp})
	}
	// (c) unknown mode flags: the statement does not list them, the code documents
	// that it ignores them: no-crash only.
	for i := 0; i < g.size(20, 200); i++ {
		v := drawVol(r, pick(r, volSrcKinds[1:]), 0)
		v.modes = []string{pick(r, []string{"cached", "delegated", "consistent", "foo", "RO", "rox"})}
		names := map[string]bool{}
		if v.srcKind == "name" {
			names[v.source] = true
		}
		g.emit(pcase{Position: volumesPosition.name, Class: "unknown-mode-flag", Mode: "nocrash",
			Docs: []spelled{{Name: "short", Text: v.short(), YAML: volDoc(l{v.short()}, names)}}})
	}
}

func modeClass(modes []string) string {
	if len(modes) == 0 {
		return "none"
	}
	var c []string
	for _, md := range modes {
		switch md {
		case "ro", "rw", "z", "Z", "nocopy":
			c = append(c, md)
		default:
			c = append(c, "prop")
		}
	}
	return strings.Join(c, "+")
}
