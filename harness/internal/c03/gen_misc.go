package c03

import (
	"math/rand"
	"strconv"
	"strings"
)

func itoa(n int) string { return strconv.Itoa(n) }

// distinct draws k distinct elements of xs in a seeded order.
func distinct(r *rand.Rand, xs []string, k int) []string {
	idx := r.Perm(len(xs))
	if k > len(xs) {
		k = len(xs)
	}
	out := make([]string, k)
	for i := range out {
		out[i] = xs[idx[i]]
	}
	return out
}

func strs(xs []string) l {
	out := make(l, len(xs))
	for i, x := range xs {
		out[i] = x
	}
	return out
}

var resourceNames = []string{"db_password", "cert", "app.conf", "my-secret", "S1", "token_2", "a", "x.y-z"}

// ---- secrets / configs: NAME == {source: NAME} ---------------------------------

func genFileMounts(g *gen) {
	r := g.s.Rand("mounts")
	type pos struct {
		name    string
		section string // top-level section
		wrap    func(v any) m
		get     string
	}
	positions := []pos{
		{"services.secrets", "secrets", func(v any) m { return m{"secrets": v} }, "Services[s].Secrets"},
		{"services.configs", "configs", func(v any) m { return m{"configs": v} }, "Services[s].Configs"},
		{"services.build.secrets", "secrets", func(v any) m { return m{"build": m{"context": ".", "secrets": v}} }, "Services[s].Build.Secrets"},
	}
	for i := 0; i < g.size(150, 2400); i++ {
		p := positions[i%len(positions)]
		names := distinct(r, resourceNames, 1+r.Intn(3))
		top := m{}
		for j, n := range names {
			switch {
			case p.section == "configs" && j%2 == 1:
				top[n] = m{"content": "inline"}
			case j%3 == 2:
				top[n] = m{"environment": "SOME_VAR"}
			default:
				top[n] = m{"file": "./" + n + ".txt"}
			}
		}
		var shorts, longs l
		for _, n := range names {
			shorts = append(shorts, n)
			longs = append(longs, m{"source": n})
		}
		exp := map[string]string{"len(" + p.get + ")": itoa(len(names))}
		if len(names) == 1 {
			exp[p.get+"[0].Source"] = names[0]
		}
		g.emit(pcase{Position: p.name, Class: itoa(len(names)) + "-entries", Mode: "pair",
			Docs: []spelled{
				{Name: "long", Text: "source: " + strings.Join(names, ","), YAML: toYAML(svcDoc(p.wrap(longs), m{p.section: top}))},
				{Name: "short", Text: strings.Join(names, ","), YAML: toYAML(svcDoc(p.wrap(shorts), m{p.section: top}))},
			},
			Expect: exp})
	}
}

// ---- devices: SRC[:DST[:PERM]] == {source, target (= source), permissions (= rwm)}

func genDevices(g *gen) {
	r := g.s.Rand("devices")
	srcs := []string{"/dev/ttyUSB0", "/dev/sda", "/dev/snd", "/dev/dri/card0", "/dev/bus/usb/001/002", "/dev/null"}
	dsts := []string{"/dev/ttyS0", "/dev/xvda", "/dev/target", "/dev/a/b"}
	perms := []string{"r", "w", "m", "rw", "rm", "wm", "rwm", "mrw"}
	for i := 0; i < g.size(150, 2400); i++ {
		k := 1 + r.Intn(2)
		var shorts, longs l
		var texts []string
		exp := map[string]string{"len(Services[s].Devices)": itoa(k)}
		cls := ""
		dstPick := distinct(r, dsts, k) // entries are unique by target
		for j, src := range distinct(r, srcs, k) {
			shape := (i + j) % 3
			short, dst, perm := src, src, "rwm"
			if shape >= 1 {
				dst = dstPick[j]
				short += ":" + dst
			}
			if shape == 2 {
				perm = pick(r, perms)
				short += ":" + perm
			}
			shorts = append(shorts, short)
			longs = append(longs, m{"source": src, "target": dst, "permissions": perm})
			texts = append(texts, short)
			cls += []string{"SRC", "SRC:DST", "SRC:DST:PERM"}[shape] + ";"
			if k == 1 {
				exp["Services[s].Devices[0].Source"] = src
				exp["Services[s].Devices[0].Target"] = dst
				exp["Services[s].Devices[0].Permissions"] = perm
			}
		}
		g.emit(pcase{Position: "services.devices", Class: cls, Mode: "pair",
			Docs: []spelled{
				{Name: "long", Text: "long entries", YAML: toYAML(svcDoc(m{"devices": longs}, nil))},
				{Name: "short", Text: strings.Join(texts, " , "), YAML: toYAML(svcDoc(m{"devices": shorts}, nil))},
			},
			Expect: exp})
	}
}

// ---- build: DIR == {context: DIR} ----------------------------------------------

func genBuild(g *gen) {
	dirs := []string{".", "./dir", "./a/b", "../up", "/abs/ctx", "dir", "sub/dir", "./my dir",
		"https://github.com/example/repo.git", "https://github.com/example/repo.git#main:sub", "git@github.com:example/repo.git", "~/ctx"}
	// seeded relative / absolute directories built from path components
	r := g.s.Rand("build")
	comps := []string{"app", "src", "my dir", "x.y", "a-b", "_c", "..", "."}
	for i := 0; i < g.size(40, 600); i++ {
		parts := make([]string, 1+r.Intn(3))
		for j := range parts {
			parts[j] = pick(r, comps[:6])
		}
		d := strings.Join(parts, "/")
		switch r.Intn(5) {
		case 0:
			d = "./" + d
		case 1:
			d = "../" + d
		case 2:
			d = "/" + d
		case 3:
			d = d + "/"
		}
		dirs = append(dirs, d)
	}
	for _, d := range dirs {
		g.emit(pcase{Position: "services.build", Class: classOfPath(d), Mode: "pair",
			Docs: []spelled{
				{Name: "long", Text: "context: " + d, YAML: toYAML(svcDoc(m{"build": m{"context": d}}, nil))},
				{Name: "short", Text: d, YAML: toYAML(svcDoc(m{"build": d}, nil))},
			}})
	}
}

func classOfPath(d string) string {
	switch {
	case strings.Contains(d, "://") || strings.HasPrefix(d, "git@"):
		return "remote"
	case strings.HasPrefix(d, "/"):
		return "absolute"
	case strings.HasPrefix(d, "~"):
		return "home"
	case strings.HasPrefix(d, ".."):
		return "parent"
	case strings.HasPrefix(d, "."):
		return "dot-relative"
	}
	return "bare-relative"
}

// ---- env_file: string | list | list of {path} == list of {path, required: true}

func genEnvFile(g *gen) {
	r := g.s.Rand("env_file")
	paths := []string{"./a.env", "b.env", "./conf/c.env", "sub/d.env", ".env.local", "./my env.env"}
	for i := 0; i < g.size(120, 1500); i++ {
		k := 1 + r.Intn(3)
		if i%3 == 0 {
			k = 1
		}
		ps := distinct(r, paths, k)
		files := map[string]string{}
		for j, p := range ps {
			files[p] = "K" + itoa(j) + "=v" + itoa(j) + "\nSHARED=" + itoa(j) + "\n"
		}
		var full, noReq l
		for _, p := range ps {
			full = append(full, m{"path": p, "required": true})
			noReq = append(noReq, m{"path": p})
		}
		docs := []spelled{
			{Name: "long", Text: "{path, required: true}: " + strings.Join(ps, ","), YAML: toYAML(svcDoc(m{"env_file": full}, nil))},
			{Name: "list", Text: strings.Join(ps, ","), YAML: toYAML(svcDoc(m{"env_file": strs(ps)}, nil))},
			{Name: "list-of-path", Text: strings.Join(ps, ","), YAML: toYAML(svcDoc(m{"env_file": noReq}, nil))},
		}
		if k == 1 {
			docs = append(docs, spelled{Name: "string", Text: ps[0], YAML: toYAML(svcDoc(m{"env_file": ps[0]}, nil))})
		}
		if k > 1 {
			mixed := l{ps[0]}
			for _, p := range ps[1:] {
				mixed = append(mixed, m{"path": p})
			}
			docs = append(docs, spelled{Name: "mixed-list", Text: strings.Join(ps, ","), YAML: toYAML(svcDoc(m{"env_file": mixed}, nil))})
		}
		exp := map[string]string{"len(Services[s].EnvFiles)": itoa(k), "Services[s].EnvFiles[0].Required": "true"}
		g.emit(pcase{Position: "services.env_file", Class: itoa(k) + "-files", Mode: "pair", Docs: docs, Files: files, Expect: exp})
	}
}

// ---- string | list ---------------------------------------------------------------

func genStringOrList(g *gen) {
	r := g.s.Rand("string_or_list")
	type pos struct {
		name   string
		values []string
		get    string
		files  bool
	}
	positions := []pos{
		{"services.dns", []string{"8.8.8.8", "1.1.1.1", "2001:4860:4860::8888", "10.0.0.2"}, "Services[s].DNS", false},
		{"services.dns_search", []string{"example.com", "dc1.example.com", "local"}, "Services[s].DNSSearch", false},
		{"services.tmpfs", []string{"/run", "/tmp", "/run:size=64m", "/var/cache:mode=755,uid=1009", "/x y"}, "Services[s].Tmpfs", false},
		{"services.label_file", []string{"./x.label", "labels/app.label", "./my labels"}, "Services[s].LabelFiles", true},
	}
	for i := 0; i < g.size(160, 2000); i++ {
		p := positions[i%len(positions)]
		key := p.name[len("services."):]
		// one value: string == one-element list
		v := pick(r, p.values)
		files := map[string]string{}
		if p.files {
			files[v] = "com.example.l=1\n"
		}
		pc := pcase{Position: p.name, Class: "one-value", Mode: "pair", Files: files,
			Docs: []spelled{
				{Name: "list", Text: "[" + v + "]", YAML: toYAML(svcDoc(m{key: l{v}}, nil))},
				{Name: "string", Text: v, YAML: toYAML(svcDoc(m{key: v}, nil))},
			},
			Expect: map[string]string{"len(" + p.get + ")": "1"}}
		if !p.files {
			pc.Expect[p.get] = quoteList([]string{v})
		}
		g.emit(pc)
	}
}

// ---- depends_on: list == mapping {condition: service_started, required: true}

var svcNames = []string{"db", "cache", "web-1", "queue_2", "a", "B.c"}

func genDependsOn(g *gen) {
	r := g.s.Rand("depends_on")
	for i := 0; i < g.size(100, 1200); i++ {
		deps := distinct(r, svcNames, 1+r.Intn(4))
		others := m{}
		long := m{}
		for _, d := range deps {
			others[d] = m{"image": "img"}
			long[d] = m{"condition": "service_started", "required": true}
		}
		exp := map[string]string{"len(Services[s].DependsOn)": itoa(len(deps)),
			"Services[s].DependsOn[" + deps[0] + "].Condition": "service_started",
			"Services[s].DependsOn[" + deps[0] + "].Required":  "true",
			"Services[s].DependsOn[" + deps[0] + "].Restart":   "false"}
		g.emit(pcase{Position: "services.depends_on", Class: itoa(len(deps)) + "-deps", Mode: "pair",
			Docs: []spelled{
				{Name: "long", Text: "mapping " + strings.Join(deps, ","), YAML: toYAML(svcDoc(m{"depends_on": long}, m{"services": others}))},
				{Name: "list", Text: strings.Join(deps, ","), YAML: toYAML(svcDoc(m{"depends_on": strs(deps)}, m{"services": others}))},
			},
			Expect: exp})
	}
}

// ---- networks: list == mapping with null ---------------------------------------

func genNetworks(g *gen) {
	r := g.s.Rand("networks")
	nets := []string{"front", "back-tier", "net_1", "default", "n.x", "N2"}
	for i := 0; i < g.size(100, 1200); i++ {
		ns := distinct(r, nets, 1+r.Intn(4))
		top := m{}
		long := m{}
		for _, n := range ns {
			top[n] = nil
			long[n] = nil
		}
		exp := map[string]string{"len(Services[s].Networks)": itoa(len(ns))}
		g.emit(pcase{Position: "services.networks", Class: itoa(len(ns)) + "-networks", Mode: "pair",
			Docs: []spelled{
				{Name: "long", Text: "mapping " + strings.Join(ns, ","), YAML: toYAML(svcDoc(m{"networks": long}, m{"networks": top}))},
				{Name: "list", Text: strings.Join(ns, ","), YAML: toYAML(svcDoc(m{"networks": strs(ns)}, m{"networks": top}))},
			},
			Expect: exp})
	}
}

// ---- extends: NAME == {service: NAME} ------------------------------------------

func genExtends(g *gen) {
	r := g.s.Rand("extends")
	for i := 0; i < g.size(60, 600); i++ {
		base := pick(r, svcNames)
		baseSvc := m{"image": "base-img", "environment": m{"FROM_BASE": "1"}}
		if i%2 == 1 {
			baseSvc["command"] = l{"run", "--flag"}
			baseSvc["labels"] = m{"l": "v"}
		}
		others := m{base: baseSvc}
		g.emit(pcase{Position: "services.extends", Class: "same-file", Mode: "pair",
			Docs: []spelled{
				{Name: "long", Text: "service: " + base, YAML: toYAML(svcDoc(m{"extends": m{"service": base}}, m{"services": others}))},
				{Name: "string", Text: base, YAML: toYAML(svcDoc(m{"extends": base}, m{"services": others}))},
			},
			Expect: map[string]string{"Services[s].Environment[FROM_BASE]": "1", "Services[s].Image": "img"}})
	}
}

// ---- healthcheck.test: STR == [CMD-SHELL, STR] ---------------------------------

func genHealthcheck(g *gen) {
	r := g.s.Rand("healthcheck")
	tests := []string{"curl -f http://localhost", "exit 0", "pg_isready -U postgres || exit 1", "test -f '/tmp/ok file'", "true", `echo "a b"  c`, " leading and trailing ", "NONE", "CMD", "CMD-SHELL true", "none"}
	for i := 0; i < g.size(60, 600); i++ {
		t := pick(r, tests)
		hc := func(test any) m {
			h := m{"test": test}
			if i%2 == 1 {
				h["interval"] = "30s"
				h["retries"] = 3
			}
			return m{"healthcheck": h}
		}
		g.emit(pcase{Position: "services.healthcheck.test", Class: "string", Mode: "pair",
			Docs: []spelled{
				{Name: "long", Text: "[CMD-SHELL, " + t + "]", YAML: toYAML(svcDoc(hc(l{"CMD-SHELL", t}), nil))},
				{Name: "string", Text: t, YAML: toYAML(svcDoc(hc(t), nil))},
			},
			Expect: map[string]string{"Services[s].HealthCheck.Test": quoteList([]string{"CMD-SHELL", t})}})
	}
}

// ---- external: {name: X} == external: true + name: X ---------------------------

func genExternal(g *gen) {
	r := g.s.Rand("external")
	sections := []struct{ section, get string }{
		{"volumes", "Volumes"}, {"networks", "Networks"}, {"secrets", "Secrets"}, {"configs", "Configs"},
	}
	extNames := []string{"actual-name", "shared_net", "prod.db", "X"}
	for i := 0; i < g.size(80, 800); i++ {
		sec := sections[i%len(sections)]
		key := pick(r, resourceNames)
		name := pick(r, extNames)
		doc := func(res m) string { return toYAML(svcDoc(nil, m{sec.section: m{key: res}})) }
		g.emit(pcase{Position: sec.section + ".external", Class: "external.name", Mode: "pair",
			Docs: []spelled{
				{Name: "long", Text: "external: true, name: " + name, YAML: doc(m{"external": true, "name": name})},
				{Name: "external-mapping", Text: "external: {name: " + name + "}", YAML: doc(m{"external": m{"name": name}})},
			},
			Expect: map[string]string{sec.get + "[" + key + "].Name": name, sec.get + "[" + key + "].External": "true"}})
	}
}

// ---- include: PATH == {path: PATH} == {path: [PATH]} ---------------------------

func genInclude(g *gen) {
	r := g.s.Rand("include")
	paths := []string{"inc.yaml", "./sub/inc.yaml", "other/compose.yaml"}
	doc := func(v l) string { d := svcDoc(nil, nil); d["include"] = v; return toYAML(d) }
	for i := 0; i < g.size(40, 400); i++ {
		ps := distinct(r, paths, 1+r.Intn(2))
		files := map[string]string{}
		var shorts, longs, longStr l
		for j, p := range ps {
			files[p] = "services:\n  inc" + itoa(j) + ":\n    image: included\n"
			shorts = append(shorts, p)
			longs = append(longs, m{"path": l{p}})
			longStr = append(longStr, m{"path": p})
		}
		exp := map[string]string{"len(Services)": itoa(1 + len(ps))}
		switch i % 3 {
		case 0: // include entry: PATH == {path: [PATH]}
			g.emit(pcase{Position: "include", Class: itoa(len(ps)) + "-files", Mode: "pair", Files: files,
				Docs: []spelled{
					{Name: "long", Text: "{path: [..]}: " + strings.Join(ps, ","), YAML: doc(longs)},
					{Name: "string", Text: strings.Join(ps, ","), YAML: doc(shorts)},
				}, Expect: exp})
		case 1: // include.path: string == one-element list
			g.emit(pcase{Position: "include.path", Class: itoa(len(ps)) + "-files", Mode: "pair", Files: files,
				Docs: []spelled{
					{Name: "list", Text: "{path: [..]}: " + strings.Join(ps, ","), YAML: doc(longs)},
					{Name: "string", Text: "{path: ..}: " + strings.Join(ps, ","), YAML: doc(longStr)},
				}, Expect: exp})
		default: // include.env_file: string == one-element list
			files["inc.env"] = "FROM_INC_ENV=1\n"
			g.emit(pcase{Position: "include.env_file", Class: "one-file", Mode: "pair", Files: files,
				Docs: []spelled{
					{Name: "list", Text: "env_file: [inc.env]", YAML: doc(l{m{"path": ps[0], "env_file": l{"inc.env"}}})},
					{Name: "string", Text: "env_file: inc.env", YAML: doc(l{m{"path": ps[0], "env_file": "inc.env"}})},
				}, Expect: map[string]string{"len(Services)": "2"}})
		}
	}
}
