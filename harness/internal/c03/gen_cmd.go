package c03

import (
	"math/rand"
	"strings"
)

// command / entrypoint: a string is split into words the way a POSIX shell
// does; the list form carries the words themselves. The generator draws the
// argument vector and renders a string inside a restricted shell-words
// grammar (bare words, single quotes, double quotes with \" and \\, backslash
// escapes outside quotes; separators are blanks). No $, backticks, globs,
// comments, control operators or line breaks.

const bareChars = "abcxyzABC0189_./:=,@%+-"

var specialChars = []rune{' ', '"', '\'', '\\', 'é', '\t'}

func drawWord(r *rand.Rand) string {
	n := r.Intn(7)
	if n == 0 && r.Intn(3) > 0 {
		n = 1
	}
	var sb strings.Builder
	for i := 0; i < n; i++ {
		if r.Intn(4) == 0 {
			sb.WriteRune(specialChars[r.Intn(len(specialChars))])
		} else {
			sb.WriteByte(bareChars[r.Intn(len(bareChars))])
		}
	}
	return sb.String()
}

func isBare(s string) bool {
	if s == "" {
		return false
	}
	for _, c := range s {
		if !strings.ContainsRune(bareChars, c) {
			return false
		}
	}
	return true
}

// renderSegment writes seg in one quoting style; returns false when the style cannot express it.
func renderSegment(seg string, style int) (string, bool) {
	switch style {
	case 0: // bare
		if !isBare(seg) {
			return "", false
		}
		return seg, true
	case 1: // single quotes: everything literal, no single quote inside
		if strings.ContainsRune(seg, '\'') {
			return "", false
		}
		return "'" + seg + "'", true
	case 2: // double quotes: \" and \\ escaped
		var sb strings.Builder
		sb.WriteByte('"')
		for _, c := range seg {
			if c == '"' || c == '\\' {
				sb.WriteByte('\\')
			}
			sb.WriteRune(c)
		}
		sb.WriteByte('"')
		return sb.String(), true
	default: // backslash escapes outside quotes
		if seg == "" {
			return "", false
		}
		var sb strings.Builder
		for _, c := range seg {
			if !strings.ContainsRune(bareChars, c) && c != 'é' {
				sb.WriteByte('\\')
			}
			sb.WriteRune(c)
		}
		return sb.String(), true
	}
}

func renderWord(r *rand.Rand, w string) string {
	// split into 1..3 segments, each rendered in its own style, concatenated
	rs := []rune(w)
	nseg := 1
	if len(rs) >= 2 && r.Intn(3) == 0 {
		nseg = 2 + r.Intn(2)
		if nseg > len(rs) {
			nseg = len(rs)
		}
	}
	var segs []string
	if nseg == 1 {
		segs = []string{w}
	} else {
		cuts := r.Perm(len(rs) - 1)[:nseg-1]
		isCut := map[int]bool{}
		for _, c := range cuts {
			isCut[c+1] = true
		}
		start := 0
		for i := 1; i <= len(rs); i++ {
			if i == len(rs) || isCut[i] {
				segs = append(segs, string(rs[start:i]))
				start = i
			}
		}
	}
	var sb strings.Builder
	for _, seg := range segs {
		first := r.Intn(4)
		for k := 0; k < 4; k++ {
			if out, ok := renderSegment(seg, (first+k)%4); ok {
				sb.WriteString(out)
				break
			}
		}
	}
	return sb.String()
}

func commandPositions() []scalarPos {
	hook := func(key string) func(v any) (m, m) {
		return func(v any) (m, m) { return m{key: l{m{"command": v}}}, nil }
	}
	return []scalarPos{
		{name: "services.command", wrap: svcAttr("command"), get: "Services[s].Command"},
		{name: "services.entrypoint", wrap: svcAttr("entrypoint"), get: "Services[s].Entrypoint"},
		{name: "services.post_start.command", wrap: hook("post_start"), get: "Services[s].PostStart[0].Command"},
		{name: "services.pre_stop.command", wrap: hook("pre_stop"), get: "Services[s].PreStop[0].Command"},
		{name: "services.develop.watch.exec.command", wrap: func(v any) (m, m) {
			return m{"develop": m{"watch": l{m{"path": "./src", "action": "sync+exec", "target": "/app", "exec": m{"command": v}}}}}, nil
		}, get: "Services[s].Develop.Watch[0].Exec.Command"},
	}
}

func genCommands(g *gen) {
	r := g.s.Rand("command")
	per := g.size(120, 3000)
	seps := []string{" ", " ", " ", "  ", "\t", " \t "}
	for _, p := range commandPositions() {
		// no word at all: the empty (or blank) string is the explicitly empty command, like `[]`,
		// which is not the unset one (it clears the image's value and overrides a base)
		for _, blank := range []string{"", " ", "\t ", "  "} {
			g.emit(pcase{Position: p.name, Class: "no-word", Mode: "pair",
				Docs: []spelled{
					{Name: "list", Text: "[]", YAML: p.doc(l{})},
					{Name: "string", Text: blank, YAML: p.doc(blank)},
				},
				Expect: map[string]string{"len(" + p.get + ")": "0", "isnil(" + p.get + ")": "false"}})
		}
		// unquoted shell operators are words like the others for a splitter that is not a shell
		for _, ops := range [][]string{{"echo", "a", "&&", "echo", "b"}, {"cat", "f", "|", "wc", "-l"}, {"true", ";", "false"}, {"run", ">", "/tmp/out"}} {
			g.emit(pcase{Position: p.name, Class: "shell-operator", Mode: "pair",
				Docs: []spelled{
					{Name: "list", Text: quoteList(ops), YAML: p.doc(strs(ops))},
					{Name: "string", Text: strings.Join(ops, " "), YAML: p.doc(strings.Join(ops, " "))},
				},
				Expect: map[string]string{"len(" + p.get + ")": itoa(len(ops))}})
		}
		for i := 0; i < per; i++ {
			k := 1 + r.Intn(4)
			words := make([]string, k)
			rendered := make([]string, k)
			cls := map[string]bool{}
			for j := range words {
				words[j] = drawWord(r)
				rendered[j] = renderWord(r, words[j])
				switch {
				case words[j] == "":
					cls["empty-word"] = true
				case isBare(words[j]) && rendered[j] == words[j]:
					cls["bare"] = true
				default:
					cls["quoted"] = true
				}
			}
			var sb strings.Builder
			if r.Intn(8) == 0 {
				sb.WriteString(" ")
			}
			for j, w := range rendered {
				if j > 0 {
					sb.WriteString(pick(r, seps))
				}
				sb.WriteString(w)
			}
			if r.Intn(8) == 0 {
				sb.WriteString(" ")
			}
			str := sb.String()
			var cs []string
			for _, c := range []string{"bare", "quoted", "empty-word"} {
				if cls[c] {
					cs = append(cs, c)
				}
			}
			g.emit(pcase{Position: p.name, Class: strings.Join(cs, "+"), Mode: "pair",
				Docs: []spelled{
					{Name: "list", Text: quoteList(words), YAML: p.doc(strs(words))},
					{Name: "string", Text: str, YAML: p.doc(str)},
				},
				Expect: map[string]string{p.get: quoteList(words), "len(" + p.get + ")": itoa(k)}})
		}
	}
}
