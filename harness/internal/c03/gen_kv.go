package c03

import (
	"math/rand"
	"sort"
	"strings"
)

// KEY[=VALUE] list == mapping, for every list_or_dict attribute of the
// specification. The drawn value is a set of (key, value) with value kinds:
// string (incl. empty, containing '=', ':', spaces, '#', quotes), integer (the
// mapping carries a YAML number, the list its decimal text) and valueless.
//
// valueless policy (what the specification says a KEY without value denotes):
//   env    environment-like: list `KEY` == mapping `KEY:` (null), resolved from the environment
//   label  labels: list `KEY` == mapping `KEY: ""`
//   none   not generated (sysctls, annotations, driver options, additional_contexts: no stated meaning)

type kvPos struct {
	name      string
	valueless string // env | label | none
	wrap      func(v any) (m, m)
	keys      []string
	values    []string // nil = generic values
	noInt     bool
}

var (
	envKeys   = []string{"FOO", "BAR_1", "lower", "Mixed.Key", "A", "WITH-DASH", "_U", "K9"}
	labelKeys = []string{"com.example.description", "com.example.number", "l", "traefik.http.routers.x.rule", "a-b", "A_B"}
	sysctlKey = []string{"net.core.somaxconn", "net.ipv4.tcp_syncookies", "kernel.msgmax", "net.ipv4.ip_forward"}
	optKeys   = []string{"opt1", "virtualization", "a.b", "X"}
	ctxKeys   = []string{"resources", "app", "base_image", "x-1"}

	genericValues = []string{"bar", "", "x=y", "a=b=c", "=", "with space", " lead", "trail ", "a:b", "http://h:80/p?q=1&r=2", "it's", `say "hi"`, "#nocomment", "a #b", "é✓", "true", "null", "~", "007", "1e3", "0x10", "-", "[x]", "{y}", "a,b", `back\slash`, "*"}
	ctxValues     = []string{"./dir", "../up/ctx", "/abs/ctx", "https://github.com/example/repo.git", "docker-image://alpine:3", "oci-layout://./layout", "target:stage", "sub/dir", "."}
)

func kvPositions() []kvPos {
	hook := func(key string) func(v any) (m, m) {
		return func(v any) (m, m) { return m{key: l{m{"command": l{"true"}, "environment": v}}}, nil }
	}
	resLabels := func(section string) func(v any) (m, m) {
		return func(v any) (m, m) { return nil, m{section: m{"res": m{"labels": v}}} }
	}
	return []kvPos{
		{name: "services.environment", valueless: "env", wrap: svcAttr("environment"), keys: envKeys},
		{name: "services.labels", valueless: "label", wrap: svcAttr("labels"), keys: labelKeys},
		{name: "services.annotations", valueless: "none", wrap: svcAttr("annotations"), keys: labelKeys},
		{name: "services.sysctls", valueless: "none", wrap: svcAttr("sysctls"), keys: sysctlKey},
		{name: "services.build.args", valueless: "env", wrap: func(v any) (m, m) { return m{"build": m{"context": ".", "args": v}}, nil }, keys: envKeys},
		{name: "services.build.labels", valueless: "label", wrap: func(v any) (m, m) { return m{"build": m{"context": ".", "labels": v}}, nil }, keys: labelKeys},
		{name: "services.build.additional_contexts", valueless: "none", wrap: func(v any) (m, m) { return m{"build": m{"context": ".", "additional_contexts": v}}, nil }, keys: ctxKeys, values: ctxValues, noInt: true},
		{name: "services.deploy.labels", valueless: "label", wrap: func(v any) (m, m) { return m{"deploy": m{"labels": v}}, nil }, keys: labelKeys},
		{name: "services.deploy.resources.reservations.devices.options", valueless: "none", wrap: func(v any) (m, m) {
			return m{"deploy": m{"resources": m{"reservations": m{"devices": l{m{"capabilities": l{"gpu"}, "count": 1, "options": v}}}}}}, nil
		}, keys: optKeys},
		{name: "services.gpus.options", valueless: "none", wrap: func(v any) (m, m) {
			return m{"gpus": l{m{"capabilities": l{"gpu"}, "count": 1, "options": v}}}, nil
		}, keys: optKeys},
		{name: "services.post_start.environment", valueless: "env", wrap: hook("post_start"), keys: envKeys},
		{name: "services.pre_stop.environment", valueless: "env", wrap: hook("pre_stop"), keys: envKeys},
		{name: "services.develop.watch.exec.environment", valueless: "env", wrap: func(v any) (m, m) {
			return m{"develop": m{"watch": l{m{"path": "./src", "action": "sync+exec", "target": "/app", "exec": m{"command": l{"true"}, "environment": v}}}}}, nil
		}, keys: envKeys},
		{name: "networks.labels", valueless: "label", wrap: resLabels("networks"), keys: labelKeys},
		{name: "volumes.labels", valueless: "label", wrap: resLabels("volumes"), keys: labelKeys},
		{name: "secrets.labels", valueless: "label", wrap: func(v any) (m, m) { return nil, m{"secrets": m{"res": m{"file": "./s.txt", "labels": v}}} }, keys: labelKeys},
		{name: "configs.labels", valueless: "label", wrap: func(v any) (m, m) { return nil, m{"configs": m{"res": m{"file": "./c.txt", "labels": v}}} }, keys: labelKeys},
	}
}

type kvEntry struct {
	key  string
	kind string // string | int | valueless
	sval string
	ival int
}

func genKV(g *gen) {
	r := g.s.Rand("kv")
	positions := kvPositions()
	per := g.size(40, 700)
	for _, p := range positions {
		for i := 0; i < per; i++ {
			k := 1 + r.Intn(4)
			var entries []kvEntry
			for _, key := range distinct(r, p.keys, k) {
				e := kvEntry{key: key, kind: "string"}
				vals := p.values
				if vals == nil {
					vals = genericValues
				}
				switch x := r.Intn(10); {
				case x == 0 && !p.noInt:
					e.kind, e.ival = "int", []int{0, 1, 42, 8080, -1, 1000000}[r.Intn(6)]
				case x == 1 && p.valueless != "none":
					e.kind = "valueless"
				default:
					e.sval = pick(r, vals)
				}
				entries = append(entries, e)
			}
			g.emit(kvCase(p, entries, r))
		}
	}
}

func kvCase(p kvPos, entries []kvEntry, r *rand.Rand) pcase {
	mapping := m{}
	var list l
	var texts []string
	classes := map[string]bool{}
	for _, e := range entries {
		switch e.kind {
		case "int":
			mapping[e.key] = e.ival
			list = append(list, e.key+"="+itoa(e.ival))
			classes["integer"] = true
		case "valueless":
			if p.valueless == "env" {
				mapping[e.key] = nil
			} else {
				mapping[e.key] = ""
			}
			list = append(list, e.key)
			classes["valueless"] = true
		default:
			mapping[e.key] = e.sval
			list = append(list, e.key+"="+e.sval)
			switch {
			case e.sval == "":
				classes["empty"] = true
			case strings.Contains(e.sval, "="):
				classes["value-with-equals"] = true
			default:
				classes["plain"] = true
			}
		}
		texts = append(texts, list[len(list)-1].(string))
	}
	r.Shuffle(len(list), func(i, j int) { list[i], list[j] = list[j], list[i] })
	var cs []string
	for c := range classes {
		cs = append(cs, c)
	}
	sort.Strings(cs)
	return pcase{Position: p.name, Class: strings.Join(cs, "+"), Mode: "pair",
		Docs: []spelled{
			{Name: "mapping", Text: "mapping of " + strings.Join(texts, " , "), YAML: p.doc(mapping)},
			{Name: "list", Text: strings.Join(texts, " , "), YAML: p.doc(list)},
		}}
}

func (p kvPos) doc(v any) string {
	a, t := p.wrap(v)
	return toYAML(svcDoc(a, t))
}

// ---- extra_hosts: host=ip | host:ip | mapping | [v6] -----------------------------

func genExtraHosts(g *gen) {
	r := g.s.Rand("extra_hosts")
	hosts := []string{"somehost", "otherhost", "my-host.local", "h1", "gateway"}
	ips4 := []string{"162.242.195.82", "50.31.209.229", "127.0.0.1", "host-gateway"}
	ips6 := []string{"::1", "2001:db8::1", "fe80::42:acff:fe11:2"}
	positions := []kvPos{
		{name: "services.extra_hosts", wrap: svcAttr("extra_hosts")},
		{name: "services.build.extra_hosts", wrap: func(v any) (m, m) { return m{"build": m{"context": ".", "extra_hosts": v}}, nil }},
	}
	for i := 0; i < g.size(160, 2400); i++ {
		p := positions[i%2]
		hs := distinct(r, hosts, 1+r.Intn(3))
		long := m{} // mapping host -> [ip]
		simple := m{}
		longBr, simpleBr := m{}, m{} // the same with a v6 address in brackets
		var eq, colon, bracketEq l
		hasV6 := false
		var texts []string
		for _, h := range hs {
			var ip string
			v6 := r.Intn(3) == 0
			if v6 {
				ip = pick(r, ips6)
				hasV6 = true
			} else {
				ip = pick(r, ips4)
			}
			long[h] = l{ip}
			simple[h] = ip
			eq = append(eq, h+"="+ip)
			if v6 {
				colon = append(colon, h+":["+ip+"]")
				bracketEq = append(bracketEq, h+"=["+ip+"]")
				longBr[h] = l{"[" + ip + "]"}
				simpleBr[h] = "[" + ip + "]"
			} else {
				colon = append(colon, h+":"+ip)
				bracketEq = append(bracketEq, h+"="+ip)
				longBr[h] = l{ip}
				simpleBr[h] = ip
			}
			texts = append(texts, h+"="+ip)
		}
		docs := []spelled{
			{Name: "mapping-of-lists", Text: strings.Join(texts, " , "), YAML: p.doc(long)},
			{Name: "mapping", Text: strings.Join(texts, " , "), YAML: p.doc(simple)},
			{Name: "list-equals", Text: strings.Join(texts, " , "), YAML: p.doc(eq)},
			{Name: "list-colon", Text: joinAny(colon), YAML: p.doc(colon)},
		}
		cls := "v4"
		if hasV6 {
			cls = "v6"
			docs = append(docs, spelled{Name: "list-equals-bracketed", Text: joinAny(bracketEq), YAML: p.doc(bracketEq)},
				spelled{Name: "mapping-bracketed", Text: joinAny(bracketEq), YAML: p.doc(simpleBr)},
				spelled{Name: "mapping-of-lists-bracketed", Text: joinAny(bracketEq), YAML: p.doc(longBr)})
		}
		g.emit(pcase{Position: p.name, Class: cls, Mode: "pair", Docs: docs})
	}
}

func joinAny(xs l) string {
	var s []string
	for _, x := range xs {
		s = append(s, x.(string))
	}
	return strings.Join(s, " , ")
}

// ---- build.ssh: [default, id=path] == {default: null, id: path} ------------------

func genSSH(g *gen) {
	r := g.s.Rand("ssh")
	ids := []string{"default", "key1", "github", "my-key_2"}
	paths := []string{"./id_rsa", "/home/u/.ssh/id_ed25519", "~/.ssh/key", "$SSH_AUTH_SOCK_PATH"}
	pos := kvPos{name: "services.build.ssh", wrap: func(v any) (m, m) { return m{"build": m{"context": ".", "ssh": v}}, nil }}
	for i := 0; i < g.size(60, 600); i++ {
		chosen := distinct(r, ids, 1+r.Intn(3))
		mapping := m{}
		var list l
		var texts []string
		for _, id := range chosen {
			if id == "default" && r.Intn(2) == 0 {
				mapping[id] = nil
				list = append(list, id)
				texts = append(texts, id)
				continue
			}
			p := pick(r, paths[:3])
			mapping[id] = p
			list = append(list, id+"="+p)
			texts = append(texts, id+"="+p)
		}
		g.emit(pcase{Position: pos.name, Class: itoa(len(chosen)) + "-keys", Mode: "pair",
			Docs: []spelled{
				{Name: "mapping", Text: "mapping of " + strings.Join(texts, " , "), YAML: pos.doc(mapping)},
				{Name: "list", Text: strings.Join(texts, " , "), YAML: pos.doc(list)},
			},
			Expect: map[string]string{"len(Services[s].Build.SSH)": itoa(len(chosen))}})
	}
}
