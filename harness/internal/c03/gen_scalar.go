package c03

import (
	"fmt"
	"math/rand"
	"strconv"
	"strings"
)

// ---- durations: the same instant spelled differently -----------------------------
//
// Specification: a duration is a sequence of decimal numbers each with a unit
// us | ms | s | m | h ("1h5m30s20ms", "2.5s"). The drawn value is a number of
// microseconds; every spelling below denotes exactly that many microseconds.

const (
	usPerMs = 1000
	usPerS  = 1000 * usPerMs
	usPerM  = 60 * usPerS
	usPerH  = 60 * usPerM
)

func durationSpellings(us int64) []spelled {
	var out []spelled
	add := func(name, text string) {
		for _, s := range out {
			if s.Text == text {
				return
			}
		}
		out = append(out, spelled{Name: name, Text: text})
	}
	add("microseconds", fmt.Sprintf("%dus", us))
	// greedy decomposition h m s ms us
	rest := us
	var sb strings.Builder
	for _, u := range []struct {
		n    int64
		name string
	}{{usPerH, "h"}, {usPerM, "m"}, {usPerS, "s"}, {usPerMs, "ms"}, {1, "us"}} {
		if q := rest / u.n; q > 0 {
			fmt.Fprintf(&sb, "%d%s", q, u.name)
			rest -= q * u.n
		}
	}
	add("decomposed", sb.String())
	if us%usPerMs == 0 {
		add("milliseconds", fmt.Sprintf("%dms", us/usPerMs))
	}
	if us%usPerS == 0 {
		add("seconds", fmt.Sprintf("%ds", us/usPerS))
	}
	if us%usPerM == 0 {
		add("minutes", fmt.Sprintf("%dm", us/usPerM))
	}
	// decimal fraction of a larger unit when exact with <= 3 fraction digits
	for _, u := range []struct {
		n    int64
		name string
	}{{usPerS, "s"}, {usPerM, "m"}, {usPerH, "h"}} {
		if us*1000%u.n == 0 && us%u.n != 0 {
			milli := us * 1000 / u.n
			txt := strings.TrimRight(fmt.Sprintf("%d.%03d", milli/1000, milli%1000), "0")
			add("decimal-"+u.name, txt+u.name)
		}
	}
	// seconds split as minutes + seconds beyond 59 ("90s" vs "1m30s" is covered by decomposed)
	if us >= usPerM && us%usPerS == 0 {
		add("seconds-total", fmt.Sprintf("%ds", us/usPerS))
	}
	return out
}

type scalarPos struct {
	name string
	wrap func(v any) (m, m)
	get  string
	// stringOnly: the specification admits only a string there (no YAML number)
	stringOnly bool
}

func durationPositions() []scalarPos {
	hc := func(key string) func(v any) (m, m) {
		return func(v any) (m, m) { return m{"healthcheck": m{"test": l{"CMD", "true"}, key: v}}, nil }
	}
	dep := func(section, key string) func(v any) (m, m) {
		return func(v any) (m, m) { return m{"deploy": m{section: m{key: v}}}, nil }
	}
	return []scalarPos{
		{name: "services.stop_grace_period", wrap: svcAttr("stop_grace_period"), get: "Services[s].StopGracePeriod"},
		{name: "services.healthcheck.interval", wrap: hc("interval"), get: "Services[s].HealthCheck.Interval"},
		{name: "services.healthcheck.timeout", wrap: hc("timeout"), get: "Services[s].HealthCheck.Timeout"},
		{name: "services.healthcheck.start_period", wrap: hc("start_period"), get: "Services[s].HealthCheck.StartPeriod"},
		{name: "services.healthcheck.start_interval", wrap: hc("start_interval"), get: "Services[s].HealthCheck.StartInterval"},
		{name: "services.deploy.update_config.delay", wrap: dep("update_config", "delay"), get: "Services[s].Deploy.UpdateConfig.Delay"},
		{name: "services.deploy.update_config.monitor", wrap: dep("update_config", "monitor"), get: "Services[s].Deploy.UpdateConfig.Monitor"},
		{name: "services.deploy.rollback_config.delay", wrap: dep("rollback_config", "delay"), get: "Services[s].Deploy.RollbackConfig.Delay"},
		{name: "services.deploy.rollback_config.monitor", wrap: dep("rollback_config", "monitor"), get: "Services[s].Deploy.RollbackConfig.Monitor"},
		{name: "services.deploy.restart_policy.delay", wrap: dep("restart_policy", "delay"), get: "Services[s].Deploy.RestartPolicy.Delay"},
		{name: "services.deploy.restart_policy.window", wrap: dep("restart_policy", "window"), get: "Services[s].Deploy.RestartPolicy.Window"},
	}
}

func (p scalarPos) doc(v any) string {
	a, t := p.wrap(v)
	return toYAML(svcDoc(a, t))
}

func drawDuration(r *rand.Rand) int64 {
	switch r.Intn(6) {
	case 0:
		return int64(1+r.Intn(5000)) * usPerMs // ms grain
	case 1:
		return int64(1+r.Intn(600)) * usPerS // whole seconds
	case 2:
		return int64(1+r.Intn(48)) * 30 * usPerM // half hours
	case 3:
		return int64(1+r.Intn(200)) * 500 * usPerMs // half seconds
	case 4:
		return int64(1 + r.Intn(5000000)) // us grain
	default:
		return int64(r.Intn(3))*usPerH + int64(r.Intn(60))*usPerM + int64(r.Intn(60))*usPerS + int64(r.Intn(1000))*usPerMs + 1
	}
}

func genDurations(g *gen) {
	r := g.s.Rand("duration")
	per := g.size(25, 400)
	for _, p := range durationPositions() {
		for i := 0; i < per; i++ {
			us := drawDuration(r)
			sp := durationSpellings(us)
			for j := range sp {
				sp[j].YAML = p.doc(sp[j].Text)
			}
			g.emit(pcase{Position: p.name, Class: "duration", Mode: "pair", Docs: sp,
				Expect: map[string]string{p.get: strconv.FormatInt(us*1000, 10)}})
		}
	}
}

// ---- byte sizes ------------------------------------------------------------------
//
// Specification: {amount}{byte unit}, units b, k, m, g and kb, mb, gb (binary
// multiples); a plain integer is a number of bytes.

func byteSpellings(n int64, stringOnly bool) []spelled {
	var out []spelled
	if stringOnly {
		out = append(out, spelled{Name: "bytes-string", Text: strconv.FormatInt(n, 10)})
	} else {
		out = append(out, spelled{Name: "integer", Text: strconv.FormatInt(n, 10)})
		out = append(out, spelled{Name: "bytes-string", Text: strconv.FormatInt(n, 10)})
	}
	out = append(out, spelled{Name: "b", Text: fmt.Sprintf("%db", n)})
	units := []struct {
		n    int64
		a, b string
	}{{1 << 10, "k", "kb"}, {1 << 20, "m", "mb"}, {1 << 30, "g", "gb"}}
	for _, u := range units {
		if n%u.n == 0 {
			out = append(out, spelled{Name: u.a, Text: fmt.Sprintf("%d%s", n/u.n, u.a)})
			out = append(out, spelled{Name: u.b, Text: fmt.Sprintf("%d%s", n/u.n, u.b)})
		}
	}
	return out
}

func bytePositions() []scalarPos {
	res := func(section string) func(v any) (m, m) {
		return func(v any) (m, m) { return m{"deploy": m{"resources": m{section: m{"memory": v}}}}, nil }
	}
	return []scalarPos{
		{name: "services.mem_limit", wrap: svcAttr("mem_limit"), get: "Services[s].MemLimit"},
		{name: "services.mem_reservation", wrap: svcAttr("mem_reservation"), get: "Services[s].MemReservation"},
		{name: "services.memswap_limit", wrap: svcAttr("memswap_limit"), get: "Services[s].MemSwapLimit"},
		{name: "services.shm_size", wrap: svcAttr("shm_size"), get: "Services[s].ShmSize"},
		{name: "services.build.shm_size", wrap: func(v any) (m, m) { return m{"build": m{"context": ".", "shm_size": v}}, nil }, get: "Services[s].Build.ShmSize"},
		{name: "services.deploy.resources.limits.memory", wrap: res("limits"), get: "Services[s].Deploy.Resources.Limits.MemoryBytes", stringOnly: true},
		{name: "services.deploy.resources.reservations.memory", wrap: res("reservations"), get: "Services[s].Deploy.Resources.Reservations.MemoryBytes", stringOnly: true},
		{name: "services.volumes.tmpfs.size", wrap: func(v any) (m, m) {
			return m{"volumes": l{m{"type": "tmpfs", "target": "/t", "tmpfs": m{"size": v}}}}, nil
		}, get: "Services[s].Volumes[0].Tmpfs.Size"},
		{name: "services.blkio_config.device_read_bps.rate", wrap: func(v any) (m, m) {
			return m{"blkio_config": m{"device_read_bps": l{m{"path": "/dev/sda", "rate": v}}}}, nil
		}, get: "Services[s].BlkioConfig.DeviceReadBps[0].Rate"},
	}
}

func drawBytes(r *rand.Rand) int64 {
	switch r.Intn(5) {
	case 0:
		return int64(1 + r.Intn(4096))
	case 1:
		return int64(1+r.Intn(4096)) << 10
	case 2:
		return int64(1+r.Intn(4096)) << 20
	case 3:
		return int64(1+r.Intn(64)) << 30
	default:
		return int64(1 + r.Intn(1<<31-1))
	}
}

func genBytes(g *gen) {
	r := g.s.Rand("bytes")
	per := g.size(25, 400)
	for _, p := range bytePositions() {
		for i := 0; i < per; i++ {
			n := drawBytes(r)
			sp := byteSpellings(n, p.stringOnly)
			for j := range sp {
				if sp[j].Name == "integer" {
					sp[j].YAML = p.doc(int(n))
				} else {
					sp[j].YAML = p.doc(sp[j].Text)
				}
			}
			g.emit(pcase{Position: p.name, Class: "bytes", Mode: "pair", Docs: sp,
				Expect: map[string]string{p.get: strconv.FormatInt(n, 10)}})
		}
	}
}

// ---- ulimits: N and {soft, hard} are distinct values; integer | string spelling --

func genUlimits(g *gen) {
	r := g.s.Rand("ulimits")
	names := []string{"nofile", "nproc", "core", "memlock"}
	positions := []scalarPos{
		{name: "services.ulimits", wrap: svcAttr("ulimits"), get: "Services[s].Ulimits"},
		{name: "services.build.ulimits", wrap: func(v any) (m, m) { return m{"build": m{"context": ".", "ulimits": v}}, nil }, get: "Services[s].Build.Ulimits"},
	}
	for i := 0; i < g.size(80, 800); i++ {
		p := positions[i%2]
		name := pick(r, names)
		if i%4 < 2 {
			n := 1 + r.Intn(1<<20)
			g.emit(pcase{Position: p.name, Class: "single", Mode: "pair",
				Docs: []spelled{
					{Name: "integer", Text: itoa(n), YAML: p.doc(m{name: n})},
					{Name: "string", Text: strconv.Quote(itoa(n)), YAML: p.doc(m{name: itoa(n)})},
				},
				Expect: map[string]string{p.get + "[" + name + "].Single": itoa(n), p.get + "[" + name + "].Soft": "0", p.get + "[" + name + "].Hard": "0"}})
			continue
		}
		soft := 1 + r.Intn(1<<16)
		hard := soft + r.Intn(1<<16)
		g.emit(pcase{Position: p.name, Class: "soft-hard", Mode: "pair",
			Docs: []spelled{
				{Name: "integer", Text: fmt.Sprintf("{soft: %d, hard: %d}", soft, hard), YAML: p.doc(m{name: m{"soft": soft, "hard": hard}})},
				{Name: "string", Text: fmt.Sprintf("{soft: %q, hard: %q}", itoa(soft), itoa(hard)), YAML: p.doc(m{name: m{"soft": itoa(soft), "hard": itoa(hard)}})},
			},
			Expect: map[string]string{p.get + "[" + name + "].Single": "0", p.get + "[" + name + "].Soft": itoa(soft), p.get + "[" + name + "].Hard": itoa(hard)}})
	}
}
