package c03

import (
	"fmt"
	"math/rand"
	"strconv"
	"strings"
)

// Grammar (statement): [IP:][HOST[-HOST]:]CONTAINER[-CONTAINER][/PROTO]
//
// The semantic value drawn is a portSpec; short() renders the string, long()
// the list of long-form entries the statement requires:
//   one entry per container port; published = i-th host port when the host
//   range has the same length, the host port when both are single, the whole
//   host range when a host range faces one container port, absent without a
//   host part; host_ip as written (brackets removed); mode ingress; protocol
//   tcp by default, lower-cased.

type portSpec struct {
	ipKind   string // none | v4 | v6 | empty
	ip       string
	hostKind string // none | single | range
	host     int
	hostLen  int
	cont     int
	contLen  int    // 1 = single; rangeOne => "N-N"
	rangeOne bool   // container written as N-N
	proto    string // "" | tcp | udp | sctp | TCP | UDP
}

func (p portSpec) short() string {
	var sb strings.Builder
	switch p.ipKind {
	case "v4":
		sb.WriteString(p.ip + ":")
	case "v6":
		sb.WriteString("[" + p.ip + "]:")
	case "empty":
		sb.WriteString(":")
	}
	switch p.hostKind {
	case "single":
		sb.WriteString(strconv.Itoa(p.host) + ":")
	case "range":
		fmt.Fprintf(&sb, "%d-%d:", p.host, p.host+p.hostLen-1)
	case "none":
		if p.ipKind == "v4" || p.ipKind == "v6" {
			sb.WriteString(":") // IP::CONTAINER
		}
	}
	if p.contLen > 1 || p.rangeOne {
		fmt.Fprintf(&sb, "%d-%d", p.cont, p.cont+p.contLen-1)
	} else {
		sb.WriteString(strconv.Itoa(p.cont))
	}
	if p.proto != "" {
		sb.WriteString("/" + p.proto)
	}
	return sb.String()
}

// decided reports whether the statement fixes the meaning of the shape.
func (p portSpec) decided() bool {
	switch p.hostKind {
	case "single":
		return p.contLen == 1
	case "range":
		return p.contLen == 1 || p.contLen == p.hostLen
	}
	return true
}

// nearMiss reports whether the shape is unambiguously outside the grammar:
// two ranges (both longer than one port) of different lengths.
func (p portSpec) nearMiss() bool {
	return p.hostKind == "range" && p.contLen > 1 && p.hostLen != p.contLen
}

func (p portSpec) long() l {
	proto := strings.ToLower(p.proto)
	if proto == "" {
		proto = "tcp"
	}
	var out l
	for i := 0; i < p.contLen; i++ {
		e := m{"target": p.cont + i, "protocol": proto, "mode": "ingress"}
		switch p.hostKind {
		case "single":
			e["published"] = strconv.Itoa(p.host)
		case "range":
			if p.contLen == 1 {
				e["published"] = fmt.Sprintf("%d-%d", p.host, p.host+p.hostLen-1)
			} else {
				e["published"] = strconv.Itoa(p.host + i)
			}
		}
		if p.ipKind == "v4" || p.ipKind == "v6" {
			e["host_ip"] = p.ip
		}
		out = append(out, e)
	}
	return out
}

var portsPosition = position{name: "services.ports", wrap: svcAttr("ports")}

// starts are biased to decimal-width boundaries: a range crossing 9|10,
// 99|100, ... sorts differently as strings and as numbers.
var portStarts = []int{1, 7, 8, 9, 10, 22, 80, 97, 98, 99, 100, 443, 997, 998, 999, 1000, 3000, 8080, 9997, 9998, 9999, 10000, 49152, 65000}

func drawStart(r *rand.Rand, length int) int {
	for {
		var n int
		if r.Intn(4) == 0 {
			n = 1 + r.Intn(65535)
		} else {
			n = portStarts[r.Intn(len(portStarts))]
		}
		if n+length-1 <= 65535 {
			return n
		}
	}
}

var (
	v4s = []string{"127.0.0.1", "0.0.0.0", "192.168.1.10", "10.0.0.255"}
	v6s = []string{"::1", "::", "fe80::1", "2001:db8::8a2e:370:7334"}
)

func portCase(specs []portSpec, class string) pcase {
	var shorts l
	var longs l
	var texts []string
	n := 0
	for _, p := range specs {
		shorts = append(shorts, p.short())
		longs = append(longs, p.long()...)
		texts = append(texts, p.short())
		n += p.contLen
	}
	text := strings.Join(texts, " , ")
	return pcase{
		Position: portsPosition.name, Class: class, Mode: "pair",
		Docs: []spelled{
			{Name: "long", Text: fmt.Sprintf("%d long entries", n), YAML: portsPosition.doc(longs)},
			{Name: "short", Text: text, YAML: portsPosition.doc(shorts)},
		},
		Expect: map[string]string{"len(Services[s].Ports)": strconv.Itoa(n)},
	}
}

func (p portSpec) class() string {
	c := "single"
	if p.rangeOne {
		c = "range1"
	} else if p.contLen > 1 {
		c = "range" + strconv.Itoa(p.contLen)
	}
	pr := p.proto
	if pr == "" {
		pr = "noproto"
	}
	return "ip=" + p.ipKind + ",host=" + p.hostKind + ",container=" + c + ",proto=" + pr
}

func genPorts(g *gen) {
	r := g.s.Rand("ports")
	ipKinds := []string{"none", "v4", "v6", "empty"}
	hostKinds := []string{"none", "single", "range"}
	protos := []string{"", "tcp", "udp", "sctp", "TCP", "UDP"}
	maxLen := 5

	fill := func(p *portSpec) {
		switch p.ipKind {
		case "v4":
			p.ip = v4s[r.Intn(len(v4s))]
		case "v6":
			p.ip = v6s[r.Intn(len(v6s))]
		}
		n := p.contLen
		p.cont = drawStart(r, n)
		if p.hostKind == "range" && p.hostLen == 0 {
			p.hostLen = n
			if n == 1 {
				p.hostLen = 2 + r.Intn(4) // a host range facing one container port
			}
		}
		if p.hostKind != "none" {
			hl := p.hostLen
			if hl == 0 {
				hl = 1
			}
			p.host = drawStart(r, hl)
		}
	}
	emitSpec := func(p portSpec) {
		switch {
		case p.nearMiss():
			g.emit(pcase{Position: portsPosition.name, Class: "range-length-mismatch", Mode: "reject",
				Why:  "host and container ranges of different lengths cannot be paired one to one",
				Docs: []spelled{{Name: "short", Text: p.short(), YAML: portsPosition.doc(l{p.short()})}}})
		case !p.decided():
			g.emit(pcase{Position: portsPosition.name, Class: "single-host-vs-container-range", Mode: "nocrash",
				Docs: []spelled{{Name: "short", Text: p.short(), YAML: portsPosition.doc(l{p.short()})}}})
		default:
			g.emit(portCase([]portSpec{p}, p.class()))
		}
	}

	// (a) the complete product of the shape grammar, `reps` number draws per shape
	reps := g.size(3, 40)
	for rep := 0; rep < reps; rep++ {
		for _, ik := range ipKinds {
			for _, hk := range hostKinds {
				if ik == "empty" && hk == "none" {
					continue // ":80" is not a derivation of the grammar
				}
				for cl := 0; cl <= maxLen; cl++ { // 0 stands for the one-port range N-N
					for _, pr := range protos {
						p := portSpec{ipKind: ik, hostKind: hk, contLen: cl, proto: pr}
						if cl == 0 {
							p.contLen, p.rangeOne = 1, true
							if hk == "range" {
								continue // N-M:K-K: a host range facing a one-port range, meaning not stated
							}
						}
						fill(&p)
						emitSpec(p)
					}
				}
			}
		}
	}

	// (b) ranges of unequal length (near misses) and single host vs range (no-crash)
	for i := 0; i < g.size(60, 600); i++ {
		p := portSpec{ipKind: ipKinds[r.Intn(3)], hostKind: "range", proto: protos[r.Intn(len(protos))]}
		p.contLen = 2 + r.Intn(5)
		for {
			p.hostLen = 2 + r.Intn(6)
			if p.hostLen != p.contLen {
				break
			}
		}
		fill(&p)
		emitSpec(p)
	}

	// (c) longer ranges, bare integers and lists of several entries
	for i := 0; i < g.size(200, 4000); i++ {
		switch i % 4 {
		case 0: // long ranges
			p := portSpec{ipKind: ipKinds[r.Intn(3)], hostKind: hostKinds[r.Intn(3)], proto: protos[r.Intn(len(protos))], contLen: 6 + r.Intn(40)}
			if p.hostKind == "single" {
				p.hostKind = "range"
			}
			fill(&p)
			emitSpec(p)
		case 1: // bare YAML integer
			n := drawStart(r, 1)
			g.emit(pcase{Position: portsPosition.name, Class: "bare-integer", Mode: "pair",
				Docs: []spelled{
					{Name: "long", Text: fmt.Sprintf("target %d", n), YAML: portsPosition.doc(l{m{"target": n, "protocol": "tcp", "mode": "ingress"}})},
					{Name: "integer", Text: strconv.Itoa(n), YAML: portsPosition.doc(l{n})},
					{Name: "short", Text: strconv.Itoa(n), YAML: portsPosition.doc(l{strconv.Itoa(n)})},
				},
				Expect: map[string]string{"len(Services[s].Ports)": "1", "Services[s].Ports[0].Target": strconv.Itoa(n)}})
		default: // 2..3 entries with disjoint container ports and distinct protocols
			k := 2 + r.Intn(2)
			var specs []portSpec
			used := map[int]bool{}
			for len(specs) < k {
				p := portSpec{ipKind: ipKinds[r.Intn(3)], hostKind: hostKinds[r.Intn(3)], proto: protos[r.Intn(4)], contLen: 1 + r.Intn(4)}
				if p.hostKind == "single" && p.contLen > 1 {
					p.hostKind = "range"
				}
				fill(&p)
				clash := false
				for j := 0; j < p.contLen; j++ {
					if used[p.cont+j] {
						clash = true
					}
				}
				if clash {
					continue
				}
				for j := 0; j < p.contLen; j++ {
					used[p.cont+j] = true
				}
				specs = append(specs, p)
			}
			g.emit(portCase(specs, "multi-entry"))
		}
	}
}
