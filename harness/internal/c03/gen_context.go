package c03

import (
	"strings"
)

// ---- alternative spellings under a merge context ---------------------------------
//
// The same semantic value, spelled short or long in a *base*, must still denote the
// same model once something is merged on top of it: a service extending the base
// (same file) that refines one entry, or later `---` documents doing the same.
// The refinement is identical in both documents of a pair, so the pair differs
// only in the spelling of the base: equal projects are required.

func genContext(g *gen) {
	r := g.s.Rand("context")
	for i := 0; i < g.size(60, 600); i++ {
		deps := distinct(r, svcNames, 2+r.Intn(3))
		others := m{}
		long := m{}
		for _, d := range deps {
			others[d] = m{"image": "img"}
			long[d] = m{"condition": "service_started", "required": true}
		}
		refined := deps[r.Intn(len(deps))]
		refinement := m{refined: m{"condition": "service_healthy", "restart": true}}
		exp := map[string]string{"len(Services[s].DependsOn)": itoa(len(deps)),
			"Services[s].DependsOn[" + refined + "].Condition": "service_healthy"}
		for _, d := range deps {
			if d != refined {
				exp["Services[s].DependsOn["+d+"].Condition"] = "service_started"
				exp["Services[s].DependsOn["+d+"].Restart"] = "false"
			}
		}
		build := func(spelling any, ctx string) string {
			switch ctx {
			case "extends-same-file":
				svcs := m{"base": m{"image": "img", "depends_on": spelling},
					"s": m{"extends": m{"service": "base"}, "depends_on": refinement}}
				for k, v := range others {
					svcs[k] = v
				}
				return toYAML(m{"services": svcs})
			default: // three `---` documents: something to merge onto, the value, the refinement
				svcs := m{"s": m{"image": "img", "depends_on": m{"zz-first": m{"condition": "service_started"}}}, "zz-first": m{"image": "img"}}
				for k, v := range others {
					svcs[k] = v
				}
				d1 := toYAML(m{"services": svcs})
				d2 := toYAML(m{"services": m{"s": m{"depends_on": spelling}}})
				d3 := toYAML(m{"services": m{"s": m{"depends_on": refinement}}})
				return d1 + "---\n" + d2 + "---\n" + d3
			}
		}
		for _, ctx := range []string{"extends-same-file", "documents"} {
			e := map[string]string{}
			for k, v := range exp {
				e[k] = v
			}
			if ctx == "documents" {
				e["len(Services[s].DependsOn)"] = itoa(len(deps) + 1)
			}
			g.emit(pcase{Position: "services.depends_on", Class: "under-" + ctx, Mode: "pair",
				Docs: []spelled{
					{Name: "long", Text: "mapping " + strings.Join(deps, ",") + " refined " + refined, YAML: build(long, ctx)},
					{Name: "list", Text: strings.Join(deps, ",") + " refined " + refined, YAML: build(strs(deps), ctx)},
				},
				Expect: e})
		}
		// KEY=VALUE attributes: list | mapping base, one key refined
		keys := distinct(r, []string{"K1", "K2", "k.3", "K_4", "K-5"}, 2+r.Intn(3))
		kvMap := m{}
		var kvList l
		for j, k := range keys {
			kvMap[k] = "v" + itoa(j)
			kvList = append(kvList, k+"=v"+itoa(j))
		}
		ref := keys[r.Intn(len(keys))]
		for _, attr := range []string{"environment", "labels"} {
			field := map[string]string{"environment": "Environment", "labels": "Labels"}[attr]
			e := map[string]string{"Services[s]." + field + "[" + ref + "]": "refined"}
			for j, k := range keys {
				if k != ref {
					e["Services[s]."+field+"["+k+"]"] = "v" + itoa(j)
				}
			}
			mk := func(spelling any) string {
				return toYAML(m{"services": m{"base": m{"image": "img", attr: spelling}, "s": m{"extends": "base", attr: m{ref: "refined"}}}})
			}
			g.emit(pcase{Position: "services." + attr, Class: "under-extends-same-file", Mode: "pair",
				Docs: []spelled{
					{Name: "mapping", Text: strings.Join(keys, ",") + " refined " + ref, YAML: mk(kvMap)},
					{Name: "list", Text: strings.Join(keys, ",") + " refined " + ref, YAML: mk(kvList)},
				},
				Expect: e})
		}
	}
}

// genContextMore: further attributes whose short form stands in a base that an extending service
// of the same file, or a later document, refines with a mapping / another entry (the refinement is
// the same on both sides of a pair; only the spelling of the base differs).
func genContextMore(g *gen) {
	type tc struct {
		attr       string
		short      any
		long       any
		refinement any
		top        m
		files      map[string]string
	}
	cases := []tc{
		{"build", "./app", m{"context": "./app"}, m{"dockerfile": "Dockerfile.dev"}, nil, nil},
		{"build", "./app", m{"context": "./app"}, m{"args": m{"A": "1"}, "target": "prod"}, nil, nil},
		{"build", "./app", m{"context": "./app"}, m{"dockerfile_inline": "FROM scratch\n"}, nil, nil},
		{"env_file", "a.env", l{m{"path": "a.env", "required": true}}, l{"b.env"}, nil, map[string]string{"a.env": "A=1\n", "b.env": "B=2\n"}},
		{"networks", l{"n1", "n2"}, m{"n1": nil, "n2": nil}, m{"n1": m{"aliases": l{"x"}}}, m{"networks": m{"n1": m{}, "n2": m{}}}, nil},
		{"secrets", l{"s1"}, l{m{"source": "s1"}}, l{m{"source": "s2", "target": "two"}}, m{"secrets": m{"s1": m{"environment": "S1"}, "s2": m{"environment": "S2"}}}, nil},
		{"configs", l{"c1"}, l{m{"source": "c1"}}, l{m{"source": "c2", "target": "/two"}}, m{"configs": m{"c1": m{"content": "1"}, "c2": m{"content": "2"}}}, nil},
		{"volumes", l{"data:/d"}, l{m{"type": "volume", "source": "data", "target": "/d"}}, l{"other:/o"}, m{"volumes": m{"data": m{}, "other": m{}}}, nil},
		{"ports", l{"8080:80"}, l{m{"target": 80, "published": "8080"}}, l{m{"target": 80, "published": "8080", "name": "web"}}, nil, nil},
		{"healthcheck", m{"test": "exit 0"}, m{"test": l{"CMD-SHELL", "exit 0"}}, m{"interval": "10s"}, nil, nil},
	}
	for i, c := range cases {
		for _, ctx := range []string{"extends-same-file", "documents"} {
			mk := func(spelling any) string {
				top := m{}
				for k, v := range c.top {
					top[k] = v
				}
				if ctx == "extends-same-file" {
					top["services"] = m{"base": m{"image": "img", c.attr: spelling}, "s": m{"extends": m{"service": "base"}, c.attr: c.refinement}}
					return toYAML(top)
				}
				top["services"] = m{"s": m{"image": "img", "labels": m{"first": "1"}}}
				return toYAML(top) + "---\n" + toYAML(m{"services": m{"s": m{c.attr: spelling}}}) + "---\n" + toYAML(m{"services": m{"s": m{c.attr: c.refinement}}})
			}
			g.emit(pcase{Position: "services." + c.attr, Class: "under-" + ctx, Mode: "pair", Files: c.files,
				Docs: []spelled{
					{Name: "long", Text: "long base #" + itoa(i) + " refined", YAML: mk(c.long)},
					{Name: "short", Text: "short base #" + itoa(i) + " refined", YAML: mk(c.short)},
				}})
		}
	}
}
