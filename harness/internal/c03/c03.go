// Package c03 checks property C03: short and long syntaxes of an attribute
// denote the same model.
//
// Constructive generators draw a semantic value first (a list of port
// mappings, a mount, a KEY=VALUE set, a duration, an argument vector ...) and
// render every spelling the Compose specification admits for it, placed at
// every attribute position that admits the alternative. The documents are
// loaded with the real loader (default options); a monitor compares the typed
// project of every alternative spelling with the project of the long form and
// with direct expectations computed from the drawn value. Near-miss strings
// outside the grammars must be rejected with an error and no project.
package c03

import (
	"encoding/json"
	"fmt"
	"os"
	"path/filepath"
	"sort"
	"strings"

	"github.com/compose-spec/compose-go/v2/types"
	"github.com/sirupsen/logrus"

	"verif/harness/internal/core"
	"verif/harness/internal/diff"
	"verif/harness/internal/ld"
)

func init() {
	logrus.SetLevel(logrus.PanicLevel)
	core.Register(&core.Spec{
		ID:    "C03",
		Level: "exploration",
		Rule: "constructive pairs: a semantic value is drawn per family (ports, volumes, secrets/configs, devices, build, env_file, label_file, depends_on, networks, extends, healthcheck.test, external, include, string|list, KEY=VALUE list|mapping, extra_hosts, build.ssh, durations, byte sizes, ulimits int|string, command/entrypoint shell strings incl. the empty string against `[]`), " +
			"rendered in its long form and in every alternative spelling, at every attribute position of the harness catalogue that admits the alternative; each spelling is one document loaded with default options. " +
			"A pair is non-trivial when the long form and the alternative both loaded (so the typed projects were compared); distinct = distinct alternative-spelling documents. " +
			"Near-miss strings outside the grammars are separate cases (must fail, no project). The port family additionally enumerates the complete product of its shape grammar (IP form x host form x container range length x protocol) in both tiers; port numbers, names and paths are seeded draws biased to decimal-width boundaries.",
		Assumptions: []string{
			"the long form written by the generator is the specification's long form of the drawn value (the check trusts the loader's decoding of long forms only as far as the direct expectations in `expect` do not cover the field)",
			"typed projects are compared with the normalising comparer (nil == empty, pointer to zero struct == nil, ports/volumes/secrets/configs/devices/env_file/ssh lists as multisets): the statement fixes no order for expanded ranges",
			"generator restrictions keep the oracle inside what the grammar unambiguously says: volume names have >= 2 characters, relative bind sources start with '.', bind-only flags are not combined with named volumes nor nocopy with binds, a single host port facing a container range and unknown volume mode flags are exercised for no-crash only, ulimits N vs {soft,hard} are distinct values (only int|string spelling compared), valueless KEY is compared with `KEY: null` only for environment-like attributes and with `KEY: \"\"` for labels",
			"shell command strings stay inside words / single quotes / double quotes / backslash escapes without $, backticks, globs, comments or control operators",
		},
		Exhaustive: func(string) bool { return false },
		CPUBudget:  func(string) float64 { return 120 },
		Run:        run,
		Replay:     replay,
		Witness:    witness,
		Floor:      floor,
	})
}

// families in execution order; each emits its cases through g.emit.
var families = []struct {
	name string
	fn   func(g *gen)
}{
	{"ports", genPorts},
	{"volumes", genVolumes},
	{"mounts", genFileMounts},
	{"devices", genDevices},
	{"build", genBuild},
	{"env_file", genEnvFile},
	{"string_or_list", genStringOrList},
	{"depends_on", genDependsOn},
	{"networks", genNetworks},
	{"extends", genExtends},
	{"healthcheck", genHealthcheck},
	{"external", genExternal},
	{"include", genInclude},
	{"kv", genKV},
	{"extra_hosts", genExtraHosts},
	{"ssh", genSSH},
	{"duration", genDurations},
	{"bytes", genBytes},
	{"ulimits", genUlimits},
	{"command", genCommands},
	{"context", genContext},
	{"context-more", genContextMore},
	{"reject", genRejects},
}

type gen struct {
	s      *core.Shard
	family string
	n      int // global case counter
	fam    int // per-family counter
}

// size returns the number of random draws for the current family and tier.
// The per-family numbers in the generators are relative weights; the two
// multipliers size the tiers (quick ~ 30 k loads, thorough ~ 400 k loads).
func (g *gen) size(quick, thorough int) int { return g.s.Pick(quick*5/2, thorough*5/2) }

func (g *gen) emit(pc pcase) {
	g.n++
	g.fam++
	if pc.Family == "" {
		pc.Family = g.family
	}
	if !g.s.Mine(g.n) {
		return
	}
	if !g.s.Begin(fmt.Sprintf("%s/%d", pc.Family, g.fam)) {
		return
	}
	judge(g.s, &pc, shardReporter{g.s})
}

func run(s *core.Shard) {
	g := &gen{s: s}
	// development aid: VERIF_DEBUG=c03only=ports,volumes restricts the families
	// (never set by the registered commands)
	only := map[string]bool{}
	for _, kv := range strings.Fields(os.Getenv("VERIF_DEBUG")) {
		if v, ok := strings.CutPrefix(kv, "c03only="); ok {
			for _, f := range strings.Split(v, ",") {
				only[f] = true
			}
		}
	}
	for _, f := range families {
		if len(only) > 0 && !only[f.name] {
			continue
		}
		g.family = f.name
		g.fam = 0
		f.fn(g)
		if s.Index == 0 {
			s.Add("cases_generated/"+f.name, g.fam)
		}
	}
	if s.Index == 0 {
		schemaGaps(s)
	}
}

// ---- judging -------------------------------------------------------------------

type reporter interface {
	violation(attrs map[string]string, what string, files map[string]any)
}

type shardReporter struct{ s *core.Shard }

func (r shardReporter) violation(attrs map[string]string, what string, files map[string]any) {
	r.s.Violation(attrs, what, files)
}

type collectReporter struct {
	seen []map[string]string
	what []string
}

func (r *collectReporter) violation(attrs map[string]string, what string, _ map[string]any) {
	r.seen = append(r.seen, attrs)
	r.what = append(r.what, what)
}

func (pc *pcase) ldCase(i int) *ld.Case {
	files := map[string]string{"compose.yaml": pc.Docs[i].YAML}
	for k, v := range pc.Files {
		files[k] = v
	}
	return &ld.Case{Files: files, ComposeFiles: []string{"compose.yaml"}}
}

func trim(s string) string {
	s = strings.TrimSpace(s)
	if len(s) > 300 {
		s = s[:300] + "..."
	}
	return s
}

func judge(s *core.Shard, pc *pcase, rep reporter) {
	files := func(extra map[string]any) map[string]any {
		f := map[string]any{"case.json": pc}
		for i, d := range pc.Docs {
			f[fmt.Sprintf("docs/%d-%s.yaml", i, d.Name)] = d.YAML
		}
		for k, v := range extra {
			f[k] = v
		}
		return f
	}
	panicked := func(i int, pi *core.PanicInfo) {
		rep.violation(map[string]string{"kind": "panic", "site": pi.Site, "class": pi.Class, "attribute": pc.Position},
			fmt.Sprintf("panic in %s (%s) loading the %s spelling %q of %s: %s", pi.Site, pi.Class, pc.Docs[i].Name, pc.Docs[i].Text, pc.Position, pi.Value),
			files(map[string]any{"stack.txt": pi.Stack}))
	}
	load := func(i int) ld.Result {
		_, r := ld.Run(s.Scratch(), pc.ldCase(i))
		s.Eval(1)
		return r
	}
	s.Cover("family", pc.Family)
	s.Cover("position", pc.Position)
	s.Cover("class/"+pc.Family, pc.Class)

	switch pc.Mode {
	case "reject", "nocrash":
		for i, d := range pc.Docs {
			r := load(i)
			if r.Panic != nil {
				panicked(i, r.Panic)
				continue
			}
			if pc.Mode == "nocrash" {
				s.Add("nocrash_only", 1)
				if r.Err == nil {
					s.Add("nocrash_only_loaded", 1)
				}
			} else {
				s.Add("near_miss_checked", 1)
				s.Nontrivial("reject", d.YAML)
				if r.Err == nil {
					rep.violation(map[string]string{"kind": "near-miss-accepted", "attribute": pc.Position, "class": pc.Class},
						fmt.Sprintf("%s: %q is outside the grammar (%s) but the document loaded without error", pc.Position, d.Text, pc.Why), files(nil))
					continue
				}
			}
			if r.Err != nil && r.Project != nil {
				rep.violation(map[string]string{"kind": "partial-load", "attribute": pc.Position, "class": pc.Class},
					fmt.Sprintf("%s: %q returned both an error (%s) and a project", pc.Position, d.Text, trim(r.Err.Error())), files(nil))
			}
			if pc.Mode == "reject" && strings.HasPrefix(pc.Position, "services.") {
				// the same document reached through `extends.file` (such a layer is loaded with other
				// internal options than a main file): it does not parse there either
				c := pc.ldCase(i)
				c.Files["base/base.yaml"] = d.YAML
				c.Files["compose.yaml"] = "services:\n  s:\n    extends: {file: ./base/base.yaml, service: s}\n"
				_, r2 := ld.Run(s.Scratch(), c)
				s.Eval(1)
				s.Add("near_miss_checked_through_extends", 1)
				if r2.Panic != nil {
					panicked(i, r2.Panic)
				} else if r2.Err == nil {
					rep.violation(map[string]string{"kind": "near-miss-accepted", "attribute": pc.Position, "class": pc.Class, "through": "extends.file"},
						fmt.Sprintf("%s: %q is outside the grammar (%s) but a service extending the one that holds it from another file loaded without error", pc.Position, d.Text, pc.Why), files(nil))
				}
			}
		}
		return
	}

	// pair
	long := load(0)
	if long.Panic != nil {
		panicked(0, long.Panic)
		return
	}
	if long.Err != nil {
		s.Add("long_form_failed", 1)
		rep.violation(map[string]string{"kind": "long-form-rejected", "attribute": pc.Position},
			fmt.Sprintf("%s: the long form of %q failed to load: %s", pc.Position, pc.Docs[0].Text, trim(long.Err.Error())), files(nil))
		return
	}
	if !expectations(s, pc, 0, long.Project, rep, files) {
		return
	}
	for i := 1; i < len(pc.Docs); i++ {
		d := pc.Docs[i]
		r := load(i)
		s.Cover("spelling/"+pc.Family, d.Name)
		if r.Panic != nil {
			panicked(i, r.Panic)
			continue
		}
		if r.Err != nil {
			s.Add("short_form_failed", 1)
			rep.violation(map[string]string{"kind": "short-form-rejected", "attribute": pc.Position, "spelling": d.Name},
				fmt.Sprintf("%s: the %s spelling %q is inside the grammar and its long form loads, but it failed: %s", pc.Position, d.Name, d.Text, trim(r.Err.Error())), files(nil))
			continue
		}
		s.Add("pairs_compared", 1)
		s.Nontrivial(d.YAML, filesKey(pc.Files))
		if dd := diff.Compare(long.Project, r.Project, diff.Default()); dd != "" {
			rep.violation(map[string]string{"kind": "spelling-mismatch", "attribute": pc.Position, "spelling": d.Name, "field": diff.PathOf(dd), "class": pc.Class},
				fmt.Sprintf("%s: the %s spelling %q and its long form %q load to different typed values (long vs %s): %s", pc.Position, d.Name, d.Text, pc.Docs[0].Text, d.Name, trim(dd)), files(nil))
			continue
		}
		expectations(s, pc, i, r.Project, rep, files)
	}
	if s.WantSample() && len(pc.Docs) > 1 && pc.Family != "ports" {
		s.Sample(map[string]any{"position": pc.Position, "class": pc.Class, "long": pc.Docs[0].YAML, "alternative": pc.Docs[1].YAML, "expect": pc.Expect})
	}
}

func filesKey(f map[string]string) string {
	if len(f) == 0 {
		return ""
	}
	ks := make([]string, 0, len(f))
	for k, v := range f {
		ks = append(ks, k+"\x00"+v)
	}
	sort.Strings(ks)
	return strings.Join(ks, "\x00")
}

// expectations evaluates the direct assertions of the case on one loaded project.
func expectations(s *core.Shard, pc *pcase, i int, p *types.Project, rep reporter, files func(map[string]any) map[string]any) bool {
	ok := true
	paths := make([]string, 0, len(pc.Expect))
	for k := range pc.Expect {
		paths = append(paths, k)
	}
	sort.Strings(paths)
	for _, path := range paths {
		want := pc.Expect[path]
		got, err := lookup(p, path)
		if err != nil {
			s.Inconclusive("c03: expectation path " + path + ": " + err.Error())
			continue
		}
		s.Add("direct_expectations", 1)
		if got != want {
			ok = false
			rep.violation(map[string]string{"kind": "wrong-value", "attribute": pc.Position, "spelling": pc.Docs[i].Name, "field": stripKeys(path)},
				fmt.Sprintf("%s: the %s spelling %q loads with %s = %s, the drawn value requires %s", pc.Position, pc.Docs[i].Name, pc.Docs[i].Text, path, got, want), files(nil))
		}
	}
	return ok
}

func stripKeys(p string) string {
	var sb strings.Builder
	depth := 0
	for _, r := range p {
		switch {
		case r == '[':
			depth++
		case r == ']':
			depth--
		case depth == 0:
			sb.WriteRune(r)
		}
	}
	return sb.String()
}

// ---- replay / witness / floor --------------------------------------------------

func replay(s *core.Shard, dir string) {
	var pc pcase
	if err := core.ReadJSON(filepath.Join(dir, "case.json"), &pc); err != nil {
		s.Inconclusive("replay: " + err.Error())
		return
	}
	judge(s, &pc, shardReporter{s})
}

func witness(s *core.Shard, f core.Finding) (bool, string) {
	var pc pcase
	if err := json.Unmarshal(f.Witness, &pc); err != nil {
		return false, "witness is not a C03 case: " + err.Error()
	}
	if len(pc.Docs) == 0 {
		return false, "witness has no documents"
	}
	rep := &collectReporter{}
	judge(s, &pc, rep)
	for i, a := range rep.seen {
		if f.Matches(a) {
			return true, rep.what[i]
		}
	}
	if len(rep.seen) > 0 {
		return false, "the witness now fails differently: " + rep.what[0]
	}
	return false, "every spelling of the witness loads to the same typed value"
}

func floor(tier string, mg *core.Merged) []string {
	var r []string
	minPairs := int64(5000)
	if tier == "thorough" {
		minPairs = 50000
	}
	if mg.Counters["pairs_compared"] < minPairs {
		r = append(r, fmt.Sprintf("too few pairs compared: %d < %d", mg.Counters["pairs_compared"], minPairs))
	}
	if mg.Counters["near_miss_checked"] < 100 {
		r = append(r, fmt.Sprintf("too few near-miss strings: %d", mg.Counters["near_miss_checked"]))
	}
	if mg.Counters["direct_expectations"] < 5000 {
		r = append(r, fmt.Sprintf("too few direct expectations: %d", mg.Counters["direct_expectations"]))
	}
	for _, f := range families {
		if mg.Cover["family"][f.name] == 0 {
			r = append(r, "family never exercised: "+f.name)
		}
	}
	for _, p := range cataloguePositions() {
		if mg.Cover["position"][p] == 0 {
			r = append(r, "catalogue position never exercised: "+p)
		}
	}
	return r
}
