package c11

import (
	"fmt"
	"strings"

	"verif/harness/internal/core"
	"verif/harness/internal/diff"
	"verif/harness/internal/ld"
)

// An attribute declared by one layer with its defaults left implicit and refined by a later layer
// (override file, second document, extending service): the implicit spelling and the spelling with
// every default written out must still load to the same project, the refinement applying to the
// entry it names and to nothing else - in this load and in the loads that follow in the process.
func runRefined(s *core.Shard, offset int) {
	type rc struct {
		id       string
		implicit string // attribute lines of the first layer, defaults implicit (indented for a service)
		explicit string // the same, defaults spelled out
		layer    string // attribute lines of the refining layer (identical on both sides unless layerExp is set)
		layerExp string // the refining layer with its own defaults spelled out
	}
	depFull := "{condition: service_started, required: true}"
	cases := []rc{
		{"depends_on-short-list-one-refined",
			"    depends_on: [db, cache]\n",
			"    depends_on:\n      db: " + depFull + "\n      cache: " + depFull + "\n",
			"    depends_on:\n      db: {condition: service_healthy, required: false, restart: true}\n", ""},
		{"depends_on-short-list-other-refined",
			"    depends_on:\n      - cache\n      - db\n      - queue\n",
			"    depends_on:\n      db: " + depFull + "\n      cache: " + depFull + "\n      queue: " + depFull + "\n",
			"    depends_on:\n      queue: {condition: service_completed_successfully, required: false}\n", ""},
		{"port-long-without-protocol-then-short",
			"    ports:\n      - {target: 80, published: \"8080\"}\n",
			"    ports:\n      - {target: 80, published: \"8080\", protocol: tcp, mode: ingress}\n",
			"    ports:\n      - \"8080:80\"\n", ""},
		{"port-long-without-protocol-then-long-with",
			"    ports:\n      - {target: 80, published: \"8080\"}\n      - {target: 53, published: \"53\", protocol: udp}\n",
			"    ports:\n      - {target: 80, published: \"8080\", protocol: tcp, mode: ingress}\n      - {target: 53, published: \"53\", protocol: udp, mode: ingress}\n",
			"    ports:\n      - {target: 80, published: \"8080\", protocol: tcp, name: web}\n", ""},
		{"port-short-then-long-without-protocol",
			"    ports:\n      - \"8080:80\"\n",
			"    ports:\n      - {target: 80, published: \"8080\", protocol: tcp, mode: ingress}\n",
			"    ports:\n      - {target: 80, published: \"8080\", name: web, app_protocol: http}\n", ""},
		{"port-long-with-protocol-then-long-without",
			"    ports:\n      - {target: 80, published: \"8080\", protocol: tcp}\n",
			"    ports:\n      - {target: 80, published: \"8080\", protocol: tcp, mode: ingress}\n",
			"    ports:\n      - {target: 80, published: \"8080\", name: web}\n", ""},
		{"build-short-form-over-a-dockerfile",
			"    build: {context: ./dir, dockerfile: Dockerfile.dev}\n", "    build: {context: ./dir, dockerfile: Dockerfile.dev}\n",
			"    build: ./dir\n", "    build: {context: ./dir}\n"},
		{"build-short-form-over-an-inline-dockerfile",
			"    build: {context: ./dir, dockerfile_inline: \"FROM scratch\"}\n", "    build: {context: ./dir, dockerfile_inline: \"FROM scratch\"}\n",
			"    build: ./other\n", "    build: {context: ./other}\n"},
		{"build-short-form-refined-with-a-dockerfile",
			"    build: ./dir\n", "    build: {context: ./dir}\n",
			"    build: {dockerfile: Dockerfile.dev}\n", ""},
		// env_file `required` given as text (the schema admits a string, a variable gives one)
		{"env-file-required-as-text-false",
			"    env_file:\n      - {path: ./absent.env, required: \"false\"}\n", "    env_file:\n      - {path: ./absent.env, required: false}\n",
			"    labels: {later: \"1\"}\n", ""},
		{"env-file-required-from-a-variable",
			"    env_file:\n      - {path: ./absent.env, required: \"${REFINED_UNSET:-false}\"}\n", "    env_file:\n      - {path: ./absent.env, required: false}\n",
			"    labels: {later: \"1\"}\n", ""},
		{"build-short-form-refined-with-an-inline-dockerfile",
			"    build: ./dir\n", "    build: {context: ./dir}\n",
			"    build: {dockerfile_inline: \"FROM scratch\"}\n", ""},
	}
	carriers := []string{"files", "documents", "extends"}
	others := "  db:\n    image: img\n  cache:\n    image: img\n  queue:\n    image: img\n"
	mk := func(c rc, carrier string, explicit bool) *ld.Case {
		first, layer := c.implicit, c.layer
		// a bystander with the same kind of attribute, never refined
		by := "  t:\n    image: img\n    depends_on: [db]\n    ports: [\"9090:90\"]\n"
		if explicit {
			first = c.explicit
			if c.layerExp != "" {
				layer = c.layerExp
			}
			by = "  t:\n    image: img\n    depends_on:\n      db: " + depFull + "\n    ports:\n      - {target: 90, published: \"9090\", protocol: tcp, mode: ingress}\n"
		}
		lc := &ld.Case{Files: map[string]string{}, ComposeFiles: []string{"compose.yaml"}}
		switch carrier {
		case "files":
			lc.Files["compose.yaml"] = "services:\n  s:\n    image: img\n" + first + by + others
			lc.Files["override.yaml"] = "services:\n  s:\n" + layer
			lc.ComposeFiles = []string{"compose.yaml", "override.yaml"}
		case "documents":
			lc.Files["compose.yaml"] = "services:\n  s:\n    image: img\n" + first + by + others + "---\nservices:\n  s:\n" + layer
		default:
			lc.Files["compose.yaml"] = "services:\n  s_base:\n    image: img\n" + first + "  s:\n    extends: {service: s_base}\n" + layer + by + others
		}
		return lc
	}
	plain := func(explicit bool) *ld.Case {
		doc := "services:\n  u:\n    image: img\n    depends_on: [db]\n  db:\n    image: img\n"
		if explicit {
			doc = "services:\n  u:\n    image: img\n    depends_on:\n      db: " + depFull + "\n  db:\n    image: img\n"
		}
		return &ld.Case{Files: map[string]string{"compose.yaml": doc}, ComposeFiles: []string{"compose.yaml"}}
	}
	k := 0
	for _, c := range cases {
		for _, carrier := range carriers {
			k++
			if !s.Mine(offset + k) {
				continue
			}
			id := c.id + "/" + carrier
			if !s.Begin("refined/" + id) {
				continue
			}
			o := diff.Default()
			o.IgnoreField["ComposeFiles"] = true
			pairs := []struct {
				what     string
				imp, exp *ld.Case
			}{{"refined", mk(c, carrier, false), mk(c, carrier, true)}, {"plain-load-afterwards", plain(false), plain(true)}}
			for _, pr := range pairs {
				_, ri := ld.Run(s.Scratch(), pr.imp)
				_, re := ld.Run(s.Scratch(), pr.exp)
				s.Eval(2)
				files := map[string]any{"case.json": replayCase{Kind: "refined", Implicit: pr.imp, Variant: pr.exp, Rule: strings.SplitN(c.id, "-", 2)[0], Origin: id}}
				if ri.Panic != nil || re.Panic != nil {
					s.Violation(map[string]string{"kind": "panic", "origin": id}, "load panicked", files)
					break
				}
				if re.Err != nil {
					s.Inconclusive("refined: the explicit document of " + id + " does not load: " + re.Err.Error())
					break
				}
				s.Cover("refined-by-later-layer", id)
				s.Nontrivial("refined", id, pr.what)
				if ri.Err != nil {
					s.Violation(map[string]string{"kind": "implicit-vs-explicit", "rule": "refined", "origin": id},
						fmt.Sprintf("%s (%s): the explicit spelling loads, the implicit one fails: %v", id, pr.what, ri.Err), files)
					break
				}
				if d := diff.Compare(ri.Project, re.Project, o); d != "" {
					s.Violation(map[string]string{"kind": "implicit-vs-explicit", "rule": "refined", "origin": id, "field": diff.PathOf(d)},
						fmt.Sprintf("%s (%s): defaults left implicit in a layer that a later layer refines differ from the spelled-out ones: %s", id, pr.what, d), files)
					break
				}
			}
		}
	}
}
