// Package c11 checks property C11: implicit defaults are made explicit exactly
// as the specification defines them. For a generated model the places where
// a default is left implicit are enumerated (sites.go, written from the
// statement and the Compose specification); the model is loaded as it is, with
// subsets of those defaults spelled out, and with other values in their place.
// Implicit and explicit spellings must load to the same project; another
// explicit value must be found unchanged in the project. The attribute arrives
// from the main file, an override file, an extended base or an included file.
package c11

import (
	"encoding/json"
	"fmt"
	"math/rand"
	"os"
	"path/filepath"
	"regexp"
	"sort"
	"strings"

	"github.com/compose-spec/compose-go/v2/types"

	"verif/harness/internal/core"
	"verif/harness/internal/diff"
	"verif/harness/internal/gen"
	"verif/harness/internal/ld"
)

var allRules = []string{"service.networks", "networks.default", "networks.name", "volumes.name", "secrets.name", "configs.name", "depends_on.implied",
	"depends_on.required", "build.context", "build.dockerfile", "ports.protocol", "ports.mode", "secrets.target", "env_file.required",
	"gpus.count", "devices.count", "pull_policy.alias"}

var origins = []string{"main", "override", "base", "base-file", "include"}

func init() {
	core.Register(&core.Spec{
		ID:    "C11",
		Level: "exploration",
		Rule: "seeded models from internal/gen in which default-able attributes are mostly left implicit; per model the implicit-default sites are enumerated for 17 rules " +
			"(default network membership and declaration, <project>_<key> resource names incl. external resources, depends_on implied by links / service: namespaces / volumes_from, build context and dockerfile, port protocol and mode, secret target, depends_on and env_file `required`, device count, pull_policy alias); " +
			"loads: the model as is, the model with every default spelled out, with random subsets spelled out, and with other values at a random subset of sites; the same layout is applied to all variants so that the attribute arrives from the main file, an override file, an extended base (same file / other file) or an included file. " +
			"Hand-shaped pairs add: resource names under an effective project name that differs from the raw `name:`; empty `networks`; depends_on short lists and ports whose defaults are left implicit by one layer and which a later layer (override file, second document, extending service) refines, followed by a plain load in the same process. " +
			"Additionally the `default` network must be declared in the loaded project iff some enabled or disabled service uses it or the document declares it. " +
			"A case is non-trivial when the model loaded, had at least one site, and at least one variant loaded and was compared; distinct = distinct inputs.",
		Assumptions: []string{
			"the default values themselves (`.`, `Dockerfile`, tcp, ingress, /run/secrets/<source>, required: true, count: all, condition service_started with restart true for links and service: namespaces and false for volumes_from, <project>_<key>, key as the name of an external resource, missing == if_not_present) are taken from the statement and the Compose specification",
			"a dependency implied by several sources with different restart flags is not exercised (the statement does not rank the sources)",
			"only default options (and ResolvePaths=false) are used: the statement is about what normalisation and default-setting do",
			"implicit and explicit documents are compared with the normalising comparer (nil == empty, keyed lists as multisets)",
		},
		CPUBudget: func(string) float64 { return 600 },
		Run:       run,
		Replay:    replay,
		Witness:   witness,
		Floor: func(tier string, m *core.Merged) []string {
			var r []string
			if m.Counters["compared_explicit"] < 500 || m.Counters["checked_other"] < 300 {
				r = append(r, fmt.Sprintf("too few comparisons: explicit %d, other-value %d", m.Counters["compared_explicit"], m.Counters["checked_other"]))
			}
			for _, rule := range allRules {
				if m.Cover["rule-explicit"][rule] == 0 {
					r = append(r, "rule never exercised: "+rule)
				}
			}
			for _, o := range origins {
				if m.Cover["origin"][o] == 0 {
					r = append(r, "origin never exercised: "+o)
				}
			}
			return r
		},
	})
}

func projectName(m *gen.Model) string {
	if m.NameInFile {
		if n, ok := m.Doc["name"].(string); ok {
			return n
		}
	}
	return "verif"
}

func compareProjects(a, b *types.Project) string {
	o := diff.Default()
	o.UnorderedField["ExtraHosts"] = true
	if a.Name != b.Name {
		return fmt.Sprintf("Name: %q != %q", a.Name, b.Name)
	}
	for _, r := range []struct {
		name string
		x, y any
	}{
		{"Services", a.Services, b.Services}, {"DisabledServices", a.DisabledServices, b.DisabledServices}, {"Networks", a.Networks, b.Networks},
		{"Volumes", a.Volumes, b.Volumes}, {"Secrets", a.Secrets, b.Secrets}, {"Configs", a.Configs, b.Configs}, {"Extensions", a.Extensions, b.Extensions},
	} {
		if d := diff.Compare(r.x, r.y, o); d != "" {
			return r.name + d
		}
	}
	return ""
}

// layoutFor builds the layout that makes the services' attributes (and the
// resources) arrive from the given origin. full is the document with every
// default spelled out, so that the keys added by explicit variants are placed too.
func layoutFor(origin string, full M, r *rand.Rand) *gen.Layout {
	names := sortedKeys(services(full))
	keys := func(name string, drop ...string) []string {
		var ks []string
	next:
		for _, k := range sortedKeys(svc(full, name)) {
			for _, d := range drop {
				if k == d {
					continue next
				}
			}
			ks = append(ks, k)
		}
		return ks
	}
	var tops []string
	for _, sec := range []string{"networks", "volumes", "secrets", "configs"} {
		m, _ := full[sec].(M)
		for _, k := range sortedKeys(m) {
			if rm, ok := m[k].(M); ok {
				if _, env := rm["environment"]; env {
					continue // resolved inside an included project; trips the exclusivity check of the including one
				}
			}
			tops = append(tops, sec+"/"+k)
		}
	}
	l := &gen.Layout{}
	switch origin {
	case "main":
		return nil
	case "override":
		l.Override = map[string][]string{}
		for _, n := range names {
			l.Override[n] = keys(n, "image", "extends")
		}
		l.OverrideTop = tops
		l.MultiDoc = r.Intn(3) == 0
	case "base", "base-file":
		l.Extends = map[string]*gen.Extend{}
		for _, n := range names {
			e := &gen.Extend{Levels: [][]string{keys(n, "image", "profiles", "extends")}}
			if origin == "base-file" {
				e.File = "./" + gen.BaseDir + "/base.yaml"
			} else {
				e.Short = r.Intn(2) == 0
			}
			if len(e.Levels[0]) > 2 && r.Intn(2) == 0 { // two-level chain
				h := len(e.Levels[0]) / 2
				e.Levels = [][]string{e.Levels[0][:h], e.Levels[0][h:]}
			}
			l.Extends[n] = e
		}
	case "include":
		inc := &gen.Include{ProjectDirDot: r.Intn(2) == 0, Top: tops}
		if len(names) > 1 {
			inc.Services = names[:len(names)-1]
		} else {
			inc.Services = names
		}
		l.Include = inc
	}
	return l
}

type replayCase struct {
	Kind     string   `json:"kind"`
	Implicit *ld.Case `json:"implicit"`
	Variant  *ld.Case `json:"variant,omitempty"`
	Rule     string   `json:"rule,omitempty"`
	Origin   string   `json:"origin,omitempty"`
	// explicit-overwritten: what the project loaded from Implicit must carry
	Expect *expect `json:"expect,omitempty"`
	// default-network: whether the document declares / uses the default network
	Declared bool `json:"declared,omitempty"`
	Used     bool `json:"used,omitempty"`
}

type checker struct {
	s *core.Shard
}

func (k *checker) load(c *ld.Case) (*types.Project, error, *core.PanicInfo) {
	res := runCase(k.s.Scratch(), c)
	k.s.Eval(1)
	return res.Project, res.Err, res.Panic
}

// runCase materialises and loads a case. Without path resolution the library leaves env_file /
// label_file paths relative, i.e. relative to the process working directory: the load then runs
// from the case's working directory, as a client would.
func runCase(work string, c *ld.Case) ld.Result {
	dir := filepath.Join(work, "case")
	_ = os.RemoveAll(dir)
	if err := os.MkdirAll(dir, 0o755); err != nil {
		return ld.Result{Err: fmt.Errorf("harness: %w", err)}
	}
	if err := ld.Materialise(dir, c); err != nil {
		return ld.Result{Err: fmt.Errorf("harness: %w", err)}
	}
	if c.Opts.NoResolvePaths {
		if err := os.Chdir(filepath.Join(dir, c.WorkingDir)); err == nil {
			defer os.Chdir(filepath.Dir(work)) //nolint:errcheck // the shard directory outlives the scratch directory
		}
	}
	return ld.Load(dir, c)
}

func variant(m *gen.Model, l *gen.Layout, apply func(doc M)) *gen.Model {
	v := m.Clone()
	v.Layout = l
	if apply != nil {
		apply(v.Doc)
	}
	return v
}

// defaultNetworkVerdict: the `default` network is declared in the project iff the document declares it or a service uses it.
func defaultNetworkUse(doc M) (declared, used bool) {
	nets, _ := doc["networks"].(M)
	_, declared = nets["default"]
	for _, n := range sortedKeys(services(doc)) {
		if usesDefaultNetwork(svc(doc, n)) {
			used = true
		}
	}
	return
}

func defaultNetworkVerdict(declared, used bool, p *types.Project) string {
	_, has := p.Networks["default"]
	switch {
	case has && !declared && !used:
		return "added-when-unused"
	case !has && used:
		return "missing-when-used"
	}
	return ""
}

func (k *checker) model(id string, m *gen.Model, origin string, opts ld.Opts, r *rand.Rand) {
	s := k.s
	if !s.Begin(id) {
		return
	}
	// the sites are enumerated twice: first to learn which keys the explicit spellings add (the
	// layout must place them), then, once the implicit model is loaded, with the name of the
	// loaded project, which is what <project> in `<project>_<key>` refers to
	sites := findSites(m.Doc, projectName(m))
	full := gen.CloneTree(m.Doc).(M)
	for _, st := range sites {
		st.Explicit(full)
	}
	layout := layoutFor(origin, full, r)
	implicit := variant(m, layout, nil)
	ic := implicit.Case(opts)
	pI, err, pi := k.load(ic)
	if pi != nil {
		ld.PanicViolation(s, pi, ic, map[string]string{"origin": origin})
		return
	}
	if err != nil {
		s.Add("implicit_load_err", 1)
		s.Cover("implicit-load-error", origin+": "+errShape(err))
		return
	}
	sites = findSites(m.Doc, pI.Name)
	s.Add("implicit_loaded", 1)
	s.Cover("origin", origin)
	s.Cover("options", opts.String())
	declared, used := defaultNetworkUse(m.Doc)
	if origin == "base" {
		// the same-file bases are services of the project too: the innermost base of a chain in
		// which nobody carries network_mode or networks uses the default network by itself
		for _, f := range layout.Apply(m.Doc) {
			for _, d := range f.Docs {
				for _, n := range sortedKeys(services(d)) {
					if sv := svc(d, n); sv["extends"] == nil && usesDefaultNetwork(sv) {
						used = true
					}
				}
			}
		}
	}
	if v := defaultNetworkVerdict(declared, used, pI); v != "" {
		s.Violation(map[string]string{"kind": "default-network", "sub": v, "origin": origin},
			fmt.Sprintf("the `default` network is %s (origin %s)", strings.ReplaceAll(v, "-", " "), origin),
			map[string]any{"case.json": replayCase{Kind: "default-network", Implicit: ic, Origin: origin, Declared: declared, Used: used}})
	}
	s.Add("default_network_checked", 1)
	if len(sites) == 0 {
		return
	}
	compared := 0

	explicitCase := func(subset []site) (*ld.Case, *types.Project, bool) {
		ev := variant(m, layout, func(doc M) {
			for _, st := range subset {
				st.Explicit(doc)
			}
		})
		ec := ev.Case(opts)
		pE, err, pi := k.load(ec)
		if pi != nil {
			ld.PanicViolation(s, pi, ec, map[string]string{"origin": origin})
			return ec, nil, false
		}
		if err != nil {
			// the explicit spelling of a default must load whenever the implicit one does
			return ec, nil, true
		}
		return ec, pE, true
	}
	reportExplicit := func(st *site, ec *ld.Case, d string, loadErr bool) {
		rule, where := "combination", "several sites"
		if st != nil {
			rule, where = st.Rule, st.Where
		}
		attrs := map[string]string{"kind": "implicit-vs-explicit", "rule": rule, "origin": origin}
		what := ""
		if loadErr {
			attrs["kind"] = "explicit-rejected"
			what = fmt.Sprintf("the model loads with the default at %s left implicit but not with it spelled out (rule %s, origin %s): %s", where, rule, origin, d)
		} else {
			attrs["field"] = strings.TrimPrefix(diff.PathOf(d), "Disabled")
			what = fmt.Sprintf("spelling out the default at %s changes the project (rule %s, origin %s): %s", where, rule, origin, d)
		}
		s.Violation(attrs, what, map[string]any{"case.json": replayCase{Kind: attrs["kind"], Implicit: ic, Variant: ec, Rule: rule, Origin: origin}})
	}
	// judge compares the explicit variant of a subset with the implicit project; on a
	// difference it looks for a single site that reproduces it.
	judge := func(subset []site) {
		ec, pE, ok := explicitCase(subset)
		if !ok {
			return
		}
		compared++
		s.Add("compared_explicit", 1)
		for _, st := range subset {
			s.Cover("rule-explicit", st.Rule)
		}
		d := ""
		loadErr := false
		if pE == nil {
			loadErr = true
			res := runCase(s.Scratch(), ec)
			d = fmt.Sprint(res.Err)
		} else {
			d = compareProjects(pI, pE)
		}
		if d == "" {
			return
		}
		if len(subset) == 1 {
			reportExplicit(&subset[0], ec, d, loadErr)
			return
		}
		found := false
		for i := range subset {
			ec1, p1, ok := explicitCase(subset[i : i+1])
			if !ok {
				continue
			}
			if p1 == nil {
				res := runCase(s.Scratch(), ec1)
				reportExplicit(&subset[i], ec1, fmt.Sprint(res.Err), true)
				found = true
				continue
			}
			if d1 := compareProjects(pI, p1); d1 != "" {
				reportExplicit(&subset[i], ec1, d1, false)
				found = true
			}
		}
		if !found {
			reportExplicit(nil, ec, d, loadErr)
		}
	}
	judge(sites)
	nSub := s.Pick(2, 5)
	for i := 0; i < nSub && len(sites) > 1; i++ {
		var sub []site
		for _, st := range sites {
			if r.Intn(2) == 0 {
				sub = append(sub, st)
			}
		}
		if len(sub) > 0 && len(sub) < len(sites) {
			judge(sub)
		}
	}
	// every rule present gets one singleton variant now and then, so that a rule is also seen alone
	if r.Intn(3) == 0 {
		i := r.Intn(len(sites))
		judge(sites[i : i+1])
	}

	// ---- other values: never overwritten ----
	nOther := s.Pick(1, 3)
	for i := 0; i < nOther; i++ {
		var chosen []site
		var checks []expect
		ov := variant(m, layout, func(doc M) {
			for _, st := range sites {
				if st.Other != nil && r.Intn(2) == 0 {
					chosen = append(chosen, st)
					checks = append(checks, st.Other(doc))
				}
			}
		})
		if len(chosen) == 0 {
			continue
		}
		oc := ov.Case(opts)
		pO, err, pi := k.load(oc)
		if pi != nil {
			ld.PanicViolation(s, pi, oc, map[string]string{"origin": origin})
			continue
		}
		if err != nil {
			s.Add("other_load_err", 1)
			s.Cover("other-load-error", origin+": "+errShape(err))
			continue
		}
		compared++
		for j, st := range chosen {
			s.Add("checked_other", 1)
			s.Cover("rule-other", st.Rule)
			if msg := checks[j].violated(pO); msg != "" {
				s.Violation(map[string]string{"kind": "explicit-overwritten", "rule": st.Rule, "origin": origin},
					fmt.Sprintf("an explicit value did not survive loading (rule %s, origin %s): %s", st.Rule, origin, msg),
					map[string]any{"case.json": replayCase{Kind: "explicit-overwritten", Implicit: oc, Rule: st.Rule, Origin: origin, Expect: &checks[j]}, "detail.txt": msg})
			}
		}
	}
	if compared > 0 {
		s.Nontrivial(ic.Key())
		if s.WantSample() {
			var rules []string
			for _, st := range sites {
				rules = append(rules, st.Rule+"@"+st.Where)
			}
			s.Sample(map[string]any{"case": id, "origin": origin, "implicit_document": clip(ic.Files[ic.ComposeFiles[0]], 1200), "implicit_default_sites": rules,
				"verdict": "all explicit spellings loaded to the same project; other values survived"})
		}
	}
}

func run(s *core.Shard) {
	k := &checker{s: s}
	scale := 1
	if os.Getenv("VERIF_DEBUG") != "" {
		scale = 10
	}
	n := s.Pick(1200, 12000) / scale
	runNames(s, n)
	runEmptyNetworks(s, n+16)
	runRefined(s, n+32)
	runUnexternalised(s, n+90)
	for j := 0; j < n; j++ {
		if !s.Mine(j) {
			continue
		}
		r := s.Rand(fmt.Sprintf("model/%d", j))
		cfg := gen.Config{
			Density:     []float64{0.15, 0.3, 0.5}[r.Intn(3)],
			MaxServices: 3,
			Profiles:    r.Intn(4) == 0,
			Variables:   r.Intn(5) == 0,
			// leave the default-able attributes implicit most of the time
			Avoid: map[string]bool{},
			Force: map[string]bool{},
		}
		for _, a := range []string{"service.ports.protocol", "service.ports.mode", "build.dockerfile", "service.depends_on.required", "service.secrets.target",
			"network.name", "volume.name", "secret.name", "config.name", "service.networks", "network.default-declared"} {
			if r.Intn(4) != 0 {
				cfg.Avoid[a] = true
			}
		}
		for _, a := range []string{"service.build", "service.ports", "service.secrets", "service.depends_on", "service.links", "service.volumes_from", "service.env_file",
			"service.gpus", "service.deploy", "deploy.resources", "deploy.resources.reservations", "deploy.resources.reservations.devices", "service.pull_policy",
			"service.ipc", "service.pid", "service.network_mode", "network.external", "volume.external"} {
			if r.Intn(3) == 0 {
				cfg.Force[a] = true
			}
		}
		m := gen.Draw(r, cfg)
		if r.Intn(5) == 0 {
			// a `name:` in the file while the caller names the project: the project's name is the caller's
			m.Doc["name"] = "name-from-file"
			m.NameInFile = false
		}
		origin := origins[j%len(origins)]
		opts := ld.Opts{}
		if r.Intn(6) == 0 {
			opts.NoResolvePaths = true
		}
		k.model(fmt.Sprintf("model/%d", j), m, origin, opts, r)
	}
}

func replay(s *core.Shard, dir string) {
	var rc replayCase
	if err := core.ReadJSON(filepath.Join(dir, "case.json"), &rc); err != nil || rc.Implicit == nil {
		s.Inconclusive(fmt.Sprintf("replay: cannot read case.json: %v", err))
		return
	}
	ok, detail := rerun(s, &rc)
	if ok {
		attrs := map[string]string{"kind": rc.Kind, "rule": rc.Rule, "origin": rc.Origin}
		s.Violation(attrs, "replay: "+detail, map[string]any{"case.json": rc})
	}
}

// rerun re-executes a stored case; it reports whether the discrepancy shows again.
func rerun(s *core.Shard, rc *replayCase) (bool, string) {
	ri := runCase(s.Scratch(), rc.Implicit)
	s.Eval(1)
	if ri.Err != nil || ri.Panic != nil {
		return false, fmt.Sprintf("the stored document does not load: %v", ri.Err)
	}
	switch rc.Kind {
	case "default-network":
		v := defaultNetworkVerdict(rc.Declared, rc.Used, ri.Project)
		return v != "", "the `default` network is " + v
	case "explicit-overwritten":
		if rc.Expect == nil {
			return false, "no expectation stored"
		}
		msg := rc.Expect.violated(ri.Project)
		return msg != "", msg
	}
	if rc.Variant == nil {
		return false, "no variant stored"
	}
	rv := runCase(s.Scratch(), rc.Variant)
	s.Eval(1)
	if rv.Panic != nil {
		return true, "explicit variant panics: " + rv.Panic.Value
	}
	if rv.Err != nil {
		return true, "explicit variant is rejected: " + rv.Err.Error()
	}
	if d := compareProjects(ri.Project, rv.Project); d != "" {
		return true, d
	}
	return false, "implicit and explicit documents load to the same project"
}

func witness(s *core.Shard, f core.Finding) (bool, string) {
	var rc replayCase
	if err := json.Unmarshal(f.Witness, &rc); err != nil || rc.Implicit == nil {
		return false, fmt.Sprintf("witness unreadable: %v", err)
	}
	return rerun(s, &rc)
}

func clip(x string, n int) string {
	if len(x) > n {
		return x[:n] + "\n... (clipped)"
	}
	return x
}

var reShape = regexp.MustCompile(`[0-9]+|/[A-Za-z0-9_./-]+`)

// errShape shortens an error message to a class for the coverage tables.
func errShape(err error) string {
	m := reShape.ReplaceAllString(err.Error(), "N")
	m = strings.Join(strings.Fields(m), " ")
	if len(m) > 100 {
		m = m[:100]
	}
	return m
}

var _ = sort.Strings
