package c11

import (
	"fmt"
	"strings"

	"verif/harness/internal/core"
	"verif/harness/internal/diff"
	"verif/harness/internal/ld"
)

// Resource names are `<project>_<key>` where <project> is the *effective* project name:
// the caller's name when one is requested, else the normalised `name:` of the file.
// Hand-shaped pairs: the implicit document vs the document spelling the names out.
func runNames(s *core.Shard, offset int) {
	type nc struct {
		id         string
		fileName   string // `name:` written in the file
		callName   string // requested by the caller ("-" = none)
		effective  string
		inOverride bool
	}
	cases := []nc{
		{"file-name-not-normalised", "My_Project", "-", "my_project", false},
		{"file-name-with-dots", "Demo.App-2", "-", "demoapp-2", false},
		{"caller-overrides-file-name", "fromfile", "override", "override", false},
		{"caller-overrides-file-name-in-override-file", "fromfile", "other-1", "other-1", true},
		{"file-name-in-override-file", "Second_Name", "-", "second_name", true},
	}
	body := func(explicit bool, project string) string {
		n := func(kind, key string) string {
			if !explicit {
				return "{}"
			}
			return fmt.Sprintf("{name: %s_%s}", project, key)
		}
		doc := "services:\n  s:\n    image: img\n    networks: [front, default]\n    volumes: [\"data:/data\"]\n    secrets: [sec]\n    configs: [cfg]\n"
		doc += "networks:\n  front: " + n("networks", "front") + "\n"
		if explicit {
			doc += "  default: {name: " + project + "_default}\n"
		}
		doc += "  ext: {external: true}\n  named: {name: keep-me}\n"
		doc += "volumes:\n  data: " + n("volumes", "data") + "\n"
		if explicit {
			doc += "secrets:\n  sec: {file: ./s.txt, name: " + project + "_sec}\nconfigs:\n  cfg: {file: ./c.txt, name: " + project + "_cfg}\n"
		} else {
			doc += "secrets:\n  sec: {file: ./s.txt}\nconfigs:\n  cfg: {file: ./c.txt}\n"
		}
		return doc
	}
	for i, c := range cases {
		if !s.Mine(offset + i) {
			continue
		}
		if !s.Begin("names/" + c.id) {
			continue
		}
		mk := func(explicit bool) *ld.Case {
			lc := &ld.Case{Files: map[string]string{"s.txt": "x", "c.txt": "y"}, ComposeFiles: []string{"compose.yaml"}, Opts: ld.Opts{Name: c.callName}}
			main := body(explicit, c.effective)
			if c.inOverride {
				lc.Files["compose.yaml"] = "name: first-name\n" + main
				lc.Files["override.yaml"] = "name: " + c.fileName + "\nservices:\n  s:\n    labels: {o: \"1\"}\n"
				lc.ComposeFiles = []string{"compose.yaml", "override.yaml"}
			} else {
				lc.Files["compose.yaml"] = "name: " + c.fileName + "\n" + main
			}
			return lc
		}
		imp, exp := mk(false), mk(true)
		_, ri := ld.Run(s.Scratch(), imp)
		_, re := ld.Run(s.Scratch(), exp)
		s.Eval(2)
		files := map[string]any{"case.json": replayCase{Kind: "names", Implicit: imp, Variant: exp, Rule: "resource.name", Origin: c.id}}
		if ri.Panic != nil || re.Panic != nil {
			pi := ri.Panic
			if pi == nil {
				pi = re.Panic
			}
			s.Violation(map[string]string{"kind": "panic", "site": pi.Site, "class": pi.Class}, "load panicked: "+pi.Value, files)
			continue
		}
		if ri.Err != nil || re.Err != nil {
			s.Violation(map[string]string{"kind": "names-load-failed", "origin": c.id}, fmt.Sprintf("resource-name pair %s does not load: implicit %v / explicit %v", c.id, ri.Err, re.Err), files)
			continue
		}
		s.Cover("resource-name-scenario", c.id)
		s.Nontrivial("names", c.id)
		if ri.Project.Name != c.effective {
			s.Violation(map[string]string{"kind": "implicit-vs-explicit", "rule": "project.name", "origin": c.id}, fmt.Sprintf("%s: project name %q, expected %q", c.id, ri.Project.Name, c.effective), files)
			continue
		}
		o := diff.Default()
		o.IgnoreField["ComposeFiles"] = true
		if d := diff.Compare(ri.Project, re.Project, o); d != "" {
			s.Violation(map[string]string{"kind": "implicit-vs-explicit", "rule": "resource.name", "origin": c.id, "field": diff.PathOf(d)},
				fmt.Sprintf("%s: resources named implicitly differ from `<project>_<key>` spelled out with the effective project name %q: %s", c.id, c.effective, d), files)
		}
	}
}

// A service that declares an empty `networks` joins `default`, and an undeclared `default`
// network is added iff some service uses it - also when that service is the only user.
func runEmptyNetworks(s *core.Shard, offset int) {
	type ec struct {
		id       string
		implicit map[string]string
		files    []string
	}
	other := "  b:\n    image: img\n    network_mode: host\n  c:\n    image: img\n    networks: [custom]\nnetworks:\n  custom: {}\n"
	explicit := "services:\n  a:\n    image: img\n    networks:\n      default: null\n" + strings.Replace(other, "networks:\n  custom: {}\n", "networks:\n  custom: {}\n  default: {name: verif_default}\n", 1)
	cases := []ec{
		{"empty-list", map[string]string{"compose.yaml": "services:\n  a:\n    image: img\n    networks: []\n" + other}, []string{"compose.yaml"}},
		{"empty-mapping", map[string]string{"compose.yaml": "services:\n  a:\n    image: img\n    networks: {}\n" + other}, []string{"compose.yaml"}},
		{"emptied-by-override", map[string]string{"compose.yaml": "services:\n  a:\n    image: img\n    networks: [custom]\n" + other,
			"override.yaml": "services:\n  a:\n    networks: !override []\n"}, []string{"compose.yaml", "override.yaml"}},
		{"absent", map[string]string{"compose.yaml": "services:\n  a:\n    image: img\n" + other}, []string{"compose.yaml"}},
	}
	for i, c := range cases {
		if !s.Mine(offset + i) {
			continue
		}
		if !s.Begin("empty-networks/" + c.id) {
			continue
		}
		imp := &ld.Case{Files: c.implicit, ComposeFiles: c.files}
		exp := &ld.Case{Files: map[string]string{"compose.yaml": explicit}, ComposeFiles: []string{"compose.yaml"}}
		_, ri := ld.Run(s.Scratch(), imp)
		_, re := ld.Run(s.Scratch(), exp)
		s.Eval(2)
		files := map[string]any{"case.json": replayCase{Kind: "empty-networks", Implicit: imp, Variant: exp, Rule: "default-network", Origin: c.id}}
		if ri.Panic != nil || re.Panic != nil {
			s.Violation(map[string]string{"kind": "panic", "origin": c.id}, "load panicked", files)
			continue
		}
		if re.Err != nil {
			s.Inconclusive("empty-networks: the explicit document does not load: " + re.Err.Error())
			continue
		}
		s.Cover("resource-name-scenario", "empty-networks/"+c.id)
		s.Nontrivial("empty-networks", c.id)
		if ri.Err != nil {
			s.Violation(map[string]string{"kind": "implicit-vs-explicit", "rule": "default-network", "origin": c.id},
				fmt.Sprintf("%s: a service with an empty/absent `networks` is the only user of the default network; the implicit document fails to load: %v", c.id, ri.Err), files)
			continue
		}
		o := diff.Default()
		o.IgnoreField["ComposeFiles"] = true
		if d := diff.Compare(ri.Project, re.Project, o); d != "" {
			s.Violation(map[string]string{"kind": "implicit-vs-explicit", "rule": "default-network", "origin": c.id, "field": diff.PathOf(d)},
				fmt.Sprintf("%s: implicit default network differs from the explicit spelling: %s", c.id, d), files)
		}
	}
}

// An external resource declared without name by an included file and made a project resource again
// by a later layer of the including project (`external: false`, `external: !reset null`): it is
// then neither external nor named, so it is called `<project>_<key>` like any other.
func runUnexternalised(s *core.Shard, offset int) {
	for i, how := range []string{"external: false", "external: !reset null"} {
		for j, carrier := range []string{"override-file", "later-document"} {
			if !s.Mine(offset + 2*i + j) {
				continue
			}
			id := fmt.Sprintf("unexternalised/%d/%s", i, carrier)
			if !s.Begin(id) {
				continue
			}
			inc := "networks:\n  proxy: {external: true}\nvolumes:\n  data: {external: true}\n"
			main := "include:\n  - inc/compose.yaml\nservices:\n  s:\n    image: img\n    networks: [proxy]\n    volumes: [\"data:/d\"]\n"
			later := "networks:\n  proxy:\n    " + how + "\nvolumes:\n  data:\n    " + how + "\n"
			imp := &ld.Case{Files: map[string]string{"inc/compose.yaml": inc}, ComposeFiles: []string{"compose.yaml"}}
			if carrier == "override-file" {
				imp.Files["compose.yaml"] = main
				imp.Files["override.yaml"] = later
				imp.ComposeFiles = []string{"compose.yaml", "override.yaml"}
			} else {
				imp.Files["compose.yaml"] = main + "---\n" + later
			}
			exp := &ld.Case{Files: map[string]string{"compose.yaml": "services:\n  s:\n    image: img\n    networks: [proxy]\n    volumes: [\"data:/d\"]\nnetworks:\n  proxy: {name: verif_proxy}\nvolumes:\n  data: {name: verif_data}\n"}, ComposeFiles: []string{"compose.yaml"}}
			_, ri := ld.Run(s.Scratch(), imp)
			_, re := ld.Run(s.Scratch(), exp)
			s.Eval(2)
			files := map[string]any{"case.json": replayCase{Kind: "names", Implicit: imp, Variant: exp, Rule: "resource.name", Origin: id}}
			if ri.Panic != nil || re.Panic != nil || re.Err != nil {
				s.Inconclusive("unexternalised: explicit side does not load")
				continue
			}
			s.Cover("resource-name-scenario", id)
			s.Nontrivial("names", id)
			if ri.Err != nil {
				s.Violation(map[string]string{"kind": "names-load-failed", "origin": id}, fmt.Sprintf("%s does not load: %v", id, ri.Err), files)
				continue
			}
			o := diff.Default()
			o.IgnoreField["ComposeFiles"] = true
			if d := diff.Compare(ri.Project, re.Project, o); d != "" {
				s.Violation(map[string]string{"kind": "implicit-vs-explicit", "rule": "resource.name", "origin": id, "field": diff.PathOf(d)},
					fmt.Sprintf("%s: a resource that an included file declared external and a later layer made a project resource again is not named `<project>_<key>`: %s", id, d), files)
			}
		}
	}
}
