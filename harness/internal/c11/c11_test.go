package c11

import (
	"fmt"
	"math/rand"
	"os"
	"sort"
	"strings"
	"testing"

	"verif/harness/internal/gen"
	"verif/harness/internal/ld"
)

// TestLayouts: the implicit model loads under every origin layout.
func TestLayouts(t *testing.T) {
	work := t.TempDir()
	os.Setenv("HOME", work)
	bad := 0
	for seed := int64(1); seed <= 60; seed++ {
		r := rand.New(rand.NewSource(seed))
		m := gen.Draw(r, gen.Config{Density: 0.3, MaxServices: 3, Force: map[string]bool{"service.env_file": true, "service.label_file": true}})
		full := gen.CloneTree(m.Doc).(M)
		for _, st := range findSites(m.Doc, "verif") {
			st.Explicit(full)
		}
		for _, o := range origins {
			v := variant(m, layoutFor(o, full, r), nil)
			c := v.Case(ld.Opts{})
			_, res := ld.Run(work, c)
			if res.Err != nil {
				bad++
				if bad <= 2 {
					var names []string
					for n := range c.Files {
						names = append(names, n)
					}
					sort.Strings(names)
					t.Logf("seed %d origin %s: %v\nfiles: %s", seed, o, res.Err, strings.Join(names, " "))
					for _, f := range names {
						if strings.HasSuffix(f, ".yaml") {
							fmt.Printf("---- %s\n%s\n", f, c.Files[f])
						}
					}
				}
			}
		}
	}
	if bad > 0 {
		t.Errorf("%d implicit models do not load", bad)
	}
}
