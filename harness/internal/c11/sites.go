package c11

import (
	"fmt"
	"sort"
	"strings"

	"github.com/compose-spec/compose-go/v2/types"

	"verif/harness/internal/gen"
)

type (
	M = gen.M
	L = gen.L
)

// site is one place of a document where the specification defines an implicit
// default and the document leaves it implicit. Explicit writes the default
// out; Other writes a different, valid value and returns a check that the
// loaded project still carries it.
type site struct {
	Rule     string
	Where    string
	Explicit func(doc M)
	Other    func(doc M) expect
}

// expect is a replayable statement about the loaded project: the value found
// at (What, Service, Key, Index) must be Want.
type expect struct {
	What    string `json:"what"`
	Service string `json:"service,omitempty"`
	Key     string `json:"key,omitempty"`
	Index   int    `json:"index,omitempty"`
	Want    string `json:"want"`
}

// found reads the value an expectation talks about from a loaded project.
// A service that is not part of the project (disabled by profile) yields "" and ok=false.
func (e expect) found(p *types.Project) (string, bool) {
	var sc types.ServiceConfig
	if e.Service != "" {
		var ok bool
		if sc, ok = p.Services[e.Service]; !ok {
			if sc, ok = p.DisabledServices[e.Service]; !ok {
				return "", false
			}
		}
	}
	switch e.What {
	case "service.networks":
		return strings.Join(keysOf(sc.Networks), ","), true
	case "depends_on":
		d, ok := sc.DependsOn[e.Key]
		if !ok {
			return "<no entry>", true
		}
		return fmt.Sprintf("%s/restart=%v/required=%v", d.Condition, d.Restart, d.Required), true
	case "depends_on.required":
		return fmt.Sprint(sc.DependsOn[e.Key].Required), true
	case "build.context":
		if sc.Build == nil {
			return "<no build>", true
		}
		return sc.Build.Context, true
	case "build.dockerfile":
		if sc.Build == nil {
			return "<no build>", true
		}
		return sc.Build.Dockerfile, true
	case "ports.protocol", "ports.mode":
		for _, pc := range sc.Ports {
			if fmt.Sprint(pc.Target) == e.Key {
				if e.What == "ports.mode" {
					return pc.Mode, true
				}
				return pc.Protocol, true
			}
		}
		return "<no such port>", true
	case "secrets.target":
		for _, x := range sc.Secrets {
			if x.Source == e.Key {
				return x.Target, true
			}
		}
		return "<no such secret>", true
	case "env_file.required":
		if e.Index >= len(sc.EnvFiles) {
			return "<no such env_file>", true
		}
		return fmt.Sprint(sc.EnvFiles[e.Index].Required), true
	case "gpus.count", "devices.count":
		reqs := sc.Gpus
		if e.What == "devices.count" {
			reqs = nil
			if sc.Deploy != nil && sc.Deploy.Resources.Reservations != nil {
				reqs = sc.Deploy.Resources.Reservations.Devices
			}
		}
		if e.Index >= len(reqs) {
			return "<no such device request>", true
		}
		return fmt.Sprint(int64(reqs[e.Index].Count)), true
	case "networks.default":
		n, ok := p.Networks["default"]
		if !ok {
			return "<not declared>", true
		}
		return n.Name + "/" + n.Driver, true
	case "networks.name":
		return p.Networks[e.Key].Name, true
	case "volumes.name":
		return p.Volumes[e.Key].Name, true
	case "secrets.name":
		return p.Secrets[e.Key].Name, true
	case "configs.name":
		return p.Configs[e.Key].Name, true
	}
	return "<unknown expectation>", true
}

// violated returns a description when the project does not carry the expected value.
func (e expect) violated(p *types.Project) string {
	got, ok := e.found(p)
	if !ok || got == e.Want {
		return ""
	}
	where := e.What
	if e.Service != "" {
		where = "services." + e.Service + " " + e.What
	}
	if e.Key != "" {
		where += "[" + e.Key + "]"
	}
	return fmt.Sprintf("%s was written as %q, the project has %q", where, e.Want, got)
}

func sortedKeys(m M) []string {
	ks := make([]string, 0, len(m))
	for k := range m {
		ks = append(ks, k)
	}
	sort.Strings(ks)
	return ks
}

func services(doc M) M {
	s, _ := doc["services"].(M)
	return s
}

func svc(doc M, name string) M {
	s, _ := services(doc)[name].(M)
	return s
}

// dependsMap returns the service's depends_on in mapping form, converting the
// list spelling (every entry: started, required) when needed.
func dependsMap(s M) M {
	switch d := s["depends_on"].(type) {
	case M:
		return d
	case L:
		m := M{}
		for _, e := range d {
			m[e.(string)] = M{"condition": "service_started", "required": true}
		}
		s["depends_on"] = m
		return m
	default:
		m := M{}
		s["depends_on"] = m
		return m
	}
}

func declaredDeps(s M) map[string]bool {
	out := map[string]bool{}
	switch d := s["depends_on"].(type) {
	case M:
		for k := range d {
			out[k] = true
		}
	case L:
		for _, e := range d {
			out[e.(string)] = true
		}
	}
	return out
}

// usesDefaultNetwork reports whether the service (as written) is attached to the `default` network.
func usesDefaultNetwork(s M) bool {
	if _, ok := s["network_mode"]; ok {
		return false
	}
	switch n := s["networks"].(type) {
	case nil:
		return true
	case L:
		if len(n) == 0 {
			return true
		}
		for _, e := range n {
			if e == "default" {
				return true
			}
		}
	case M:
		if len(n) == 0 {
			return true
		}
		_, ok := n["default"]
		return ok
	}
	return false
}

// impliedDeps lists the services a service depends on implicitly: target -> restart flag.
// A target implied by sources with conflicting restart flags is left out (the statement does not rank them).
func impliedDeps(s M) map[string]bool {
	type vote struct{ t, f bool }
	votes := map[string]*vote{}
	add := func(name string, restart bool) {
		v := votes[name]
		if v == nil {
			v = &vote{}
			votes[name] = v
		}
		if restart {
			v.t = true
		} else {
			v.f = true
		}
	}
	if l, ok := s["links"].(L); ok {
		for _, e := range l {
			add(strings.Split(e.(string), ":")[0], true)
		}
	}
	for _, ns := range []string{"network_mode", "ipc", "pid"} {
		if v, ok := s[ns].(string); ok && strings.HasPrefix(v, "service:") {
			add(strings.TrimPrefix(v, "service:"), true)
		}
	}
	if l, ok := s["volumes_from"].(L); ok {
		for _, e := range l {
			v := e.(string)
			if strings.HasPrefix(v, "container:") {
				continue
			}
			add(strings.Split(v, ":")[0], false)
		}
	}
	out := map[string]bool{}
	for n, v := range votes {
		if v.t != v.f {
			out[n] = v.t
		}
	}
	return out
}

// findSites enumerates the implicit defaults of a document. project is the project name.
func findSites(doc M, project string) []site {
	var out []site
	add := func(s site) { out = append(out, s) }

	var otherNet string
	nets, _ := doc["networks"].(M)
	for _, k := range sortedKeys(nets) {
		if k != "default" {
			otherNet = k
			break
		}
	}
	defaultUsed := false
	for _, name := range sortedKeys(services(doc)) {
		name := name
		s := svc(doc, name)
		if s == nil {
			continue
		}
		if usesDefaultNetwork(s) {
			defaultUsed = true
		}
		_, hasMode := s["network_mode"]
		_, hasNets := s["networks"]
		// ---- default network membership ----
		if !hasMode && !hasNets {
			st := site{Rule: "service.networks", Where: "services." + name,
				Explicit: func(d M) {
					if len(name)%2 == 0 {
						svc(d, name)["networks"] = M{"default": nil}
					} else {
						svc(d, name)["networks"] = L{"default"}
					}
				}}
			if otherNet != "" {
				on := otherNet
				st.Other = func(d M) expect {
					svc(d, name)["networks"] = L{on}
					return expect{What: "service.networks", Service: name, Want: on}
				}
			}
			add(st)
		}
		// ---- implied dependencies ----
		declared := declaredDeps(s)
		implied := impliedDeps(s)
		for _, target := range sortedKeysBool(implied) {
			target, restart := target, implied[target]
			if declared[target] {
				continue
			}
			add(site{Rule: "depends_on.implied", Where: "services." + name + " -> " + target,
				Explicit: func(d M) {
					dependsMap(svc(d, name))[target] = M{"condition": "service_started", "restart": restart, "required": true}
				},
				Other: func(d M) expect {
					dependsMap(svc(d, name))[target] = M{"condition": "service_healthy", "restart": !restart, "required": true}
					return expect{What: "depends_on", Service: name, Key: target, Want: fmt.Sprintf("service_healthy/restart=%v/required=true", !restart)}
				}})
		}
		// ---- depends_on.required ----
		switch d := s["depends_on"].(type) {
		case L:
			if len(d) > 0 {
				add(site{Rule: "depends_on.required", Where: "services." + name + ".depends_on (list)",
					Explicit: func(doc M) { dependsMap(svc(doc, name)) }})
			}
		case M:
			for _, target := range sortedKeys(d) {
				target := target
				e, _ := d[target].(M)
				if e == nil {
					continue
				}
				if _, ok := e["required"]; !ok {
					add(site{Rule: "depends_on.required", Where: "services." + name + ".depends_on." + target,
						Explicit: func(doc M) { dependsMap(svc(doc, name))[target].(M)["required"] = true },
						Other: func(doc M) expect {
							dependsMap(svc(doc, name))[target].(M)["required"] = false
							return expect{What: "depends_on.required", Service: name, Key: target, Want: "false"}
						}})
				}
			}
		}
		// ---- build context / dockerfile ----
		if b, ok := s["build"].(M); ok {
			if _, ok := b["context"]; !ok {
				add(site{Rule: "build.context", Where: "services." + name + ".build",
					Explicit: func(d M) { svc(d, name)["build"].(M)["context"] = "." },
					Other: func(d M) expect {
						svc(d, name)["build"].(M)["context"] = "/abs/other-context"
						return expect{What: "build.context", Service: name, Want: "/abs/other-context"}
					}})
			}
			_, hasDf := b["dockerfile"]
			_, hasInline := b["dockerfile_inline"]
			if !hasDf && !hasInline {
				add(site{Rule: "build.dockerfile", Where: "services." + name + ".build",
					Explicit: func(d M) { svc(d, name)["build"].(M)["dockerfile"] = "Dockerfile" },
					Other: func(d M) expect {
						svc(d, name)["build"].(M)["dockerfile"] = "Other.dockerfile"
						return expect{What: "build.dockerfile", Service: name, Want: "Other.dockerfile"}
					}})
			}
		}
		// ---- ports protocol / mode ----
		if ports, ok := s["ports"].(L); ok {
			for i, e := range ports {
				i := i
				pm, ok := e.(M)
				if !ok {
					continue
				}
				target := fmt.Sprint(pm["target"])
				for _, attr := range []struct{ key, def, other string }{{"protocol", "tcp", "udp"}, {"mode", "ingress", "host"}} {
					attr := attr
					if _, ok := pm[attr.key]; ok {
						continue
					}
					add(site{Rule: "ports." + attr.key, Where: fmt.Sprintf("services.%s.ports[%d]", name, i),
						Explicit: func(d M) { svc(d, name)["ports"].(L)[i].(M)[attr.key] = attr.def },
						Other: func(d M) expect {
							svc(d, name)["ports"].(L)[i].(M)[attr.key] = attr.other
							return expect{What: "ports." + attr.key, Service: name, Key: target, Want: attr.other}
						}})
				}
			}
		}
		// ---- secret target ----
		if secs, ok := s["secrets"].(L); ok {
			for i, e := range secs {
				i := i
				var source string
				switch v := e.(type) {
				case string:
					source = v
				case M:
					if _, ok := v["target"]; ok {
						continue
					}
					source, _ = v["source"].(string)
				}
				if source == "" {
					continue
				}
				src := source
				set := func(d M, target string) {
					l := svc(d, name)["secrets"].(L)
					switch v := l[i].(type) {
					case string:
						l[i] = M{"source": v, "target": target}
					case M:
						v["target"] = target
					}
				}
				add(site{Rule: "secrets.target", Where: fmt.Sprintf("services.%s.secrets[%d]", name, i),
					Explicit: func(d M) { set(d, "/run/secrets/"+src) },
					Other: func(d M) expect {
						set(d, "/etc/other/"+src)
						return expect{What: "secrets.target", Service: name, Key: src, Want: "/etc/other/" + src}
					}})
			}
		}
		// ---- env_file required ----
		envFileSite := func(i int, whole bool) {
			set := func(d M, req bool) {
				sv := svc(d, name)
				if whole {
					sv["env_file"] = L{M{"path": sv["env_file"].(string), "required": req}}
					return
				}
				l := sv["env_file"].(L)
				switch v := l[i].(type) {
				case string:
					l[i] = M{"path": v, "required": req}
				case M:
					v["required"] = req
				}
			}
			add(site{Rule: "env_file.required", Where: fmt.Sprintf("services.%s.env_file[%d]", name, i),
				Explicit: func(d M) { set(d, true) },
				Other: func(d M) expect {
					set(d, false)
					return expect{What: "env_file.required", Service: name, Index: i, Want: "false"}
				}})
		}
		switch ef := s["env_file"].(type) {
		case string:
			envFileSite(0, true)
		case L:
			for i, e := range ef {
				switch v := e.(type) {
				case string:
					envFileSite(i, false)
				case M:
					if _, ok := v["required"]; !ok {
						envFileSite(i, false)
					}
				}
			}
		}
		// ---- device count ----
		deviceSites := func(rule string, get func(d M) L) {
			l := get(doc)
			for i, e := range l {
				i := i
				dm, ok := e.(M)
				if !ok {
					continue
				}
				_, hasCount := dm["count"]
				_, hasIDs := dm["device_ids"]
				if hasCount || hasIDs {
					continue
				}
				add(site{Rule: rule, Where: fmt.Sprintf("services.%s.%s[%d]", name, rule, i),
					Explicit: func(d M) { get(d)[i].(M)["count"] = "all" },
					Other: func(d M) expect {
						get(d)[i].(M)["count"] = 2
						return expect{What: rule, Service: name, Index: i, Want: "2"}
					}})
			}
		}
		deviceSites("gpus.count", func(d M) L { l, _ := svc(d, name)["gpus"].(L); return l })
		deviceSites("devices.count", func(d M) L {
			dep, _ := svc(d, name)["deploy"].(M)
			res, _ := dep["resources"].(M)
			rsv, _ := res["reservations"].(M)
			l, _ := rsv["devices"].(L)
			return l
		})
		// ---- pull_policy alias ----
		if pp, ok := s["pull_policy"].(string); ok && (pp == "missing" || pp == "if_not_present") {
			alias := map[string]string{"missing": "if_not_present", "if_not_present": "missing"}[pp]
			add(site{Rule: "pull_policy.alias", Where: "services." + name + ".pull_policy",
				Explicit: func(d M) { svc(d, name)["pull_policy"] = alias }})
		}
	}
	// ---- top-level default network ----
	if _, declared := nets["default"]; defaultUsed && !declared {
		add(site{Rule: "networks.default", Where: "networks.default",
			Explicit: func(d M) {
				n, _ := d["networks"].(M)
				if n == nil {
					n = M{}
					d["networks"] = n
				}
				if len(project)%2 == 0 {
					n["default"] = nil
				} else {
					n["default"] = M{}
				}
			},
			Other: func(d M) expect {
				n, _ := d["networks"].(M)
				if n == nil {
					n = M{}
					d["networks"] = n
				}
				n["default"] = M{"name": "custom-default", "driver": "bridge"}
				return expect{What: "networks.default", Want: "custom-default/bridge"}
			}})
	}
	// ---- resource names ----
	for _, sec := range []string{"networks", "volumes", "secrets", "configs"} {
		sec := sec
		m, _ := doc[sec].(M)
		for _, k := range sortedKeys(m) {
			k := k
			rm, _ := m[k].(M)
			if _, named := rm["name"]; named {
				continue
			}
			def := project + "_" + k
			if ext, ok := rm["external"]; ok && (ext == true || ext == "true") {
				def = k
			}
			set := func(d M, name string) {
				s := d[sec].(M)
				if r, ok := s[k].(M); ok {
					r["name"] = name
				} else {
					s[k] = M{"name": name}
				}
			}
			add(site{Rule: sec + ".name", Where: sec + "." + k,
				Explicit: func(d M) { set(d, def) },
				Other: func(d M) expect {
					set(d, "custom-"+k)
					return expect{What: sec + ".name", Key: k, Want: "custom-" + k}
				}})
		}
	}
	return out
}

func keysOf[V any](m map[string]V) []string {
	ks := make([]string, 0, len(m))
	for k := range m {
		ks = append(ks, k)
	}
	sort.Strings(ks)
	return ks
}

func sortedKeysBool(m map[string]bool) []string { return keysOf(m) }
