// Package c10 checks property C10: a loaded project is referentially
// consistent and inconsistent models are rejected. Generated valid models are
// loaded with the consistency checks on and every returned project is pushed
// through an independent invariant checker (internal/ref/consistency.go);
// for each rule of the statement a minimal rule-breaking fragment is placed in
// the main file, an override file, an extended base service or an included
// file and the load must fail.
package c10

import (
	"encoding/json"
	"fmt"
	"math/rand"
	"path/filepath"
	"sort"
	"strings"

	"github.com/compose-spec/compose-go/v2/types"
	"github.com/sirupsen/logrus"
	"gopkg.in/yaml.v3"

	"verif/harness/internal/core"
	"verif/harness/internal/ld"
	"verif/harness/internal/ref"
)

func init() {
	logrus.SetLevel(logrus.PanicLevel)
	core.Register(&core.Spec{
		ID:    "C10",
		Level: "fault_enumeration",
		Rule: "part 1 (systematic): every rule of the statement (image-or-build; undeclared network / volume / secret / build secret / config; dangling depends_on required, optional-unknown, required-on-profile-disabled; dangling network_mode / ipc / pid `service:`, volumes_from, links; each exclusive pair; each disagreeing pair; external volume + driver / driver_opts / labels; secret and config with 0, 2 or 3 sources, also beside an `external` key or a driver; one entry of a short depends_on list made optional by a later layer) x every spelling variant x every placement of the offending fragment (main file, override file, extended base service in another file, included file) as a pair of cases: the benign twin must load and satisfy the checker, the rule-breaking twin must fail; " +
			"part 2: every directed graph on 1..4 services (exhaustive, 4 163 graphs incl. self-dependencies; thorough: plus a sample on 5) rendered as depends_on / links / network_mode edges — cyclic ones must fail, acyclic ones must load and satisfy the checker — the closing edge placed in main / override / extends / include in rotation; " +
			"part 3 (sampled): models with 2..5 fragment slots, each independently benign or rule-breaking in a random placement: fails iff at least one slot is rule-breaking. " +
			"Every successful load of the campaign is judged by the invariant checker. A case is non-trivial when the load really ran on a multi-service model and its verdict was decided by the statement; distinct = distinct case inputs.",
		Assumptions: []string{
			"internal/ref/consistency.go is a faithful reading of the statement's rules; its sensitivity is self-tested on every rule-breaking twin by loading it with the checks switched off and requiring the checker to name exactly that rule",
			"the statement does not promise that every consistent model loads: a benign twin that fails to load makes its pair inconclusive (reported, not a violation)",
			"not asserted: which error is reported; `service:` references through uts / cgroup; a namespace reference to a profile-disabled service; external networks / secrets / configs combined with creation parameters; build.platforms vs platform",
			"the typed project cannot distinguish an unset numeric limit from 0, so the checker treats 0 as unset for cpus / memory / pids pairs",
		},
		Exhaustive: func(string) bool { return false },
		CPUBudget:  func(string) float64 { return 120 },
		Run:        run,
		Replay:     replay,
		Witness:    witness,
		Floor: func(tier string, m *core.Merged) []string {
			var r []string
			if m.Counters["accepted_judged_by_checker"] < 1500 || m.Counters["negatives_rejected"] < 2000 {
				r = append(r, fmt.Sprintf("too few decided loads: %v", m.Counters))
			}
			for _, ru := range rules {
				if m.Cover["rule-rejected"][ru.id] == 0 {
					r = append(r, "rule never exercised with a rejected rule-breaking twin: "+ru.id)
				}
				if m.Cover["checker-selftest"][ru.id] == 0 {
					r = append(r, "checker never self-tested on rule: "+ru.id)
				}
			}
			for _, p := range []string{plMain, plOverride, plExtends, plInclude} {
				if m.Cover["placement"][p] == 0 {
					r = append(r, "placement never exercised: "+p)
				}
			}
			if m.Cover["rule-rejected"]["dependency-cycle"] == 0 {
				r = append(r, "no cyclic graph was exercised")
			}
			return r
		},
	})
}

// ---------------------------------------------------------------------------
// projection of a loaded project for the invariant checker

func extract(p *types.Project) ref.ConsModel {
	m := ref.ConsModel{
		Services: map[string]ref.ConsService{}, Disabled: map[string]bool{}, Networks: map[string]bool{},
		Volumes: map[string]ref.ConsVolume{}, Secrets: map[string]ref.ConsFileObject{}, Configs: map[string]ref.ConsFileObject{},
	}
	for n := range p.DisabledServices {
		m.Disabled[n] = true
	}
	for n, s := range p.Services {
		cs := ref.ConsService{
			Image: s.Image, HasBuild: s.Build != nil, NetworkMode: s.NetworkMode, ContainerName: s.ContainerName,
			DependsOn:   map[string]bool{},
			Namespaces:  map[string]string{"network_mode": s.NetworkMode, "ipc": s.Ipc, "pid": s.Pid},
			VolumesFrom: append([]string{}, s.VolumesFrom...), Links: append([]string{}, s.Links...),
			Scale: s.Scale, CPUs: float64(s.CPUS), MemLimit: int64(s.MemLimit), MemReservation: int64(s.MemReservation), PidsLimit: s.PidsLimit,
		}
		if s.Build != nil {
			cs.Dockerfile, cs.DockerfileInline = s.Build.Dockerfile, s.Build.DockerfileInline
			for _, x := range s.Build.Secrets {
				cs.BuildSecrets = append(cs.BuildSecrets, x.Source)
			}
		}
		for k := range s.Networks {
			cs.Networks = append(cs.Networks, k)
		}
		for _, v := range s.Volumes {
			if v.Type == types.VolumeTypeVolume && v.Source != "" {
				cs.NamedVolumes = append(cs.NamedVolumes, v.Source)
			}
		}
		for _, x := range s.Secrets {
			cs.Secrets = append(cs.Secrets, x.Source)
		}
		for _, x := range s.Configs {
			cs.Configs = append(cs.Configs, x.Source)
		}
		for d, dep := range s.DependsOn {
			cs.DependsOn[d] = dep.Required
		}
		if s.Deploy != nil {
			cs.Replicas = s.Deploy.Replicas
			if l := s.Deploy.Resources.Limits; l != nil {
				cs.LimitCPUs, cs.LimitMemory, cs.LimitPids = float64(l.NanoCPUs), int64(l.MemoryBytes), l.Pids
			}
			if r := s.Deploy.Resources.Reservations; r != nil {
				cs.ReservedMemory = int64(r.MemoryBytes)
				for _, d := range r.Devices {
					cs.Devices = append(cs.Devices, ref.ConsDevice{Count: int64(d.Count), NumIDs: len(d.IDs)})
				}
			}
		}
		for _, d := range s.Gpus {
			cs.Devices = append(cs.Devices, ref.ConsDevice{Count: int64(d.Count), NumIDs: len(d.IDs)})
		}
		m.Services[n] = cs
	}
	for n := range p.Networks {
		m.Networks[n] = true
	}
	for n, v := range p.Volumes {
		m.Volumes[n] = ref.ConsVolume{External: bool(v.External), Driver: v.Driver, DriverOpts: len(v.DriverOpts), Labels: len(v.Labels)}
	}
	// The loader copies the value of the named environment variable into
	// Content, so Content only counts as a declared source when no
	// `environment` is given; secrets have no `content` source at all.
	fo := func(file, env, content string, ext bool, driver string) ref.ConsFileObject {
		o := ref.ConsFileObject{External: ext, Driver: driver}
		if file != "" {
			o.Sources = append(o.Sources, "file")
		}
		if env != "" {
			o.Sources = append(o.Sources, "environment")
		} else if content != "" {
			o.Sources = append(o.Sources, "content")
		}
		return o
	}
	for n, s := range p.Secrets {
		m.Secrets[n] = fo(s.File, s.Environment, "", bool(s.External), s.Driver)
	}
	for n, s := range p.Configs {
		m.Configs[n] = fo(s.File, s.Environment, s.Content, bool(s.External), s.Driver)
	}
	return m
}

// ---------------------------------------------------------------------------
// rule table: for every rule the benign and the rule-breaking fragment

type M = map[string]any
type L = []any

const (
	scService = "service"    // fragment is merged into a target service
	scNew     = "newservice" // fragment is a whole new service
	scVolume  = "volumes"
	scSecret  = "secrets"
	scConfig  = "configs"
)

type variant struct {
	name  string
	setup M // always in the main file (or with the target in the included file)
	good  M // fragment of the benign twin
	bad   M // fragment of the rule-breaking twin
}

// noSelfTest: the typed project cannot show these violations (the loader
// overwrites config content with the value of the environment variable).
var noSelfTest = map[string]bool{"config-several-sources/content+environment": true, "config-several-sources/content+environment/external-true": true}

// layered: the fragment refines what the setup declares, so it has to come after it: with the
// extends placement the setup goes to the base service and the fragment to the extending one
// (the other variants put the fragment in the base).
var layered = map[string]bool{
	"dangling-depends_on/sibling-of-short-list-made-optional":   true,
	"dangling-depends_on/sibling-of-short-list-made-optional-3": true,
}

type rule struct {
	id       string
	scope    string
	variants []variant
}

func dep(name string, required bool) M {
	return M{name: M{"condition": "service_started", "required": required}}
}

func limits(k string, v any) M { return M{"deploy": M{"resources": M{"limits": M{k: v}}}} }
func reserv(k string, v any) M { return M{"deploy": M{"resources": M{"reservations": M{k: v}}}} }
func device(extra M) M {
	d := M{"capabilities": L{"gpu"}}
	for k, v := range extra {
		d[k] = v
	}
	return M{"deploy": M{"resources": M{"reservations": M{"devices": L{d}}}}}
}

// Names used by the fragments: `other` is an enabled service, `dz` a service
// disabled by profiles, net1/vol1/sec1/cfg1 are declared, `ghost` is nothing.
var rules = []rule{
	{"image-or-build", scNew, []variant{
		{"no-image", nil, M{"image": "img/new", "command": L{"x"}}, M{"command": L{"x"}}},
		{"build", nil, M{"build": M{"context": "."}, "command": L{"x"}}, M{"hostname": "h"}},
	}},
	{"undeclared-network", scService, []variant{
		{"short", nil, M{"networks": L{"net1"}}, M{"networks": L{"ghost"}}},
		{"long", nil, M{"networks": M{"net1": M{"aliases": L{"al"}}}}, M{"networks": M{"ghost": M{"aliases": L{"al"}}}}},
		{"second", M{"networks": L{"net1"}}, M{"networks": L{"net2"}}, M{"networks": L{"ghost"}}},
	}},
	{"undeclared-volume", scService, []variant{
		{"short", nil, M{"volumes": L{"vol1:/data"}}, M{"volumes": L{"ghost:/data"}}},
		{"long", nil, M{"volumes": L{M{"type": "volume", "source": "vol1", "target": "/data"}}}, M{"volumes": L{M{"type": "volume", "source": "ghost", "target": "/data"}}}},
		{"short-ro", M{"volumes": L{"vol1:/one"}}, M{"volumes": L{"vol2:/two:ro"}}, M{"volumes": L{"ghost:/two:ro"}}},
		// a declared volume is referred to by its key, not by the name it resolves to
		{"resolved-default-name", nil, M{"volumes": L{"vol1:/data"}}, M{"volumes": L{"verif_vol1:/data"}}},
		{"external-name", nil, M{"volumes": L{"vol2:/data"}}, M{"volumes": L{M{"type": "volume", "source": "real-vol2", "target": "/data"}}}},
	}},
	{"undeclared-secret", scService, []variant{
		{"short", nil, M{"secrets": L{"sec1"}}, M{"secrets": L{"ghost"}}},
		{"long", nil, M{"secrets": L{M{"source": "sec2", "target": "tgt"}}}, M{"secrets": L{M{"source": "ghost", "target": "tgt"}}}},
	}},
	{"undeclared-build-secret", scService, []variant{
		{"short", nil, M{"build": M{"context": ".", "secrets": L{"sec1"}}}, M{"build": M{"context": ".", "secrets": L{"ghost"}}}},
		{"long", M{"build": M{"context": "."}}, M{"build": M{"secrets": L{M{"source": "sec2"}}}}, M{"build": M{"secrets": L{M{"source": "ghost"}}}}},
	}},
	{"undeclared-config", scService, []variant{
		{"short", nil, M{"configs": L{"cfg1"}}, M{"configs": L{"ghost"}}},
		{"long", nil, M{"configs": L{M{"source": "cfg2", "target": "/etc/c"}}}, M{"configs": L{M{"source": "ghost", "target": "/etc/c"}}}},
	}},
	{"dangling-depends_on", scService, []variant{
		{"short", nil, M{"depends_on": L{"other"}}, M{"depends_on": L{"ghost"}}},
		{"long-required", nil, M{"depends_on": dep("other", true)}, M{"depends_on": dep("ghost", true)}},
		{"optional-unknown", nil, M{"depends_on": dep("other", false)}, M{"depends_on": dep("ghost", false)}},
		{"required-on-profile-disabled", nil, M{"depends_on": dep("dz", false)}, M{"depends_on": dep("dz", true)}},
		{"short-on-profile-disabled", M{"depends_on": L{"other"}}, M{"depends_on": dep("dz", false)}, M{"depends_on": L{"dz"}}},
		// a short list of two, one entry refined by a later layer: the refinement is that entry's alone
		{"sibling-of-short-list-made-optional", M{"depends_on": L{"other", "dz"}}, M{"depends_on": dep("dz", false)}, M{"depends_on": dep("other", false)}},
		{"sibling-of-short-list-made-optional-3", M{"depends_on": L{"dz", "other", "third"}}, M{"depends_on": dep("dz", false)}, M{"depends_on": dep("third", false)}},
	}},
	{"dangling-network_mode", scService, []variant{
		{"service", nil, M{"network_mode": "service:other"}, M{"network_mode": "service:ghost"}},
	}},
	{"dangling-ipc", scService, []variant{
		{"service", nil, M{"ipc": "service:other"}, M{"ipc": "service:ghost"}},
		// beside another namespace attribute that holds something else than a service reference
		{"after-host-network", M{"network_mode": "host"}, M{"ipc": "service:other"}, M{"ipc": "service:ghost"}},
		{"after-container-network", M{"network_mode": "container:outside"}, M{"ipc": "service:other"}, M{"ipc": "service:ghost"}},
	}},
	{"dangling-pid", scService, []variant{
		{"service", nil, M{"pid": "service:other"}, M{"pid": "service:ghost"}},
		{"after-host-network", M{"network_mode": "host"}, M{"pid": "service:other"}, M{"pid": "service:ghost"}},
		{"after-shareable-ipc", M{"ipc": "shareable"}, M{"pid": "service:other"}, M{"pid": "service:ghost"}},
		{"after-container-ipc", M{"ipc": "container:outside", "network_mode": "none"}, M{"pid": "service:other"}, M{"pid": "service:ghost"}},
	}},
	{"dangling-volumes_from", scService, []variant{
		{"plain", nil, M{"volumes_from": L{"other"}}, M{"volumes_from": L{"ghost"}}},
		{"ro", nil, M{"volumes_from": L{"other:ro"}}, M{"volumes_from": L{"ghost:ro"}}},
		{"beside-container", M{"volumes_from": L{"container:ext"}}, M{"volumes_from": L{"other"}}, M{"volumes_from": L{"ghost:rw"}}},
	}},
	{"dangling-links", scService, []variant{
		{"plain", nil, M{"links": L{"other"}}, M{"links": L{"ghost"}}},
		{"alias", nil, M{"links": L{"other:db"}}, M{"links": L{"ghost:db"}}},
	}},
	{"exclusive-network_mode-networks", scService, []variant{
		{"mode-added", M{"networks": L{"net1"}}, M{"dns": L{"1.1.1.1"}}, M{"network_mode": "host"}},
		{"networks-added", M{"network_mode": "host"}, M{"hostname": "h"}, M{"networks": L{"net1"}}},
		{"mode-none", M{"networks": M{"net1": M{}}}, M{"hostname": "h"}, M{"network_mode": "none"}},
	}},
	{"exclusive-dockerfile-dockerfile_inline", scService, []variant{
		{"inline-added", M{"build": M{"context": ".", "dockerfile": "Dockerfile.dev"}}, M{"build": M{"target": "prod"}}, M{"build": M{"dockerfile_inline": "FROM scratch\n"}}},
		{"dockerfile-added", M{"build": M{"context": ".", "dockerfile_inline": "FROM scratch\n"}}, M{"build": M{"target": "prod"}}, M{"build": M{"dockerfile": "Dockerfile.dev"}}},
	}},
	{"exclusive-count-device_ids", scService, []variant{
		{"reservation", nil, device(M{"count": 1}), device(M{"count": 1, "device_ids": L{"0"}})},
		{"reservation-ids", nil, device(M{"device_ids": L{"0", "1"}}), device(M{"count": "all", "device_ids": L{"0"}})},
	}},
	{"exclusive-container_name-scale", scService, []variant{
		{"scale", M{"container_name": "fixed"}, M{"scale": 1}, M{"scale": 2}},
		{"replicas", M{"container_name": "fixed"}, M{"deploy": M{"replicas": 1}}, M{"deploy": M{"replicas": 3}}},
		{"name-added", M{"scale": 2}, M{"hostname": "h"}, M{"container_name": "fixed"}},
	}},
	{"pair-scale-replicas", scService, []variant{
		{"scale-added", M{"deploy": M{"replicas": 2}}, M{"scale": 2}, M{"scale": 3}},
		{"replicas-added", M{"scale": 2}, M{"deploy": M{"replicas": 2}}, M{"deploy": M{"replicas": 1}}},
	}},
	{"pair-cpus", scService, []variant{
		{"cpus-added", limits("cpus", "0.5"), M{"cpus": 0.5}, M{"cpus": 1.5}},
		{"limit-added", M{"cpus": 0.25}, limits("cpus", "0.25"), limits("cpus", "0.75")},
	}},
	{"pair-mem_limit", scService, []variant{
		{"mem_limit-added", limits("memory", "64M"), M{"mem_limit": "64M"}, M{"mem_limit": "128M"}},
		{"limit-added", M{"mem_limit": "32M"}, limits("memory", "32M"), limits("memory", "33M")},
	}},
	{"pair-mem_reservation", scService, []variant{
		{"mem_reservation-added", reserv("memory", "16M"), M{"mem_reservation": "16M"}, M{"mem_reservation": "8M"}},
		{"reservation-added", M{"mem_reservation": "16M"}, reserv("memory", "16M"), reserv("memory", "17M")},
	}},
	{"pair-pids_limit", scService, []variant{
		{"pids_limit-added", limits("pids", 100), M{"pids_limit": 100}, M{"pids_limit": 50}},
		{"limit-added", M{"pids_limit": 20}, limits("pids", 20), limits("pids", 21)},
	}},
	{"external-volume-with-parameters", scVolume, []variant{
		{"driver", M{"external": true}, M{"name": "real"}, M{"driver": "local"}},
		{"driver_opts", M{"external": true}, M{"name": "real"}, M{"driver_opts": M{"type": "nfs"}}},
		{"labels", M{"external": true}, M{"name": "real"}, M{"labels": M{"a": "b"}}},
		{"external-added", M{"driver": "local"}, M{"labels": M{"a": "b"}}, M{"external": true}},
		// `external` given as a string (the schema admits it) or through a variable is external all the same
		{"driver/external-quoted", M{"external": "true"}, M{"name": "real"}, M{"driver": "local"}},
		{"driver_opts/external-variable", M{"external": "${C10_TRUE}"}, M{"name": "real"}, M{"driver_opts": M{"type": "nfs"}}},
		{"labels/external-variable-default", M{"external": "${C10_UNSET:-true}"}, M{"name": "real"}, M{"labels": M{"a": "b"}}},
	}},
	{"secret-several-sources", scSecret, []variant{
		{"file+environment", M{"file": "./s.txt"}, M{"labels": M{"a": "b"}}, M{"environment": "SEC"}},
		{"environment+file", M{"environment": "SEC"}, M{"labels": M{"a": "b"}}, M{"file": "./s.txt"}},
		// an `external` key or a driver exempts from "no source", not from "several sources"
		{"file+environment/external-false", M{"file": "./s.txt", "external": false}, M{"labels": M{"a": "b"}}, M{"environment": "SEC"}},
		{"file+environment/external-true", M{"file": "./s.txt", "external": true}, M{"name": "real"}, M{"environment": "SEC"}},
		{"environment+file/driver", M{"environment": "SEC", "driver": "custom"}, M{"labels": M{"a": "b"}}, M{"file": "./s.txt"}},
		{"file/driver+environment", M{"file": "./s.txt"}, M{"labels": M{"a": "b"}}, M{"environment": "SEC", "driver": "custom"}},
	}},
	{"secret-no-source", scSecret, []variant{
		{"labels-only", M{"labels": M{"a": "b"}}, M{"file": "./s.txt"}, M{"labels": M{"c": "d"}}},
		{"external-false", M{"labels": M{"a": "b"}}, M{"file": "./s.txt"}, M{"external": false}},
		{"external-or-nothing", M{"labels": M{"a": "b"}}, M{"external": true}, M{"labels": M{"c": "d"}}},
	}},
	{"config-several-sources", scConfig, []variant{
		{"file+content", M{"file": "./c.txt"}, M{"labels": M{"a": "b"}}, M{"content": "hello"}},
		{"file+environment", M{"file": "./c.txt"}, M{"labels": M{"a": "b"}}, M{"environment": "CFG"}},
		{"content+environment", M{"content": "hello"}, M{"labels": M{"a": "b"}}, M{"environment": "CFG"}},
		{"all-three", M{"file": "./c.txt"}, M{"labels": M{"a": "b"}}, M{"environment": "CFG", "content": "hello"}},
		{"file+content/external-false", M{"file": "./c.txt", "external": false}, M{"labels": M{"a": "b"}}, M{"content": "hello"}},
		{"content+environment/external-true", M{"content": "hello", "external": true}, M{"name": "real"}, M{"environment": "CFG"}},
		{"file/external+environment", M{"file": "./c.txt"}, M{"labels": M{"a": "b"}}, M{"environment": "CFG", "external": false}},
	}},
	{"config-no-source", scConfig, []variant{
		{"labels-only", M{"labels": M{"a": "b"}}, M{"content": "hello"}, M{"labels": M{"c": "d"}}},
		{"external-false", M{"labels": M{"a": "b"}}, M{"content": "hello"}, M{"external": false}},
		{"external-false-quoted", M{"labels": M{"a": "b"}}, M{"file": "./c.txt"}, M{"external": "false"}},
		{"external-or-nothing", M{"labels": M{"a": "b"}}, M{"external": true}, M{"labels": M{"c": "d"}}},
	}},
}

func ruleByID(id string) *rule {
	for i := range rules {
		if rules[i].id == id {
			return &rules[i]
		}
	}
	return nil
}

// ---------------------------------------------------------------------------
// building the files of a case

const (
	plMain     = "main"
	plOverride = "override"
	plExtends  = "extends"
	plInclude  = "include"
)

var placements = []string{plMain, plOverride, plExtends, plInclude}

func applicable(scope, pl string) bool {
	if pl == plExtends {
		return scope == scService || scope == scNew
	}
	return true
}

func clone(v any) any {
	switch x := v.(type) {
	case M:
		o := M{}
		for k, e := range x {
			o[k] = clone(e)
		}
		return o
	case L:
		o := make(L, len(x))
		for i, e := range x {
			o[i] = clone(e)
		}
		return o
	}
	return v
}

// merge deep-merges src into dst for the "main" placement: mappings
// recursively, sequences concatenated, a short list next to a mapping turned
// into a mapping (networks, depends_on), scalars replaced.
func merge(dst, src M) M {
	if dst == nil {
		dst = M{}
	}
	for k, v := range src {
		old, ok := dst[k]
		if !ok {
			dst[k] = clone(v)
			continue
		}
		switch nv := v.(type) {
		case M:
			switch ov := old.(type) {
			case M:
				dst[k] = merge(ov, nv)
			case L:
				dst[k] = merge(listToMap(k, ov), nv)
			default:
				dst[k] = clone(nv)
			}
		case L:
			switch ov := old.(type) {
			case L:
				dst[k] = append(append(L{}, ov...), clone(nv).(L)...)
			case M:
				dst[k] = merge(ov, listToMap(k, nv))
			default:
				dst[k] = clone(nv)
			}
		default:
			dst[k] = v
		}
	}
	return dst
}

func listToMap(key string, l L) M {
	m := M{}
	for _, e := range l {
		name := fmt.Sprint(e)
		if key == "depends_on" {
			m[name] = M{"condition": "service_started", "required": true}
		} else {
			m[name] = M{}
		}
	}
	return m
}

// slot is one fragment of a case.
type slot struct {
	Rule      string `json:"rule"`
	Variant   int    `json:"variant"`
	Bad       bool   `json:"bad"`
	Placement string `json:"placement"`
	// Companion adds, to the service carrying the fragment, a benign optional dependency on a
	// profile-disabled service (a rule must not be skipped because another one was satisfied).
	Companion bool `json:"companion,omitempty"`
	// XName gives the resource carrying the fragment a name that starts with `x-` (a legal resource
	// name; only keys *beside* the resources are extensions)
	XName bool `json:"x_name,omitempty"`
}

// doc collects the files of a case while slots are added.
type doc struct {
	main, over, base, inc                  M
	usesOver, usesOver2, usesBase, usesInc bool
	over2                                  M
}

func section(m M, k string) M {
	s, ok := m[k].(M)
	if !ok {
		s = M{}
		m[k] = s
	}
	return s
}

func newDoc(rng *rand.Rand) *doc {
	d := &doc{main: M{}, over: M{}, over2: M{}, base: M{}, inc: M{}}
	sv := section(d.main, "services")
	sv["other"] = M{"image": "img/other", "networks": L{"net1"}, "volumes": L{"vol1:/data"}, "secrets": L{"sec1"}, "configs": L{"cfg1"}}
	sv["dz"] = M{"image": "img/dz", "profiles": L{"off"}, "depends_on": L{"other"}}
	sv["third"] = M{"image": "img/third"}
	// optional extras: consistent by construction
	if rng.Intn(2) == 0 {
		sv["rich"] = M{"build": M{"context": ".", "dockerfile_inline": "FROM scratch\n", "secrets": L{"sec2"}},
			"depends_on": M{"other": M{"condition": "service_started"}, "dz": M{"condition": "service_started", "required": false}},
			"scale":      2, "deploy": M{"replicas": 2, "resources": M{"limits": M{"cpus": "0.5", "memory": "64M", "pids": 10}, "reservations": M{"memory": "16M"}}},
			"cpus": 0.5, "mem_limit": "64M", "mem_reservation": "16M", "pids_limit": 10,
			"networks": M{"net2": M{}}, "volumes": L{M{"type": "volume", "source": "vol2", "target": "/v"}, "/host:/host", "/anon"}}
	}
	if rng.Intn(2) == 0 {
		sv["sidecar"] = M{"image": "img/sidecar", "network_mode": "service:other", "ipc": "service:other", "pid": "service:other",
			"volumes_from": L{"other:ro", "container:outside"}, "links": L{"other:o"}}
	}
	if rng.Intn(3) == 0 {
		sv["hostnet"] = M{"image": "img/hostnet", "network_mode": "host", "container_name": "hn", "scale": 1}
	}
	d.main["networks"] = M{"net1": M{}, "net2": M{"driver": "bridge"}}
	d.main["volumes"] = M{"vol1": M{}, "vol2": M{"external": true, "name": "real-vol2"}}
	d.main["secrets"] = M{"sec1": M{"file": "./sec1.txt"}, "sec2": M{"environment": "SEC2"}, "sec3": M{"external": true}}
	d.main["configs"] = M{"cfg1": M{"content": "hello"}, "cfg2": M{"file": "./cfg2.txt"}, "cfg3": M{"environment": "CFG3"}, "cfg4": M{"external": true, "name": "real-cfg4"}}
	return d
}

// add places slot number i.
func (d *doc) add(i int, sl slot) {
	r := ruleByID(sl.Rule)
	v := r.variants[sl.Variant]
	frag := v.good
	if sl.Bad {
		frag = v.bad
	}
	name := fmt.Sprintf("t%d", i)
	switch r.scope {
	case scService, scNew:
		start := M{}
		if r.scope == scService {
			start = M{"image": "img/" + name, "labels": M{"slot": name}}
		}
		start = merge(start, clone(v.setup).(M))
		if sl.Companion && r.scope == scService && sl.Placement != plInclude {
			_, a := start["depends_on"]
			_, b := frag["depends_on"]
			if !a && !b {
				start["depends_on"] = M{"dz": M{"condition": "service_started", "required": false}}
			}
		}
		switch sl.Placement {
		case plMain:
			section(d.main, "services")[name] = merge(start, frag)
		case plOverride:
			if layered[r.id+"/"+v.name] {
				// three layers: the setup arrives in a second file, as written, over a service that
				// already has the attribute; the fragment refines it in a third file
				section(d.main, "services")[name] = M{"image": "img/" + name, "labels": M{"slot": name}, "depends_on": M{"other": M{"condition": "service_started"}}}
				section(d.over, "services")[name] = clone(v.setup)
				section(d.over2, "services")[name] = clone(frag)
				d.usesOver, d.usesOver2 = true, true
				break
			}
			if r.scope == scService {
				section(d.main, "services")[name] = start
			}
			section(d.over, "services")[name] = clone(frag)
			d.usesOver = true
		case plExtends:
			if layered[r.id+"/"+v.name] {
				own := M{"image": "img/" + name, "labels": M{"slot": name}, "extends": M{"file": "base.yaml", "service": "base_" + name}}
				section(d.main, "services")[name] = merge(own, clone(frag).(M))
				section(d.base, "services")["base_"+name] = clone(v.setup)
				d.usesBase = true
				break
			}
			start["extends"] = M{"file": "base.yaml", "service": "base_" + name}
			section(d.main, "services")[name] = start
			section(d.base, "services")["base_"+name] = clone(frag)
			d.usesBase = true
		case plInclude:
			section(d.inc, "services")[name] = merge(start, frag)
			d.usesInc = true
		}
	default:
		name = "r" + name
		if sl.XName {
			name = "x-" + name
		}
		start := clone(v.setup).(M)
		switch sl.Placement {
		case plMain:
			section(d.main, r.scope)[name] = merge(start, frag)
		case plOverride:
			section(d.main, r.scope)[name] = start
			section(d.over, r.scope)[name] = clone(frag)
			d.usesOver = true
		case plInclude:
			section(d.inc, r.scope)[name] = merge(start, frag)
			d.usesInc = true
		}
	}
}

func toYAML(m M) string {
	b, err := yaml.Marshal(m)
	if err != nil {
		panic(err)
	}
	return string(b)
}

func (d *doc) toCase() *ld.Case {
	c := &ld.Case{Files: map[string]string{}, ComposeFiles: []string{"compose.yaml"}, Env: map[string]string{"SEC2": "s", "CFG3": "c", "C10_TRUE": "true"}}
	main := clone(d.main).(M)
	if d.usesInc {
		main["include"] = L{"inc/compose.yaml"}
		c.Files["inc/compose.yaml"] = toYAML(d.inc)
	}
	c.Files["compose.yaml"] = toYAML(main)
	if d.usesOver {
		c.Files["override.yaml"] = toYAML(d.over)
		c.ComposeFiles = append(c.ComposeFiles, "override.yaml")
	}
	if d.usesOver2 {
		c.Files["override2.yaml"] = toYAML(d.over2)
		c.ComposeFiles = append(c.ComposeFiles, "override2.yaml")
	}
	if d.usesBase {
		c.Files["base.yaml"] = toYAML(d.base)
	}
	return c
}

// ---------------------------------------------------------------------------
// judging

type caseFile struct {
	Load     *ld.Case `json:"load"`
	MustFail bool     `json:"must_fail"`
	Rules    []string `json:"rules,omitempty"` // the rules broken on purpose
	Slots    []slot   `json:"slots,omitempty"`
	Origin   string   `json:"origin"`
	Note     string   `json:"note,omitempty"`
}

type verdict struct {
	loaded   bool
	reported bool
}

// judge loads the case and applies both directions of the statement.
// attrs carries the stable description of the case family.
func judge(s *core.Shard, cf *caseFile, attrs map[string]string) verdict {
	_, res := ld.Run(s.Scratch(), cf.Load)
	s.Eval(1)
	files := map[string]any{"case.json": cf}
	with := func(kind string) map[string]string {
		a := map[string]string{"kind": kind}
		for k, v := range attrs {
			a[k] = v
		}
		return a
	}
	if res.Panic != nil {
		ld.PanicViolation(s, res.Panic, cf.Load, attrs)
		return verdict{reported: true}
	}
	if res.Err != nil {
		if strings.HasPrefix(res.Err.Error(), "harness:") {
			s.Inconclusive(res.Err.Error())
			return verdict{reported: true}
		}
		if cf.MustFail {
			s.Add("negatives_rejected", 1)
			for _, r := range cf.Rules {
				s.Cover("rule-rejected", r)
			}
		}
		return verdict{}
	}
	// accepted => consistent
	s.Add("accepted_judged_by_checker", 1)
	v := verdict{loaded: true}
	if bad := extract(res.Project).Check(); len(bad) > 0 {
		seen := map[string]bool{}
		for _, b := range bad {
			if seen[b.Rule] {
				continue
			}
			seen[b.Rule] = true
			a := with("accepted-inconsistent")
			a["rule"] = b.Rule
			s.Violation(a, fmt.Sprintf("the load succeeded with consistency checks on, but the project breaks rule %s: %s", b.Rule, b.Detail), files)
		}
		v.reported = true
	}
	if cf.MustFail && !v.reported {
		// the fragment did not reach the typed project in a form the checker
		// sees, yet the model as written breaks the rule
		a := with("invalid-accepted")
		s.Violation(a, fmt.Sprintf("a model breaking %v (%s) loaded without error", cf.Rules, cf.Note), files)
		v.reported = true
	}
	return v
}

// selfTest loads a rule-breaking twin with the checks switched off and
// requires the invariant checker to name the rule (guards against a blind checker).
func selfTest(s *core.Shard, c *ld.Case, ruleID string) {
	cc := *c
	cc.Opts.SkipConsistencyCheck = true
	cc.Opts.SkipValidation = true
	_, res := ld.Run(s.Scratch(), &cc)
	if res.Panic != nil || res.Err != nil || res.Project == nil {
		s.Add("selftest_not_loadable_even_unchecked", 1)
		s.Cover("checker-selftest-unloadable", ruleID)
		return
	}
	for _, b := range extract(res.Project).Check() {
		if b.Rule == ruleID {
			s.Cover("checker-selftest", ruleID)
			return
		}
	}
	s.Inconclusive("harness: the invariant checker does not see rule " + ruleID + " on a project that breaks it")
}

func describeSlots(sl []slot) string {
	var p []string
	for _, x := range sl {
		r := ruleByID(x.Rule)
		k := "benign"
		if x.Bad {
			k = "BREAKING"
		}
		p = append(p, fmt.Sprintf("%s/%s %s in %s", x.Rule, r.variants[x.Variant].name, k, x.Placement))
	}
	return strings.Join(p, "; ")
}

// ---------------------------------------------------------------------------
// workloads

func run(s *core.Shard) {
	n := 0
	mine := func() bool { n++; return s.Mine(n) }

	// ---- part 1: every rule x variant x placement, benign and breaking twin -----
	rounds := s.Pick(2, 12)
	for round := 0; round < rounds; round++ {
		for _, r := range rules {
			for vi, v := range r.variants {
				for _, pl := range placements {
					if !applicable(r.scope, pl) {
						continue
					}
					if !mine() {
						continue
					}
					id := fmt.Sprintf("pair/%d/%s/%s/%s", round, r.id, v.name, pl)
					if !s.Begin(id) {
						continue
					}
					s.Cover("placement", pl)
					s.Cover("rule-variant", r.id+"/"+v.name)
					pair(s, id, slot{Rule: r.id, Variant: vi, Placement: pl})
					if r.scope == scService && pl != plInclude {
						pair(s, id+"/companion", slot{Rule: r.id, Variant: vi, Placement: pl, Companion: true})
					}
					if r.scope != scService && r.scope != scNew {
						pair(s, id+"/x-name", slot{Rule: r.id, Variant: vi, Placement: pl, XName: true})
					}
				}
			}
		}
	}

	// ---- part 2: directed graphs --------------------------------------------------
	graphs(s, mine)

	// ---- part 3: several slots, each independently benign or breaking -----------
	nR := s.Pick(4000, 70000)
	for i := 0; i < nR; i++ {
		if !mine() {
			continue
		}
		id := fmt.Sprintf("multi/%d", i)
		if !s.Begin(id) {
			continue
		}
		rng := s.Rand(id)
		d := newDoc(rng)
		k := 2 + rng.Intn(4)
		var slots []slot
		var broken []string
		for j := 0; j < k; j++ {
			r := rules[rng.Intn(len(rules))]
			pl := placements[rng.Intn(len(placements))]
			if !applicable(r.scope, pl) {
				pl = plMain
			}
			sl := slot{Rule: r.id, Variant: rng.Intn(len(r.variants)), Bad: rng.Intn(4) == 0, Placement: pl, Companion: rng.Intn(3) == 0, XName: rng.Intn(5) == 0}
			if sl.Bad {
				broken = append(broken, r.id)
			}
			d.add(j, sl)
			slots = append(slots, sl)
		}
		cf := &caseFile{Load: d.toCase(), MustFail: len(broken) > 0, Rules: broken, Slots: slots, Origin: "multi", Note: describeSlots(slots)}
		attrs := map[string]string{"origin": "multi"}
		if len(broken) == 1 {
			attrs["rule"] = broken[0]
		}
		v := judge(s, cf, attrs)
		s.Nontrivial(cf.Load.Key())
		s.Cover("multi-broken-slots", fmt.Sprint(len(broken)))
		if !cf.MustFail && !v.loaded && !v.reported {
			s.Add("benign_multi_rejected", 1)
			s.Inconclusive("a model built only from benign fragments failed to load: " + cf.Note)
		}
	}
}

// pair runs the benign and the rule-breaking twin of one slot, surrounded by
// 0..2 further benign slots.
func pair(s *core.Shard, id string, sl slot) {
	r := ruleByID(sl.Rule)
	buildCase := func(bad bool) *caseFile {
		rng := s.Rand(id) // same surroundings for both twins
		d := newDoc(rng)
		var slots []slot
		x := sl
		x.Bad = bad
		d.add(0, x)
		slots = append(slots, x)
		for j, extra := 1, rng.Intn(3); j <= extra; j++ {
			er := rules[rng.Intn(len(rules))]
			pl := placements[rng.Intn(len(placements))]
			if !applicable(er.scope, pl) {
				pl = plMain
			}
			e := slot{Rule: er.id, Variant: rng.Intn(len(er.variants)), Placement: pl}
			d.add(j, e)
			slots = append(slots, e)
		}
		cf := &caseFile{Load: d.toCase(), MustFail: bad, Slots: slots, Origin: "pair", Note: describeSlots(slots)}
		if bad {
			cf.Rules = []string{r.id}
		}
		return cf
	}
	attrs := map[string]string{"origin": "pair", "rule": r.id, "variant": r.variants[sl.Variant].name, "placement": sl.Placement}
	good := buildCase(false)
	gv := judge(s, good, attrs)
	if !gv.loaded {
		if !gv.reported {
			s.Add("benign_twin_rejected", 1)
			s.Cover("benign-twin-rejected", r.id+"/"+r.variants[sl.Variant].name+"/"+sl.Placement)
			s.Inconclusive(fmt.Sprintf("benign twin of %s/%s in %s does not load; the pair decides nothing", r.id, r.variants[sl.Variant].name, sl.Placement))
		}
		return
	}
	bad := buildCase(true)
	judge(s, bad, attrs)
	s.Nontrivial(bad.Load.Key())
	if !noSelfTest[r.id+"/"+r.variants[sl.Variant].name] {
		selfTest(s, bad.Load, r.id)
	}
	if s.WantSample() && sl.Placement != plMain {
		s.Sample(map[string]any{"rule": r.id, "variant": r.variants[sl.Variant].name, "placement": sl.Placement, "files_of_rule_breaking_twin": bad.Load.Files, "expected": "load fails; benign twin loads and satisfies the checker"})
	}
}

// ---- graphs ------------------------------------------------------------------

type graphCase struct {
	N      int      `json:"n"`
	Edges  [][2]int `json:"edges"` // i depends on j
	Cyclic bool     `json:"cyclic"`
}

func hasCycle(n int, adj [][]bool) (bool, int) {
	state := make([]int, n)
	on := -1
	var visit func(i int) bool
	visit = func(i int) bool {
		state[i] = 1
		for j := 0; j < n; j++ {
			if !adj[i][j] {
				continue
			}
			if state[j] == 1 {
				on = i
				return true
			}
			if state[j] == 0 && visit(j) {
				return true
			}
		}
		state[i] = 2
		return false
	}
	for i := 0; i < n; i++ {
		if state[i] == 0 && visit(i) {
			return true, on
		}
	}
	return false, -1
}

var edgeKinds = []string{"depends_on", "depends_on-long", "depends_on-optional", "links", "network_mode", "volumes_from"}

// graphDoc renders a graph; the out-edges of node `moved` go to the placement.
func graphDoc(n int, adj [][]bool, moved int, pl string, kindOf func(i, j int) string) *ld.Case {
	d := &doc{main: M{}, over: M{}, base: M{}, inc: M{}}
	name := func(i int) string { return fmt.Sprintf("s%d", i) }
	for i := 0; i < n; i++ {
		svc := M{"image": "img/" + name(i)}
		edges := M{}
		usedMode := false
		for j := 0; j < n; j++ {
			if !adj[i][j] {
				continue
			}
			k := kindOf(i, j)
			if k == "network_mode" && usedMode {
				k = "depends_on"
			}
			switch k {
			case "depends_on":
				edges = merge(edges, M{"depends_on": L{name(j)}})
			case "depends_on-long":
				edges = merge(edges, M{"depends_on": dep(name(j), true)})
			case "depends_on-optional":
				edges = merge(edges, M{"depends_on": dep(name(j), false)})
			case "links":
				edges = merge(edges, M{"links": L{name(j)}})
			case "volumes_from":
				edges = merge(edges, M{"volumes_from": L{name(j)}})
			case "network_mode":
				edges = merge(edges, M{"network_mode": "service:" + name(j)})
				usedMode = true
			}
		}
		if i != moved || pl == plMain {
			section(d.main, "services")[name(i)] = merge(svc, edges)
			continue
		}
		switch pl {
		case plOverride:
			section(d.main, "services")[name(i)] = svc
			section(d.over, "services")[name(i)] = edges
			d.usesOver = true
		case plExtends:
			svc["extends"] = M{"file": "base.yaml", "service": "base"}
			section(d.main, "services")[name(i)] = svc
			section(d.base, "services")["base"] = edges
			d.usesBase = true
		case plInclude:
			section(d.inc, "services")[name(i)] = merge(svc, edges)
			d.usesInc = true
		}
	}
	return d.toCase()
}

func graphs(s *core.Shard, mine func() bool) {
	idx := 0
	runGraph := func(n int, adj [][]bool, id string, rng *rand.Rand) {
		cyc, on := hasCycle(n, adj)
		pl := plMain
		moved := -1
		hasEdge := false
		for i := 0; i < n && !hasEdge; i++ {
			for j := 0; j < n; j++ {
				hasEdge = hasEdge || adj[i][j]
			}
		}
		if hasEdge {
			switch idx % 8 {
			case 5:
				pl = plOverride
			case 6:
				pl = plExtends
			case 7:
				pl = plInclude
			}
			moved = on
			if moved < 0 { // acyclic: move the first node that has an edge
				for i := 0; i < n && moved < 0; i++ {
					for j := 0; j < n; j++ {
						if adj[i][j] {
							moved = i
							break
						}
					}
				}
			}
		}
		kind := func(i, j int) string { return "depends_on" }
		if rng != nil {
			ks := make(map[[2]int]string)
			for i := 0; i < n; i++ {
				for j := 0; j < n; j++ {
					ks[[2]int{i, j}] = edgeKinds[rng.Intn(len(edgeKinds))]
				}
			}
			kind = func(i, j int) string { return ks[[2]int{i, j}] }
		}
		var edges [][2]int
		for i := 0; i < n; i++ {
			for j := 0; j < n; j++ {
				if adj[i][j] {
					edges = append(edges, [2]int{i, j})
				}
			}
		}
		cf := &caseFile{Load: graphDoc(n, adj, moved, pl, kind), MustFail: cyc, Origin: "graph", Note: fmt.Sprintf("graph on %d services, edges (i depends on j) %v, closing edge in %s", n, edges, pl)}
		if cyc {
			cf.Rules = []string{"dependency-cycle"}
		}
		attrs := map[string]string{"origin": "graph", "placement": pl}
		if cyc {
			attrs["rule"] = "dependency-cycle"
		}
		s.Cover("graph-placement", pl)
		s.Cover("graph-services", fmt.Sprint(n))
		v := judge(s, cf, attrs)
		if n > 1 {
			s.Nontrivial(cf.Load.Key())
		}
		if !cyc && !v.loaded && !v.reported {
			s.Add("acyclic_graph_rejected", 1)
			s.Inconclusive("an acyclic dependency graph failed to load: " + cf.Note)
		}
	}
	// exhaustive: every digraph (self-loops allowed at n<=2) on 1..4 nodes
	for n := 1; n <= 4; n++ {
		var pairs [][2]int
		for i := 0; i < n; i++ {
			for j := 0; j < n; j++ {
				if i != j || n <= 2 {
					pairs = append(pairs, [2]int{i, j})
				}
			}
		}
		for mask := 0; mask < 1<<len(pairs); mask++ {
			idx++
			if !mine() {
				continue
			}
			id := fmt.Sprintf("graph/%d/%d", n, mask)
			if !s.Begin(id) {
				continue
			}
			adj := make([][]bool, n)
			for i := range adj {
				adj[i] = make([]bool, n)
			}
			for b, p := range pairs {
				if mask&(1<<b) != 0 {
					adj[p[0]][p[1]] = true
				}
			}
			var rng *rand.Rand
			if idx%3 == 0 {
				rng = s.Rand(id) // a third of the graphs use mixed edge kinds
			}
			runGraph(n, adj, id, rng)
		}
	}
	// sampled: 5 nodes
	for i := 0; i < s.Pick(300, 12000); i++ {
		idx++
		if !mine() {
			continue
		}
		id := fmt.Sprintf("graph5/%d", i)
		if !s.Begin(id) {
			continue
		}
		rng := s.Rand(id)
		n := 5
		adj := make([][]bool, n)
		p := []float64{0.12, 0.2, 0.3}[rng.Intn(3)]
		for a := range adj {
			adj[a] = make([]bool, n)
			for b := range adj[a] {
				adj[a][b] = a != b && rng.Float64() < p
			}
		}
		runGraph(n, adj, id, rng)
	}
}

// ---------------------------------------------------------------------------

func replay(s *core.Shard, dir string) {
	var cf caseFile
	if err := core.ReadJSON(filepath.Join(dir, "case.json"), &cf); err != nil || cf.Load == nil {
		// panics are stored as a bare load case
		var c ld.Case
		if err2 := core.ReadJSON(filepath.Join(dir, "case.json"), &c); err2 != nil || len(c.ComposeFiles) == 0 {
			s.Inconclusive(fmt.Sprintf("replay: unreadable case: %v %v", err, err2))
			return
		}
		cf = caseFile{Load: &c, Origin: "replay"}
	}
	attrs := map[string]string{"origin": "replay"}
	if len(cf.Rules) == 1 {
		attrs["rule"] = cf.Rules[0]
	}
	judge(s, &cf, attrs)
}

func witness(s *core.Shard, f core.Finding) (bool, string) {
	var cf caseFile
	if err := json.Unmarshal(f.Witness, &cf); err != nil || cf.Load == nil {
		return false, "witness not readable"
	}
	_, res := ld.Run(s.Scratch(), cf.Load)
	if res.Panic != nil {
		return f.Matches(map[string]string{"kind": "panic", "site": res.Panic.Site, "class": res.Panic.Class}), "panic in " + res.Panic.Site
	}
	if res.Err != nil {
		return false, "the witness is rejected: " + res.Err.Error()
	}
	bad := extract(res.Project).Check()
	var rulesHit []string
	for _, b := range bad {
		rulesHit = append(rulesHit, b.Rule)
	}
	sort.Strings(rulesHit)
	if len(bad) > 0 {
		return true, fmt.Sprintf("accepted although it breaks %v", rulesHit)
	}
	if cf.MustFail {
		return true, fmt.Sprintf("accepted although the model breaks %v", cf.Rules)
	}
	return false, "accepted and consistent"
}
