// Package c12 checks property C12: relative paths resolve against the right
// directory, everything else is untouched.
//
// A scenario is a real directory tree: a project directory (deep, with spaces,
// with dots), a main file (inside it or elsewhere), an override file, included
// files at depth 1 and 2 (short form and long form with project_directory) and
// extended files in other directories (one and two levels). Every placement
// writes one path shape into one path-bearing attribute of one origin; the
// generator computes the expected value from the directory it put the
// attribute in, so the expectation is independent of the resolver tables.
package c12

import (
	"encoding/json"
	"fmt"
	"os"
	"path"
	"path/filepath"
	"reflect"
	"regexp"
	"sort"
	"strings"

	"github.com/compose-spec/compose-go/v2/paths"
	"github.com/compose-spec/compose-go/v2/types"
	"github.com/sirupsen/logrus"
	"gopkg.in/yaml.v3"

	"verif/harness/internal/core"
	"verif/harness/internal/diff"
	"verif/harness/internal/ld"
)

func init() {
	logrus.SetLevel(logrus.PanicLevel)
	core.Register(&core.Spec{
		ID:    "C12",
		Level: "exploration",
		Rule: "the full product {14 spellings of the 8 path-bearing attributes} x {path shapes valid for the attribute's class: ./x, d/y, ../x, ., ./a/../b, x/, ./vendor/github.com/acme/app, ../mirrors/git@internal/app, /abs, /abs/./a/../b, ~, ~/x, C:\\x, c:/x, \\\\srv\\share, https://, http://, git://, ssh://, git@, github.com/, docker-image://, foo://, named volume} x {origin: main file, override file, include (short), include with project_directory, include at depth 2, extends from another directory, two-level extends chain, own attribute of an extending service} is enumerated in a seeded order and packed 2-7 placements per scenario, with seeded project-directory shapes (deep / spaces / dots) and main-file location (inside or outside the project directory); every scenario also carries path-looking decoys in non-path attributes of the main, included and extended files. " +
			"A scenario is non-trivial when the load with path resolution succeeded and at least one placement had a relative or ~ shape from a non-main origin or an untouched shape (absolute, Windows, remote, named); distinct = distinct (files, placements).",
		Assumptions: []string{
			"expected values are lexical: clean(join(base, value)); the generated scenario directories contain no symbolic links; a separate hand-shaped part puts directory links (relative, absolute, outside the project, chained) under develop.watch paths, the only attribute whose links the library resolves, and requires an absolute result designating the same directory",
			"HOME is pinned to a directory inside the case for ~ expansion; ~user forms are not generated",
			"Windows-absolute shapes are generated only for mount sources, secret/config files and the bind device of a local volume (where the statement says they stay as written); remote shapes only for build contexts",
			"loader-recognised remote references need a custom ResourceLoader, which the shared loader wrapper cannot express: not exercised",
			"label files are read at load time, so scenarios with label_file placements create the files at the expected locations and skip the comparison against the load without path resolution (which cannot find them)",
			"in the short volume syntax a source without leading . / ~ or drive is a volume name; such shapes are generated as named volumes (never rewritten), not as paths",
		},
		Exhaustive: func(string) bool { return false },
		Run:        run,
		Replay:     replay,
		Witness:    witness,
		Floor:      floor,
	})
}

// ---------------------------------------------------------------------------
// the statement's table: attributes, classes, shapes

const caseTok = "@CASE@"

type shape struct {
	Name  string
	Value string
	Class string // relative | home | absolute | windows | remote | named
	Dir   bool   // denotes a directory (cannot be a label file)
}

var shapes = []shape{
	{"dot-slash", "./x", "relative", false},
	{"bare", "sub.d/y", "relative", false}, // (a directory name no other shape uses as a file)
	{"parent", "../x", "relative", false},
	{"dot", ".", "relative", true},
	{"unclean", "./a/../b", "relative", false},
	{"trailing-slash", "x/", "relative", true},
	{"git-host-inside", "./vendor/github.com/acme/app", "relative", false}, // remote markers are prefixes, not substrings
	{"git-at-inside", "../mirrors/git@internal/app", "relative", false},
	{"abs", caseTok + "/abs/p", "absolute", false},
	{"abs-unclean", "/abs/./a/../b", "absolute", false},
	{"home", "~", "home", true},
	{"home-sub", "~/x", "home", false},
	{"win-drive", `C:\win\x`, "windows", false},
	{"win-forward", "c:/w/y", "windows", false},
	{"win-unc", `\\srv\share\d`, "windows", false},
	{"https", "https://example.com/r.git#main", "remote", false},
	{"http", "http://example.com/ctx.tar.gz", "remote", false},
	{"git", "git://example.com/r.git", "remote", false},
	{"ssh", "ssh://git@example.com/r.git", "remote", false},
	{"git-at", "git@github.com:o/r.git", "remote", false},
	{"github", "github.com/o/r", "remote", false},
	{"docker-image", "docker-image://alpine:3", "remote", false},
	{"any-scheme", "foo://bar/baz", "remote", false},
	{"docker-image-tag", "docker-image://alpine:3.19", "remote", false},
	{"docker-image-digest", "docker-image://alpine@sha256:0123abcd", "remote", false},
	{"odd-scheme", "x+y://a:b/c", "remote", false},
	{"named", "data", "named", false},
}

type attrKind struct {
	Name     string // spelling
	Attr     string // stable attribute name
	Class    string // local | build-context | mount-source
	Resource bool   // top-level resource (not expressible through extends)
}

var attrKinds = []attrKind{
	{"build-short", "build.context", "build-context", false},
	{"build-context", "build.context", "build-context", false},
	{"addctx-map", "build.additional_contexts", "build-context", false},
	{"addctx-list", "build.additional_contexts", "build-context", false},
	{"env-string", "env_file", "local", false},
	{"env-list", "env_file", "local", false},
	{"env-long", "env_file", "local", false},
	{"label-list", "label_file", "local", false},
	{"vol-short", "volumes.source", "mount-source", false},
	{"vol-long", "volumes.source", "mount-source", false},
	{"watch", "develop.watch.path", "local", false},
	{"secret-file", "secrets.file", "mount-source", true},
	{"config-file", "configs.file", "mount-source", true},
	{"volume-device", "volumes.driver_opts.device", "mount-source", true},
}

func shapeAllowed(k attrKind, sh shape) bool {
	switch sh.Class {
	case "windows":
		if k.Class != "mount-source" {
			return false
		}
		if k.Name == "vol-short" {
			return sh.Name == "win-drive"
		}
	case "remote":
		return k.Class == "build-context"
	case "named":
		return k.Name == "vol-short" || k.Name == "vol-long"
	}
	if k.Name == "vol-short" && (sh.Name == "bare" || sh.Name == "trailing-slash") {
		return false // a volume name in the short syntax, and not a valid one
	}
	if k.Name == "label-list" && (sh.Dir || sh.Name == "abs-unclean") {
		return false // the file is read at load time
	}
	return true
}

var origins = []string{"main", "override", "include", "include-project-directory", "include-depth-2", "extends", "extends-chain", "extends-own", "extends-sibling-dir", "include-sibling-dir"}

func originAllowed(k attrKind, o string) bool {
	if k.Resource && strings.HasPrefix(o, "extends") {
		return false
	}
	return true
}

type combo struct {
	Kind   attrKind
	Shape  shape
	Origin string
}

func allCombos() []combo {
	var out []combo
	for _, k := range attrKinds {
		for _, sh := range shapes {
			if !shapeAllowed(k, sh) {
				continue
			}
			for _, o := range origins {
				if originAllowed(k, o) {
					out = append(out, combo{k, sh, o})
				}
			}
		}
	}
	return out
}

// ---------------------------------------------------------------------------
// scenario

type placement struct {
	Kind   string `json:"kind"`
	Attr   string `json:"attr"`
	Shape  string `json:"shape"`
	Class  string `json:"class"`
	Origin string `json:"origin"`
	Name   string `json:"name"`   // service or resource name
	Value  string `json:"value"`  // as written (may hold @CASE@)
	Expect string `json:"expect"` // with @CASE@ / @HOME@
}

type decoy struct {
	Origin  string `json:"origin"`
	Service string `json:"service"`
}

// homeRel is the home directory (relative to the case directory) of the scenario being built or
// judged. It changes from one scenario to the next, so that a home directory remembered from an
// earlier load in the same process shows up as a wrong expansion.
var homeRel = "home/u"

var homeShapes = []string{"home/u", "home/v w", "users/x.y"}

type scenario struct {
	Home       string      `json:"home,omitempty"`
	WD         string      `json:"wd"` // project directory relative to the case directory
	Case       ld.Case     `json:"case"`
	Placements []placement `json:"placements"`
	Decoys     []decoy     `json:"decoys"`
	HasLabel   bool        `json:"has_label"`
}

var wdShapes = []string{"wd", "w d/a.b", "deep/er/dir.v1", "p.roj/sub dir"}

// baseOf gives the directory (relative to the case directory) that anchors an origin.
func baseOf(wd, origin string) string {
	switch origin {
	case "include":
		return wd + "/inc1"
	case "include-project-directory":
		return wd + "/pd2"
	case "include-depth-2":
		return wd + "/inc1/sub"
	case "extends":
		return wd + "/ext"
	case "extends-chain":
		return wd + "/ext2"
	case "extends-sibling-dir":
		return wd + "-common" // a sibling directory whose name starts with the project directory's name
	case "include-sibling-dir":
		return wd + "-infra"
	}
	return wd // main, override, extends-own
}

func expectOf(sh shape, base string) string {
	switch sh.Class {
	case "relative":
		return path.Clean(caseTok + "/" + base + "/" + sh.Value)
	case "home":
		return path.Clean("@HOME@/" + strings.TrimPrefix(sh.Value, "~"))
	}
	return sh.Value
}

type docs struct {
	files map[string]map[string]any // origin file key -> document
}

func (d *docs) section(file, section string) map[string]any {
	doc := d.files[file]
	if doc == nil {
		doc = map[string]any{}
		d.files[file] = doc
	}
	sec, _ := doc[section].(map[string]any)
	if sec == nil {
		sec = map[string]any{}
		doc[section] = sec
	}
	return sec
}

// fileOf maps an origin to the file that physically holds the attribute.
func fileOf(origin string) string {
	switch origin {
	case "main", "extends-own":
		return "main"
	case "override":
		return "override"
	case "include":
		return "inc1"
	case "include-project-directory":
		return "inc2"
	case "include-depth-2":
		return "sub"
	case "extends":
		return "ext"
	case "extends-chain":
		return "ext2"
	case "extends-sibling-dir":
		return "extsib"
	case "include-sibling-dir":
		return "incsib"
	}
	panic(origin)
}

func decoyService() map[string]any {
	return map[string]any{
		"image":       "./img",
		"working_dir": "./rel/dir",
		"command":     []any{"./run.sh", "../x", "~/y"},
		"entrypoint":  []any{"./entry.sh"},
		"environment": map[string]any{"P": "./x", "Q": "~/y", "R": "../z"},
		"labels":      map[string]any{"path": "./lbl"},
		"build":       map[string]any{"context": "./dctx", "dockerfile": "./Dockerfile.x", "args": map[string]any{"A": "./a"}, "target": "./t"},
		"volumes": []any{
			"data:/t/named",
			map[string]any{"type": "volume", "source": "data", "target": "/t/long"},
			map[string]any{"type": "tmpfs", "target": "/t/tmpfs"},
		},
		"devices":     []any{"./dev/x:/dev/y"},
		"healthcheck": map[string]any{"test": []any{"CMD", "./check.sh"}},
		"logging":     map[string]any{"driver": "json-file", "options": map[string]any{"path": "./log"}},
		"user":        "~",
		"hostname":    "./h",
		"dns_search":  []any{"./search"},
	}
}

// build assembles the scenario for a list of combos.
func build(seedWD, mainElsewhere int, combos []combo) *scenario {
	wd := wdShapes[seedWD%len(wdShapes)]
	homeRel = homeShapes[(seedWD/len(wdShapes)+mainElsewhere)%len(homeShapes)]
	sc := &scenario{WD: wd, Home: homeRel}
	d := &docs{files: map[string]map[string]any{}}
	extraFiles := map[string]string{}
	dirs := []string{wd + "/pd2", homeRel, wd + "/inc1/sub", wd + "/ext", wd + "/ext2", wd + "-common", wd + "-infra"}

	mainSvcs := d.section("main", "services")
	d.section("main", "volumes")["data"] = map[string]any{}

	// decoys: main, included and extended files
	mainSvcs["decoy-main"] = decoyService()
	sc.Decoys = append(sc.Decoys, decoy{"main", "decoy-main"})
	d.section("inc1", "services")["decoy-inc"] = decoyService()
	sc.Decoys = append(sc.Decoys, decoy{"include", "decoy-inc"})
	d.section("ext", "services")["decoy-base"] = decoyService()
	mainSvcs["decoy-ext"] = map[string]any{"extends": map[string]any{"file": "ext/base.yaml", "service": "decoy-base"}}
	sc.Decoys = append(sc.Decoys, decoy{"extends", "decoy-ext"})
	// non-path resources
	d.section("main", "volumes")["nfs"] = map[string]any{"driver": "local", "driver_opts": map[string]any{"type": "nfs", "o": "addr=./x", "device": "./export"}}
	d.section("main", "volumes")["other"] = map[string]any{"driver": "other", "driver_opts": map[string]any{"o": "bind", "device": "./d"}}
	d.section("main", "networks")["n1"] = map[string]any{"driver_opts": map[string]any{"parent": "./eth"}}
	d.section("main", "secrets")["envsec"] = map[string]any{"environment": "./NOT_A_PATH"}
	d.section("main", "configs")["inline"] = map[string]any{"content": "./x ~/y ../z"}

	for i, c := range combos {
		name := fmt.Sprintf("p%d", i)
		base := baseOf(wd, c.Origin)
		pl := placement{Kind: c.Kind.Name, Attr: c.Kind.Attr, Shape: c.Shape.Name, Class: c.Shape.Class, Origin: c.Origin, Name: name,
			Value: c.Shape.Value, Expect: expectOf(c.Shape, base)}
		file := fileOf(c.Origin)
		v := c.Shape.Value
		if c.Kind.Resource {
			switch c.Kind.Name {
			case "secret-file":
				d.section(file, "secrets")[name] = map[string]any{"file": v}
			case "config-file":
				d.section(file, "configs")[name] = map[string]any{"file": v}
			case "volume-device":
				d.section(file, "volumes")[name] = map[string]any{"driver": "local", "driver_opts": map[string]any{"type": "none", "o": "bind", "device": v}}
			}
			sc.Placements = append(sc.Placements, pl)
			continue
		}
		attrs := map[string]any{}
		switch c.Kind.Name {
		case "build-short":
			attrs["build"] = v
		case "build-context":
			attrs["build"] = map[string]any{"context": v, "dockerfile": "Dockerfile.dev"}
		case "addctx-map":
			attrs["build"] = map[string]any{"context": ".", "additional_contexts": map[string]any{"k": v}}
		case "addctx-list":
			attrs["build"] = map[string]any{"context": ".", "additional_contexts": []any{"k=" + v}}
		case "env-string":
			attrs["env_file"] = v
		case "env-list":
			attrs["env_file"] = []any{v}
		case "env-long":
			attrs["env_file"] = []any{map[string]any{"path": v, "required": false}}
		case "label-list":
			attrs["label_file"] = []any{v}
			sc.HasLabel = true
			// the file must exist where the statement says the path points
			rel := strings.TrimPrefix(pl.Expect, caseTok+"/")
			rel = strings.Replace(rel, "@HOME@", homeRel, 1)
			extraFiles[rel] = "c12.label=" + name + "\n"
		case "vol-short":
			attrs["volumes"] = []any{v + ":/t/" + name}
		case "vol-long":
			if c.Shape.Class == "named" {
				attrs["volumes"] = []any{map[string]any{"type": "volume", "source": v, "target": "/t/" + name}}
			} else {
				attrs["volumes"] = []any{map[string]any{"type": "bind", "source": v, "target": "/t/" + name}}
			}
		case "watch":
			attrs["develop"] = map[string]any{"watch": []any{map[string]any{"path": v, "action": "rebuild"}}}
		}
		if _, hasBuild := attrs["build"]; !hasBuild || c.Origin == "extends-own" {
			attrs["image"] = "img"
		}
		switch c.Origin {
		case "extends":
			d.section("ext", "services")["b"+name] = attrs
			mainSvcs[name] = map[string]any{"extends": map[string]any{"file": "ext/base.yaml", "service": "b" + name}}
			if i%2 == 0 {
				// the same base is also extended from an included project in another directory:
				// the inherited path is anchored at the extended file's directory for both
				d.section("inc1", "services")["x"+name] = map[string]any{"extends": map[string]any{"file": "../ext/base.yaml", "service": "b" + name}}
				pl2 := pl
				pl2.Name = "x" + name
				sc.Placements = append(sc.Placements, pl2)
			}
		case "extends-chain":
			d.section("ext2", "services")["c"+name] = attrs
			d.section("ext", "services")["b"+name] = map[string]any{"extends": map[string]any{"file": "../ext2/base2.yaml", "service": "c" + name}}
			mainSvcs[name] = map[string]any{"extends": map[string]any{"file": "ext/base.yaml", "service": "b" + name}}
		case "extends-sibling-dir":
			d.section("extsib", "services")["b"+name] = attrs
			mainSvcs[name] = map[string]any{"extends": map[string]any{"file": "../" + path.Base(wd) + "-common/base.yaml", "service": "b" + name}}
		case "extends-own":
			d.section("ext", "services")["b"+name] = map[string]any{"image": "base-img", "working_dir": "./from-base"}
			attrs["extends"] = map[string]any{"file": "ext/base.yaml", "service": "b" + name}
			delete(attrs, "image")
			mainSvcs[name] = attrs
		case "override":
			mainSvcs[name] = map[string]any{"image": "img"}
			d.section("override", "services")[name] = attrs
		default:
			d.section(file, "services")[name] = attrs
		}
		sc.Placements = append(sc.Placements, pl)
	}

	// wire the includes
	var includes []any
	if d.files["inc1"] != nil || d.files["sub"] != nil {
		includes = append(includes, "inc1/compose.yaml")
	}
	if d.files["sub"] != nil {
		d.section("inc1", "services") // make sure the file exists
		d.files["inc1"]["include"] = []any{"sub/compose.yaml"}
	}
	if d.files["inc2"] != nil {
		includes = append(includes, map[string]any{"path": "inc2/c.yaml", "project_directory": "pd2"})
	}
	if d.files["incsib"] != nil {
		includes = append(includes, "../"+path.Base(wd)+"-infra/compose.yaml")
	}
	if len(includes) > 0 {
		d.files["main"]["include"] = includes
	}

	mainPath := wd + "/compose.yaml"
	if mainElsewhere%3 == 1 {
		mainPath = "else where/main.yaml"
	}
	locs := map[string]string{
		"main": mainPath, "override": wd + "/override.yaml", "inc1": wd + "/inc1/compose.yaml", "sub": wd + "/inc1/sub/compose.yaml",
		"inc2": wd + "/inc2/c.yaml", "ext": wd + "/ext/base.yaml", "ext2": wd + "/ext2/base2.yaml",
		"extsib": wd + "-common/base.yaml", "incsib": wd + "-infra/compose.yaml",
	}
	files := map[string]string{}
	for k, doc := range d.files {
		for _, sec := range []string{"services", "volumes", "networks", "secrets", "configs"} {
			if m, ok := doc[sec].(map[string]any); ok && len(m) == 0 {
				delete(doc, sec)
			}
		}
		b, err := yaml.Marshal(doc)
		if err != nil {
			panic(err)
		}
		files[locs[k]] = string(b)
	}
	for k, v := range extraFiles {
		files[k] = v
	}
	cf := []string{mainPath}
	if d.files["override"] != nil {
		cf = append(cf, wd+"/override.yaml")
	}
	sc.Case = ld.Case{Files: files, Dirs: dirs, ComposeFiles: cf, WorkingDir: wd, Opts: ld.Opts{SkipResolveEnvironment: true}}
	return sc
}

// ---------------------------------------------------------------------------
// judging

type verdict struct {
	Kind  string
	Attrs map[string]string
	What  string
	Extra map[string]any
}

func subst(s, caseDir string) string {
	s = strings.ReplaceAll(s, caseTok, caseDir)
	return strings.ReplaceAll(s, "@HOME@", caseDir+"/"+homeRel)
}

// materialised returns the case with the @CASE@ placeholder replaced by the real directory.
func materialised(c *ld.Case, caseDir string) *ld.Case {
	cp := *c
	cp.Files = map[string]string{}
	for k, v := range c.Files {
		cp.Files[k] = subst(v, caseDir)
	}
	return &cp
}

func actualOf(p *types.Project, pl placement) (string, string) {
	if pl.Kind == "secret-file" {
		r, ok := p.Secrets[pl.Name]
		if !ok {
			return "", "secret missing"
		}
		return r.File, ""
	}
	if pl.Kind == "config-file" {
		r, ok := p.Configs[pl.Name]
		if !ok {
			return "", "config missing"
		}
		return r.File, ""
	}
	if pl.Kind == "volume-device" {
		r, ok := p.Volumes[pl.Name]
		if !ok {
			return "", "volume missing"
		}
		return r.DriverOpts["device"], ""
	}
	svc, ok := p.Services[pl.Name]
	if !ok {
		return "", "service missing"
	}
	switch pl.Kind {
	case "build-short", "build-context":
		if svc.Build == nil {
			return "", "no build section"
		}
		return svc.Build.Context, ""
	case "addctx-map", "addctx-list":
		if svc.Build == nil {
			return "", "no build section"
		}
		v, ok := svc.Build.AdditionalContexts["k"]
		if !ok {
			return "", "additional context k missing"
		}
		return v, ""
	case "env-string", "env-list", "env-long":
		if len(svc.EnvFiles) != 1 {
			return "", fmt.Sprintf("%d env_file entries", len(svc.EnvFiles))
		}
		return svc.EnvFiles[0].Path, ""
	case "label-list":
		if len(svc.LabelFiles) != 1 {
			return "", fmt.Sprintf("%d label_file entries", len(svc.LabelFiles))
		}
		return svc.LabelFiles[0], ""
	case "vol-short", "vol-long":
		for _, v := range svc.Volumes {
			if v.Target == "/t/"+pl.Name || v.Target == "/t/"+strings.TrimPrefix(pl.Name, "x") {
				want := "bind"
				if pl.Class == "named" {
					want = "volume"
				}
				if v.Type != want {
					return v.Source, "mount type " + v.Type + " instead of " + want
				}
				return v.Source, ""
			}
		}
		return "", "mount missing"
	case "watch":
		if svc.Develop == nil || len(svc.Develop.Watch) != 1 {
			return "", "no watch entry"
		}
		return svc.Develop.Watch[0].Path, ""
	}
	return "", "unknown kind"
}

// decoyProblems checks that the path-looking values of non-path attributes are as written.
func decoyProblems(p *types.Project, d decoy) (field, got, want string) {
	svc, ok := p.Services[d.Service]
	if !ok {
		return "service", "<missing>", d.Service
	}
	str := func(x *string) string {
		if x == nil {
			return "<nil>"
		}
		return *x
	}
	checks := [][3]string{
		{"image", svc.Image, "./img"},
		{"working_dir", svc.WorkingDir, "./rel/dir"},
		{"command", strings.Join(svc.Command, " "), "./run.sh ../x ~/y"},
		{"entrypoint", strings.Join(svc.Entrypoint, " "), "./entry.sh"},
		{"environment", str(svc.Environment["P"]) + " " + str(svc.Environment["Q"]) + " " + str(svc.Environment["R"]), "./x ~/y ../z"},
		{"labels", svc.Labels["path"], "./lbl"},
		{"user", svc.User, "~"},
		{"hostname", svc.Hostname, "./h"},
		{"dns_search", strings.Join(svc.DNSSearch, " "), "./search"},
	}
	if svc.Build != nil {
		checks = append(checks, [3]string{"build.dockerfile", svc.Build.Dockerfile, "./Dockerfile.x"},
			[3]string{"build.args", str(svc.Build.Args["A"]), "./a"}, [3]string{"build.target", svc.Build.Target, "./t"})
	} else {
		checks = append(checks, [3]string{"build", "<nil>", "present"})
	}
	if svc.HealthCheck != nil {
		checks = append(checks, [3]string{"healthcheck.test", strings.Join(svc.HealthCheck.Test, " "), "CMD ./check.sh"})
	}
	if svc.Logging != nil {
		checks = append(checks, [3]string{"logging.options", svc.Logging.Options["path"], "./log"})
	}
	if len(svc.Devices) == 1 {
		checks = append(checks, [3]string{"devices.source", svc.Devices[0].Source, "./dev/x"})
	} else {
		checks = append(checks, [3]string{"devices", fmt.Sprint(len(svc.Devices)), "1"})
	}
	for _, v := range svc.Volumes {
		switch v.Target {
		case "/t/named", "/t/long":
			checks = append(checks, [3]string{"volumes.source(named)", v.Type + ":" + v.Source, "volume:data"})
		case "/t/tmpfs":
			checks = append(checks, [3]string{"volumes.source(tmpfs)", v.Type + ":" + v.Source, "tmpfs:"})
		}
	}
	for _, c := range checks {
		if c[1] != c[2] {
			return c[0], c[1], c[2]
		}
	}
	return "", "", ""
}

// blankPaths erases the path attributes of the statement's list (so that the rest can be compared).
func blankPaths(p *types.Project) {
	for name, svc := range p.Services {
		if svc.Build != nil {
			svc.Build.Context = ""
			for k := range svc.Build.AdditionalContexts {
				svc.Build.AdditionalContexts[k] = ""
			}
		}
		for i := range svc.EnvFiles {
			svc.EnvFiles[i].Path = ""
		}
		for i := range svc.LabelFiles {
			svc.LabelFiles[i] = ""
		}
		for i := range svc.Volumes {
			if svc.Volumes[i].Type == "bind" {
				svc.Volumes[i].Source = ""
			}
		}
		if svc.Develop != nil {
			for i := range svc.Develop.Watch {
				svc.Develop.Watch[i].Path = ""
			}
		}
		p.Services[name] = svc
	}
	for n, r := range p.Secrets {
		r.File = ""
		p.Secrets[n] = r
	}
	for n, r := range p.Configs {
		r.File = ""
		p.Configs[n] = r
	}
	for n, v := range p.Volumes {
		if v.Driver == "local" && v.DriverOpts["o"] == "bind" {
			v.DriverOpts["device"] = ""
		}
		p.Volumes[n] = v
	}
}

func withHome(home string, f func()) {
	old, had := os.LookupEnv("HOME")
	os.Setenv("HOME", home) //nolint:errcheck
	defer func() {
		if had {
			os.Setenv("HOME", old) //nolint:errcheck
		} else {
			os.Unsetenv("HOME") //nolint:errcheck
		}
	}()
	f()
}

func shapeGroup(class string) string {
	switch class {
	case "relative", "home":
		return class
	}
	return "as-written:" + class
}

// judge runs the scenario and returns every refutation found (at most one per kind/attr/origin).
func judge(s *core.Shard, sc *scenario) (vs []verdict, decided bool) {
	work := s.Scratch()
	caseDir := filepath.Join(work, "case")
	homeRel = "home/u"
	if sc.Home != "" {
		homeRel = sc.Home
	}
	mc := materialised(&sc.Case, caseDir)
	var on ld.Result
	withHome(caseDir+"/"+homeRel, func() { _, on = ld.Run(work, mc) })
	s.Eval(1)
	if on.Panic != nil {
		return []verdict{{Kind: "panic", Attrs: map[string]string{"kind": "panic", "site": on.Panic.Site, "class": on.Panic.Class}, What: "load with path resolution panicked: " + on.Panic.Value, Extra: map[string]any{"stack.txt": on.Panic.Stack}}}, false
	}
	if on.Err != nil && strings.HasPrefix(on.Err.Error(), "harness:") {
		s.Inconclusive("cannot materialise a scenario: " + on.Err.Error())
		return nil, false
	}
	if on.Err != nil {
		return []verdict{{Kind: "resolved-load-failed", Attrs: map[string]string{"kind": "resolved-load-failed", "error": errorClass(on.Err.Error(), caseDir)},
			What: "a scenario that is valid by construction does not load with path resolution: " + firstLine(on.Err.Error()), Extra: map[string]any{"error.txt": on.Err.Error()}}}, false
	}
	seen := map[string]bool{}
	add := func(v verdict) {
		k := core.AttrKey(v.Attrs)
		if !seen[k] {
			seen[k] = true
			vs = append(vs, v)
		}
	}
	for _, pl := range sc.Placements {
		got, problem := actualOf(on.Project, pl)
		want := subst(pl.Expect, caseDir)
		if problem != "" {
			add(verdict{Kind: "path-attribute-lost", Attrs: map[string]string{"kind": "path-attribute-lost", "attr": pl.Attr, "origin": pl.Origin, "shape": shapeGroup(pl.Class)},
				What: fmt.Sprintf("%s of %s (%s, written %q in %s): %s", pl.Attr, pl.Name, pl.Kind, pl.Value, pl.Origin, problem)})
			continue
		}
		if got != want {
			kind := "wrong-path"
			if pl.Class != "relative" && pl.Class != "home" {
				kind = "path-rewritten"
			}
			add(verdict{Kind: kind, Attrs: map[string]string{"kind": kind, "attr": pl.Attr, "origin": pl.Origin, "shape": shapeGroup(pl.Class)},
				What: fmt.Sprintf("%s of %s (%s spelling) written %q in origin %s resolves to %q, expected %q", pl.Attr, pl.Name, pl.Kind, subst(pl.Value, caseDir), pl.Origin, got, want)})
		}
	}
	for _, d := range sc.Decoys {
		if f, got, want := decoyProblems(on.Project, d); f != "" {
			add(verdict{Kind: "non-path-rewritten", Attrs: map[string]string{"kind": "non-path-rewritten", "field": f, "origin": d.Origin},
				What: fmt.Sprintf("non-path attribute %s of %s (origin %s) is %q, written %q", f, d.Service, d.Origin, got, want)})
		}
	}

	// everything else equals the load without path resolution
	if !sc.HasLabel {
		off := *mc
		off.Opts.NoResolvePaths = true
		var ro ld.Result
		withHome(caseDir+"/"+homeRel, func() { _, ro = ld.Run(work, &off) })
		s.Eval(1)
		switch {
		case ro.Panic != nil:
			s.Add("unresolved_load_panicked", 1)
		case ro.Err != nil:
			s.Add("unresolved_load_failed", 1)
			s.Cover("unresolved-load-error", errorClass(ro.Err.Error(), caseDir))
		default:
			// (blanking mutates the resolved project: every check on it has been made above)
			blankPaths(on.Project)
			blankPaths(ro.Project)
			s.Add("compared_with_unresolved", 1)
			if dd := diff.Compare(on.Project, ro.Project, diff.Default()); dd != "" {
				add(verdict{Kind: "non-path-differs", Attrs: map[string]string{"kind": "non-path-differs", "field": diff.PathOf(dd)},
					What: "apart from the path attributes, the loads with and without path resolution differ: " + strings.ReplaceAll(dd, caseDir, caseTok)})
			}
		}
	}

	// resolving an already resolved model changes nothing (even against another base)
	var m map[string]any
	var merr error
	var mpi *core.PanicInfo
	withHome(caseDir+"/"+homeRel, func() {
		dir := filepath.Join(work, "case")
		m, merr, mpi = ld.LoadModel(dir, mc)
	})
	s.Eval(1)
	if mpi == nil && merr == nil && m != nil {
		before := deepCopy(m)
		var rerr error
		pi := core.Guard(func() {
			withHome(caseDir+"/"+homeRel, func() { rerr = paths.ResolveRelativePaths(m, "/c12-elsewhere", nil) })
		})
		switch {
		case pi != nil:
			add(verdict{Kind: "panic", Attrs: map[string]string{"kind": "panic", "site": pi.Site, "class": pi.Class, "op": "second-resolution"}, What: "resolving the resolved model panicked: " + pi.Value, Extra: map[string]any{"stack.txt": pi.Stack}})
		case rerr != nil:
			add(verdict{Kind: "second-resolution-failed", Attrs: map[string]string{"kind": "second-resolution-failed"}, What: "resolving the resolved model failed: " + firstLine(rerr.Error())})
		default:
			s.Add("second_resolution_compared", 1)
			if where, a, b := mapDiff(before, m, ""); where != "" {
				add(verdict{Kind: "not-idempotent", Attrs: map[string]string{"kind": "not-idempotent", "field": stablePath(where)},
					What: fmt.Sprintf("resolving the already resolved model changed %s from %v to %v", where, a, b)})
			}
		}
	} else {
		s.Add("model_load_failed", 1)
	}
	return vs, true
}

func deepCopy(v any) any {
	switch x := v.(type) {
	case map[string]any:
		m := make(map[string]any, len(x))
		for k, e := range x {
			m[k] = deepCopy(e)
		}
		return m
	case []any:
		l := make([]any, len(x))
		for i, e := range x {
			l[i] = deepCopy(e)
		}
		return l
	}
	return v
}

func mapDiff(a, b any, p string) (string, any, any) {
	switch x := a.(type) {
	case map[string]any:
		y, ok := b.(map[string]any)
		if !ok || len(x) != len(y) {
			return p, a, b
		}
		keys := make([]string, 0, len(x))
		for k := range x {
			keys = append(keys, k)
		}
		sort.Strings(keys)
		for _, k := range keys {
			if w, u, v := mapDiff(x[k], y[k], p+"."+k); w != "" {
				return w, u, v
			}
		}
		return "", nil, nil
	case []any:
		y, ok := b.([]any)
		if !ok || len(x) != len(y) {
			return p, a, b
		}
		for i := range x {
			if w, u, v := mapDiff(x[i], y[i], fmt.Sprintf("%s[%d]", p, i)); w != "" {
				return w, u, v
			}
		}
		return "", nil, nil
	}
	if !reflect.DeepEqual(a, b) {
		return p, a, b
	}
	return "", nil, nil
}

// stablePath drops resource names and indexes: .services.p3.volumes[0].source -> services.volumes.source
func stablePath(p string) string {
	parts := strings.Split(strings.TrimPrefix(p, "."), ".")
	var out []string
	for i, x := range parts {
		if j := strings.Index(x, "["); j >= 0 {
			x = x[:j]
		}
		if i == 1 && (parts[0] == "services" || parts[0] == "volumes" || parts[0] == "secrets" || parts[0] == "configs" || parts[0] == "networks") {
			continue
		}
		out = append(out, x)
	}
	return strings.Join(out, ".")
}

func firstLine(s string) string {
	s = strings.TrimSpace(strings.ReplaceAll(s, "\n", " "))
	if len(s) > 300 {
		s = s[:300] + "..."
	}
	return s
}

var pathish = regexp.MustCompile(`"[^"]*"|\S*/\S*`)

func errorClass(msg, caseDir string) string {
	msg = firstLine(strings.ReplaceAll(msg, caseDir, caseTok))
	msg = pathish.ReplaceAllString(msg, "_")
	// drop the generated service numbers
	var sb strings.Builder
	for _, r := range msg {
		if r >= '0' && r <= '9' {
			continue
		}
		sb.WriteRune(r)
	}
	msg = sb.String()
	if len(msg) > 90 {
		msg = msg[:90]
	}
	return msg
}

func reportAll(s *core.Shard, sc *scenario, vs []verdict) {
	for _, v := range vs {
		files := map[string]any{"case.json": sc}
		for name, content := range sc.Case.Files {
			files["input/"+name] = content
		}
		for k, x := range v.Extra {
			files[k] = x
		}
		s.Violation(v.Attrs, v.What, files)
	}
}

// ---------------------------------------------------------------------------

func run(s *core.Shard) {
	runSymlinks(s, 7, "")
	runComposed(s, 3, "")
	runNonPaths(s, 2, false)
	combos := allCombos()
	r := s.Rand("scenarios")
	r.Shuffle(len(combos), func(i, j int) { combos[i], combos[j] = combos[j], combos[i] })
	if s.Index == 0 {
		s.Add("product_size", len(combos))
	}
	rounds := s.Pick(3, 40) // how many times the whole product is walked (with different companions)
	caseNo := 0
	samples := 0
	for round := 0; round < rounds; round++ {
		if round > 0 {
			r.Shuffle(len(combos), func(i, j int) { combos[i], combos[j] = combos[j], combos[i] })
		}
		for at := 0; at < len(combos); {
			n := 2 + r.Intn(6)
			if at+n > len(combos) {
				n = len(combos) - at
			}
			group := append([]combo(nil), combos[at:at+n]...)
			at += n
			wdSeed, elsewhere := r.Intn(len(wdShapes)), r.Intn(3)
			caseNo++
			if !s.Mine(caseNo) {
				continue
			}
			if !s.Begin(fmt.Sprintf("scenario/%d/%d", round, caseNo)) {
				continue
			}
			sc := build(wdSeed, elsewhere, group)
			vs, decided := judge(s, sc)
			reportAll(s, sc, vs)
			if !decided {
				continue
			}
			s.Add("scenarios_decided", 1)
			s.Add("placements_checked", len(sc.Placements))
			nontrivial := false
			for _, pl := range sc.Placements {
				s.Cover("attribute-spelling", pl.Kind)
				s.Cover("shape", pl.Shape)
				s.Cover("origin", pl.Origin)
				s.Cover("attribute-x-origin", pl.Attr+" @ "+pl.Origin)
				if (pl.Class == "relative" || pl.Class == "home") && pl.Origin != "main" || pl.Class != "relative" && pl.Class != "home" {
					nontrivial = true
				}
			}
			s.Cover("project-directory", sc.WD)
			s.Cover("main-file", map[bool]string{true: "outside the project directory", false: "inside the project directory"}[elsewhere%3 == 1])
			if nontrivial {
				s.Nontrivial(sc.Case.Key(), fmt.Sprint(sc.Placements))
			}
			if len(vs) == 0 && samples < 2 && s.WantSample() && len(sc.Placements) <= 3 {
				samples++
				s.Sample(map[string]any{"project_directory": sc.WD, "compose_files": sc.Case.ComposeFiles, "files": sc.Case.Files, "placements": sc.Placements})
			}
		}
	}
}

func replay(s *core.Shard, dir string) {
	var kind struct {
		Kind string `json:"kind"`
		ID   string `json:"id"`
	}
	if err := core.ReadJSON(filepath.Join(dir, "case.json"), &kind); err == nil && kind.Kind == "symlinks" {
		runSymlinks(s, 0, kind.ID)
		return
	}
	if kind.Kind == "composed" {
		runComposed(s, 0, kind.ID)
		return
	}
	if kind.Kind == "non-paths" {
		runNonPaths(s, 0, true)
		return
	}
	var sc scenario
	if err := core.ReadJSON(filepath.Join(dir, "case.json"), &sc); err != nil {
		s.Inconclusive("replay: " + err.Error())
		return
	}
	vs, _ := judge(s, &sc)
	reportAll(s, &sc, vs)
	s.Add(fmt.Sprintf("replay_violations_%d", len(vs)), 1)
}

func witness(s *core.Shard, f core.Finding) (bool, string) {
	var kind struct {
		Kind string `json:"kind"`
		ID   string `json:"id"`
	}
	if err := json.Unmarshal(f.Witness, &kind); err == nil && kind.Kind == "composed" {
		hit, what := false, "held"
		composedSink = func(attrs map[string]string, w string) {
			if f.Matches(attrs) {
				hit, what = true, w
			}
		}
		runComposed(s, 0, kind.ID)
		composedSink = nil
		return hit, what
	}
	var sc scenario
	if err := json.Unmarshal(f.Witness, &sc); err != nil {
		return false, "bad witness: " + err.Error()
	}
	vs, _ := judge(s, &sc)
	for _, v := range vs {
		if f.Matches(v.Attrs) {
			return true, v.What
		}
	}
	if len(vs) > 0 {
		return false, "witness now fails differently: " + vs[0].What
	}
	return false, "held"
}

func floor(tier string, m *core.Merged) []string {
	var r []string
	c := m.Counters
	if c["scenarios_decided"] < 200 || c["placements_checked"] < 1000 || c["compared_with_unresolved"] < 50 || c["second_resolution_compared"] < 200 {
		r = append(r, fmt.Sprintf("too few decided scenarios: %v", c))
	}
	for _, k := range attrKinds {
		if m.Cover["attribute-spelling"][k.Name] == 0 {
			r = append(r, "attribute spelling never exercised: "+k.Name)
		}
	}
	for _, sh := range shapes {
		if m.Cover["shape"][sh.Name] == 0 {
			r = append(r, "path shape never exercised: "+sh.Name)
		}
	}
	for _, o := range origins {
		if m.Cover["origin"][o] == 0 {
			r = append(r, "origin never exercised: "+o)
		}
	}
	return r
}
