package c12

import (
	"fmt"
	"os"
	"path/filepath"

	"verif/harness/internal/core"
	"verif/harness/internal/ld"
)

// A develop.watch path is the one local path whose symbolic links the library resolves. Whatever it
// does with the links, the statement still holds for the result: it is absolute, and it designates
// the file that "base directory joined with the value" designates. Here a directory component of
// the path is a link (stored with a relative or an absolute target), in the main project, in an
// included project and in the directory of an extended file.
func runSymlinks(s *core.Shard, offset int, only string) {
	type lk struct{ link, target string } // link path relative to the case root; target as stored
	type sc struct {
		id    string
		links func(root string) []lk
	}
	cases := []sc{
		{"relative-target", func(string) []lk {
			return []lk{{"proj/linked", "real"}, {"proj/sub/shared", "../common"}, {"proj/ext/elink", "etarget"}}
		}},
		{"absolute-target", func(root string) []lk {
			return []lk{{"proj/linked", filepath.Join(root, "proj/real")}, {"proj/sub/shared", filepath.Join(root, "proj/common")}, {"proj/ext/elink", filepath.Join(root, "proj/ext/etarget")}}
		}},
		{"relative-target-outside-project", func(string) []lk {
			return []lk{{"proj/linked", "../outside/real"}, {"proj/sub/shared", "../../outside/common"}, {"proj/ext/elink", "../../outside/etarget"}}
		}},
		{"chain-of-links", func(string) []lk {
			return []lk{{"proj/linked", "hop"}, {"proj/hop", "real"}, {"proj/sub/shared", "../common"}, {"proj/ext/elink", "etarget"}}
		}},
	}
	for i, c := range cases {
		for _, deep := range []bool{false, true} {
			id := fmt.Sprintf("%s/deep=%v", c.id, deep)
			if only != "" {
				if id != only {
					continue
				}
			} else {
				if !s.Mine(offset + 2*i + map[bool]int{false: 0, true: 1}[deep]) {
					continue
				}
				if !s.Begin("symlinks/" + id) {
					continue
				}
			}
			sub := "src"
			if deep {
				sub = "a/b/src"
			}
			lc := &ld.Case{
				Files: map[string]string{
					"proj/compose.yaml": "include:\n  - ./sub/compose.yaml\nservices:\n  a:\n    image: img\n    develop:\n      watch:\n        - {path: ./linked/" + sub + ", action: rebuild}\n        - {path: ./plain/src, action: rebuild}\n" +
						"  b:\n    extends: {file: ./ext/base.yaml, service: base}\n",
					"proj/sub/compose.yaml": "services:\n  c:\n    image: img\n    develop:\n      watch:\n        - {path: ./shared/" + sub + ", action: rebuild}\n",
					"proj/ext/base.yaml":    "services:\n  base:\n    image: img\n    develop:\n      watch:\n        - {path: ./elink/" + sub + ", action: rebuild}\n",
				},
				Dirs: []string{"proj/real/" + sub, "proj/common/" + sub, "proj/ext/etarget/" + sub, "proj/plain/src",
					"outside/real/" + sub, "outside/common/" + sub, "outside/etarget/" + sub},
				ComposeFiles: []string{"proj/compose.yaml"}, WorkingDir: "proj",
			}
			root := filepath.Join(s.Scratch(), "case")
			_ = os.RemoveAll(root)
			if err := os.MkdirAll(root, 0o755); err != nil {
				s.Inconclusive("symlinks: " + err.Error())
				continue
			}
			if r, err := filepath.EvalSymlinks(root); err == nil {
				root = r
			}
			if err := ld.Materialise(root, lc); err != nil {
				s.Inconclusive("symlinks: " + err.Error())
				continue
			}
			ok := true
			for _, l := range c.links(root) {
				if err := os.Symlink(l.target, filepath.Join(root, l.link)); err != nil {
					s.Inconclusive("symlinks: " + err.Error())
					ok = false
				}
			}
			if !ok {
				continue
			}
			res := ld.Load(root, lc)
			s.Eval(1)
			files := map[string]any{"case.json": map[string]any{"kind": "symlinks", "id": id, "case": lc}}
			if res.Panic != nil {
				ld.PanicViolation(s, res.Panic, lc, map[string]string{"part": "symlinks"})
				continue
			}
			if res.Err != nil {
				s.Violation(map[string]string{"kind": "load-failed", "part": "symlinks", "scenario": c.id},
					fmt.Sprintf("symlinks/%s: a watch path through a directory link fails the load: %v", id, res.Err), files)
				continue
			}
			want := map[string]string{ // service -> base directory joined with the value
				"a": filepath.Join(root, "proj", "linked", sub),
				"b": filepath.Join(root, "proj", "ext", "elink", sub),
				"c": filepath.Join(root, "proj", "sub", "shared", sub),
			}
			for svc, w := range want {
				sv, found := res.Project.Services[svc]
				if !found || sv.Develop == nil || len(sv.Develop.Watch) == 0 {
					s.Violation(map[string]string{"kind": "wrong-path", "part": "symlinks", "attribute": "develop.watch.path"},
						fmt.Sprintf("symlinks/%s: service %s lost its watch entry", id, svc), files)
					continue
				}
				got := sv.Develop.Watch[0].Path
				s.Add("symlinked_watch_paths_checked", 1)
				s.Cover("symlinked-watch-path", c.id+" @ "+map[string]string{"a": "main", "b": "extends-file", "c": "include"}[svc])
				if !filepath.IsAbs(got) {
					s.Violation(map[string]string{"kind": "not-absolute", "part": "symlinks", "attribute": "develop.watch.path", "origin": svc},
						fmt.Sprintf("symlinks/%s: watch path of service %s is %q after loading with path resolution: not absolute", id, svc, got), files)
					continue
				}
				rg, e1 := filepath.EvalSymlinks(got)
				rw, e2 := filepath.EvalSymlinks(w)
				if e1 != nil || e2 != nil || rg != rw {
					s.Violation(map[string]string{"kind": "wrong-path", "part": "symlinks", "attribute": "develop.watch.path", "origin": svc},
						fmt.Sprintf("symlinks/%s: watch path of service %s is %q, which is not the directory that %q designates (%q vs %q, %v %v)", id, svc, got, w, rg, rw, e1, e2), files)
				}
			}
			if pl := res.Project.Services["a"]; pl.Develop != nil && len(pl.Develop.Watch) > 1 {
				if got, w := pl.Develop.Watch[1].Path, filepath.Join(root, "proj", "plain", "src"); got != w {
					s.Violation(map[string]string{"kind": "wrong-path", "part": "symlinks", "attribute": "develop.watch.path", "origin": "plain"},
						fmt.Sprintf("symlinks/%s: link-free watch path is %q, expected %q", id, got, w), files)
				}
			}
			s.Nontrivial("symlinks", id)
		}
	}
}

var _ = core.Guard
