package c12

import (
	"fmt"
	"path/filepath"

	"github.com/compose-spec/compose-go/v2/types"

	"verif/harness/internal/core"
	"verif/harness/internal/ld"
)

// Origins composed: a service of an included project (one or two include levels deep, in another
// directory than the parent) that extends a service of the same file, or of another file of that
// project, and inherits its relative paths without redeclaring them. Base and derived service both
// carry "included project directory joined with the value" (or, for a base file in yet another
// directory, that file's directory).
// composedSink, when set, receives the violations of runComposed instead of the shard (witness replay).
var composedSink func(attrs map[string]string, what string)

func runComposed(s *core.Shard, offset int, only string) {
	violation := func(attrs map[string]string, what string, files map[string]any) {
		if composedSink != nil {
			composedSink(attrs, what)
			return
		}
		s.Violation(attrs, what, files)
	}
	type cc struct {
		id      string
		incDir  string // directory of the included project, relative to proj
		twoHops bool   // reached through an intermediate included project
		extFile string // "" = base in the same file, else the base file relative to the included project directory
	}
	cases := []cc{
		{"include+same-file-extends", "sub", false, ""},
		{"include+extends-other-file-same-dir", "sub", false, "base.yaml"},
		{"include+extends-other-file-other-dir", "sub", false, "lib/base.yaml"},
		{"include-twice+same-file-extends", "mid/sub", true, ""},
		{"include-sibling-dir+same-file-extends", "../sibling", false, ""},
		// directory names that look like something else once they stand at the head of a relative path
		{"include-dir-named-like-home", "~shared", false, ""},
		{"include-dir-named-like-a-git-host", "github.com/acme/app", false, ""},
		{"include+extends-file-in-dir-named-like-home", "sub", false, "~lib/base.yaml"},
	}
	for i, c := range cases {
		if only != "" {
			if c.id != only {
				continue
			}
		} else {
			if !s.Mine(offset + i) {
				continue
			}
			if !s.Begin("composed/" + c.id) {
				continue
			}
		}
		baseSvc := "  base:\n    image: img\n    build:\n      context: ./ctx\n      additional_contexts:\n        extra: ./actx\n" +
			"    develop:\n      watch:\n        - {path: ./src, action: rebuild}\n    env_file: [./e.env]\n    volumes: [\"./data:/data\"]\n"
		inc := filepath.Join("proj", c.incDir)
		files := map[string]string{}
		derived := "  derived:\n    extends: {service: base}\n    labels: {d: \"1\"}\n"
		baseDir := inc
		if c.extFile == "" {
			files[filepath.Join(inc, "compose.yaml")] = "services:\n" + baseSvc + derived
		} else {
			derived = "  derived:\n    extends: {file: ./" + c.extFile + ", service: base}\n    labels: {d: \"1\"}\n"
			files[filepath.Join(inc, "compose.yaml")] = "services:\n" + derived
			files[filepath.Join(inc, c.extFile)] = "services:\n" + baseSvc
			baseDir = filepath.Join(inc, filepath.Dir(c.extFile))
		}
		files[filepath.Join(baseDir, "e.env")] = "E=1\n"
		if c.twoHops {
			files["proj/compose.yaml"] = "include:\n  - ./mid/compose.yaml\nservices:\n  main:\n    image: img\n"
			files["proj/mid/compose.yaml"] = "include:\n  - ./sub/compose.yaml\nservices:\n  middle:\n    image: img\n"
		} else {
			files["proj/compose.yaml"] = "include:\n  - " + c.incDir + "/compose.yaml\nservices:\n  main:\n    image: img\n"
		}
		lc := &ld.Case{Files: files, Dirs: []string{filepath.Join(baseDir, "ctx"), filepath.Join(baseDir, "actx"), filepath.Join(baseDir, "src"), filepath.Join(baseDir, "data")},
			ComposeFiles: []string{"proj/compose.yaml"}, WorkingDir: "proj"}
		dir, res := ld.Run(s.Scratch(), lc)
		s.Eval(1)
		rf := map[string]any{"case.json": map[string]any{"kind": "composed", "id": c.id, "case": lc}}
		if res.Panic != nil {
			ld.PanicViolation(s, res.Panic, lc, map[string]string{"part": "composed"})
			continue
		}
		if res.Err != nil {
			violation(map[string]string{"kind": "load-failed", "part": "composed", "scenario": c.id}, fmt.Sprintf("composed/%s does not load: %v", c.id, res.Err), rf)
			continue
		}
		want := filepath.Clean(filepath.Join(dir, baseDir))
		for _, name := range []string{"base", "derived"} {
			sv, ok := res.Project.Services[name]
			if !ok {
				if name == "base" && c.extFile != "" {
					continue // the base lives in a file that is only extended from
				}
				violation(map[string]string{"kind": "wrong-path", "part": "composed", "scenario": c.id}, fmt.Sprintf("composed/%s: service %s missing", c.id, name), rf)
				continue
			}
			got := composedPaths(sv)
			exp := map[string]string{
				"build.context": filepath.Join(want, "ctx"), "build.additional_contexts.extra": filepath.Join(want, "actx"),
				"develop.watch.path": filepath.Join(want, "src"), "env_file": filepath.Join(want, "e.env"), "volumes.source": filepath.Join(want, "data"),
			}
			for attr, w := range exp {
				s.Add("composed_paths_checked", 1)
				if got[attr] != w {
					violation(map[string]string{"kind": "wrong-path", "part": "composed", "attribute": attr, "scenario": c.id, "service": name},
						fmt.Sprintf("composed/%s: %s of service %s is %q, expected %q (the directory of the file that declares it, joined with the value)", c.id, attr, name, got[attr], w), rf)
				}
			}
		}
		s.Cover("origins-composed", c.id)
		s.Nontrivial("composed", c.id)
	}
}

func composedPaths(sv types.ServiceConfig) map[string]string {
	out := map[string]string{}
	if sv.Build != nil {
		out["build.context"] = sv.Build.Context
		out["build.additional_contexts.extra"] = sv.Build.AdditionalContexts["extra"]
	}
	if sv.Develop != nil && len(sv.Develop.Watch) > 0 {
		out["develop.watch.path"] = sv.Develop.Watch[0].Path
	}
	if len(sv.EnvFiles) > 0 {
		out["env_file"] = sv.EnvFiles[0].Path
	}
	if len(sv.Volumes) > 0 {
		out["volumes.source"] = sv.Volumes[0].Source
	}
	return out
}

// runNonPaths: sources that are not paths - mounts of the types npipe, cluster and image, named
// volumes, service / container references - stay as written, in the main file and in an included one.
func runNonPaths(s *core.Shard, offset int, force bool) {
	if !force && (!s.Mine(offset) || !s.Begin("non-paths")) {
		return
	}
	svc := "    image: img\n    volumes:\n      - {type: npipe, source: '\\\\.\\pipe\\docker_engine', target: '\\\\.\\pipe\\docker_engine'}\n      - {type: cluster, source: 'group:mygroup', target: /c}\n      - {type: image, source: 'alpine:3.19', target: /i}\n      - {type: volume, source: data, target: /d}\n      - {type: tmpfs, target: /t}\n"
	lc := &ld.Case{Files: map[string]string{
		"proj/compose.yaml":     "include:\n  - sub/compose.yaml\nservices:\n  a:\n" + svc + "volumes:\n  data: {}\n",
		"proj/sub/compose.yaml": "services:\n  b:\n" + svc,
	}, ComposeFiles: []string{"proj/compose.yaml"}, WorkingDir: "proj"}
	_, res := ld.Run(s.Scratch(), lc)
	s.Eval(1)
	rf := map[string]any{"case.json": map[string]any{"kind": "non-paths", "case": lc}}
	if res.Panic != nil {
		ld.PanicViolation(s, res.Panic, lc, map[string]string{"part": "non-paths"})
		return
	}
	if res.Err != nil {
		s.Inconclusive("non-paths: the document does not load: " + res.Err.Error())
		return
	}
	want := map[string]string{"npipe": `\\.\pipe\docker_engine`, "cluster": "group:mygroup", "image": "alpine:3.19", "volume": "data", "tmpfs": ""}
	for _, name := range []string{"a", "b"} {
		for _, v := range res.Project.Services[name].Volumes {
			s.Add("non_path_sources_checked", 1)
			if w, ok := want[v.Type]; ok && v.Source != w {
				s.Violation(map[string]string{"kind": "non-path-rewritten", "part": "non-paths", "attribute": "volumes.source", "type": v.Type},
					fmt.Sprintf("the source of a mount of type %s (service %s) is %q after loading, it was written %q and is not a path", v.Type, name, v.Source, w), rf)
			}
		}
	}
	s.Cover("origins-composed", "non-path mount sources")
	s.Nontrivial("non-paths")
}
