// Package c18 checks property C18: the env-file parser implements the dotenv
// grammar and never crashes.
//
// Part 1 (constructive): files of 1..6 lines are drawn as semantic values
// (key, quoting style, literal pieces and variable references) and rendered
// with the escapes each style requires; the expected map is the fold of the
// semantic values (internal/ref/dotenv.go). Lines the statement requires to be
// rejected (unterminated quote, empty key, invalid key character, required
// variable missing) make the whole file an expected error.
// Part 2 (exhaustive): every byte string over a 14-symbol alphabet up to a
// length bound: never a panic; where the conservative backward reference
// (ref.DotParse) decides the outcome, the outcome is compared.
// Part 3 (mutation): every prefix of, and seeded byte mutations of, rendered
// files: never a panic; decided outcomes compared.
package c18

import (
	"encoding/json"
	"fmt"
	"os"
	"path/filepath"
	"sort"
	"strconv"
	"strings"

	"github.com/compose-spec/compose-go/v2/dotenv"
	"github.com/sirupsen/logrus"

	"verif/harness/internal/core"
	"verif/harness/internal/ref"
)

func init() {
	logrus.SetLevel(logrus.PanicLevel)
	core.Register(&core.Spec{
		ID:    "C18",
		Level: "exploration",
		Rule: "part 1: seeded files of 1..6 lines drawn from the line grammar as semantic values (key shape x export prefix x separator x {unquoted, single-quoted, double-quoted} x literal alphabets incl. quotes, backslashes, #, $, newlines, unicode blanks x references $V ${V} ${V:-d} ${V-d} ${V:+r} ${V+r} ${V:?m} ${V?m} to names defined in the lookup, an earlier line, both or neither; bare keys, comments, blank lines, LF/CRLF, BOM, with and without a final newline; must-fail lines: unterminated quote, empty key, invalid key character, required variable missing), expected map = fold of the semantic values, run through UnmarshalWithLookup, ParseWithLookup and (sampled) GetEnvFromFile; " +
			"part 2: every byte string over {A 1 _ = : ' \" \\ $ # space newline { }} up to length 5 (quick) / 6 (thorough) x 2 lookups: no panic, outcome compared wherever the backward reference decides it; " +
			"part 3: every prefix and seeded byte mutations of rendered files: no panic, decided outcomes compared. " +
			"A case is non-trivial when the file holds at least one assignment, bare key or must-fail line and the reference decides its outcome; distinct = distinct (file bytes, lookup).",
		Assumptions: []string{
			"the reference models in internal/ref/dotenv.go are a faithful reading of the statement and of the published env-file syntax rules",
			"only the error is looked at when a function returns an error (the partially filled map handed back with it is not specified)",
			"not asserted (observed for crashes only): keys starting with a digit, `[`/`]` and non-ASCII letters in keys, `:` not followed by a blank, text after a closing quote other than a comment, `#` directly after the separator, escapes outside \\n \\t \\r \\\\ \\\" \\$ in double quotes, a backslash before `$`/end of line in unquoted values, several backslashes before a single quote, trailing unicode blanks of unquoted values, a bare key absent from the lookup after an assignment of the same key",
			"the UTF-8 BOM is a property of files/readers: BOM-prefixed inputs go through ParseWithLookup and GetEnvFromFile only",
		},
		Exhaustive: func(string) bool { return true },
		CPUBudget:  func(string) float64 { return 300 },
		Run:        run,
		Replay:     replay,
		Witness:    witness,
		Floor: func(tier string, m *core.Merged) []string {
			var r []string
			c := m.Counters
			if c["constructive_files"] < 20000 || c["decided_map"] < 20000 || c["decided_error"] < 2000 || c["strings_enumerated"] < 500000 || c["mutants"] < 20000 {
				r = append(r, fmt.Sprintf("too few decided cases: %v", c))
			}
			for _, st := range []string{"unquoted", "single", "double"} {
				if m.Cover["style"][st] == 0 {
					r = append(r, "quoting style never exercised: "+st)
				}
			}
			for _, f := range []string{"bare-present", "bare-absent", "export", "inline-comment", "multi-line", "crlf", "bom", "no-final-newline", "ref-lookup", "ref-earlier", "ref-both", "ref-undefined", "mustfail-unterminated", "mustfail-empty-key", "mustfail-bad-key", "mustfail-required"} {
				if m.Cover["feature"][f] == 0 {
					r = append(r, "feature never exercised: "+f)
				}
			}
			return r
		},
	})
}

// ---------------------------------------------------------------------------
// small deterministic PRNG (one per case, so that a shard only generates its own cases)

type rng struct{ s uint64 }

func (r *rng) next() uint64 {
	r.s += 0x9e3779b97f4a7c15
	z := r.s
	z = (z ^ (z >> 30)) * 0xbf58476d1ce4e5b9
	z = (z ^ (z >> 27)) * 0x94d049bb133111eb
	return z ^ (z >> 31)
}
func (r *rng) n(n int) int { return int(r.next() % uint64(n)) }
func (r *rng) p(num, den int) bool {
	return r.n(den) < num
}
func pickS(r *rng, l []string) string { return l[r.n(len(l))] }

// ---------------------------------------------------------------------------
// the system under test, three entry points

type result struct {
	m   map[string]string
	err error
	pi  *core.PanicInfo
}

func lookupFn(m map[string]string) dotenv.LookupFn {
	return func(k string) (string, bool) { v, ok := m[k]; return v, ok }
}

func callUnmarshal(src string, look map[string]string) (r result) {
	r.pi = core.Guard(func() { r.m, r.err = dotenv.UnmarshalWithLookup(src, lookupFn(look)) })
	return
}

func callParse(src string, look map[string]string) (r result) {
	r.pi = core.Guard(func() { r.m, r.err = dotenv.ParseWithLookup(strings.NewReader(src), lookupFn(look)) })
	return
}

func callFile(work, src string, look map[string]string) (r result) {
	p := filepath.Join(work, "c18.env")
	if err := os.WriteFile(p, []byte(src), 0o644); err != nil {
		r.err = fmt.Errorf("harness: %w", err)
		return
	}
	r.pi = core.Guard(func() { r.m, r.err = dotenv.GetEnvFromFile(look, []string{p}) })
	return
}

// ---------------------------------------------------------------------------
// judging

type expectation struct {
	Status ref.DotStatus
	Map    map[string]string
	Reason string // for DotMustError: unterminated-quote | empty-key | invalid-key | required-variable
	Detail string // e.g. the offending key character (stable name)
}

type verdict struct {
	attrs map[string]string
	what  string
}

const bom = "\uFEFF"

func showMap(m map[string]string) string {
	keys := make([]string, 0, len(m))
	for k := range m {
		keys = append(keys, k)
	}
	sort.Strings(keys)
	var sb strings.Builder
	sb.WriteByte('{')
	for i, k := range keys {
		if i > 0 {
			sb.WriteString(", ")
		}
		sb.WriteString(strconv.Quote(k) + ": " + strconv.Quote(m[k]))
	}
	sb.WriteByte('}')
	return sb.String()
}

func sameMap(a, b map[string]string) bool {
	if len(a) != len(b) {
		return false
	}
	for k, v := range a {
		if w, ok := b[k]; !ok || w != v {
			return false
		}
	}
	return true
}

// mapDiff names the kind of the first difference (sorted by key) between got and want.
func mapDiff(got, want map[string]string) (kind, what string) {
	keys := map[string]bool{}
	for k := range got {
		keys[k] = true
	}
	for k := range want {
		keys[k] = true
	}
	var ks []string
	for k := range keys {
		ks = append(ks, k)
	}
	sort.Strings(ks)
	for _, k := range ks {
		g, gok := got[k]
		w, wok := want[k]
		switch {
		case gok && !wok:
			return "extra-key", fmt.Sprintf("unexpected key %q = %q", k, g)
		case !gok && wok:
			return "missing-key", fmt.Sprintf("key %q missing (expected %q)", k, w)
		case g != w:
			return "wrong-value", fmt.Sprintf("key %q = %q, expected %q", k, g, w)
		}
	}
	return "", ""
}

// Findings on the pinned tree (details and witnesses: FINDINGS.md of this package):
//
//	kind=bare-key-at-eof                 "KEY" without final newline => {"": "KEY"}
//	kind=empty-key-accepted              "=x" => {"": "x"} (pinned by dotenv TestParsing)
//	kind=invalid-key-accepted char=tab   "A\tB=x" => {"A\tB": "x"} while "A B=x" is rejected
//
// judge compares one execution with the expectation. api names the entry
// point, call re-runs the same entry point on another source (used to
// attribute a mismatch to the end-of-input family).
func judge(api, src string, look map[string]string, r result, exp expectation, call func(string) result) []verdict {
	if r.pi != nil {
		return []verdict{{map[string]string{"kind": "panic", "site": r.pi.Site, "class": r.pi.Class},
			fmt.Sprintf("%s panicked on %q: %s", api, src, r.pi.Value)}}
	}
	if exp.Status == ref.DotUndecided {
		return nil
	}
	ok := func(r result) bool {
		if r.pi != nil {
			return false
		}
		if exp.Status == ref.DotMustError {
			return r.err != nil
		}
		return r.err == nil && sameMap(r.m, exp.Map)
	}
	if ok(r) {
		return nil
	}
	// A map holding the empty key is never a result of the grammar. Two input
	// families produce it; tell them apart by construction of a neighbour input.
	if _, has := r.m[""]; has && r.err == nil {
		if !strings.HasSuffix(src, "\n") {
			if r2 := call(src + "\n"); ok(r2) {
				return []verdict{{map[string]string{"kind": "bare-key-at-eof"},
					fmt.Sprintf("%s(%q) = %s: the last line has no line terminator and was stored as the value of the empty key; with a final newline the result is the expected one (%s)", api, src, showMap(r.m), expText(exp))}}
			}
		}
		if exp.Status == ref.DotMustError && exp.Reason == "empty-key" {
			return []verdict{{map[string]string{"kind": "empty-key-accepted"},
				fmt.Sprintf("%s(%q) = %s: an assignment with an empty key was accepted; expected %s", api, src, showMap(r.m), expText(exp))}}
		}
	}
	if exp.Status == ref.DotMustError {
		attrs := map[string]string{"kind": "missing-error", "reason": exp.Reason}
		if exp.Reason == "invalid-key" && exp.Detail != "" {
			attrs = map[string]string{"kind": "invalid-key-accepted", "char": exp.Detail}
		}
		return []verdict{{attrs, fmt.Sprintf("%s(%q) = %s without an error; the statement requires an error (%s)", api, src, showMap(r.m), exp.Reason)}}
	}
	if r.err != nil {
		return []verdict{{map[string]string{"kind": "unexpected-error"},
			fmt.Sprintf("%s(%q) failed: %v; expected %s", api, src, r.err, showMap(exp.Map))}}
	}
	kind, what := mapDiff(r.m, exp.Map)
	return []verdict{{map[string]string{"kind": kind}, fmt.Sprintf("%s(%q) lookup=%s: %s; got %s expected %s", api, src, showMap(look), what, showMap(r.m), showMap(exp.Map))}}
}

func expText(e expectation) string {
	if e.Status == ref.DotMustError {
		return "an error (" + e.Reason + ")"
	}
	return showMap(e.Map)
}

type replayCase struct {
	Src       []byte            `json:"src_base64"`
	SrcQuoted string            `json:"src_quoted"`
	Lookup    map[string]string `json:"lookup"`
	// Mode "stored": Expect* is the oracle (constructive cases);
	// Mode "reference": ref.DotParse(src) is the oracle (strings, mutants).
	Mode      string            `json:"mode"`
	ExpectErr string            `json:"expect_error,omitempty"` // reason, "" = a map is expected
	Detail    string            `json:"detail,omitempty"`
	Expect    map[string]string `json:"expect,omitempty"`
	Part      string            `json:"part,omitempty"`
}

func mkReplay(src string, look map[string]string, mode, part string, exp expectation) replayCase {
	rc := replayCase{Src: []byte(src), SrcQuoted: strconv.Quote(src), Lookup: look, Mode: mode, Part: part}
	if mode == "stored" {
		if exp.Status == ref.DotMustError {
			rc.ExpectErr, rc.Detail = exp.Reason, exp.Detail
		} else {
			rc.Expect = exp.Map
		}
	}
	return rc
}

func (rc replayCase) expectation() expectation {
	if rc.Mode == "stored" {
		if rc.ExpectErr != "" {
			return expectation{Status: ref.DotMustError, Reason: rc.ExpectErr, Detail: rc.Detail}
		}
		m := rc.Expect
		if m == nil {
			m = map[string]string{}
		}
		return expectation{Status: ref.DotDecided, Map: m}
	}
	return fromRef(ref.DotParse(strings.TrimPrefix(string(rc.Src), bom), rc.Lookup))
}

func fromRef(o ref.DotOutcome) expectation {
	return expectation{Status: o.Status, Map: o.Map, Reason: o.Reason, Detail: o.Detail}
}

// runAll executes src through the entry points and returns all verdicts.
func runAll(s *core.Shard, src string, look map[string]string, exp expectation, withFile bool) []verdict {
	var out []verdict
	hasBOM := strings.HasPrefix(src, bom)
	body := strings.TrimPrefix(src, bom)
	var ru, rp result
	if !hasBOM {
		ru = callUnmarshal(src, look)
		s.Eval(1)
		out = append(out, judge("UnmarshalWithLookup", src, look, ru, exp, func(x string) result { return callUnmarshal(x, look) })...)
	}
	rp = callParse(src, look)
	s.Eval(1)
	out = append(out, judge("ParseWithLookup", body, look, rp, exp, func(x string) result { return callParse(x, look) })...)
	if !hasBOM && ru.pi == nil && rp.pi == nil {
		if (ru.err == nil) != (rp.err == nil) || ru.err == nil && !sameMap(ru.m, rp.m) {
			out = append(out, verdict{map[string]string{"kind": "api-disagreement"},
				fmt.Sprintf("UnmarshalWithLookup and ParseWithLookup disagree on %q: %s/%v vs %s/%v", src, showMap(ru.m), ru.err, showMap(rp.m), rp.err)})
		}
	}
	if withFile {
		rf := callFile(s.Work, src, look)
		s.Eval(1)
		if rf.err != nil && strings.HasPrefix(rf.err.Error(), "harness:") {
			s.Inconclusive(rf.err.Error())
		} else {
			out = append(out, judge("GetEnvFromFile", body, look, rf, exp, func(x string) result { return callFile(s.Work, x, look) })...)
		}
	}
	// one report per distinct attribute set
	seen := map[string]bool{}
	var uniq []verdict
	for _, v := range out {
		k := core.AttrKey(v.attrs)
		if !seen[k] {
			seen[k] = true
			uniq = append(uniq, v)
		}
	}
	return uniq
}

func report(s *core.Shard, vs []verdict, rc replayCase) {
	for _, v := range vs {
		attrs := map[string]string{}
		for k, x := range v.attrs {
			attrs[k] = x
		}
		files := map[string]any{"case.json": rc, "input.env": []byte(rc.Src)}
		s.Violation(attrs, v.what, files)
	}
}

func count(s *core.Shard, exp expectation) {
	switch exp.Status {
	case ref.DotDecided:
		s.Add("decided_map", 1)
	case ref.DotMustError:
		s.Add("decided_error", 1)
	default:
		s.Add("undecided_no_panic_only", 1)
	}
}

func replay(s *core.Shard, dir string) {
	var rc replayCase
	if err := core.ReadJSON(filepath.Join(dir, "case.json"), &rc); err != nil {
		s.Inconclusive("replay: " + err.Error())
		return
	}
	s.Begin("replay")
	exp := rc.expectation()
	count(s, exp)
	report(s, runAll(s, string(rc.Src), rc.Lookup, exp, true), rc)
}

// witness re-executes the stored witness of a known finding: the same
// replayCase JSON; it reproduces when the judge still yields the finding's kind.
func witness(s *core.Shard, f core.Finding) (bool, string) {
	var rc replayCase
	if err := json.Unmarshal(f.Witness, &rc); err != nil {
		return false, "witness not decodable: " + err.Error()
	}
	if len(rc.Src) == 0 && rc.SrcQuoted != "" {
		if u, err := strconv.Unquote(rc.SrcQuoted); err == nil {
			rc.Src = []byte(u)
		}
	}
	vs := runAll(s, string(rc.Src), rc.Lookup, rc.expectation(), true)
	for _, v := range vs {
		if f.Matches(v.attrs) {
			return true, v.what
		}
	}
	if len(vs) > 0 {
		return false, "witness now yields a different verdict: " + vs[0].what
	}
	return false, "witness input is handled as the statement requires"
}

// ---------------------------------------------------------------------------
// part 1: constructive generator

var (
	keyPool   = []string{"A", "B_1", "_u", "Ab9", "c.d", "x-y", "K.1-z", "LONG_KEY_NAME_2"}
	refNames  = []string{"A", "B_1", "_u", "Ab9", "L1", "L_2", "E0", "U9"} // valid variable names
	leads     = []string{"", "", "", "", " ", "\t", "  "}
	exports   = []string{"", "", "", "", "export ", "export\t", "export  "}
	seps      = []string{"=", "=", "=", " = ", "= ", " =", "=\t", ": ", " : ", ":\t"}
	blanksT   = []string{"", "", "", " ", "\t", "  "}
	commentsT = []string{" # comment", " #", "  #c", " # it's \"q", " # A=1 $U9 ${", "\t # x"}
	commentsQ = []string{" # comment", " #", "\t# c", " # it's \"q", "  # 'x' ${"}
	skipLines = []string{"", "", "   ", "\t", "# plain", "#", "# A=1", "# it's", "#\"", "\t # indented", "# ${U9:?x}", "#'A", " #B_1='x"}
	refArgs   = []string{"", "d", "d e", "0", "a.b/c", "x@y,z"}
	refForms  = []string{"$", "$", "$", "{}", "{}", "{}", ":-", ":-", "-", "-", ":+", ":+", "+", "+", ":?", "?"}

	// literal atoms (semantic text)
	atomsCommon = []string{"a", "b7", "x y", "=", ":", "é", "x\u00a0y", "\u3000", "/p/q", "-", ".", "v#w", "{", "}", "a=b", "1", "Z z  z", ",", "%", "~", "()", "[k]", "!", "x:y", "http://h:80/p?q=1&r"}
	atomsQuote  = []string{"'", "\"", "it's", "say \"hi\"", "'q'", "\"\""}
	atomsSlash  = []string{`\n`, `\t`, `a\b`, `\\x`, `\0`, `c:\dir\f`, `\a`}
	atomsDollar = []string{"$", "$A", "${A}", "${B_1:-z}", "$$", "$L1", "a$", "${", "$ x", "${U9:?e}"}
	atomsCtl    = []string{"\n", "l1\nl2", "\nB_1=zz\n", "\t", "a\tb", "\r\n", " ", "  x", "x  ", " #c", " # no comment", "#"}
)

type genFile struct {
	lines    []ref.DotLine
	text     string
	lookup   map[string]string
	exp      expectation
	features []string
	styles   []string
	nonTriv  bool
}

func drawLookup(r *rng) map[string]string {
	look := map[string]string{}
	switch r.n(10) {
	case 0:
		return look // empty lookup
	}
	for _, k := range []string{"A", "B_1", "_u", "Ab9", "c.d", "x-y"} {
		if r.p(1, 3) {
			look[k] = "look-" + k
			if r.p(1, 3) {
				// inherited values are taken as they are, whatever they look like
				look[k] = "pa$$w ${L1} $A #x '" + k
			}
		}
	}
	if r.p(3, 4) {
		look["L1"] = "lv1"
	}
	if r.p(1, 2) {
		look["L_2"] = "p$A#q ${L1}"
	}
	if r.p(1, 2) {
		look["E0"] = ""
	}
	return look
}

func drawPieces(r *rng, style ref.DotStyle, look, env map[string]string, feats *[]string) []ref.DotPiece {
	np := r.n(5)
	if r.p(1, 12) {
		np = 0
	}
	var ps []ref.DotPiece
	for i := 0; i < np; i++ {
		if style != ref.DotSingle && r.p(1, 3) {
			name := pickS(r, refNames)
			if r.p(1, 2) {
				// prefer a name an earlier line of this file defines
				var defined []string
				for _, c := range refNames[:4] {
					if _, ok := env[c]; ok {
						defined = append(defined, c)
					}
				}
				if len(defined) > 0 {
					name = pickS(r, defined)
				}
			}
			p := ref.DotPiece{Ref: name, Form: pickS(r, refForms)}
			if p.Form != "$" && p.Form != "{}" {
				p.Arg = pickS(r, refArgs)
			}
			_, inL := look[name]
			_, inE := env[name]
			switch {
			case inL && inE:
				*feats = append(*feats, "ref-both")
			case inL:
				*feats = append(*feats, "ref-lookup")
			case inE:
				*feats = append(*feats, "ref-earlier")
			default:
				*feats = append(*feats, "ref-undefined")
			}
			*feats = append(*feats, "form "+p.Form)
			ps = append(ps, p)
			continue
		}
		var pool []string
		switch k := r.n(10); {
		case k < 4:
			pool = atomsCommon
		case k < 6:
			pool = atomsQuote
		case k < 7:
			pool = atomsSlash
		case k < 9:
			pool = atomsDollar
		default:
			pool = atomsCtl
		}
		ps = append(ps, ref.DotPiece{Lit: pickS(r, pool)})
	}
	return ps
}

// characters that cannot be part of a key under any reading of the statement
// (`[`, `]` and non-ASCII letters are pinned as accepted by the existing suite and left out)
const badKeyChars = " \t$+/'\"\\{}#,@!%&*();<>?^`|~"

// generate draws one file. The expectation is computed while drawing (fold).
func generate(r *rng) genFile {
	var g genFile
	g.lookup = drawLookup(r)
	env := map[string]string{}
	nl := 1 + r.n(6)
	eolMode := r.n(10) // 0..6 LF, 7..8 CRLF, 9 mixed
	eol := func() string {
		switch {
		case eolMode <= 6:
			return "\n"
		case eolMode <= 8:
			g.features = append(g.features, "crlf")
			return "\r\n"
		}
		if r.p(1, 2) {
			g.features = append(g.features, "crlf")
			return "\r\n"
		}
		return "\n"
	}
	failAt := -1
	failKind := -1
	if r.p(1, 7) {
		failKind = r.n(4) // 0 unterminated (last line), 1 empty key, 2 bad key, 3 required variable
		failAt = r.n(nl)
		if failKind == 0 {
			failAt = nl - 1
		}
	}
	var sb strings.Builder
	if r.p(1, 20) {
		sb.WriteString(bom)
		g.features = append(g.features, "bom")
	}
	mustFail := false
	reason, detail := "", ""
	for li := 0; li < nl; li++ {
		last := li == nl-1
		end := eol()
		if last && r.p(1, 2) {
			end = ""
			g.features = append(g.features, "no-final-newline")
		}
		if li == failAt {
			key := pickS(r, keyPool)
			var txt string
			switch failKind {
			case 0:
				q := pickS(r, []string{"'", "\""})
				body := pickS(r, []string{"", "abc", "a b", "a\nb", "abc\\" + q, "x=1\nB_1=2", "a#b", "$A"})
				txt = pickS(r, leads) + pickS(r, exports) + key + pickS(r, seps) + q + body
				reason = "unterminated-quote"
				g.features = append(g.features, "mustfail-unterminated")
			case 1:
				txt = pickS(r, []string{"=x", " = x", ": x", "export =x", "='v'", "=\"value\"", "=", "\t=x # c"})
				reason = "empty-key"
				g.features = append(g.features, "mustfail-empty-key")
			case 2:
				bc := badKeyChars[r.n(len(badKeyChars))]
				txt = pickS(r, leads) + pickS(r, []string{"A", "K_1", "x.y"}) + string(bc) + pickS(r, []string{"B", "z9", "_"}) + pickS(r, []string{"=x", " = x", "='v'", "=", ": x"})
				reason, detail = "invalid-key", ref.DotCharName(bc)
				g.features = append(g.features, "mustfail-bad-key")
			case 3:
				form := pickS(r, []string{":?", "?"})
				style := pickS(r, []string{"", "\""})
				txt = key + "=" + style + "pre${U9" + form + pickS(r, []string{"", "msg", "is required"}) + "}" + style
				reason = "required-variable"
				g.features = append(g.features, "mustfail-required")
			}
			g.lines = append(g.lines, ref.DotLine{Kind: ref.DotMustFail})
			if !mustFail {
				mustFail = true
				g.exp = expectation{Status: ref.DotMustError, Reason: reason, Detail: detail}
			}
			sb.WriteString(txt + end)
			continue
		}
		switch k := r.n(20); {
		case k < 2: // comment / blank
			sb.WriteString(pickS(r, skipLines) + end)
			g.lines = append(g.lines, ref.DotLine{Kind: ref.DotSkip})
		case k < 5: // bare key
			key := pickS(r, keyPool)
			_, inL := g.lookup[key]
			_, inE := env[key]
			if !inL && inE {
				// not decided by the statement: pick a key not assigned so far
				for _, c := range keyPool {
					if _, e := env[c]; !e {
						key = c
						break
					}
				}
				if _, e := env[key]; e {
					sb.WriteString("# all keys taken" + end)
					g.lines = append(g.lines, ref.DotLine{Kind: ref.DotSkip})
					continue
				}
				_, inL = g.lookup[key]
			}
			if inL {
				g.features = append(g.features, "bare-present")
			} else {
				g.features = append(g.features, "bare-absent")
			}
			ex := pickS(r, exports)
			if ex != "" {
				g.features = append(g.features, "export")
			}
			l := ref.DotLine{Kind: ref.DotBare, Key: key}
			g.lines = append(g.lines, l)
			if !mustFail {
				ref.DotApply(l, g.lookup, env)
			}
			sb.WriteString(pickS(r, leads) + ex + key + pickS(r, blanksT) + end)
			g.nonTriv = true
		default: // assignment
			key := pickS(r, keyPool)
			var l ref.DotLine
			var val string
			var feats []string
			for try := 0; ; try++ {
				feats = feats[:0]
				style := ref.DotStyle(r.n(3))
				l = ref.DotLine{Kind: ref.DotAssign, Key: key, Style: style}
				if try < 8 {
					l.Pieces = drawPieces(r, style, g.lookup, env, &feats)
				} else {
					l.Pieces = []ref.DotPiece{{Lit: "v"}}
				}
				var ok bool
				val, ok = ref.DotRenderValue(style, l.Pieces, r.n)
				if ok {
					break
				}
			}
			g.features = append(g.features, feats...)
			g.styles = append(g.styles, l.Style.String())
			ex := pickS(r, exports)
			if ex != "" {
				g.features = append(g.features, "export")
			}
			trail := pickS(r, blanksT)
			if r.p(1, 4) {
				if l.Style == ref.DotUnquoted {
					if val != "" {
						trail = pickS(r, commentsT)
						g.features = append(g.features, "inline-comment")
					}
				} else {
					trail = pickS(r, commentsQ)
					g.features = append(g.features, "inline-comment")
				}
			}
			if l.Style != ref.DotUnquoted && strings.Contains(val, "\n") {
				g.features = append(g.features, "multi-line")
			}
			g.lines = append(g.lines, l)
			if !mustFail {
				if ref.DotApply(l, g.lookup, env) {
					mustFail = true
					g.exp = expectation{Status: ref.DotMustError, Reason: "required-variable"}
					g.features = append(g.features, "mustfail-required")
				}
			}
			sb.WriteString(pickS(r, leads) + ex + key + pickS(r, seps) + val + trail + end)
			g.nonTriv = true
		}
	}
	g.text = sb.String()
	if !mustFail {
		g.exp = expectation{Status: ref.DotDecided, Map: env}
	} else {
		g.nonTriv = true
	}
	return g
}

// ---------------------------------------------------------------------------
// part 3: mutation

var mutBytes = []byte("A1_=:'\"\\$# \n{}\r\t\x00\x80\xc3\xef\xbb\xbf\xff[]export")

func mutate(r *rng, src string) string {
	b := []byte(src)
	for k := 1 + r.n(3); k > 0; k-- {
		if len(b) == 0 {
			b = append(b, mutBytes[r.n(len(mutBytes))])
			continue
		}
		pos := r.n(len(b))
		switch r.n(6) {
		case 0: // delete
			b = append(b[:pos:pos], b[pos+1:]...)
		case 1: // insert
			b = append(b[:pos:pos], append([]byte{mutBytes[r.n(len(mutBytes))]}, b[pos:]...)...)
		case 2: // replace
			b[pos] = mutBytes[r.n(len(mutBytes))]
		case 3: // duplicate a span
			end := pos + 1 + r.n(6)
			if end > len(b) {
				end = len(b)
			}
			span := append([]byte{}, b[pos:end]...)
			b = append(b[:end:end], append(span, b[end:]...)...)
		case 4: // truncate
			b = b[:pos]
		case 5: // swap with neighbour
			if pos+1 < len(b) {
				b[pos], b[pos+1] = b[pos+1], b[pos]
			}
		}
	}
	return string(b)
}

// ---------------------------------------------------------------------------

func seedOf(s *core.Shard, stream string) uint64 { return s.Rand(stream).Uint64() }

func run(s *core.Shard) {
	// ---- part 1: constructive --------------------------------------------
	nFiles := s.Pick(300000, 3000000)
	base := seedOf(s, "constructive")
	mine := 0
	skip := false
	for i := 0; i < nFiles; i++ {
		if !s.Mine(i) {
			continue
		}
		mine++
		if mine%4000 == 1 {
			skip = !s.Begin(fmt.Sprintf("constructive/%d", i))
		}
		if skip {
			continue
		}
		r := &rng{s: base ^ uint64(i)*0x9e3779b97f4a7c15}
		g := generate(r)
		s.Add("constructive_files", 1)
		count(s, g.exp)
		for _, f := range g.features {
			s.Cover("feature", f)
		}
		for _, st := range g.styles {
			s.Cover("style", st)
		}
		s.Cover("lines", strconv.Itoa(len(g.lines)))
		if g.nonTriv {
			s.Nontrivial(g.text, showMap(g.lookup))
		}
		// self-consistency of the two reference directions (never a verdict on the code)
		if back := ref.DotParse(strings.TrimPrefix(g.text, bom), g.lookup); back.Status != ref.DotUndecided {
			if back.Status != g.exp.Status || back.Status == ref.DotDecided && !sameMap(back.Map, g.exp.Map) {
				s.Add("reference_models_disagree", 1)
				s.Inconclusive(fmt.Sprintf("reference models disagree on %q lookup=%s: forward %s, backward %s (%s)", g.text, showMap(g.lookup), expText(g.exp), expText(fromRef(back)), back.Reason))
			} else {
				s.Add("reference_models_agree", 1)
			}
		}
		vs := runAll(s, g.text, g.lookup, g.exp, i%16 == 0)
		if len(vs) > 0 {
			report(s, vs, mkReplay(g.text, g.lookup, "stored", "constructive", g.exp))
		}
		if s.WantSample() && len(g.lines) >= 3 && len(vs) == 0 && g.exp.Status == ref.DotDecided && len(g.exp.Map) >= 2 {
			s.Sample(map[string]any{"file": g.text, "lookup": g.lookup, "expected": g.exp.Map})
		}
	}

	// ---- part 2: every string over the alphabet ------------------------------
	alphabet := []byte("A1_=:'\"\\$# \n{}")
	maxLen := s.Pick(5, 6)
	looks := []map[string]string{{"A": "va", "_": ""}, {}}
	buf := make([]byte, 0, maxLen)
	k := 0
	mine = 0
	skip = false
	var gen func()
	gen = func() {
		k++
		if s.Mine(k) {
			mine++
			if mine%5000 == 1 {
				skip = !s.Begin(fmt.Sprintf("strings/%d", k))
			}
			if !skip {
				str := string(buf)
				s.Add("strings_enumerated", 1)
				for li, look := range looks {
					exp := fromRef(ref.DotParse(str, look))
					count(s, exp)
					s.Cover("string-class", [...]string{"decided-map", "must-error", "undecided"}[exp.Status])
					if exp.Status == ref.DotMustError {
						s.Cover("must-error-reason", exp.Reason)
					}
					if exp.Status != ref.DotUndecided && (len(exp.Map) > 0 || exp.Status == ref.DotMustError) {
						s.Nontrivial(str, showMap(look))
					}
					vs := runAll(s, str, look, exp, li == 0 && k%64 == 0)
					if len(vs) > 0 {
						report(s, vs, mkReplay(str, look, "reference", "strings", exp))
					}
				}
			}
		}
		if len(buf) == maxLen {
			return
		}
		for _, c := range alphabet {
			buf = append(buf, c)
			gen()
			buf = buf[:len(buf)-1]
		}
	}
	gen()

	// ---- part 3: prefixes and mutations of rendered files --------------------
	nCorpus := s.Pick(10000, 90000)
	base = seedOf(s, "mutation")
	mine = 0
	skip = false
	for i := 0; i < nCorpus; i++ {
		if !s.Mine(i) {
			continue
		}
		mine++
		if mine%100 == 1 {
			skip = !s.Begin(fmt.Sprintf("mutation/%d", i))
		}
		if skip {
			continue
		}
		r := &rng{s: base ^ uint64(i)*0x9e3779b97f4a7c15}
		g := generate(r)
		var variants []string
		for cut := 0; cut < len(g.text); cut++ {
			variants = append(variants, g.text[:cut])
		}
		for m := 0; m < 40; m++ {
			variants = append(variants, mutate(r, g.text))
		}
		for vi, v := range variants {
			s.Add("mutants", 1)
			exp := fromRef(ref.DotParse(strings.TrimPrefix(v, bom), g.lookup))
			count(s, exp)
			if exp.Status != ref.DotUndecided {
				s.Nontrivial(v, showMap(g.lookup))
			}
			vs := runAll(s, v, g.lookup, exp, vi%32 == 0)
			if len(vs) > 0 {
				report(s, vs, mkReplay(v, g.lookup, "reference", "mutation", exp))
			}
		}
	}
}
