// Package c17 checks property C17: the project name and the project
// environment follow the documented precedence. The lattice of name sources
// (explicit name, COMPOSE_PROJECT_NAME in explicit env / OS env / .env files,
// `name:` in the compose files, directory base name) and the lattice of
// variable definitions over {explicit env, OS env, .env #1, .env #2} are
// enumerated through cli.NewProjectOptions / ProjectOptions.LoadProject in the
// documented option orders; a 40-line reference (internal/ref/projname.go)
// written from the statement is the oracle.
package c17

import (
	"context"
	"encoding/json"
	"fmt"
	"os"
	"path/filepath"
	"sort"
	"strings"

	"github.com/compose-spec/compose-go/v2/cli"
	"github.com/compose-spec/compose-go/v2/types"
	"github.com/sirupsen/logrus"

	"verif/harness/internal/core"
	"verif/harness/internal/ref"
)

const cpn = "COMPOSE_PROJECT_NAME"

func init() {
	logrus.SetLevel(logrus.PanicLevel)
	core.Register(&core.Spec{
		ID:    "C17",
		Level: "exploration",
		Rule: "part 1 (name lattice): the product {explicit name: WithName omitted, WithName(\"\"), valid, invalid (dots, upper case, leading _/-, space)} x " +
			"{COMPOSE_PROJECT_NAME: absent, or defined in every non-empty subset of {WithEnv, OS env, .env #1, .env #2} with distinct values; all valid, winner invalid, loser invalid, winner empty} x " +
			"{name: in no file, first, last, several of 2..3 files; literal, interpolated (from each env layer, with default), normalisable, leading symbols, normalising to empty, empty text} x " +
			"{directory base names: plain, upper case, dots, leading _/-, unicode, symbols only, space, digit first; a fifth of the points make the project directory a symbolic link to a directory with another base name} is enumerated completely; each point is loaded through cli.NewProjectOptions + LoadProject " +
			"with the option list in one of the 72 documented orders (WithEnv, WithOsEnv, WithEnvFiles before WithDotEnv; WithWorkingDirectory before WithEnvFiles; WithName anywhere) chosen by rotation over the lattice (offset by the seed; the quick tier enumerates the product of reduced value sets, the thorough tier of the full sets), rotating working-directory modes (implicit from the first compose file, absolute, relative to cwd, compose files outside the project directory) and .env discovery (default .env / explicit list). " +
			"part 2 (environment lattice): one variable per non-empty subset of the four layers with distinct values, plus .env values referencing variables defined in every subset of the layers above them, in every documented order x working-directory mode x .env discovery mode x {plain, winning definition empty}. " +
			"A case is non-trivial when at least two sources compete for the name or the deciding source needs normalisation / falls through (part 1), or a variable is defined in at least two layers (part 2); distinct = distinct semantic case descriptions.",
		Assumptions: []string{
			"the reference (internal/ref/projname.go) is a faithful reading of the statement; normalisation = lower-case, drop characters outside [a-z0-9_-], drop leading _ and -",
			"COMPOSE_PROJECT_NAME defined but empty: the statement does not say whether this is 'absent' or 'invalid'; a failure is tolerated, a success must still pick the name from the remaining sources",
			"the last file's name normalising to empty while an earlier file's name does not: both the earlier file's name and the directory name are accepted",
			"non-ASCII letters whose lower-case form is ASCII (U+0130, U+212A) are not generated",
			"`documented orders' = higher-precedence layers registered before WithDotEnv, WithEnvFiles before WithDotEnv, WithWorkingDirectory before a WithEnvFiles() that discovers the default .env; WithEnv after WithDotEnv is outside the workload",
			".env references are generated only towards variables defined in layers above the referencing file (explicit env, OS env, earlier files, earlier lines); references to later definitions are outside the workload",
		},
		Exhaustive: func(string) bool { return true },
		Run:        run,
		Replay:     replay,
		Witness:    witness,
		Floor: func(tier string, m *core.Merged) []string {
			var r []string
			if m.Counters["loads_ok"] < 2000 || m.Counters["rejected_as_required"] < 500 || m.Counters["env_values_checked"] < 5000 {
				r = append(r, fmt.Sprintf("too few judged loads: %v", m.Counters))
			}
			for _, src := range []string{"explicit", "env", "file", "dir", "none", "file-or-dir"} {
				if m.Cover["deciding-source"][src] == 0 {
					r = append(r, "deciding source never exercised: "+src)
				}
			}
			if len(m.Cover["option-order"]) < 60 {
				r = append(r, fmt.Sprintf("only %d option orders exercised", len(m.Cover["option-order"])))
			}
			return r
		},
	})
}

// ---------------------------------------------------------------------------
// semantic case

// layers, highest precedence first
var layers = []string{"x", "os", "e2", "e1"}

type entry struct {
	Key string `json:"k"`
	Raw string `json:"raw"`           // text written to the source
	Val string `json:"val,omitempty"` // resolved value ("" + Same => Raw)
	Ref bool   `json:"ref,omitempty"` // Raw contains a reference, Val is the resolved value
}

func (e entry) value() string {
	if e.Ref {
		return e.Val
	}
	return e.Raw
}

type sem struct {
	Part     string `json:"part"` // name | env
	Dir      string `json:"dir"`
	Symlink  string `json:"symlink,omitempty"` // Dir is a symbolic link to a sibling directory of this name
	WdMode   string `json:"wd_mode"`           // none | abs | rel | other
	NameOpt  string `json:"name_opt"`          // omit | set
	Explicit string `json:"explicit"`
	// per layer: ordered definitions
	X  []entry `json:"x,omitempty"`
	OS []entry `json:"os,omitempty"`
	E1 []entry `json:"e1,omitempty"`
	E2 []entry `json:"e2,omitempty"`
	// EnvFiles: "default" (one file named .env discovered by WithEnvFiles()) or
	// "explicit" (WithEnvFiles(first.env, second.env)); "explicit1" = only first.env.
	EnvFiles string `json:"env_files"`
	// compose files: `name:` text per file ("" = no name key), NameSet=false => key absent
	Names    []string `json:"names"`
	NameKey  []bool   `json:"name_key"`
	NameVals []string `json:"name_vals"` // interpolated value per file (oracle input, drawn first)
	Order    int      `json:"order"`
	Shape    string   `json:"shape"`
	CPNShape string   `json:"cpn_shape"`
}

func (c *sem) layer(l string) *[]entry {
	switch l {
	case "x":
		return &c.X
	case "os":
		return &c.OS
	case "e1":
		return &c.E1
	}
	return &c.E2
}

func (c *sem) def(l, k, v string) { p := c.layer(l); *p = append(*p, entry{Key: k, Raw: v}) }
func (c *sem) defRef(l, k, raw, val string) {
	p := c.layer(l)
	*p = append(*p, entry{Key: k, Raw: raw, Val: val, Ref: true})
}

// expected project environment value of key (highest layer defining it)
func (c *sem) expected(key string) (val string, layer string, ok bool) {
	for _, l := range layers {
		es := *c.layer(l)
		// within one layer the last definition wins (never generated twice, but be exact)
		for i := len(es) - 1; i >= 0; i-- {
			if es[i].Key == key {
				return es[i].value(), l, true
			}
		}
	}
	return "", "", false
}

func (c *sem) keys() []string {
	seen := map[string]bool{}
	var ks []string
	for _, l := range layers {
		for _, e := range *c.layer(l) {
			if !seen[e.Key] {
				seen[e.Key] = true
				ks = append(ks, e.Key)
			}
		}
	}
	sort.Strings(ks)
	return ks
}

// ---------------------------------------------------------------------------
// option orders

var orders = buildOrders()

func buildOrders() [][]string {
	base := []string{"wd", "os", "env", "files"}
	var out [][]string
	var perm func(a []string, k int)
	perm = func(a []string, k int) {
		if k == len(a) {
			wd, fi := -1, -1
			for i, x := range a {
				if x == "wd" {
					wd = i
				}
				if x == "files" {
					fi = i
				}
			}
			if wd < fi {
				seq := append(append([]string{}, a...), "dot")
				for pos := 0; pos <= len(seq); pos++ {
					o := append([]string{}, seq[:pos]...)
					o = append(o, "name")
					o = append(o, seq[pos:]...)
					out = append(out, o)
				}
			}
			return
		}
		for i := k; i < len(a); i++ {
			a[k], a[i] = a[i], a[k]
			perm(a, k+1)
			a[k], a[i] = a[i], a[k]
		}
	}
	perm(base, 0)
	sort.Slice(out, func(i, j int) bool { return strings.Join(out[i], ",") < strings.Join(out[j], ",") })
	return out
}

// ---------------------------------------------------------------------------
// execution + judgement

type outcome struct {
	optErr  error
	loadErr error
	project *types.Project
	optEnv  map[string]string
	// repeated: the later env file was also listed before the earlier one
	repeated bool
}

func composeText(c *sem, i int) string {
	var sb strings.Builder
	style := (c.Order + 2*i) % 5 // how the `name` key is written; 4: the whole file is JSON
	if style == 4 {
		doc := map[string]any{}
		if c.NameKey[i] {
			doc["name"] = c.Names[i]
		}
		svc := map[string]any{}
		if i == 0 {
			svc["image"] = "img-${" + cpn + "}"
			lab := map[string]any{}
			for _, k := range c.keys() {
				if k != cpn {
					lab[k] = "${" + k + "}"
				}
			}
			if len(lab) > 0 {
				svc["labels"] = lab
			}
		} else {
			svc["labels"] = map[string]any{fmt.Sprintf("file%d", i): "present"}
		}
		doc["services"] = map[string]any{"s": svc}
		b, _ := json.MarshalIndent(doc, "", "  ")
		return string(b) + "\n"
	}
	if c.NameKey[i] {
		b, _ := json.Marshal(c.Names[i]) // a JSON string is a valid YAML double-quoted scalar
		key := []string{"name:", "\"name\":", "'name':", "name :"}[style]
		sb.WriteString(key + " " + string(b) + "\n")
	}
	sb.WriteString("services:\n")
	if i == 0 {
		sb.WriteString("  s:\n    image: \"img-${" + cpn + "}\"\n")
		ks := c.keys()
		var lab []string
		for _, k := range ks {
			if k != cpn {
				lab = append(lab, k)
			}
		}
		if len(lab) > 0 {
			sb.WriteString("    labels:\n")
			for _, k := range lab {
				sb.WriteString("      " + k + ": \"${" + k + "}\"\n")
			}
		}
	} else {
		sb.WriteString(fmt.Sprintf("  s:\n    labels:\n      file%d: present\n", i))
	}
	return sb.String()
}

func envText(es []entry) string {
	var sb strings.Builder
	for _, e := range es {
		sb.WriteString(e.Key + "=" + e.Raw + "\n")
	}
	return sb.String()
}

// execute materialises the case under root and runs it.
func execute(root string, c *sem) (out outcome, pi *core.PanicInfo, files map[string]string) {
	files = map[string]string{}
	proj := filepath.Join(root, c.Dir)
	cfgDir := proj
	if c.WdMode == "other" {
		cfgDir = filepath.Join(root, "zz-elsewhere")
	}
	if c.Symlink != "" {
		_ = os.MkdirAll(filepath.Join(root, c.Symlink), 0o755)
		_ = os.MkdirAll(filepath.Dir(proj), 0o755)
		if err := os.Symlink(filepath.Join(root, c.Symlink), proj); err != nil {
			_ = os.MkdirAll(proj, 0o755)
		}
	}
	_ = os.MkdirAll(proj, 0o755)
	_ = os.MkdirAll(cfgDir, 0o755)
	write := func(dir, name, content string) string {
		p := filepath.Join(dir, name)
		_ = os.WriteFile(p, []byte(content), 0o644)
		rel, _ := filepath.Rel(root, p)
		files[rel] = content
		return p
	}
	var cfgs []string
	for i := range c.Names {
		n := "compose.yaml"
		if i > 0 {
			n = fmt.Sprintf("override%d.yaml", i)
		}
		cfgs = append(cfgs, write(cfgDir, n, composeText(c, i)))
	}
	var envFiles []string
	switch c.EnvFiles {
	case "default":
		write(proj, ".env", envText(c.E1))
	case "explicit1":
		envFiles = []string{write(proj, "first.env", envText(c.E1))}
	default:
		envFiles = []string{write(proj, "first.env", envText(c.E1)), write(proj, "second.env", envText(c.E2))}
		if c.Order%3 == 1 {
			// the later file is also listed before the earlier one: it is applied at every position it
			// is listed at, the last one included, so the precedence is the same
			envFiles = []string{envFiles[1], envFiles[0], envFiles[1]}
			out.repeated = true
		}
	}
	// OS environment (single-threaded shard)
	for _, e := range c.OS {
		os.Setenv(e.Key, e.Raw) //nolint:errcheck
	}
	defer func() {
		for _, e := range c.OS {
			os.Unsetenv(e.Key) //nolint:errcheck
		}
	}()
	cwd, _ := os.Getwd()
	defer os.Chdir(cwd) //nolint:errcheck
	wdArg := proj
	if c.WdMode == "rel" {
		os.Chdir(root) //nolint:errcheck
		wdArg = "./" + c.Dir
	}
	var xs []string
	for _, e := range c.X {
		xs = append(xs, e.Key+"="+e.Raw)
	}
	var fns []cli.ProjectOptionsFn
	for _, k := range orders[c.Order%len(orders)] {
		switch k {
		case "wd":
			if c.WdMode != "none" {
				fns = append(fns, cli.WithWorkingDirectory(wdArg))
			}
		case "os":
			fns = append(fns, cli.WithOsEnv)
		case "env":
			fns = append(fns, cli.WithEnv(xs))
		case "files":
			fns = append(fns, cli.WithEnvFiles(envFiles...))
		case "dot":
			fns = append(fns, cli.WithDotEnv)
		case "name":
			if c.NameOpt == "set" {
				fns = append(fns, cli.WithName(c.Explicit))
			}
		}
	}
	pi = core.Guard(func() {
		var po *cli.ProjectOptions
		po, out.optErr = cli.NewProjectOptions(cfgs, fns...)
		if out.optErr != nil {
			return
		}
		out.optEnv = map[string]string{}
		for k, v := range po.Environment {
			out.optEnv[k] = v
		}
		out.project, out.loadErr = po.LoadProject(context.Background())
	})
	return
}

func verdictOf(c *sem) ref.NameVerdict {
	in := ref.NameInputs{DirBase: c.Dir, FileNames: c.NameVals, FileSets: make([]bool, len(c.Names))}
	for i := range c.Names {
		in.FileSets[i] = c.NameKey[i]
	}
	if c.NameOpt == "set" {
		in.Explicit = c.Explicit
	}
	in.EnvName, _, in.EnvSet = c.expected(cpn)
	return ref.ExpectedName(in)
}

// classify says which source a produced name equals (stable attribute).
func classify(c *sem, got string) string {
	if c.NameOpt == "set" && c.Explicit != "" && got == c.Explicit {
		return "explicit"
	}
	for _, l := range layers {
		for _, e := range *c.layer(l) {
			if e.Key == cpn && e.value() == got && got != "" {
				return "env-" + l
			}
		}
	}
	for i := len(c.Names) - 1; i >= 0; i-- {
		if c.NameKey[i] && c.Names[i] != "" {
			if got == c.NameVals[i] {
				return fmt.Sprintf("file%d-raw", i)
			}
			if got == ref.NormalizeProjectName(c.NameVals[i]) {
				return fmt.Sprintf("file%d", i)
			}
		}
	}
	if got == c.Dir {
		return "dir-raw"
	}
	if got == ref.NormalizeProjectName(c.Dir) {
		return "dir"
	}
	if got == "" {
		return "empty"
	}
	return "other"
}

func layerOfValue(c *sem, key, got string) string {
	for _, l := range layers {
		for _, e := range *c.layer(l) {
			if e.Key == key {
				if e.value() == got {
					return l
				}
				if e.Ref && e.Raw == got {
					return l + "-uninterpolated"
				}
			}
		}
	}
	return "none"
}

func judge(s *core.Shard, c *sem) {
	root := s.Scratch()
	out, pi, files := execute(root, c)
	s.Eval(1)
	rf := map[string]any{"case.json": c}
	for n, t := range files {
		rf["input/"+n] = t
	}
	ord := strings.Join(orders[c.Order%len(orders)], ",")
	s.Cover("option-order", ord)
	s.Cover("wd-mode", c.WdMode)
	if c.Symlink != "" {
		s.Cover("project-directory", "symbolic link to a directory with another base name")
	}
	if out.repeated {
		s.Cover("env-files", "the later file also listed before the earlier one")
	}
	s.Cover("env-files", c.EnvFiles)
	if c.Part == "name" {
		s.Cover("name-shape", c.Shape)
		s.Cover("cpn-shape", c.CPNShape)
	}
	if pi != nil {
		rf["stack.txt"] = pi.Stack
		s.Violation(map[string]string{"kind": "panic", "site": pi.Site, "class": pi.Class}, "panic: "+pi.Value, rf)
		return
	}
	v := verdictOf(c)
	s.Cover("deciding-source", v.Source)
	vio := func(attrs map[string]string, what string) {
		attrs["part"] = c.Part
		s.Violation(attrs, what+fmt.Sprintf(" [dir=%q explicit=%q/%s names=%q order=%s wd=%s envfiles=%s]", c.Dir, c.Explicit, c.NameOpt, c.Names, ord, c.WdMode, c.EnvFiles), rf)
	}

	// --- environment after NewProjectOptions --------------------------------
	checkEnv := func(stage string, env map[string]string) {
		for _, k := range c.keys() {
			if k == cpn && stage != "options" {
				continue // replaced by the final project name, checked below
			}
			want, wl, _ := c.expected(k)
			got, ok := env[k]
			s.Add("env_values_checked", 1)
			if !ok {
				vio(map[string]string{"kind": "env-missing", "stage": stage, "winner": wl}, fmt.Sprintf("variable %s (defined in layer %s) is missing from the project environment at %s", k, wl, stage))
				continue
			}
			if got != want {
				vio(map[string]string{"kind": "env-precedence", "stage": stage, "winner": wl, "got_from": layerOfValue(c, k, got)},
					fmt.Sprintf("variable %s = %q at %s, the statement requires %q (layer %s)", k, got, stage, want, wl))
			}
		}
	}

	if out.optErr != nil {
		if v.Err && v.Source == "explicit" {
			s.Add("rejected_as_required", 1)
			return
		}
		if v.Err && v.Source == "env" && strings.Contains(out.optErr.Error(), "invalid project name") {
			s.Add("rejected_as_required", 1)
			return
		}
		vio(map[string]string{"kind": "unexpected-error", "stage": "options", "source": v.Source}, "NewProjectOptions failed: "+out.optErr.Error())
		return
	}
	checkEnv("options", out.optEnv)

	// --- load -----------------------------------------------------------------
	if v.Err {
		if out.loadErr == nil {
			kind := "invalid-name-accepted"
			if v.Source == "none" {
				kind = "empty-name-accepted"
			}
			vio(map[string]string{"kind": kind, "source": v.Source, "got": classify(c, out.project.Name)},
				fmt.Sprintf("load succeeded with name %q although the statement requires a rejection (deciding source: %s)", out.project.Name, v.Source))
			return
		}
		s.Add("rejected_as_required", 1)
		return
	}
	if out.loadErr != nil {
		if v.Weak || v.ErrTolerated {
			s.Add("undecided_error_tolerated", 1)
			return
		}
		vio(map[string]string{"kind": "unexpected-error", "stage": "load", "source": v.Source}, "LoadProject failed: "+out.loadErr.Error())
		return
	}
	s.Add("loads_ok", 1)
	p := out.project
	if !ref.ValidProjectName(p.Name) {
		vio(map[string]string{"kind": "malformed-name", "source": v.Source, "got": classify(c, p.Name)}, fmt.Sprintf("loaded project has name %q which is not [a-z0-9][a-z0-9_-]*", p.Name))
	}
	okName := false
	for _, a := range v.Accept {
		if a == p.Name {
			okName = true
		}
	}
	if !okName {
		vio(map[string]string{"kind": "wrong-name", "source": v.Source, "got": classify(c, p.Name)},
			fmt.Sprintf("project name %q, the statement requires %q (deciding source: %s)", p.Name, v.Accept, v.Source))
	}
	if got := p.Environment[cpn]; got != p.Name {
		vio(map[string]string{"kind": "name-not-exported", "where": "environment", "source": v.Source}, fmt.Sprintf("Project.Environment[%s] = %q but Project.Name = %q", cpn, got, p.Name))
	}
	svc, ok := p.Services["s"]
	if !ok {
		vio(map[string]string{"kind": "harness-service-missing"}, "service s missing")
		return
	}
	if svc.Image != "img-"+p.Name {
		vio(map[string]string{"kind": "name-not-exported", "where": "interpolation", "source": v.Source}, fmt.Sprintf("image interpolated to %q with Project.Name = %q", svc.Image, p.Name))
	}
	checkEnv("project", p.Environment)
	for _, k := range c.keys() {
		if k == cpn {
			continue
		}
		want, wl, _ := c.expected(k)
		s.Add("env_values_checked", 1)
		if got := svc.Labels[k]; got != want {
			vio(map[string]string{"kind": "env-precedence", "stage": "interpolation", "winner": wl, "got_from": layerOfValue(c, k, got)},
				fmt.Sprintf("${%s} interpolated to %q, the statement requires %q (layer %s)", k, got, want, wl))
		}
	}
	if s.WantSample() && c.Part == "name" && len(c.OS)+len(c.X)+len(c.E1) > 1 && v.Source == "file" {
		s.Sample(map[string]any{"case": c, "expected_names": v.Accept, "got": p.Name})
	}
}

func nontrivial(c *sem) bool {
	if c.Part == "env" {
		return true
	}
	n := 0
	if c.NameOpt == "set" && c.Explicit != "" {
		n++
	}
	if _, _, ok := c.expected(cpn); ok {
		n++
	}
	for i := range c.Names {
		if c.NameKey[i] && c.Names[i] != "" {
			n++
			if ref.NormalizeProjectName(c.NameVals[i]) != c.Names[i] {
				n++
			}
		}
	}
	if ref.NormalizeProjectName(c.Dir) != c.Dir {
		n++
	}
	return n >= 2
}

func replay(s *core.Shard, dir string) {
	var c sem
	if err := core.ReadJSON(filepath.Join(dir, "case.json"), &c); err != nil {
		s.Inconclusive("replay: " + err.Error())
		return
	}
	s.Begin("replay")
	judge(s, &c)
}

// witness re-runs a stored case and reports whether any violation with the
// finding's attributes is produced.
func witness(s *core.Shard, f core.Finding) (bool, string) {
	var c sem
	if err := json.Unmarshal(f.Witness, &c); err != nil {
		return false, "bad witness: " + err.Error()
	}
	root := s.Scratch()
	out, pi, _ := execute(root, &c)
	if pi != nil {
		return f.Match["kind"] == "panic", "panic: " + pi.Value
	}
	v := verdictOf(&c)
	switch f.Match["kind"] {
	case "invalid-name-accepted", "empty-name-accepted":
		if v.Err && out.optErr == nil && out.loadErr == nil {
			return true, fmt.Sprintf("load succeeded with name %q", out.project.Name)
		}
	case "unexpected-error":
		if !v.Err && !v.Weak && !v.ErrTolerated && (out.optErr != nil || out.loadErr != nil) {
			return true, fmt.Sprintf("error: %v %v", out.optErr, out.loadErr)
		}
	case "wrong-name", "malformed-name":
		if !v.Err && out.project != nil {
			for _, a := range v.Accept {
				if a == out.project.Name {
					return false, "name now as required: " + a
				}
			}
			return true, fmt.Sprintf("name %q, required %q", out.project.Name, v.Accept)
		}
	case "env-precedence", "env-missing":
		env := out.optEnv
		if out.project != nil {
			env = out.project.Environment
		}
		for _, k := range c.keys() {
			if k == cpn {
				continue
			}
			want, _, _ := c.expected(k)
			if env[k] != want {
				return true, fmt.Sprintf("%s = %q, required %q", k, env[k], want)
			}
		}
	}
	return false, "not reproduced"
}
