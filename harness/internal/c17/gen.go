package c17

import (
	"encoding/json"
	"fmt"
	"math/bits"

	"verif/harness/internal/core"
)

// ---------------------------------------------------------------------------
// dimensions of the name lattice

type explicitDim struct {
	Opt, Val string
}

var explicitQuick = []explicitDim{{"omit", ""}, {"set", ""}, {"set", "explicit-1"}, {"set", "Bad.Name"}, {"set", "_lead"}}
var explicitThorough = append(append([]explicitDim{}, explicitQuick...),
	explicitDim{"set", "9x_y-z"}, explicitDim{"set", "UPPER"}, explicitDim{"set", "has space"}, explicitDim{"set", "-dash"})

var dirsQuick = []string{"plain", "UPPER_Case", "my.app.v2", "_-lead", "!!!", "日本ü", "._myapp"}
var dirsThorough = append(append([]string{}, dirsQuick...),
	"My App", "9lives", "a_b-c", "x", "...", "-dash", "ünï-çode", "@home+work", "__")

// bit -> layer for masks (bit 0 = lowest precedence)
var maskLayers = []string{"e1", "e2", "os", "x"}

func layersOf(mask int) []string {
	var ls []string
	for b := 3; b >= 0; b-- { // highest precedence first
		if mask&(1<<b) != 0 {
			ls = append(ls, maskLayers[b])
		}
	}
	return ls
}

type cpnDim struct {
	Shape string
	Defs  map[string]string // layer -> value
}

var invalidNames = []string{"Bad.Name", "_lead", "UPPER"}

func cpnDims(thorough bool) []cpnDim {
	out := []cpnDim{{Shape: "absent"}}
	for mask := 1; mask < 16; mask++ {
		ls := layersOf(mask)
		valid := map[string]string{}
		for _, l := range ls {
			valid[l] = "cpn-from-" + l
		}
		out = append(out, cpnDim{fmt.Sprintf("valid/%04b", mask), valid})
		kinds := []int{mask % 3}
		if thorough {
			kinds = []int{0, 1, 2}
		}
		for _, k := range kinds {
			d := map[string]string{}
			for l, v := range valid {
				d[l] = v
			}
			d[ls[0]] = invalidNames[k]
			out = append(out, cpnDim{fmt.Sprintf("winner-invalid/%04b", mask), d})
		}
		if len(ls) >= 2 && (thorough || len(ls) == 2 || mask == 15) {
			d := map[string]string{}
			for i, l := range ls {
				if i == 0 {
					d[l] = valid[l]
				} else {
					d[l] = invalidNames[(mask+i)%3]
				}
			}
			out = append(out, cpnDim{fmt.Sprintf("loser-invalid/%04b", mask), d})
		}
		if bits.OnesCount(uint(mask)) == 1 && (thorough || mask == 4) || mask == 15 {
			d := map[string]string{}
			for l, v := range valid {
				d[l] = v
			}
			d[ls[0]] = ""
			out = append(out, cpnDim{fmt.Sprintf("winner-empty/%04b", mask), d})
		}
	}
	return out
}

// nameShape: per compose file the `name` text, whether the key is present, the
// interpolated value, and variable definitions the text needs.
type nameShape struct {
	Shape string
	Names []string
	Key   []bool
	Vals  []string
	Vars  [][3]string // layer, key, value
}

func nameShapes() []nameShape {
	t, f := true, false
	return []nameShape{
		{"none", []string{"", ""}, []bool{f, f}, []string{"", ""}, nil},
		{"first-only", []string{"from-first", ""}, []bool{t, f}, []string{"from-first", ""}, nil},
		{"last-only", []string{"", "from-last"}, []bool{f, t}, []string{"", "from-last"}, nil},
		{"both", []string{"from-first", "from-last"}, []bool{t, t}, []string{"from-first", "from-last"}, nil},
		{"three-first-two", []string{"from-first", "from-second", ""}, []bool{t, t, f}, []string{"from-first", "from-second", ""}, nil},
		{"three-all", []string{"from-first", "from-second", "from-third"}, []bool{t, t, t}, []string{"from-first", "from-second", "from-third"}, nil},
		{"single-file", []string{"only-file"}, []bool{t}, []string{"only-file"}, nil},
		{"interp-os", []string{"from-first", "${C17_PN}"}, []bool{t, t}, []string{"from-first", "interp-val"}, [][3]string{{"os", "C17_PN", "interp-val"}}},
		{"interp-x", []string{"", "pre-${C17_PN}-post"}, []bool{f, t}, []string{"", "pre-xval-post"}, [][3]string{{"x", "C17_PN", "xval"}}},
		{"interp-dotenv", []string{"${C17_PN}", ""}, []bool{t, f}, []string{"dotenv-val", ""}, [][3]string{{"e1", "C17_PN", "dotenv-val"}}},
		{"interp-default", []string{"from-first", "pre-${C17_UNSET:-dflt}"}, []bool{t, t}, []string{"from-first", "pre-dflt"}, nil},
		{"interp-precedence", []string{"", "${C17_PN}"}, []bool{f, t}, []string{"", "os-wins"}, [][3]string{{"os", "C17_PN", "os-wins"}, {"e1", "C17_PN", "dotenv-loses"}}},
		{"normalisable", []string{"from-first", "My App.v2"}, []bool{t, t}, []string{"from-first", "My App.v2"}, nil},
		{"interp-normalisable", []string{"", "${C17_PN}"}, []bool{f, t}, []string{"", "Web_Site!"}, [][3]string{{"os", "C17_PN", "Web_Site!"}}},
		{"leading-symbols", []string{"", "-_Lead"}, []bool{f, t}, []string{"", "-_Lead"}, nil},
		{"invalid-before-leading-symbol", []string{"", "._Lead"}, []bool{f, t}, []string{"", "._Lead"}, nil},
		{"interp-invalid-before-dash", []string{"", "${C17_UNSET:-}/-api"}, []bool{f, t}, []string{"", "/-api"}, nil},
		{"dot-dash-normalises-empty", []string{"from-first", ".-"}, []bool{t, t}, []string{"from-first", ".-"}, nil},
		{"last-normalises-empty", []string{"", "!!!"}, []bool{f, t}, []string{"", "!!!"}, nil},
		{"last-normalises-empty-first-ok", []string{"from-first", "!!!"}, []bool{t, t}, []string{"from-first", "!!!"}, nil},
		{"first-normalises-empty", []string{"__--", ""}, []bool{t, f}, []string{"__--", ""}, nil},
		{"interp-to-empty", []string{"", "${C17_PN}"}, []bool{f, t}, []string{"", ""}, [][3]string{{"os", "C17_PN", ""}}},
		{"last-empty-text", []string{"from-first", ""}, []bool{t, t}, []string{"from-first", ""}, nil},
		{"unicode", []string{"", "Projet-Été"}, []bool{f, t}, []string{"", "Projet-Été"}, nil},
	}
}

var wdModes = []string{"none", "abs", "rel", "other"}

// buildName assembles one point of the name lattice.
func buildName(dir string, ex explicitDim, cd cpnDim, ns nameShape, idx, rot int) *sem {
	c := &sem{Part: "name", Dir: dir, NameOpt: ex.Opt, Explicit: ex.Val, Shape: ns.Shape, CPNShape: cd.Shape,
		Names: ns.Names, NameKey: ns.Key, NameVals: ns.Vals}
	needE2 := false
	for _, l := range layers {
		if v, ok := cd.Defs[l]; ok {
			c.def(l, cpn, v)
			if l == "e2" {
				needE2 = true
			}
		}
	}
	for _, v := range ns.Vars {
		c.def(v[0], v[1], v[2])
	}
	// a bystander variable in every layer so that value precedence is also observed here
	for _, l := range layers {
		if l == "e2" && !needE2 {
			continue
		}
		c.def(l, "C17_ALL", "all-from-"+l)
	}
	k := idx + rot
	c.Order = k % len(orders)
	c.WdMode = wdModes[(k/7)%len(wdModes)]
	if k%5 == 2 {
		// the project directory is a symbolic link: its own base name is the fallback, not the target's
		c.Symlink = []string{"releases-2024-05-01", "___", "Other_Name"}[(k/5)%3]
	}
	if needE2 {
		c.EnvFiles = "explicit"
	} else {
		c.EnvFiles = []string{"default", "explicit1", "explicit"}[(k/3)%3]
		if c.EnvFiles == "explicit" {
			c.def("e2", "C17_ALL", "all-from-e2")
		}
	}
	return c
}

// ---------------------------------------------------------------------------
// environment lattice

func buildEnv(order int, wd, envFiles string, emptyWinner bool, tok string) *sem {
	c := &sem{Part: "env", Dir: "envproj", NameOpt: "omit", WdMode: wd, EnvFiles: envFiles, Order: order,
		Names: []string{"", ""}, NameKey: []bool{false, false}, NameVals: []string{"", ""}}
	avail := 15
	if envFiles != "explicit" {
		avail = 15 &^ 2 // no second .env file
	}
	val := func(l string, mask int) string { return fmt.Sprintf("%s%s-%04b", tok, l, mask) }
	// one variable per non-empty subset of the available layers
	for mask := 1; mask < 16; mask++ {
		if mask&^avail != 0 {
			continue
		}
		ls := layersOf(mask)
		for i, l := range ls {
			v := val(l, mask)
			if emptyWinner && i == 0 && len(ls) > 1 {
				v = ""
			}
			c.def(l, fmt.Sprintf("C17_V%04b", mask), v)
		}
	}
	// references: a variable defined only in .env #k whose value references W,
	// W being defined in a subset of the layers above that file.
	above := func(l string) int { // mask of layers above l
		switch l {
		case "e1":
			return 0b1100
		default: // e2: explicit, OS and the earlier file
			return 0b1101
		}
	}
	for _, l := range []string{"e1", "e2"} {
		if l == "e2" && envFiles != "explicit" {
			continue
		}
		for mask := 1; mask < 16; mask++ {
			if mask&^above(l) != 0 {
				continue
			}
			w := fmt.Sprintf("C17_W%s_%04b", l, mask)
			ls := layersOf(mask)
			// precedence among the layers above: explicit > OS > earlier file
			for _, wl := range ls {
				c.def(wl, w, val(wl, mask)+"w")
			}
			want := val(ls[0], mask) + "w"
			c.defRef(l, fmt.Sprintf("C17_R%s_%04b", l, mask), "pre-${"+w+"}-post", "pre-"+want+"-post")
		}
		// undefined reference with a default
		c.defRef(l, "C17_D"+l, "${C17_NOWHERE_"+l+":-dflt}", "dflt")
		// earlier line of the same file, shadowed or not by a higher layer
		c.def(l, "C17_L"+l, val(l, 0)+"line")
		c.defRef(l, "C17_LR"+l, "${C17_L"+l+"}", val(l, 0)+"line")
		c.def("os", "C17_S"+l, val("os", 0)+"shadow")
		c.def(l, "C17_S"+l, val(l, 0)+"shadowed")
		c.defRef(l, "C17_SR"+l, "${C17_S"+l+"}", val("os", 0)+"shadow")
	}
	return c
}

// ---------------------------------------------------------------------------

func run(s *core.Shard) {
	thorough := s.Thorough()
	ex := explicitQuick
	dirs := dirsQuick
	if thorough {
		ex = explicitThorough
		dirs = dirsThorough
	}
	cds := cpnDims(thorough)
	shapes := nameShapes()
	ordersPerPoint := 1
	rot := int(s.Seed%1009) * 13
	n, mine := 0, 0
	active := true
	emit := func(c *sem) {
		n++
		if !s.Mine(n) {
			return
		}
		mine++
		if mine%50 == 1 {
			active = s.Begin(fmt.Sprintf("%s/%d", c.Part, n))
		}
		if !active {
			return
		}
		if nontrivial(c) {
			b, _ := json.Marshal(c)
			s.Nontrivial(string(b))
		}
		judge(s, c)
	}
	idx := 0
	for _, d := range dirs {
		for _, e := range ex {
			for _, cd := range cds {
				for _, ns := range shapes {
					for r := 0; r < ordersPerPoint; r++ {
						idx++
						emit(buildName(d, e, cd, ns, idx, rot+r*29))
					}
				}
			}
		}
	}
	if s.Index == 0 {
		s.Add("name_lattice_points", idx/ordersPerPoint)
	}

	// part 2
	rnd := s.Rand("env-tokens")
	ntok := s.Pick(1, 4)
	for t := 0; t < ntok; t++ {
		tok := fmt.Sprintf("t%x", rnd.Intn(1<<16))
		for o := range orders {
			for _, wd := range wdModes {
				for _, ef := range []string{"default", "explicit1", "explicit"} {
					for _, ew := range []bool{false, true} {
						emit(buildEnv(o, wd, ef, ew, tok))
					}
				}
			}
		}
	}
}
