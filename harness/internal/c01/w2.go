package c01

import (
	"fmt"
	"math/rand"
	"os"
	"path/filepath"
	"strings"

	"verif/harness/internal/core"
	"verif/harness/internal/ld"
)

var tokens = []string{"&a ", "*a", "<<: ", "<<: *a\n", "!reset ", "!override ", "\n---\n", "\t", ":", ": ", "- ", "[", "]", "{", "}", "${", "$$", "${X:-", "${X?", "}", "? ", "|\n", ">\n", "\"", "'", "#", "\n", "  ", "null", "~", "true", "0x10", "1e3", "extends:", "include:", "services:", "!!binary ", "!!set ", "%YAML 1.1\n", "\xff", "\x00", "\u2028"}

type corpusEntry struct {
	rel     string
	content string
}

// corpus: the repository's loader testdata (all files kept in place so that
// extends/include references resolve) plus the full example.
func loadCorpus() (files map[string]string, mains []string) {
	files = map[string]string{}
	root := filepath.Join(repoDir(), "loader")
	_ = filepath.Walk(filepath.Join(root, "testdata"), func(p string, info os.FileInfo, err error) error {
		if err != nil || info.IsDir() || info.Size() > 64<<10 {
			return nil
		}
		b, err := os.ReadFile(p)
		if err != nil {
			return nil
		}
		rel, _ := filepath.Rel(root, p)
		files[rel] = string(b)
		if strings.HasSuffix(rel, ".yaml") || strings.HasSuffix(rel, ".yml") {
			mains = append(mains, rel)
		}
		return nil
	})
	if b, err := os.ReadFile(filepath.Join(root, "full-example.yml")); err == nil {
		files["full-example.yml"] = string(b)
		mains = append(mains, "full-example.yml")
	}
	for _, n := range []string{"example1.env", "example2.env", "example1.label", "example2.label"} {
		if b, err := os.ReadFile(filepath.Join(root, n)); err == nil {
			files[n] = string(b)
		}
	}
	embedded := map[string]string{
		"emb/multi.yaml":   "services:\n  a: &svc\n    image: a\n    environment: [A=1, B]\n    ports: [\"80:80\", {target: 90, published: \"9000-9001\"}]\n  b:\n    <<: *svc\n    image: b\n    depends_on: {a: {condition: service_healthy}}\n---\nservices:\n  a:\n    environment: !override {C: \"3\"}\n    ports: !reset []\nnetworks:\n  n: {ipam: {config: [{subnet: 10.0.0.0/24}]}}\n",
		"emb/ext.yaml":     "services:\n  a:\n    extends: {file: ../emb/multi.yaml, service: a}\n    volumes: [\"./x:/x\", {type: volume, source: v, target: /v}]\n    secrets: [s]\n    configs: [{source: c, target: /c}]\nvolumes: {v: {}}\nsecrets: {s: {environment: FOO}}\nconfigs: {c: {content: \"x ${FOO}\"}}\n",
		"emb/include.yaml": "include:\n  - emb/ext.yaml\n  - path: [emb/multi.yaml]\n    project_directory: emb\nservices:\n  z: {image: z, env_file: [{path: example1.env, required: false}], label_file: example1.label}\n",
	}
	for k, v := range embedded {
		files[k] = v
		mains = append(mains, k)
	}
	sortStrings(mains)
	return files, mains
}

func sortStrings(s []string) {
	for i := 1; i < len(s); i++ {
		for j := i; j > 0 && s[j] < s[j-1]; j-- {
			s[j], s[j-1] = s[j-1], s[j]
		}
	}
}

func mutateBytes(rng *rand.Rand, src string, others []string) string {
	b := []byte(src)
	n := 1 + rng.Intn(3)
	for k := 0; k < n; k++ {
		if len(b) == 0 {
			b = []byte(tokens[rng.Intn(len(tokens))])
			continue
		}
		pos := rng.Intn(len(b))
		switch rng.Intn(10) {
		case 0: // bit flip
			b[pos] ^= 1 << uint(rng.Intn(8))
		case 1: // delete a byte range
			end := pos + 1 + rng.Intn(8)
			if end > len(b) {
				end = len(b)
			}
			b = append(b[:pos:pos], b[end:]...)
		case 2: // truncate
			b = b[:pos]
		case 3, 4, 5: // insert a token
			t := tokens[rng.Intn(len(tokens))]
			b = append(b[:pos:pos], append([]byte(t), b[pos:]...)...)
		case 6: // splice a chunk of another corpus member
			o := others[rng.Intn(len(others))]
			if len(o) > 0 {
				a := rng.Intn(len(o))
				e := a + rng.Intn(200)
				if e > len(o) {
					e = len(o)
				}
				b = append(b[:pos:pos], append([]byte(o[a:e]), b[pos:]...)...)
			}
		case 7: // duplicate a line
			ls := strings.Split(string(b), "\n")
			i := rng.Intn(len(ls))
			ls = append(ls[:i+1], ls[i:]...)
			b = []byte(strings.Join(ls, "\n"))
		case 8: // delete a line
			ls := strings.Split(string(b), "\n")
			i := rng.Intn(len(ls))
			ls = append(ls[:i], ls[i+1:]...)
			b = []byte(strings.Join(ls, "\n"))
		case 9: // change indentation of a line
			ls := strings.Split(string(b), "\n")
			i := rng.Intn(len(ls))
			if rng.Intn(2) == 0 {
				ls[i] = "  " + ls[i]
			} else {
				ls[i] = strings.TrimPrefix(ls[i], "  ")
			}
			b = []byte(strings.Join(ls, "\n"))
		}
	}
	return string(b)
}

func runW2(s *core.Shard, next func(string) bool) {
	files, mains := loadCorpus()
	if len(mains) < 10 {
		s.Inconclusive(fmt.Sprintf("corpus too small: %d files", len(mains)))
		return
	}
	var contents []string
	for _, m := range mains {
		contents = append(contents, files[m])
	}
	// the corpus is materialised once per shard; each case rewrites only the mutated file
	// (and leaves a copy in the scratch directory in case the load kills the process)
	corpusDir := filepath.Join(s.Work, "w2-corpus")
	if err := ld.Materialise(corpusDir, &ld.Case{Files: files}); err != nil {
		s.Inconclusive("materialise corpus: " + err.Error())
		return
	}
	rng := s.Rand("w2")
	sing := singles()
	n := s.Pick(20000, 600000)
	for i := 0; i < n; i++ {
		mi := rng.Intn(len(mains))
		seed := rng.Int63()
		oi := 0
		if rng.Intn(5) == 0 {
			oi = rng.Intn(len(sing))
		}
		if !next(fmt.Sprintf("w2/%d", i)) {
			continue
		}
		main := mains[mi]
		mut := mutateBytes(rand.New(rand.NewSource(seed)), files[main], contents)
		c := &ld.Case{Files: map[string]string{}, ComposeFiles: []string{main}, Env: map[string]string{"FOO": "foo", "BAR": "bar", "HOME": "/home/u"}, Opts: sing[oi]}
		for k, v := range files {
			c.Files[k] = v
		}
		c.Files[main] = mut
		if strings.HasPrefix(main, "testdata/") {
			c.WorkingDir = filepath.Dir(main)
		}
		if i%7 == 0 {
			// also as an override over / base under the unmutated file
			c.Files["mutant.yaml"] = mut
			c.Files[main] = files[main]
			if i%14 == 0 {
				c.ComposeFiles = []string{main, "mutant.yaml"}
			} else {
				c.ComposeFiles = []string{"mutant.yaml", main}
			}
		}
		target := main
		if _, ok := c.Files["mutant.yaml"]; ok {
			target = "mutant.yaml"
		}
		_ = os.WriteFile(filepath.Join(s.Scratch(), "mutant.yaml"), []byte(mut), 0o644)
		_ = os.WriteFile(filepath.Join(corpusDir, target), []byte(mut), 0o644)
		r := judge(s, corpusDir, c, expect{Workload: "W2", Generic: main}, nil)
		if target == main {
			_ = os.WriteFile(filepath.Join(corpusDir, main), []byte(files[main]), 0o644)
		}
		s.Add("w2_loads", 1)
		s.Cover("w2-corpus", main)
		if mut != files[main] {
			s.Nontrivial(main, mut, c.Opts.String())
		}
		if s.WantSample() && i%500 == 3 {
			out := "loaded"
			if r.Err != nil {
				out = r.Err.Error()
			}
			if len(out) > 200 {
				out = out[:200]
			}
			s.Sample(map[string]any{"workload": "W2", "corpus_file": main, "mutation_seed": seed, "options": c.Opts.String(), "outcome": out})
		}
	}
}
