package c01

import (
	"fmt"
	"os"
	"path/filepath"

	"verif/harness/internal/core"
	"verif/harness/internal/ld"
)

var positions = []string{"alone", "override", "base", "extends-same", "extends-file", "include"}

// place builds the load case for a mutant document at a position.
func place(mutant, carrier map[string]any, svc, pos string, opts ld.Opts, extra map[string]string) *ld.Case {
	c := &ld.Case{Files: map[string]string{}, Env: map[string]string{"FOO": "foo", "BAR": "bar"}, Opts: opts}
	for k, v := range extra {
		c.Files[k] = v
	}
	switch pos {
	case "alone":
		c.Files["compose.yaml"] = render(mutant)
		c.ComposeFiles = []string{"compose.yaml"}
	case "override":
		c.Files["compose.yaml"] = render(carrier)
		c.Files["override.yaml"] = render(mutant)
		c.ComposeFiles = []string{"compose.yaml", "override.yaml"}
	case "base":
		c.Files["compose.yaml"] = render(mutant)
		c.Files["override.yaml"] = render(carrier)
		c.ComposeFiles = []string{"compose.yaml", "override.yaml"}
	case "extends-same":
		m := deepCopy(mutant).(map[string]any)
		svcs, ok := m["services"].(map[string]any)
		if !ok {
			svcs = map[string]any{}
			m["services"] = svcs
		}
		svcs["zz-ext"] = map[string]any{"extends": map[string]any{"service": svc}, "labels": map[string]any{"own": "1"}}
		c.Files["compose.yaml"] = render(m)
		c.ComposeFiles = []string{"compose.yaml"}
	case "extends-file":
		c.Files["sub/base.yaml"] = render(mutant)
		c.Files["compose.yaml"] = render(map[string]any{"services": map[string]any{"ext": map[string]any{"extends": map[string]any{"file": "sub/base.yaml", "service": svc}, "image": "own"}}})
		c.ComposeFiles = []string{"compose.yaml"}
	case "include":
		c.Files["inc/compose.yaml"] = render(mutant)
		c.Files["compose.yaml"] = render(map[string]any{"include": []any{"inc/compose.yaml"}, "services": map[string]any{"main": map[string]any{"image": "main"}}})
		c.ComposeFiles = []string{"compose.yaml"}
	}
	return c
}

type w1target struct {
	id      string
	carrier map[string]any
	root    path // where the attribute value sits in the carrier
	svc     string
	schema  bool
}

func w1targets(s *core.Shard) []w1target {
	var out []w1target
	g, err := loadSchema()
	if err != nil {
		s.Inconclusive("schema unreadable: " + err.Error())
	} else {
		for _, t := range g.targets() {
			var root path
			svc := "base"
			switch t.Section {
			case "services":
				root = path{{Key: "services"}, {Key: "svc"}, {Key: t.Attr}}
				svc = "svc"
			case "top":
				root = path{{Key: t.Attr}}
			default:
				root = path{{Key: t.Section}, {Key: "res"}, {Key: t.Attr}}
			}
			out = append(out, w1target{id: "schema/" + t.id(), carrier: t.carrier(t.Value), root: root, svc: svc, schema: true})
		}
	}
	b, err := os.ReadFile(filepath.Join(repoDir(), "loader", "full-example.yml"))
	if err == nil {
		if doc, err := parseDoc(b); err == nil {
			out = append(out, w1target{id: "full-example", carrier: doc, root: nil, svc: "foo"})
		}
	}
	return out
}

func runW1(s *core.Shard, next func(string) bool) {
	targets := w1targets(s)
	sing := singles()
	prs := pairs()
	extra := map[string]string{"f": "K=V\n", "example1.env": "A=1\n", "example2.env": "B=2\n", "example1.label": "l=1\n", "example2.label": "m=2\n"}
	i := 0
	for _, t := range targets {
		var sub any = t.carrier
		for _, st := range t.root {
			sub = sub.(map[string]any)[st.Key]
		}
		var ps []path
		ps = append(ps, append(path{}, t.root...))
		walk(sub, t.root, &ps)
		if !t.schema {
			ps = ps[1:] // the document root itself is covered by W2/W5
		}
		for _, p := range ps {
			svc := t.svc
			if len(p) >= 2 && p[0].Key == "services" {
				svc = p[1].Key
			}
			generic := p.generic()
			for ki, k := range nodeKinds {
				i++
				mutant := replaceAt(t.carrier, p, k.Make()).(map[string]any)
				type job struct {
					pos  string
					opts ld.Opts
				}
				var jobs []job
				if s.Thorough() {
					for _, pos := range positions {
						jobs = append(jobs, job{pos, ld.Opts{}})
					}
					for j := 0; j < 3; j++ {
						jobs = append(jobs, job{positions[(i+j)%6], prs[(i*3+j)%len(prs)]})
					}
					jobs = append(jobs, job{positions[i%6], sing[i%len(sing)]})
					if i%50 == int(s.Seed)%50 {
						for mask := 0; mask < 512; mask++ {
							jobs = append(jobs, job{positions[mask%6], fromMask(mask)})
						}
					}
				} else {
					if t.schema {
						jobs = append(jobs, job{"alone", ld.Opts{}})
						jobs = append(jobs, job{positions[1+i%5], sing[(i/5)%len(sing)]})
					} else if (i+int(s.Seed))%2 == 0 {
						jobs = append(jobs, job{positions[i%6], sing[(i/6)%len(sing)]})
					}
				}
				for ji, j := range jobs {
					if !next(fmt.Sprintf("w1/%s%s/%s/%d", t.id, p, k.Name, ji)) {
						continue
					}
					c := place(mutant, t.carrier, svc, j.pos, j.opts, extra)
					r := check(s, c, expect{Workload: "W1/" + j.pos, Generic: generic + "=" + k.Name}, nil)
					s.Add("w1_loads", 1)
					s.Cover("w1-position", j.pos)
					s.Cover("w1-options", j.opts.String())
					s.Cover("w1-node-kind", k.Name)
					if t.schema {
						s.Cover("w1-schema-attribute", t.id)
					}
					s.Nontrivial(c.Key())
					if s.WantSample() && ki == 12 && r.Err != nil && len(p) > 3 {
						s.Sample(map[string]any{"workload": "W1", "path": p.String(), "node_kind": k.Name, "position": j.pos, "options": j.opts.String(), "outcome": r.Err.Error()})
					}
				}
			}
		}
	}
}
