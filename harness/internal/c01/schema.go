package c01

import (
	"encoding/json"
	"fmt"
	"os"
	"path/filepath"
	"sort"
	"strings"
)

// synth derives minimal instances from the repository's own JSON schema
// (schema/compose-spec.json of the tree under test), so that every attribute
// path of the schema is reached, including every oneOf arm.
type synth struct {
	root map[string]any
}

func repoDir() string {
	if d := os.Getenv("VERIF_REPO_DIR"); d != "" {
		return d
	}
	return "/repo"
}

func loadSchema() (*synth, error) {
	b, err := os.ReadFile(filepath.Join(repoDir(), "schema", "compose-spec.json"))
	if err != nil {
		return nil, err
	}
	var root map[string]any
	if err := json.Unmarshal(b, &root); err != nil {
		return nil, err
	}
	return &synth{root: root}, nil
}

func (g *synth) resolve(n map[string]any) map[string]any {
	for {
		ref, ok := n["$ref"].(string)
		if !ok {
			return n
		}
		name := strings.TrimPrefix(ref, "#/definitions/")
		d, ok := g.root["definitions"].(map[string]any)[name].(map[string]any)
		if !ok {
			return map[string]any{}
		}
		n = d
	}
}

func sortedKeys(m map[string]any) []string {
	ks := make([]string, 0, len(m))
	for k := range m {
		ks = append(ks, k)
	}
	sort.Strings(ks)
	return ks
}

func keyFor(pattern string) string {
	if strings.Contains(pattern, "x-") {
		return "x-ext"
	}
	return "key1"
}

// instances returns alternative instances of a schema node (at most limit).
func (g *synth) instances(n map[string]any, depth int, hint string) []any {
	n = g.resolve(n)
	if depth > 9 {
		return []any{"deep"}
	}
	var out []any
	add := func(v ...any) {
		for _, x := range v {
			if len(out) < 6 {
				out = append(out, x)
			}
		}
	}
	for _, comb := range []string{"oneOf", "anyOf"} {
		if arms, ok := n[comb].([]any); ok {
			for _, a := range arms {
				if am, ok := a.(map[string]any); ok {
					add(g.instances(am, depth+1, hint)...)
				}
			}
		}
	}
	if all, ok := n["allOf"].([]any); ok && len(all) > 0 {
		if am, ok := all[0].(map[string]any); ok {
			add(g.instances(am, depth+1, hint)...)
		}
	}
	var types []string
	switch t := n["type"].(type) {
	case string:
		types = []string{t}
	case []any:
		for _, x := range t {
			if s, ok := x.(string); ok {
				types = append(types, s)
			}
		}
	}
	if len(types) == 0 && len(out) == 0 {
		if _, ok := n["properties"]; ok {
			types = []string{"object"}
		} else if _, ok := n["patternProperties"]; ok {
			types = []string{"object"}
		}
	}
	for _, t := range types {
		switch t {
		case "string":
			if en, ok := n["enum"].([]any); ok && len(en) > 0 {
				add(en[0])
			} else if f, _ := n["format"].(string); f == "duration" {
				add("1m30s")
			} else {
				add(stringFor(hint))
			}
		case "number", "integer":
			add(1)
		case "boolean":
			add(true)
		case "null":
			add(nil)
		case "array":
			items, _ := n["items"].(map[string]any)
			if items == nil {
				add([]any{"item"})
				break
			}
			for _, it := range g.instances(items, depth+1, hint) {
				add([]any{it})
			}
		case "object":
			obj := map[string]any{}
			if props, ok := n["properties"].(map[string]any); ok {
				for _, k := range sortedKeys(props) {
					pm, _ := props[k].(map[string]any)
					if pm == nil {
						continue
					}
					if k == "deprecated" {
						continue
					}
					ins := g.instances(pm, depth+1, k)
					if len(ins) > 0 {
						obj[k] = ins[0]
					}
				}
			}
			if pp, ok := n["patternProperties"].(map[string]any); ok {
				for _, pat := range sortedKeys(pp) {
					pm, _ := pp[pat].(map[string]any)
					if pm == nil {
						continue
					}
					if strings.Contains(pat, "x-") && len(obj) > 0 {
						continue
					}
					ins := g.instances(pm, depth+1, hint)
					if len(ins) > 0 {
						obj[keyFor(pat)] = ins[0]
					}
				}
			}
			if ap, ok := n["additionalProperties"].(map[string]any); ok {
				ins := g.instances(ap, depth+1, hint)
				if len(ins) > 0 {
					obj["key1"] = ins[0]
				}
			}
			add(obj)
		}
	}
	if len(out) == 0 {
		out = append(out, "any")
	}
	return out
}

// stringFor gives plausible strings for attributes whose text the loader interprets.
func stringFor(hint string) string {
	switch hint {
	case "ports":
		return "8080:80"
	case "volumes":
		return "./src:/dst:ro"
	case "devices":
		return "/dev/a:/dev/b:rwm"
	case "memory", "mem_limit", "mem_reservation", "memswap_limit", "shm_size", "size", "rate":
		return "64m"
	case "cpus", "nano_cpus":
		return "0.5"
	case "extends", "service":
		return "base"
	case "file", "env_file", "label_file", "path", "context", "dockerfile":
		return "./f"
	case "network_mode", "pid", "ipc", "uts", "cgroup":
		return "host"
	case "subnet":
		return "10.1.0.0/24"
	case "extra_hosts":
		return "h=1.2.3.4"
	case "ssh":
		return "default"
	}
	return "v" + hint
}

// schemaTarget is one (section, attribute, alternative instance) of the schema.
type schemaTarget struct {
	Section string // services | networks | volumes | secrets | configs | top
	Attr    string
	Alt     int
	Value   any
}

func (g *synth) targets() []schemaTarget {
	var out []schemaTarget
	defs, _ := g.root["definitions"].(map[string]any)
	sec := map[string]string{"services": "service", "networks": "network", "volumes": "volume", "secrets": "secret", "configs": "config"}
	for _, section := range []string{"services", "networks", "volumes", "secrets", "configs"} {
		d, _ := defs[sec[section]].(map[string]any)
		d = g.resolve(d)
		props, _ := d["properties"].(map[string]any)
		for _, attr := range sortedKeys(props) {
			pm, _ := props[attr].(map[string]any)
			if pm == nil {
				continue
			}
			for i, ins := range g.instances(pm, 0, attr) {
				out = append(out, schemaTarget{Section: section, Attr: attr, Alt: i, Value: ins})
			}
		}
	}
	top, _ := g.root["properties"].(map[string]any)
	for _, attr := range []string{"name", "version", "include"} {
		pm, _ := top[attr].(map[string]any)
		if pm == nil {
			continue
		}
		for i, ins := range g.instances(pm, 0, attr) {
			out = append(out, schemaTarget{Section: "top", Attr: attr, Alt: i, Value: ins})
		}
	}
	return out
}

// carrier wraps a target value into a minimal document.
func (t schemaTarget) carrier(v any) map[string]any {
	doc := map[string]any{"services": map[string]any{"base": map[string]any{"image": "base"}}}
	switch t.Section {
	case "services":
		svc := map[string]any{"image": "img"}
		svc[t.Attr] = v
		doc["services"].(map[string]any)["svc"] = svc
	case "top":
		doc[t.Attr] = v
	default:
		doc[t.Section] = map[string]any{"res": map[string]any{t.Attr: v}}
	}
	return doc
}

func (t schemaTarget) id() string { return fmt.Sprintf("%s.%s#%d", t.Section, t.Attr, t.Alt) }
