package c01

import (
	"fmt"
	"sort"
	"strings"

	"gopkg.in/yaml.v3"

	"verif/harness/internal/core"
	"verif/harness/internal/ld"
)

// ---- W7: attribute combinations --------------------------------------------------
//
// W1/W2 change one node at a time. The consistency check, the normalizer and the defaults relate
// attributes to each other (legacy resource attributes and deploy.resources, scale and replicas,
// container_name, network_mode and networks, namespaces and depends_on, build and image ...), and
// what they do depends on which of several optional sections are present at once. W7 enumerates
// every subset of up to 3 fragments out of a fixed list, merged into one service: whatever the
// combination, the load returns a project or an error.

type m = map[string]any

func w7Fragments() []m {
	dep := func(path string, v any) m {
		parts := strings.Split(path, ".")
		cur := m{parts[len(parts)-1]: v}
		for i := len(parts) - 2; i >= 0; i-- {
			cur = m{parts[i]: cur}
		}
		return cur
	}
	return []m{
		{"cpus": 0.5}, {"mem_limit": "128m"}, {"mem_reservation": "64m"}, {"pids_limit": 100}, {"cpu_count": 2},
		{"scale": 2}, {"container_name": "fixed"},
		dep("deploy", m{}),
		dep("deploy.replicas", 2),
		dep("deploy.resources", m{}),
		dep("deploy.resources.limits", m{}),
		dep("deploy.resources.limits.memory", "128m"),
		dep("deploy.resources.limits.cpus", "0.5"),
		dep("deploy.resources.limits.pids", 100),
		dep("deploy.resources.reservations", m{}),
		dep("deploy.resources.reservations.memory", "64m"),
		dep("deploy.resources.reservations.cpus", "0.25"),
		dep("deploy.resources.reservations.devices", []any{m{"capabilities": []any{"gpu"}, "count": 1}}),
		dep("deploy.resources.reservations.devices", []any{m{"capabilities": []any{"gpu"}, "device_ids": []any{"0"}}}),
		{"network_mode": "host"}, {"network_mode": "service:other"}, {"networks": []any{"net1"}}, {"networks": m{}},
		{"ipc": "service:other"}, {"pid": "host"}, {"uts": "host"}, {"cgroup": "host"},
		{"depends_on": m{"other": m{"condition": "service_started", "required": false}}},
		{"build": m{}}, {"build": "."}, {"build": m{"dockerfile_inline": "FROM scratch\n"}}, {"build": m{"dockerfile": "D"}},
		{"develop": m{"watch": []any{m{"path": "./src", "action": "sync"}}}},
		{"develop": m{"watch": []any{m{"path": "./src", "action": "rebuild"}}}},
		{"volumes": []any{m{"type": "bind", "source": ".", "target": "/x"}}}, {"volumes": []any{m{"type": "volume", "target": "/x"}}},
		{"healthcheck": m{"disable": true}}, {"healthcheck": m{"test": []any{"NONE"}}},
		{"gpus": "all"}, {"gpus": []any{m{"count": 1}}},
		{"extends": m{"service": "other"}},
		{"secrets": []any{"sec1"}}, {"configs": []any{m{"source": "cfg1"}}},
	}
}

func deepMerge(dst, src m) m {
	for k, v := range src {
		if sv, ok := v.(m); ok {
			if dv, ok := dst[k].(m); ok {
				dst[k] = deepMerge(dv, sv)
				continue
			}
			dst[k] = deepMerge(m{}, sv)
			continue
		}
		dst[k] = v
	}
	return dst
}

func runW7(s *core.Shard, next func(string) bool) {
	fr := w7Fragments()
	keyOf := func(f m) string {
		b, _ := yaml.Marshal(f)
		return strings.Join(strings.Fields(string(b)), " ")
	}
	opts := []ld.Opts{{}, {SkipNormalization: true}, {SkipValidation: true}, {SkipConsistencyCheck: true, SkipDefaultValues: true}}
	n := 0
	emit := func(idx []int) {
		n++
		if !s.Thorough() && len(idx) == 3 && n%3 != int(s.Seed)%3 {
			return
		}
		id := fmt.Sprintf("w7/%v", idx)
		if !next(id) {
			return
		}
		svc := m{"image": "img"}
		var names []string
		for _, i := range idx {
			svc = deepMerge(svc, fr[i])
			names = append(names, keyOf(fr[i]))
		}
		sort.Strings(names)
		doc := m{"services": m{"s": svc, "other": m{"image": "o"}}, "networks": m{"net1": m{}},
			"secrets": m{"sec1": m{"environment": "S"}}, "configs": m{"cfg1": m{"content": "c"}}}
		b, err := yaml.Marshal(doc)
		if err != nil {
			return
		}
		for oi, o := range opts {
			if oi > 0 && (n+oi)%4 != 0 {
				continue
			}
			c := &ld.Case{Files: map[string]string{"compose.yaml": string(b)}, ComposeFiles: []string{"compose.yaml"}, Env: map[string]string{"S": "v"}, Opts: o}
			check(s, c, expect{Workload: "W7", Generic: strings.Join(names, " + ")}, nil)
		}
		s.Add("w7_combinations", 1)
		s.Nontrivial(id)
	}
	for a := range fr {
		emit([]int{a})
		for b := a + 1; b < len(fr); b++ {
			emit([]int{a, b})
			for c := b + 1; c < len(fr); c++ {
				emit([]int{a, b, c})
			}
		}
	}
}
