// Package c01 checks property C01 (loading is total) with process monitors
// (worker death, CPU budget, resident memory: see internal/core driver) and
// return-value monitors (recovered panic, project XOR error, planted cycle
// rejected, planted missing file reported by name) over five workloads:
// W1 attribute path x node kind x position x options, W2 byte mutation,
// W3 reference cycles, W4 file-fault enumeration, W5 size/depth stress.
package c01

import (
	"encoding/json"
	"fmt"
	"os"
	"path/filepath"
	"strings"
	"time"

	"verif/harness/internal/core"
	"verif/harness/internal/ld"
)

func init() {
	core.Register(&core.Spec{
		ID:    "C01",
		Level: "fault_enumeration",
		Rule:  "W1: every attribute path derived from the tested tree's schema/compose-spec.json (every property, oneOf arm and array level of service/network/volume/secret/config/include) and every node of loader/full-example.yml, the node replaced by each of 18 YAML node kinds, loaded alone / as override / as base / extended in the same file / extended from another file / included, under the default options, every single Skip*/Resolve option (thorough: all pairs and a sample of all 512 combinations); W2: seeded byte/token mutations of a corpus; W3: alias, merge-key, extends, include and depends_on cycles (every digraph with a cycle on <=4 services) which must be errors; W4: generated multi-file projects with every subset of their referenced files removed, each single file replaced by a directory / dangling symlink (thorough: made unreadable with strace fault injection): must fail naming a missing file unless only optional env files are missing; W5: deep nesting, long extends chains, many services, huge scalars; W6: histories of 200 (thorough 1500) loads of distinct file names in one worker process (per-process state must not make a later load crash, block or fail). Every load runs in a worker process watched for death, CPU budget (30/60 CPU-s per case) and resident memory. Non-trivial = the mutated/faulted input differs from its valid carrier; distinct = distinct (files, options).",
		Assumptions: []string{
			"'never loops forever' is restated as a CPU-time budget per load (quick 30 s, thorough 60 s; an ordinary load takes about 10 ms and the slowest stress case of W5 about 3 CPU-s on this tree)",
			"crash sites are identified by the first compose-go frame of the panic stack and the panic class, without line numbers",
			"which error is reported is not asserted, except that a planted missing file must be named and planted cycles must be rejected",
		},
		CPUBudget: func(tier string) float64 {
			if tier == "thorough" {
				return 60
			}
			return 30
		},
		Run:     run,
		Replay:  replay,
		Witness: witness,
		Floor: func(tier string, m *core.Merged) []string {
			var r []string
			c := m.Counters
			if c["w1_loads"] < 5000 || c["w2_loads"] < 1000 || c["w3_cases"] < 100 || c["w4_cases"] < 100 || c["w5_cases"] < 5 {
				r = append(r, fmt.Sprintf("too few loads: %v", c))
			}
			if c["loads_ok"] < 500 || c["loads_err"] < 500 {
				r = append(r, fmt.Sprintf("workload degenerate (ok=%d err=%d)", c["loads_ok"], c["loads_err"]))
			}
			return r
		},
	})
}

// optionSets returns the option lattice points for a tier.
func singles() []ld.Opts {
	return []ld.Opts{
		{},
		{SkipValidation: true}, {SkipInterpolation: true}, {SkipNormalization: true}, {SkipConsistencyCheck: true},
		{SkipExtends: true}, {SkipInclude: true}, {SkipResolveEnvironment: true}, {SkipDefaultValues: true}, {NoResolvePaths: true},
		{SkipInterpolation: true, NilInterpolate: true}, {NilInterpolate: true},
	}
}

func fromMask(mask int) ld.Opts {
	return ld.Opts{
		SkipValidation: mask&1 != 0, SkipInterpolation: mask&2 != 0, SkipNormalization: mask&4 != 0,
		SkipConsistencyCheck: mask&8 != 0, SkipExtends: mask&16 != 0, SkipInclude: mask&32 != 0,
		SkipResolveEnvironment: mask&64 != 0, SkipDefaultValues: mask&128 != 0, NoResolvePaths: mask&256 != 0,
	}
}

func pairs() []ld.Opts {
	var out []ld.Opts
	for i := 0; i < 9; i++ {
		for j := i + 1; j < 9; j++ {
			out = append(out, fromMask(1<<i|1<<j))
		}
	}
	return out
}

// expectation attached to a load.
type expect struct {
	MustFail bool     `json:"must_fail,omitempty"` // planted cycle
	MustName []string `json:"must_name,omitempty"` // error must contain one of these base names
	MustLoad bool     `json:"must_load,omitempty"` // only optional files missing
	Why      string   `json:"why,omitempty"`
	Generic  string   `json:"generic,omitempty"` // generic attribute path (coverage / attrs)
	Workload string   `json:"workload"`
}

type replayCase struct {
	Case   *ld.Case `json:"case"`
	Expect expect   `json:"expect"`
	Entry  string   `json:"entry,omitempty"` // load | model | cli
}

// check materialises one case in the shard's scratch directory and judges the load.
func check(s *core.Shard, c *ld.Case, ex expect, sink func(map[string]string, string, map[string]any)) ld.Result {
	dir := s.Scratch()
	if err := ld.Materialise(dir, c); err != nil {
		s.Inconclusive("materialise: " + err.Error())
		return ld.Result{}
	}
	return judge(s, dir, c, ex, sink)
}

// judge loads an already materialised case and applies the return-value monitors.
func judge(s *core.Shard, dir string, c *ld.Case, ex expect, sink func(map[string]string, string, map[string]any)) ld.Result {
	if sink == nil {
		sink = s.Violation
	}
	t0 := time.Now()
	r := ld.Load(dir, c)
	if el := time.Since(t0); el > 2*time.Second {
		// visibility of loads that come anywhere near the CPU budget (wall time >= CPU time here: one goroutine)
		s.Cover("load-slower-than-2s", ex.Workload+"/"+ex.Generic)
	}
	s.Eval(1)
	files := map[string]any{"case.json": replayCase{Case: c, Expect: ex}}
	validation := "on"
	if c.Opts.SkipValidation {
		validation = "off"
	}
	switch {
	case r.Panic != nil:
		files["stack.txt"] = r.Panic.Stack
		sink(map[string]string{"kind": "panic", "site": r.Panic.Site, "class": r.Panic.Class, "validation": validation},
			fmt.Sprintf("load panicked in %s (%s): %s [%s, options %s, at %s]", r.Panic.Site, r.Panic.Class, r.Panic.Value, ex.Workload, c.Opts, ex.Generic), files)
		s.Add("loads_panic", 1)
		return r
	case (r.Project == nil) == (r.Err == nil):
		sink(map[string]string{"kind": "project-xor-error", "workload": ex.Workload},
			fmt.Sprintf("load returned project=%v and error=%v together [%s]", r.Project != nil, r.Err, ex.Workload), files)
	}
	if r.Err != nil {
		s.Add("loads_err", 1)
	} else {
		s.Add("loads_ok", 1)
	}
	if ex.MustFail && r.Err == nil {
		sink(map[string]string{"kind": "cycle-accepted", "why": ex.Why}, "a planted reference cycle loaded without error: "+ex.Why, files)
	}
	if len(ex.MustName) > 0 {
		if r.Err == nil {
			sink(map[string]string{"kind": "missing-file-ignored", "why": faultClass(ex.Why)}, fmt.Sprintf("load succeeded although %v is missing/unreadable (%s)", ex.MustName, ex.Why), files)
		} else {
			named := false
			for _, n := range ex.MustName {
				if strings.Contains(r.Err.Error(), n) {
					named = true
				}
			}
			if !named {
				sink(map[string]string{"kind": "missing-file-not-named", "why": faultClass(ex.Why)}, fmt.Sprintf("error %q names none of the missing files %v (%s)", r.Err.Error(), ex.MustName, ex.Why), files)
			}
		}
	}
	if ex.MustLoad && r.Err != nil {
		sink(map[string]string{"kind": "optional-file-fatal", "why": faultClass(ex.Why)}, fmt.Sprintf("load failed (%v) although only optional files are missing (%s)", r.Err, ex.Why), files)
	}
	return r
}

func run(s *core.Shard) {
	n := 0
	next := func(id string) bool {
		n++
		if !s.Mine(n) {
			return false
		}
		return s.Begin(id)
	}
	runW3(s, next)
	runW4(s, next)
	runW5(s, next)
	runW6(s, next)
	runW7(s, next)
	runW1(s, next)
	runW2(s, next)
}

func replay(s *core.Shard, dir string) {
	var rc replayCase
	if err := core.ReadJSON(filepath.Join(dir, "case.json"), &rc); err != nil {
		// hang / fatal replays keep the materialised input instead
		if st, e2 := os.Stat(filepath.Join(dir, "input")); e2 == nil && st.IsDir() {
			s.Inconclusive("replay of a process-level violation: re-run the case id from case.txt with the same seed")
			return
		}
		s.Inconclusive("replay: " + err.Error())
		return
	}
	if os.Getenv("VERIF_KEEP_SCRATCH") != "" {
		// fault-injection child: the parent materialised the project under <work>/cur
		judge(s, filepath.Join(s.Work, "cur"), rc.Case, rc.Expect, nil)
		return
	}
	check(s, rc.Case, rc.Expect, nil)
}

// witness re-executes the stored case of a finding. For crash/hang findings
// (kind fatal / hang) the driver decides from the fate of this process.
func witness(s *core.Shard, f core.Finding) (bool, string) {
	var rc replayCase
	if err := json.Unmarshal(f.Witness, &rc); err != nil {
		return false, "bad witness: " + err.Error()
	}
	hit := false
	detail := ""
	check(s, rc.Case, rc.Expect, func(attrs map[string]string, what string, _ map[string]any) {
		if f.Matches(attrs) {
			hit = true
			detail = what
		}
	})
	return hit, detail
}
