package c01

import (
	"fmt"

	"gopkg.in/yaml.v3"
)

// nodeKinds are the YAML node kinds substituted at every attribute path: the 18 kinds of the
// property's quantifier plus three strings that path and interpolation code treats specially.
var nodeKinds = []struct {
	Name string
	Make func() any
}{
	{"null", func() any { return nil }},
	{"bool", func() any { return true }},
	{"int", func() any { return 7 }},
	{"float", func() any { return 1.5 }},
	{"string", func() any { return "text" }},
	{"empty-string", func() any { return "" }},
	{"kv-string", func() any { return "a=b" }},
	{"tilde-string", func() any { return "~" }},
	{"template-string", func() any { return "${FOO}-$$-${UNSET:-d}" }},
	{"dotdot-string", func() any { return "../.." }},
	{"empty-list", func() any { return []any{} }},
	{"list-strings", func() any { return []any{"a", "b"} }},
	{"list-int", func() any { return []any{1} }},
	{"list-null", func() any { return []any{nil} }},
	{"list-list", func() any { return []any{[]any{"a"}} }},
	{"list-map", func() any { return []any{map[string]any{"a": "b"}} }},
	{"list-kv", func() any { return []any{"a=b"} }},
	{"empty-map", func() any { return map[string]any{} }},
	{"map", func() any { return map[string]any{"a": "b"} }},
	{"map-null", func() any { return map[string]any{"a": nil} }},
	{"map-map", func() any { return map[string]any{"a": map[string]any{"b": "c"}} }},
}

// step is one path element: a map key or a list index.
type step struct {
	Key string
	Idx int
	IsI bool
}

type path []step

func (p path) String() string {
	s := ""
	for _, e := range p {
		if e.IsI {
			s += fmt.Sprintf("[%d]", e.Idx)
		} else {
			s += "." + e.Key
		}
	}
	return s
}

// generic returns the path with list indexes and user-chosen names abstracted.
func (p path) generic() string {
	s := ""
	for i, e := range p {
		switch {
		case e.IsI:
			s += "[]"
		case i == 1 && (p[0].Key == "services" || p[0].Key == "networks" || p[0].Key == "volumes" || p[0].Key == "secrets" || p[0].Key == "configs"):
			s += ".*"
		default:
			s += "." + e.Key
		}
	}
	return s
}

// walk lists the path of every node below v (v itself excluded).
func walk(v any, prefix path, out *[]path) {
	switch t := v.(type) {
	case map[string]any:
		for _, k := range sortedKeys(t) {
			p := append(append(path{}, prefix...), step{Key: k})
			*out = append(*out, p)
			walk(t[k], p, out)
		}
	case []any:
		for i, e := range t {
			p := append(append(path{}, prefix...), step{Idx: i, IsI: true})
			*out = append(*out, p)
			walk(e, p, out)
		}
	}
}

func deepCopy(v any) any {
	switch t := v.(type) {
	case map[string]any:
		m := make(map[string]any, len(t))
		for k, e := range t {
			m[k] = deepCopy(e)
		}
		return m
	case []any:
		l := make([]any, len(t))
		for i, e := range t {
			l[i] = deepCopy(e)
		}
		return l
	}
	return v
}

// replaceAt returns a copy of doc with the node at p replaced by nv.
func replaceAt(doc any, p path, nv any) any {
	if len(p) == 0 {
		return nv
	}
	switch t := doc.(type) {
	case map[string]any:
		m := make(map[string]any, len(t))
		for k, e := range t {
			if k == p[0].Key && !p[0].IsI {
				m[k] = replaceAt(e, p[1:], nv)
			} else {
				m[k] = e
			}
		}
		return m
	case []any:
		l := make([]any, len(t))
		for i, e := range t {
			if p[0].IsI && i == p[0].Idx {
				l[i] = replaceAt(e, p[1:], nv)
			} else {
				l[i] = e
			}
		}
		return l
	}
	return doc
}

func render(doc any) string {
	b, err := yaml.Marshal(doc)
	if err != nil {
		return "error: " + err.Error()
	}
	return string(b)
}

func parseDoc(b []byte) (map[string]any, error) {
	var m map[string]any
	err := yaml.Unmarshal(b, &m)
	return m, err
}
