package c01

import (
	"bufio"
	"encoding/json"
	"fmt"
	"os"
	"os/exec"
	"path/filepath"
	"strings"

	"verif/harness/internal/core"
	"verif/harness/internal/ld"
)

// ---- W3: reference cycles -----------------------------------------------------

func runW3(s *core.Shard, next func(string) bool) {
	one := func(id string, c *ld.Case, ex expect) {
		if !next("w3/" + id) {
			return
		}
		ex.Workload = "W3"
		check(s, c, ex, nil)
		s.Add("w3_cases", 1)
		s.Cover("w3-kind", strings.SplitN(id, "/", 2)[0])
		s.Nontrivial(c.Key())
	}
	single := func(doc string) *ld.Case {
		return &ld.Case{Files: map[string]string{"compose.yaml": doc}, ComposeFiles: []string{"compose.yaml"}}
	}
	// (a) YAML aliases: self references must be rejected, ladders / merge chains must terminate
	selfRefs := map[string]string{
		"seq":      "x-a: &a [*a]\nservices: {s: {image: i}}\n",
		"map":      "x-a: &a {k: *a}\nservices: {s: {image: i}}\n",
		"merge":    "x-a: &a {<<: *a, k: v}\nservices: {s: {image: i}}\n",
		"indirect": "x-a: &a {b: &b {c: *a}}\nservices: {s: {image: i}}\n",
		"service":  "services:\n  s: &s\n    image: i\n    labels: {l: *s}\n",
	}
	for _, name := range []string{"indirect", "map", "merge", "seq", "service"} { // fixed order: shards split the case list by position
		doc := selfRefs[name]
		one("alias-self/"+name, single(doc), expect{MustFail: true, Why: "self-referential YAML alias (" + name + ")"})
	}
	for _, depth := range []int{1, 2, 4, 8, 10, 12, 14, 16, 18, 20} {
		var sb strings.Builder
		sb.WriteString("x-a0: &a0 [x, x]\n")
		for i := 1; i <= depth; i++ {
			fmt.Fprintf(&sb, "x-a%d: &a%d [*a%d, *a%d]\n", i, i, i-1, i-1)
		}
		sb.WriteString("services: {s: {image: i}}\n")
		one(fmt.Sprintf("alias-ladder/%02d", depth), single(sb.String()), expect{Why: "alias fan-out ladder"})
	}
	// the same amplification through the forms an alias can take: plain mapping value, single-form
	// merge key, list-form merge key, sequence of mappings
	forms := map[string]func(i, prev int) string{
		"map-value":   func(i, prev int) string { return fmt.Sprintf("  k%d: *l%d\n", i, prev) },
		"merge-key":   func(i, prev int) string { return fmt.Sprintf("  k%d: {<<: *l%d}\n", i, prev) },
		"merge-list":  func(i, prev int) string { return fmt.Sprintf("  k%d: {<<: [*l%d]}\n", i, prev) },
		"nested-seq":  func(i, prev int) string { return fmt.Sprintf("  k%d: [*l%d, {<<: *l%d}]\n", i, prev, prev) },
		"merge-extra": func(i, prev int) string { return fmt.Sprintf("  k%d: {<<: *l%d, own%d: v}\n", i, prev, i) },
	}
	for _, name := range []string{"map-value", "merge-extra", "merge-key", "merge-list", "nested-seq"} {
		form := forms[name]
		for _, sh := range [][2]int{{3, 4}, {12, 10}, {24, 6}} {
			var sb strings.Builder
			sb.WriteString("x-l0: &l0 {a: \"1\", b: \"2\", c: \"3\", d: \"4\", e: \"5\"}\n")
			for l := 1; l <= sh[0]; l++ {
				fmt.Fprintf(&sb, "x-l%d: &l%d\n", l, l)
				for i := 0; i < sh[1]; i++ {
					sb.WriteString(form(i, l-1))
				}
			}
			sb.WriteString("services: {s: {image: i}}\n")
			one(fmt.Sprintf("alias-amplification/%s/%dx%d", name, sh[0], sh[1]), single(sb.String()), expect{Why: "alias amplification (" + name + ")"})
		}
	}
	for _, depth := range []int{5, 50, 500} {
		var sb strings.Builder
		sb.WriteString("x-m0: &m0 {k0: v}\n")
		for i := 1; i <= depth; i++ {
			fmt.Fprintf(&sb, "x-m%d: &m%d {<<: *m%d, k%d: v}\n", i, i, i-1, i)
		}
		fmt.Fprintf(&sb, "services:\n  s:\n    image: i\n    labels:\n      <<: *m%d\n", depth)
		one(fmt.Sprintf("merge-chain/%d", depth), single(sb.String()), expect{Why: "merge key chain"})
	}
	// (b) extends cycles of length 1..4, within a file, across files, across directories
	for length := 1; length <= 4; length++ {
		for layoutN := 0; layoutN < 8; layoutN++ {
			// layouts 4..7: as 0..3 with one and the same service name in every file (where every
			// member of the cycle has a file of its own)
			layout, sameName := layoutN%4, layoutN >= 4
			if sameName && (length < 2 || layout == 0 || layout == 3 && length != 2) {
				continue
			}
			svc := func(i int) string {
				if sameName {
					return "web"
				}
				return fmt.Sprintf("s%d", i)
			}
			c := &ld.Case{Files: map[string]string{}, ComposeFiles: []string{"compose.yaml"}}
			fileOf := func(i int) string {
				switch layout {
				case 0:
					return "compose.yaml"
				case 1:
					if i == 0 {
						return "compose.yaml"
					}
					return fmt.Sprintf("f%d.yaml", i)
				case 2:
					if i == 0 {
						return "compose.yaml"
					}
					return fmt.Sprintf("d%d/compose.yaml", i)
				default:
					if i%2 == 0 {
						return "compose.yaml"
					}
					return "sub/other.yaml"
				}
			}
			docs := map[string]*strings.Builder{}
			for i := 0; i < length; i++ {
				f := fileOf(i)
				if docs[f] == nil {
					docs[f] = &strings.Builder{}
					docs[f].WriteString("services:\n")
				}
				j := (i + 1) % length
				tf := fileOf(j)
				fmt.Fprintf(docs[f], "  %s:\n    image: i%d\n", svc(i), i)
				if tf == f {
					if i%2 == 0 {
						fmt.Fprintf(docs[f], "    extends: %s\n", svc(j))
					} else {
						fmt.Fprintf(docs[f], "    extends: {service: %s}\n", svc(j))
					}
				} else {
					rel, _ := filepath.Rel(filepath.Dir(f), tf)
					fmt.Fprintf(docs[f], "    extends: {file: %s, service: %s}\n", rel, svc(j))
				}
			}
			for f, b := range docs {
				c.Files[f] = b.String()
			}
			one(fmt.Sprintf("extends-cycle/%d/%d", length, layoutN), c, expect{MustFail: true, Why: fmt.Sprintf("extends cycle of length %d (layout %d)", length, layout)})
		}
	}
	// (c) include cycles of length 1..3; style 0: short / {path:} syntax, 1: long syntax with
	// project_directory on every edge, 2: the edge is the second (override) entry of a path list
	for length := 1; length <= 3; length++ {
		for layout := 0; layout < 2; layout++ {
			for style := 0; style < 3; style++ {
				c := &ld.Case{Files: map[string]string{}, ComposeFiles: []string{"compose.yaml"}}
				fileOf := func(i int) string {
					if i == 0 {
						return "compose.yaml"
					}
					if layout == 0 {
						return fmt.Sprintf("inc%d.yaml", i)
					}
					return fmt.Sprintf("dir%d/compose.yaml", i)
				}
				for i := 0; i < length; i++ {
					j := (i + 1) % length
					rel, _ := filepath.Rel(filepath.Dir(fileOf(i)), fileOf(j))
					inc := rel
					switch style {
					case 0:
						if i%2 == 1 {
							inc = "{path: " + rel + "}"
						}
					case 1:
						inc = "{path: " + rel + ", project_directory: .}"
					case 2:
						leaf := filepath.Join(filepath.Dir(fileOf(i)), fmt.Sprintf("leaf%d.yaml", i))
						c.Files[leaf] = fmt.Sprintf("services:\n  l%d:\n    image: i\n", i)
						inc = fmt.Sprintf("{path: [%s, %s]}", filepath.Base(leaf), rel)
					}
					c.Files[fileOf(i)] = fmt.Sprintf("include:\n  - %s\nservices:\n  s%d:\n    image: i\n", inc, i)
				}
				id := fmt.Sprintf("include-cycle/%d/%d", length, layout)
				if style > 0 {
					id += fmt.Sprintf("/%d", style)
				}
				one(id, c, expect{MustFail: true, Why: fmt.Sprintf("include cycle of length %d (layout %d, style %d)", length, layout, style)})
			}
		}
	}
	// (d) depends_on: every digraph with a cycle on <= 4 services
	for n := 1; n <= 4; n++ {
		var ps [][2]int
		for a := 0; a < n; a++ {
			for b := 0; b < n; b++ {
				ps = append(ps, [2]int{a, b}) // self loops included
			}
		}
		for mask := 1; mask < 1<<len(ps); mask++ {
			if n == 4 {
				// 65536 digraphs with self loops: enumerate those without self loops completely, the rest sampled
				hasSelf := false
				for i, p := range ps {
					if mask&(1<<i) != 0 && p[0] == p[1] {
						hasSelf = true
					}
				}
				if hasSelf && mask%61 != int(s.Seed)%61 {
					continue
				}
				if !hasSelf && !s.Thorough() && mask%4 != int(s.Seed)%4 {
					continue
				}
			}
			adj := make([][]int, n)
			for i, p := range ps {
				if mask&(1<<i) != 0 {
					adj[p[0]] = append(adj[p[0]], p[1])
				}
			}
			if !hasCycle(n, adj) {
				continue
			}
			var sb strings.Builder
			sb.WriteString("services:\n")
			for a := 0; a < n; a++ {
				fmt.Fprintf(&sb, "  s%d:\n    image: i\n", a)
				if len(adj[a]) > 0 {
					if (mask+a)%2 == 0 {
						sb.WriteString("    depends_on:\n")
						for _, b := range adj[a] {
							fmt.Fprintf(&sb, "      - s%d\n", b)
						}
					} else {
						sb.WriteString("    depends_on:\n")
						for _, b := range adj[a] {
							fmt.Fprintf(&sb, "      s%d: {condition: service_started}\n", b)
						}
					}
				}
			}
			one(fmt.Sprintf("depends-cycle/%d/%d", n, mask), single(sb.String()), expect{MustFail: true, Why: "depends_on cycle"})
		}
	}
}

func hasCycle(n int, adj [][]int) bool {
	state := make([]int, n)
	var dfs func(int) bool
	dfs = func(v int) bool {
		state[v] = 1
		for _, w := range adj[v] {
			if state[w] == 1 || state[w] == 0 && dfs(w) {
				return true
			}
		}
		state[v] = 2
		return false
	}
	for v := 0; v < n; v++ {
		if state[v] == 0 && dfs(v) {
			return true
		}
	}
	return false
}

// ---- W4: file faults ------------------------------------------------------------

type refFile struct {
	Path     string
	Optional bool
	Content  string
}

// w4project returns a multi-file project and the files it references besides the main file.
func w4project(layout int) (*ld.Case, []refFile) {
	d := []string{"", "cfg/", "deep/er/"}[layout%3]
	refs := []refFile{
		{Path: "override.yaml", Content: "services:\n  a:\n    labels: {o: \"1\"}\n"},
		{Path: d + "ext/base.yaml", Content: "services:\n  b:\n    image: base\n    environment: {E: \"1\"}\n"},
		{Path: d + "inc/compose.yaml", Content: "services:\n  incs:\n    image: inc:${IV:-none}\n"},
		{Path: d + "inc/inc.env", Content: "IV=1\n"},
		{Path: d + "req.env", Content: "R=1\n"},
		{Path: d + "opt.env", Optional: true, Content: "O=1\n"},
		{Path: d + "lab.labels", Content: "l=1\n"},
	}
	main := fmt.Sprintf("include:\n  - path: %sinc/compose.yaml\n    env_file: %sinc/inc.env\nservices:\n  a:\n    extends: {file: %sext/base.yaml, service: b}\n    env_file:\n      - %sreq.env\n      - {path: %sopt.env, required: false}\n    label_file: [%slab.labels]\n", d, d, d, d, d, d)
	if layout >= 3 {
		// string spellings / single entries
		main = fmt.Sprintf("include:\n  - path: [%sinc/compose.yaml]\n    env_file: [%sinc/inc.env]\nservices:\n  a:\n    extends: {file: ./%sext/base.yaml, service: b}\n    env_file:\n      - path: %sreq.env\n      - path: %sopt.env\n        required: false\n    label_file:\n      - ./%slab.labels\n", d, d, d, d, d, d)
	}
	if layout%2 == 1 {
		// other services reference the required env file as optional: whether it is required is a
		// property of the reference, not of the file
		for i := 1; i <= 4; i++ {
			main += fmt.Sprintf("  o%d:\n    image: img\n    env_file:\n      - path: %sreq.env\n        required: false\n", i, d)
		}
	}
	// (a name in the file: some cases run without an imperatively set project name)
	c := &ld.Case{Files: map[string]string{"compose.yaml": "name: w4proj\n" + main}, ComposeFiles: []string{"compose.yaml", "override.yaml"}}
	for _, r := range refs {
		c.Files[r.Path] = r.Content
	}
	return c, refs
}

func runW4(s *core.Shard, next func(string) bool) {
	for layout := 0; layout < 6; layout++ {
		base, refs := w4project(layout)
		// every subset of the referenced files made absent
		for mask := 0; mask < 1<<len(refs); mask++ {
			if !next(fmt.Sprintf("w4/absent/%d/%d", layout, mask)) {
				continue
			}
			c := &ld.Case{Files: map[string]string{}, ComposeFiles: base.ComposeFiles}
			if (layout+mask)%2 == 1 {
				c.Opts.Name = "-" // no project name given: the loader looks for one in the files first
			}
			for k, v := range base.Files {
				c.Files[k] = v
			}
			var required, all []string
			for i, r := range refs {
				if mask&(1<<i) != 0 {
					delete(c.Files, r.Path)
					all = append(all, r.Path)
					if !r.Optional {
						required = append(required, filepath.Base(r.Path))
					}
				}
			}
			ex := expect{Workload: "W4", Why: fmt.Sprintf("absent: %v", all)}
			switch {
			case len(required) > 0:
				ex.MustName = required
			default:
				ex.MustLoad = true
			}
			check(s, c, ex, nil)
			s.Add("w4_cases", 1)
			s.Cover("w4-fault", "absent")
			if mask != 0 {
				s.Nontrivial(c.Key())
			}
			if s.WantSample() && mask == 0b0101000 {
				s.Sample(map[string]any{"workload": "W4", "layout": layout, "absent": all, "error_must_name_one_of": required})
			}
		}
		// each single file replaced by a directory or a dangling symlink
		for i, r := range refs {
			for fi, fault := range []string{"directory", "dangling-symlink", "directory", "dangling-symlink"} {
				if !next(fmt.Sprintf("w4/%s/%d/%d/%d", fault, layout, i, fi/2)) {
					continue
				}
				c := &ld.Case{Files: map[string]string{}, ComposeFiles: base.ComposeFiles}
				if fi >= 2 {
					c.Opts.Name = "-"
				}
				for k, v := range base.Files {
					c.Files[k] = v
				}
				delete(c.Files, r.Path)
				ex := expect{Workload: "W4", Why: fault + ": " + r.Path}
				if fault == "directory" {
					c.Dirs = []string{r.Path}
					if r.Optional {
						ex = expect{Workload: "W4", Why: ex.Why} // an optional env file that is a directory: not stated
					} else {
						ex.MustName = []string{filepath.Base(r.Path)}
					}
				} else {
					if r.Optional {
						ex.MustLoad = true
					} else {
						ex.MustName = []string{filepath.Base(r.Path)}
					}
				}
				dir := s.Scratch()
				if err := ld.Materialise(dir, c); err != nil {
					s.Inconclusive("materialise: " + err.Error())
					continue
				}
				if fault == "dangling-symlink" {
					_ = os.MkdirAll(filepath.Dir(filepath.Join(dir, r.Path)), 0o755)
					_ = os.Symlink(filepath.Join(dir, "does-not-exist"), filepath.Join(dir, r.Path))
				}
				judge(s, dir, c, ex, nil)
				s.Add("w4_cases", 1)
				s.Cover("w4-fault", fault)
				s.Nontrivial(fault, c.Key(), r.Path)
			}
		}
		// unreadable files (EACCES on open, EIO on read) injected with strace around a one-shot worker
		if s.Thorough() {
			for i, r := range refs {
				for _, fault := range []string{"openat:error=EACCES", "read:error=EIO"} {
					if !next(fmt.Sprintf("w4/strace/%d/%d/%s", layout, i, fault)) {
						continue
					}
					ex := expect{Workload: "W4", Why: "strace " + fault + " on " + r.Path}
					if !r.Optional {
						ex.MustName = []string{filepath.Base(r.Path)}
					}
					straceCase(s, base, r.Path, fault, ex)
					s.Add("w4_cases", 1)
					s.Cover("w4-fault", "strace:"+strings.SplitN(fault, ":", 2)[0])
				}
			}
		}
	}
}

func faultClass(why string) string {
	if i := strings.Index(why, ":"); i > 0 {
		return why[:i]
	}
	return why
}

// straceCase materialises the project, then runs `check shard -replay` on it under
// strace with a fault injected for exactly one file, and relays its violations.
func straceCase(s *core.Shard, base *ld.Case, target, fault string, ex expect) {
	dir := filepath.Join(s.Work, "strace-case")
	_ = os.RemoveAll(dir)
	_ = os.MkdirAll(dir, 0o755)
	// the replay directory holds case.json; the worker materialises below its own scratch,
	// so the absolute path of the target is known only relative to that scratch: use a fixed work dir
	work := filepath.Join(s.Work, "strace-work")
	_ = os.RemoveAll(work)
	rc := replayCase{Case: base, Expect: ex}
	b, _ := json.Marshal(rc)
	_ = os.WriteFile(filepath.Join(dir, "case.json"), b, 0o644)
	cur := filepath.Join(work, "cur")
	if err := os.MkdirAll(cur, 0o755); err != nil {
		s.Inconclusive("strace: " + err.Error())
		return
	}
	if err := ld.Materialise(cur, base); err != nil {
		s.Inconclusive("strace: " + err.Error())
		return
	}
	abs := filepath.Join(cur, target)
	self, _ := os.Executable()
	syscallName := strings.SplitN(fault, ":", 2)[0]
	args := []string{"-f", "-qq", "-o", "/dev/null", "-P", abs, "-e", "trace=" + syscallName, "-e", "inject=" + fault,
		self, "shard", "-prop", "C01", "-tier", s.Tier, "-seed", fmt.Sprint(s.Seed), "-work", work, "-index", "0", "-count", "1", "-replayroot", s.ReplayRoot, "-replay", dir}
	cmd := exec.Command("strace", args...)
	cmd.Env = append(os.Environ(), "VERIF_KEEP_SCRATCH=1")
	out, err := cmd.StdoutPipe()
	if err != nil {
		s.Inconclusive("strace: " + err.Error())
		return
	}
	if err := cmd.Start(); err != nil {
		s.Inconclusive("strace not runnable: " + err.Error())
		return
	}
	sc := bufio.NewScanner(out)
	sc.Buffer(make([]byte, 1<<20), 1<<24)
	ended := false
	for sc.Scan() {
		var e core.Event
		if json.Unmarshal(sc.Bytes(), &e) != nil {
			continue
		}
		switch e.T {
		case "V":
			e.V.Attrs["via"] = "strace"
			s.Violation(e.V.Attrs, e.V.What, map[string]any{"case.json": rc, "fault.txt": fault + " on " + target})
		case "E":
			ended = true
			if e.Stats != nil {
				s.Eval(int(e.Stats.Evaluations))
				s.Add("loads_err", int(e.Stats.Counters["loads_err"]))
				s.Add("loads_ok", int(e.Stats.Counters["loads_ok"]))
			}
		}
	}
	_ = cmd.Wait()
	if !ended {
		s.Violation(map[string]string{"kind": "fatal", "via": "strace", "why": faultClass(ex.Why)}, "worker under strace died without finishing: "+ex.Why, map[string]any{"case.json": rc})
	}
	s.Nontrivial("strace", fault, target, base.Key())
}

// ---- W5: size / depth stress ----------------------------------------------------

func runW5(s *core.Shard, next func(string) bool) {
	one := func(id string, c *ld.Case) {
		if !next("w5/" + id) {
			return
		}
		check(s, c, expect{Workload: "W5", Generic: id}, nil)
		s.Add("w5_cases", 1)
		s.Nontrivial(id)
	}
	single := func(doc string) *ld.Case {
		return &ld.Case{Files: map[string]string{"compose.yaml": doc}, ComposeFiles: []string{"compose.yaml"}}
	}
	for _, depth := range []int{100, 2000, 9000} {
		one(fmt.Sprintf("deep-flow-seq/%d", depth), single("services: {s: {image: i, command: "+strings.Repeat("[", depth)+strings.Repeat("]", depth)+"}}\n"))
		one(fmt.Sprintf("deep-flow-map/%d", depth), single("services: {s: {image: i, labels: "+strings.Repeat("{a: ", depth)+"x"+strings.Repeat("}", depth)+"}}\n"))
		var sb strings.Builder
		sb.WriteString("x-deep:\n")
		for i := 0; i < depth && i < 2500; i++ {
			sb.WriteString(strings.Repeat(" ", i+1) + "k:\n")
		}
		sb.WriteString("services: {s: {image: i}}\n")
		one(fmt.Sprintf("deep-block-map/%d", depth), single(sb.String()))
		// nested defaults cost quadratic time in the nesting depth on this tree (9000 levels = 20 CPU-s):
		// keep the stress case far below the CPU budget so that only unbounded behaviour trips it
		idepth := depth
		if idepth > 2500 {
			idepth = 2500
		}
		one(fmt.Sprintf("deep-interp/%d", idepth), single("services: {s: {image: \""+strings.Repeat("${A:-", idepth)+"x"+strings.Repeat("}", idepth)+"\"}}\n"))
	}
	for _, n := range []int{50, 200} {
		var sb strings.Builder
		sb.WriteString("services:\n  s0: {image: i}\n")
		for i := 1; i <= n; i++ {
			fmt.Fprintf(&sb, "  s%d:\n    extends: s%d\n    labels: {l%d: v}\n", i, i-1, i)
		}
		one(fmt.Sprintf("extends-chain/%d", n), single(sb.String()))
	}
	{
		var sb strings.Builder
		sb.WriteString("services:\n")
		for i := 0; i < 500; i++ {
			fmt.Fprintf(&sb, "  s%d:\n    image: i\n    ports: [\"%d:80\"]\n    environment: [A=%d]\n", i, 10000+i, i)
			if i > 0 {
				fmt.Fprintf(&sb, "    depends_on: [s%d]\n", i-1)
			}
		}
		one("many-services/500", single(sb.String()))
	}
	// dependency lattices: few services, exponentially many paths (layers x width, every service of a
	// layer depends on every service of the layer below) - the cycle check and whatever else walks the
	// graph must not enumerate paths
	for _, sh := range [][2]int{{12, 2}, {40, 2}, {30, 3}, {200, 2}} {
		var sb strings.Builder
		sb.WriteString("services:\n")
		for l := 0; l < sh[0]; l++ {
			for w := 0; w < sh[1]; w++ {
				fmt.Fprintf(&sb, "  l%03dw%d:\n    image: i\n", l, w)
				if l > 0 {
					sb.WriteString("    depends_on:\n")
					for w2 := 0; w2 < sh[1]; w2++ {
						if (l+w)%2 == 0 {
							fmt.Fprintf(&sb, "      l%03dw%d: {condition: service_started}\n", l-1, w2)
						} else {
							fmt.Fprintf(&sb, "      l%03dw%d: {condition: service_healthy, required: true}\n", l-1, w2)
						}
					}
				}
			}
		}
		one(fmt.Sprintf("dependency-lattice/%dx%d", sh[0], sh[1]), single(sb.String()))
	}
	one("huge-scalar/1MB", single("services: {s: {image: i, labels: {l: \""+strings.Repeat("x", 1<<20)+"\"}}}\n"))
	one("huge-port-range", single("services: {s: {image: i, ports: [\"1-20000:1-20000\"]}}\n"))
	one("many-env/20000", single("services:\n  s:\n    image: i\n    environment:\n"+func() string {
		var sb strings.Builder
		for i := 0; i < 20000; i++ {
			fmt.Fprintf(&sb, "      - K%d=v\n", i)
		}
		return sb.String()
	}()))
	one("many-documents/300", single(strings.Repeat("services: {s: {image: i}}\n---\n", 300)))
	one("long-dollar-run", single("services: {s: {image: \""+strings.Repeat("$", 100001)+"\"}}\n"))
}

// ---- W6: histories: many loads in one process ---------------------------------------

// runW6 performs long sequences of loads inside one worker process: whatever per-process state
// the library keeps (for instance the list of files already warned about the obsolete `version`
// attribute) must never make a later load crash, block or fail. A load that blocks for ever leaves
// the worker with every goroutine asleep: the Go runtime then aborts it and the driver reports the
// dead worker; one that spins trips the CPU budget.
func runW6(s *core.Shard, next func(string) bool) {
	variants := []struct {
		id  string
		doc func(i int) string
	}{
		{"version-attribute", func(i int) string {
			return fmt.Sprintf("version: \"3.%d\"\nservices:\n  s%d:\n    image: img:%d\n", i%10, i, i)
		}},
		{"plain", func(i int) string { return fmt.Sprintf("services:\n  s%d:\n    image: img:%d\n", i, i) }},
		{"version-and-extends", func(i int) string {
			return fmt.Sprintf("version: \"2.4\"\nservices:\n  base: {image: b%d}\n  s: {extends: base, labels: {i: \"%d\"}}\n", i, i)
		}},
	}
	for _, v := range variants {
		if !next("w6/" + v.id) {
			continue
		}
		n := s.Pick(200, 1500)
		dir := s.Scratch()
		ok := 0
		for i := 0; i < n; i++ {
			name := fmt.Sprintf("compose-%s-%04d.yaml", v.id, i) // a file name this process has not loaded before
			c := &ld.Case{Files: map[string]string{name: v.doc(i)}, ComposeFiles: []string{name}}
			if err := ld.Materialise(dir, c); err != nil {
				s.Inconclusive("materialise: " + err.Error())
				return
			}
			r := judge(s, dir, c, expect{Workload: "W6/" + v.id, Generic: "load #" + fmt.Sprint(i)}, nil)
			if r.Err == nil && r.Panic == nil {
				ok++
			}
			_ = os.Remove(filepath.Join(dir, name))
		}
		s.Add("w6_loads", n)
		s.Cover("w6-history", v.id)
		s.Nontrivial("w6", v.id, fmt.Sprint(n))
		if ok != n {
			s.Violation(map[string]string{"kind": "history-dependent-failure", "variant": v.id},
				fmt.Sprintf("%d of %d loads of equally shaped valid documents in one process failed", n-ok, n), map[string]any{"case.json": map[string]any{"variant": v.id, "loads": n}})
		}
	}
}
