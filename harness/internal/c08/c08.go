// Package c08 checks property C08: interpolation touches only string values
// and is type-transparent.
//
//	part T (typed):   every scalar position of the repo's schema/compose-spec.json
//	                  (walked at run time) that admits a string next to
//	                  boolean/integer/number, plus the duration and byte-size
//	                  positions of the Compose specification: a semantic value is
//	                  drawn, its canonical literal is the reference load, and every
//	                  textual spelling supplied through ${V}, $V, ${U:-text},
//	                  pre${V}post, ${W:+text} must load to the same project;
//	                  unconvertible texts must be errors naming the attribute;
//	                  the quoted literal must load alike with interpolation on and off.
//	part D (docs):    generated documents whose string values are drawn as
//	                  (written, meaning) pairs - plain, `$`-doubled, or a template
//	                  of the C07 grammar evaluated by the reference - loaded with
//	                  interpolation on (written) and off (meaning) must agree;
//	                  one mode puts `$` into mapping keys, which must be preserved.
//	part R (raw):     interp.Interpolate on random raw trees: keys, shape and
//	                  non-string scalars identical, strings as the reference says.
package c08

import (
	"encoding/json"
	"fmt"
	"path/filepath"
	"reflect"
	"regexp"
	"sort"
	"strings"

	interp "github.com/compose-spec/compose-go/v2/interpolation"
	"github.com/compose-spec/compose-go/v2/schema"
	"github.com/sirupsen/logrus"
	"gopkg.in/yaml.v3"

	"verif/harness/internal/core"
	"verif/harness/internal/diff"
	"verif/harness/internal/ld"
	"verif/harness/internal/ref"
)

func init() {
	logrus.SetLevel(logrus.PanicLevel)
	core.Register(&core.Spec{
		ID:    "C08",
		Level: "exploration",
		Rule: "part T: every scalar position of schema/compose-spec.json of the repo under test that admits a string next to boolean/integer/number (plus the duration and byte-size positions named by the Compose specification) x semantic values x textual spellings (YAML-1.1 booleans, unit spellings) x 5 variable forms (${V}, $V, ${U:-text}, pre${V}post, ${W:+text}), each compared with the load of the canonical literal; unconvertible texts must fail naming the attribute; the quoted literal is loaded with interpolation on and off. A typed case is non-trivial when the reference literal loaded (the comparison was decided) or when an invalid text was judged; distinct = distinct (document, environment) texts. " +
			"part D: seeded documents (1-2 services, 4-10 string-bearing attributes, resources) whose values are (written, meaning) pairs; non-trivial when the interpolation-off load succeeded and the document contains at least one `$`. " +
			"part R: seeded raw trees with `$`-bearing keys and every YAML scalar kind through interp.Interpolate; non-trivial when the tree holds at least one `$`-bearing key or string next to a non-string scalar.",
		Assumptions: []string{
			"the schema walker (internal/ref/schemapaths.go) visits every scalar position reachable through properties, patternProperties, additionalProperties, items, oneOf/anyOf/allOf and $ref of the embedded schema of the tree under test",
			"semantic classes not expressed by the schema (which number|string positions are floats or byte sizes, which string positions are durations, which are free-form strings) come from a small table transcribed from the Compose specification; unknown number|string positions are exercised with canonical decimal integers only",
			"byte units are binary (1gb = 1024mb = 1073741824) and 1m30s = 90s, as the Compose specification words them",
			"YAML-only numeric spellings (octal, hex, exponent, underscores) are not used: the statement does not say the YAML parser and the string conversion must agree on them",
			"positions whose schema type does not admit a string (cpu_count, oom_score_adj, depends_on.*.required, ...) are outside the statement unless the loader converts them beforehand: a variable there may be rejected, but if it loads it must equal the literal",
			"the comparison of two loads uses the normalising comparer (nil == empty); the reference evaluator of C07 decides what a template means",
		},
		Exhaustive: func(string) bool { return false },
		Run:        run,
		Replay:     replay,
		Witness:    witness,
		Floor:      floor,
	})
}

// ---------------------------------------------------------------------------
// judged cases (also the replay / witness format)

// pairCase: A is the reference load, B the load under test.
type pairCase struct {
	Part string `json:"part"` // typed | invalid | docs | raw
	// Rel names the relation: variable (B supplies the value through a variable),
	// onoff (same document, interpolation off vs on), doubling / substitution / keys (part D).
	Rel   string   `json:"rel,omitempty"`
	Attr  string   `json:"attr,omitempty"`  // stable attribute path
	Leaf  string   `json:"leaf,omitempty"`  // full schema path
	Class string   `json:"class,omitempty"` // bool | int | float | bytes | duration | stringly
	Text  string   `json:"text,omitempty"`
	Form  string   `json:"form,omitempty"`
	Names []string `json:"names,omitempty"` // what an error message must mention (invalid)
	A     *ld.Case `json:"a,omitempty"`
	B     *ld.Case `json:"b,omitempty"`
	// raw part
	RawYAML string            `json:"raw_yaml,omitempty"`
	RawEnv  map[string]string `json:"raw_env,omitempty"`
}

func (pc *pairCase) files(extra map[string]any) map[string]any {
	f := map[string]any{"case.json": pc}
	if pc.A != nil {
		f["reference.compose.yaml"] = pc.A.Files["compose.yaml"]
	}
	if pc.B != nil {
		f["subject.compose.yaml"] = pc.B.Files["compose.yaml"]
	}
	for k, v := range extra {
		f[k] = v
	}
	return f
}

func (pc *pairCase) attrs(kind string) map[string]string {
	a := map[string]string{"kind": kind}
	if pc.Attr != "" {
		a["path"] = pc.Attr
	}
	if len(pc.Text) > 1 && pc.Text[0] == '0' && pc.Text[1] >= '0' && pc.Text[1] <= '9' {
		a["shape"] = "leading-zero"
	}
	return a
}

// verdict of one judged case: Kind is "held", "undecided" or a violation kind.
type verdict struct {
	Kind  string
	Attrs map[string]string
	What  string
	Files map[string]any
}

var held = &verdict{Kind: "held"}
var undecided = &verdict{Kind: "undecided"}

func (v *verdict) bad() bool { return v.Kind != "held" && v.Kind != "undecided" }

// report emits the violation of a verdict (if any) and returns its kind.
func report(s *core.Shard, v *verdict) string {
	if v.bad() {
		s.Violation(v.Attrs, v.What, v.Files)
	}
	return v.Kind
}

func panicVerdict(pi *core.PanicInfo, pc *pairCase, c *ld.Case) *verdict {
	at := map[string]string{"kind": "panic", "site": pi.Site, "class": pi.Class}
	if pc.Attr != "" {
		at["path"] = pc.Attr
	}
	return &verdict{Kind: "panic", Attrs: at,
		What:  fmt.Sprintf("panic in %s (%s): %s", pi.Site, pi.Class, pi.Value),
		Files: map[string]any{"case.json": pc, "compose.yaml": c.Files["compose.yaml"], "stack.txt": pi.Stack}}
}

// judgePair runs A then B: undecided when the reference does not load.
func judgePair(s *core.Shard, pc *pairCase) *verdict {
	work := s.Scratch()
	_, ra := ld.Run(work, pc.A)
	s.Eval(1)
	if ra.Panic != nil {
		// a reference that panics is a reference that does not load: nothing about
		// interpolation is decided (the panic itself is property C01's business);
		// it is recorded in the evidence
		s.Add("reference_panicked", 1)
		s.Cover("reference-panic-site", ra.Panic.Site)
		return undecided
	}
	if ra.Err != nil {
		s.Add("reference_did_not_load", 1)
		if pc.Part == "docs" {
			s.Cover("docs-reference-error", errorClass(ra.Err.Error()))
		}
		return undecided
	}
	_, rb := ld.Run(work, pc.B)
	s.Eval(1)
	if rb.Panic != nil {
		return panicVerdict(rb.Panic, pc, pc.B)
	}
	desc := fmt.Sprintf("%s %s text=%q form=%s", pc.Part, pc.Leaf, pc.Text, pc.Form)
	if pc.Part == "docs" {
		desc = "generated document (" + pc.Rel + ")"
	}
	if rb.Err != nil {
		kind := pc.Rel + "-rejected"
		return &verdict{Kind: kind, Attrs: pc.attrs(kind), What: fmt.Sprintf("%s: the reference loads but the subject fails: %v", desc, firstLine(rb.Err.Error())), Files: pc.files(map[string]any{"error.txt": rb.Err.Error()})}
	}
	if d := diff.Compare(ra.Project, rb.Project, diff.Default()); d != "" {
		kind := pc.Rel + "-differs"
		at := pc.attrs(kind)
		at["field"] = diff.PathOf(d)
		return &verdict{Kind: kind, Attrs: at, What: fmt.Sprintf("%s: reference and subject load to different projects: %s", desc, d), Files: pc.files(map[string]any{"diff.txt": d})}
	}
	return held
}

var quotedRe = regexp.MustCompile(`"[^"]*"|'[^']*'|/[^ :]+`)

// errorClass strips names, values and paths from an error text (evidence table key).
func errorClass(msg string) string {
	msg = quotedRe.ReplaceAllString(firstLine(msg), "_")
	if len(msg) > 70 {
		msg = msg[:70]
	}
	return msg
}

func firstLine(s string) string {
	s = strings.TrimSpace(s)
	s = strings.ReplaceAll(s, "\n\n", " ")
	s = strings.ReplaceAll(s, "\n", " ")
	if len(s) > 300 {
		s = s[:300] + "..."
	}
	return s
}

// judgeInvalid: B carries an unconvertible text; it must fail and name the attribute.
func judgeInvalid(s *core.Shard, pc *pairCase) *verdict {
	work := s.Scratch()
	_, rb := ld.Run(work, pc.B)
	s.Eval(1)
	if rb.Panic != nil {
		return panicVerdict(rb.Panic, pc, pc.B)
	}
	if rb.Err == nil {
		return &verdict{Kind: "invalid-accepted", Attrs: pc.attrs("invalid-accepted"), What: fmt.Sprintf("%s: unconvertible text %q supplied through %s loads without error", pc.Leaf, pc.Text, pc.Form), Files: pc.files(nil)}
	}
	msg := rb.Err.Error()
	low := strings.ToLower(msg) // decode errors spell some attributes as Go field names (Rate, Value)
	for _, n := range pc.Names {
		if !strings.Contains(low, strings.ToLower(n)) {
			return &verdict{Kind: "error-unnamed", Attrs: pc.attrs("error-unnamed"), What: fmt.Sprintf("%s: error for unconvertible text %q does not mention %q: %s", pc.Leaf, pc.Text, n, firstLine(msg)), Files: pc.files(map[string]any{"error.txt": msg})}
		}
	}
	return held
}

func replay(s *core.Shard, dir string) {
	var pc pairCase
	if err := core.ReadJSON(filepath.Join(dir, "case.json"), &pc); err != nil {
		s.Inconclusive("replay: " + err.Error())
		return
	}
	v := report(s, runCase(s, &pc))
	s.Add("replay_"+v, 1)
}

func runCase(s *core.Shard, pc *pairCase) *verdict {
	switch pc.Part {
	case "invalid":
		return judgeInvalid(s, pc)
	case "raw":
		return judgeRaw(s, pc)
	default:
		if pc.A == nil || pc.B == nil {
			s.Inconclusive("case without both loads")
			return undecided
		}
		return judgePair(s, pc)
	}
}

// witness re-executes a stored pairCase; it reproduces when the judge does not say held/undecided.
func witness(s *core.Shard, f core.Finding) (bool, string) {
	var pc pairCase
	if err := json.Unmarshal(f.Witness, &pc); err != nil {
		return false, "bad witness: " + err.Error()
	}
	// the verdict is not reported as a violation: the driver decides how to print it
	v := runCase(s, &pc)
	if want := f.Match["kind"]; v.bad() && want != "" && !strings.HasPrefix(want, "re:") && v.Kind != want {
		return false, "witness now fails differently: " + v.Kind + ": " + v.What
	}
	if v.bad() {
		return true, v.Kind + ": " + v.What
	}
	return false, v.Kind
}

// ---------------------------------------------------------------------------
// part T: typed positions

type valueSpec struct {
	Canon lit      // canonical literal (plain YAML scalar)
	Str   bool     // canonical literal must be written as a quoted string (schema admits only strings)
	Texts []string // spellings of the same semantic value
}

var trueTexts = []string{"true", "True", "TRUE", "yes", "Yes", "YES", "on", "On", "ON", "y", "Y"}
var falseTexts = []string{"false", "False", "FALSE", "no", "No", "NO", "off", "Off", "OFF", "n", "N"}

// Transcribed from the Compose specification (not from the code's cast table).
var floatAttrs = map[string]bool{"cpus": true, "max_failure_ratio": true, "cpu_percent": true}
var bytesAttrs = map[string]bool{"mem_limit": true, "mem_reservation": true, "memswap_limit": true, "shm_size": true, "memory": true}

// attributes for which the specification gives -1 a meaning (unlimited / lowest)
var minusOneAttrs = map[string]bool{
	"services.pids_limit": true, "services.deploy.resources.limits.pids": true, "services.oom_score_adj": true,
	"services.ulimits.*": true, "services.ulimits.hard": true, "services.ulimits.soft": true,
	"services.build.ulimits.*": true, "services.build.ulimits.hard": true, "services.build.ulimits.soft": true,
	"services.cpu_rt_runtime": true,
}
var freeFormAttrs = map[string]bool{"published": true, "count": true}
var durationShapes = map[string]bool{
	"services.*.stop_grace_period":                 true,
	"services.*.healthcheck.interval":              true,
	"services.*.healthcheck.timeout":               true,
	"services.*.healthcheck.start_period":          true,
	"services.*.healthcheck.start_interval":        true,
	"services.*.deploy.update_config.delay":        true,
	"services.*.deploy.update_config.monitor":      true,
	"services.*.deploy.rollback_config.delay":      true,
	"services.*.deploy.rollback_config.monitor":    true,
	"services.*.deploy.restart_policy.delay":       true,
	"services.*.deploy.restart_policy.window":      true,
	"services.*.develop.watch[].exec.start_period": false,
}

// classify returns the semantic class of a schema position and whether the
// schema admits a string there ("" class: not a typed position).
func classify(l ref.SchemaLeaf) (class string, admitsString bool) {
	str, b, n := l.Admits("string"), l.Admits("boolean"), l.Admits("integer") || l.Admits("number")
	last := l.Steps[len(l.Steps)-1]
	shape := l.Shape()
	switch {
	case !b && !n:
		if !str {
			return "", false
		}
		if l.Format == "duration" || durationShapes[shape] {
			return "duration", true
		}
		if last.Kind == ref.StepProp && last.Name == "memory" && strings.Contains(shape, ".resources.") {
			return "bytes", true
		}
		return "", true
	case b && n:
		return "stringly", str
	case b:
		return "bool", str
	}
	// numeric
	if last.Kind != ref.StepProp {
		if strings.HasSuffix(shape, "ulimits.*") {
			return "int", str
		}
		return "stringly", str
	}
	switch {
	case freeFormAttrs[last.Name]:
		return "stringly", str
	case floatAttrs[last.Name]:
		return "float", str
	case bytesAttrs[last.Name]:
		return "bytes", str
	case last.Name == "rate" && strings.Contains(shape, "_bps[]"):
		return "bytes", str
	}
	return "int", str
}

func valuesFor(class string, l ref.SchemaLeaf, thorough bool) []valueSpec {
	onlyString := !l.Admits("boolean") && !l.Admits("integer") && !l.Admits("number")
	dec := func(ns ...string) []valueSpec {
		var out []valueSpec
		for _, n := range ns {
			out = append(out, valueSpec{Canon: lit{n}, Str: onlyString, Texts: []string{n}})
		}
		return out
	}
	switch class {
	case "bool":
		return []valueSpec{{Canon: lit{"true"}, Texts: trueTexts}, {Canon: lit{"false"}, Texts: falseTexts}}
	case "int":
		vs := dec("0", "1", "7", "300")
		if thorough {
			// values stay inside the range of every integer kind the model uses (uint16 upwards): a
			// literal beyond the range of its field is silently truncated by the decoder while the
			// converted text is rejected; the statement does not say what such a value means
			vs = append(vs, dec("65535")...)
		}
		if minusOneAttrs[l.AttrPath()] {
			vs = append(vs, dec("-1")...)
		}
		if strings.HasSuffix(l.AttrPath(), ".mode") {
			// file modes are idiomatically written with a leading zero
			vs = append(vs, dec("0440")...)
		}
		return vs
	case "float":
		return []valueSpec{
			{Canon: lit{"1.5"}, Texts: []string{"1.5", "1.50"}},
			{Canon: lit{"0.1"}, Texts: []string{"0.1"}},
			{Canon: lit{"2"}, Texts: []string{"2", "2.0"}},
			{Canon: lit{"7"}, Texts: []string{"7"}},
		}
	case "bytes":
		return []valueSpec{
			{Canon: lit{"1073741824"}, Str: onlyString, Texts: []string{"1073741824", "1gb", "1g", "1024m", "1GB", "1024mb"}},
			{Canon: lit{"2048"}, Str: onlyString, Texts: []string{"2048", "2k", "2kb"}},
			{Canon: lit{"300"}, Str: onlyString, Texts: []string{"300", "300b"}},
		}
	case "duration":
		return []valueSpec{
			{Canon: lit{"1m30s"}, Str: true, Texts: []string{"1m30s", "90s", "1.5m"}},
			{Canon: lit{"1h"}, Str: true, Texts: []string{"1h", "60m"}},
			{Canon: lit{"500ms"}, Str: true, Texts: []string{"500ms", "0.5s"}},
		}
	case "stringly":
		vs := dec("300", "7")
		if l.Admits("boolean") {
			vs = append(vs, valueSpec{Canon: lit{"true"}, Texts: []string{"true"}})
		}
		return vs
	}
	return nil
}

func invalidTexts(class string) []string {
	switch class {
	case "bool":
		return []string{"maybe", "truee", ""}
	case "int":
		return []string{"abc", "1x2", ""}
	case "float":
		return []string{"abc", "1.5.2", ""}
	case "bytes":
		return []string{"abc", "1zz", ""}
	case "duration":
		return []string{"abc", "10x", ""}
	}
	return nil
}

// "quoted" is the text written as a string literal (no variable at all): where the schema admits a
// string next to the typed scalar it must denote the same value as the typed literal
var forms = []string{"braced", "plain", "default", "split", "alt", "quoted"}

// variableFor writes text through a variable form; it returns the template and the environment.
func variableFor(form, text string, salt int) (string, map[string]string) {
	env := map[string]string{"C08_W": "set", "C08_E": ""}
	switch form {
	case "braced":
		env["C08_V"] = text
		return "${C08_V}", env
	case "plain":
		env["C08_V"] = text
		return "$C08_V", env
	case "default":
		if salt%2 == 0 {
			return "${C08_U:-" + text + "}", env // unset
		}
		return "${C08_E:-" + text + "}", env // set but empty
	case "alt":
		return "${C08_W:+" + text + "}", env
	case "quoted":
		return text, env
	case "split":
		r := []rune(text)
		if len(r) == 0 {
			env["C08_V"] = ""
			return "${C08_V}", env
		}
		a := salt % len(r)
		b := a + 1 + (salt/7)%(len(r)-a)
		env["C08_V"] = string(r[a:b])
		return string(r[:a]) + "${C08_V}" + string(r[b:]), env
	}
	panic("unknown form " + form)
}

func caseOf(c *carrier, v any, env map[string]string, opts ld.Opts) *ld.Case {
	cs := caseOf1(c, v, env, opts)
	if c.override {
		// the attribute arrives through a second compose file merged over a minimal base
		cs.Files["base.yaml"] = "services:\n  s1:\n    image: base\n"
		cs.ComposeFiles = []string{"base.yaml", "compose.yaml"}
	}
	return cs
}

func caseOf1(c *carrier, v any, env map[string]string, opts ld.Opts) *ld.Case {
	c.slot.v = v
	files := map[string]string{"compose.yaml": render(c.doc)}
	for k, f := range c.files {
		files[k] = f
	}
	e := map[string]string{}
	for k, x := range env {
		e[k] = x
	}
	return &ld.Case{Files: files, ComposeFiles: []string{"compose.yaml"}, Env: e, Opts: opts}
}

func runTyped(s *core.Shard, leaves []ref.SchemaLeaf, caseNo *int) {
	// (key variant, origin): quick = default keys in the main file; thorough adds
	// unusual resource/map keys and the attribute arriving through an override file
	variants := [][2]int{{0, 0}, {1, 0}}
	if s.Thorough() {
		variants = [][2]int{{0, 0}, {1, 0}, {0, 1}}
	}
	samples := map[string]int{}
	for _, l := range leaves {
		class, admits := classify(l)
		if class == "" {
			continue
		}
		attr := l.AttrPath()
		if !admits {
			s.Cover("typed-path-not-admitting-string", attr)
		} else {
			s.Cover("typed-path-seen", attr)
		}
		for variant, vo := range variants {
			c := buildCarrier(l, vo[0])
			if c == nil {
				continue
			}
			c.override = vo[1] == 1
			s.Cover("origin", [...]string{"main-file", "override-file"}[vo[1]])
			for vi, val := range valuesFor(class, l, s.Thorough()) {
				for ti, text := range val.Texts {
					*caseNo++
					if !s.Mine(*caseNo) {
						continue
					}
					if !s.Begin(fmt.Sprintf("typed/%s/%d/%d/%d", attr, variant, vi, ti)) {
						continue
					}
					var canon any = val.Canon
					if val.Str {
						canon = val.Canon.Text
					}
					decided := false
					for fi, form := range forms {
						tmpl, env := variableFor(form, text, *caseNo+fi)
						pc := &pairCase{Part: "typed", Rel: "variable", Attr: attr, Leaf: l.String(), Class: class, Text: text, Form: form,
							A: caseOf(c, canon, env, ld.Opts{}), B: caseOf(c, tmpl, env, ld.Opts{})}
						if !admits {
							judgeNotAdmitted(s, pc)
							continue
						}
						v := report(s, judgePair(s, pc))
						if v == "undecided" {
							break // the canonical literal does not load here: nothing is asserted
						}
						decided = true
						s.Nontrivial(pc.B.Key())
						s.Cover("form", form)
						s.Add("typed_decided", 1)
						if v == "held" && s.WantSample() && form == "split" && len(text) >= 3 && samples[class] == 0 && len(samples) < 2 {
							samples[class]++
							s.Sample(map[string]any{"part": "typed", "path": l.String(), "class": class, "text": text, "form": form,
								"reference": pc.A.Files["compose.yaml"], "subject": pc.B.Files["compose.yaml"], "env": pc.B.Env})
						}
					}
					if !admits {
						continue
					}
					if decided {
						s.Cover("typed-path-decided", attr)
						s.Cover("class", class)
					} else {
						s.Cover("typed-path-reference-failed", attr+" = "+val.Canon.Text)
						continue // not a valid value of this attribute: nothing more is asserted
					}
					// the quoted literal with interpolation off vs on (`$`-free document: doubling is the identity)
					pc := &pairCase{Part: "typed", Rel: "onoff", Attr: attr, Leaf: l.String(), Class: class, Text: text, Form: "quoted",
						A: caseOf(c, text, nil, ld.Opts{SkipInterpolation: true}), B: caseOf(c, text, nil, ld.Opts{})}
					if v := report(s, judgePair(s, pc)); v != "undecided" {
						s.Add("onoff_decided", 1)
						s.Nontrivial("onoff", pc.B.Key())
					}
				}
			}
			if !admits {
				continue
			}
			for ii, bad := range invalidTexts(class) {
				*caseNo++
				if !s.Mine(*caseNo) {
					continue
				}
				if !s.Begin(fmt.Sprintf("invalid/%s/%d/%d", attr, variant, ii)) {
					continue
				}
				fs := []string{"braced"}
				if bad != "" {
					fs = append(fs, "split", "default")
				}
				for fi, form := range fs {
					tmpl, env := variableFor(form, bad, *caseNo+fi)
					pc := &pairCase{Part: "invalid", Attr: attr, Leaf: l.String(), Class: class, Text: bad, Form: form, Names: c.names,
						B: caseOf(c, tmpl, env, ld.Opts{})}
					report(s, judgeInvalid(s, pc))
					s.Nontrivial(pc.B.Key())
					s.Add("invalid_decided", 1)
					s.Cover("invalid-class", class)
				}
			}
		}
	}
}

// judgeNotAdmitted: the schema does not admit a string here. The statement
// covers the position only if the loader converts beforehand: a rejection is
// not asserted, but a successful load must equal the literal.
func judgeNotAdmitted(s *core.Shard, pc *pairCase) {
	work := s.Scratch()
	_, ra := ld.Run(work, pc.A)
	_, rb := ld.Run(work, pc.B)
	s.Eval(2)
	if ra.Panic != nil {
		s.Add("reference_panicked", 1)
		s.Cover("reference-panic-site", ra.Panic.Site)
		return
	}
	if ra.Err != nil {
		return
	}
	if rb.Panic != nil {
		report(s, panicVerdict(rb.Panic, pc, pc.B))
		return
	}
	if rb.Err != nil {
		s.Add("not_admitted_rejected", 1)
		return
	}
	s.Add("not_admitted_converted_beforehand", 1)
	s.Cover("converted-beforehand", pc.Attr)
	if d := diff.Compare(ra.Project, rb.Project, diff.Default()); d != "" {
		at := pc.attrs("variable-differs")
		at["field"] = diff.PathOf(d)
		s.Violation(at, fmt.Sprintf("%s text=%q form=%s: literal and variable load to different projects: %s", pc.Leaf, pc.Text, pc.Form, d), pc.files(map[string]any{"diff.txt": d}))
	}
}

// ---------------------------------------------------------------------------
// part R: raw trees through interp.Interpolate

var rawEnv = map[string]string{"A": "va", "B_1": "", "C": "$A ${B_1}", "k": "KEY-WAS-INTERPOLATED"}

func judgeRaw(s *core.Shard, pc *pairCase) *verdict {
	var in map[string]any
	if err := yaml.Unmarshal([]byte(pc.RawYAML), &in); err != nil || in == nil {
		s.Add("raw_unparsable", 1)
		return undecided
	}
	env := pc.RawEnv
	lookup := func(k string) (string, bool) { v, ok := env[k]; return v, ok }
	var out map[string]any
	var err error
	pi := core.Guard(func() {
		out, err = interp.Interpolate(in, interp.Options{LookupValue: lookup})
	})
	s.Eval(1)
	files := map[string]any{"case.json": pc, "input.yaml": pc.RawYAML}
	if pi != nil {
		return &verdict{Kind: "panic", Attrs: map[string]string{"kind": "panic", "site": pi.Site, "class": pi.Class, "part": "raw"}, What: "interp.Interpolate panicked: " + pi.Value, Files: files}
	}
	if err != nil {
		return &verdict{Kind: "raw-error", Attrs: map[string]string{"kind": "raw-error"}, What: "interp.Interpolate failed on a tree whose strings are all well-formed templates without required-variable operators: " + firstLine(err.Error()), Files: files}
	}
	// the input must be re-decoded: compare against a pristine copy
	var pristine map[string]any
	_ = yaml.Unmarshal([]byte(pc.RawYAML), &pristine)
	if kind, what := compareRaw(pristine, out, "", lookup); kind != "" {
		return &verdict{Kind: kind, Attrs: map[string]string{"kind": kind}, What: what, Files: files}
	}
	// the same parsed document interpolated again (a caller that keeps the parsed tree, a reload with
	// interpolation switched off): the first pass left it as it was parsed
	if !reflect.DeepEqual(in, pristine) {
		return &verdict{Kind: "raw-input-changed", Attrs: map[string]string{"kind": "raw-input-changed"},
			What: "interp.Interpolate changed the document it was given (so interpolating that document again, or using it with interpolation off, no longer starts from what was written)", Files: files}
	}
	var out2 map[string]any
	pi = core.Guard(func() { out2, err = interp.Interpolate(in, interp.Options{LookupValue: lookup}) })
	s.Eval(1)
	if pi == nil && err == nil && !reflect.DeepEqual(out, out2) {
		return &verdict{Kind: "raw-second-pass-differs", Attrs: map[string]string{"kind": "raw-second-pass-differs"},
			What: "interpolating the same parsed document a second time gives another result", Files: files}
	}
	return held
}

func compareRaw(in, out any, path string, env ref.Env) (string, string) {
	switch x := in.(type) {
	case map[string]any:
		y, ok := out.(map[string]any)
		if !ok {
			return "shape-changed", fmt.Sprintf("%s: mapping became %T", path, out)
		}
		for k := range x {
			if _, ok := y[k]; !ok {
				return "key-changed", fmt.Sprintf("%s: key %q is missing after interpolation (keys now %v)", path, k, keysOf(y))
			}
		}
		for k := range y {
			if _, ok := x[k]; !ok {
				return "key-changed", fmt.Sprintf("%s: key %q appeared after interpolation", path, k)
			}
		}
		for _, k := range keysOf(x) {
			if kind, what := compareRaw(x[k], y[k], path+"."+k, env); kind != "" {
				return kind, what
			}
		}
		return "", ""
	case []any:
		y, ok := out.([]any)
		if !ok || len(y) != len(x) {
			return "shape-changed", fmt.Sprintf("%s: sequence of %d became %T %v", path, len(x), out, out)
		}
		for i := range x {
			if kind, what := compareRaw(x[i], y[i], fmt.Sprintf("%s[%d]", path, i), env); kind != "" {
				return kind, what
			}
		}
		return "", ""
	case string:
		y, ok := out.(string)
		if !ok {
			return "string-retyped", fmt.Sprintf("%s: string %q became %T %v without a cast mapping", path, x, out, out)
		}
		items, st := ref.Parse(x)
		if st != ref.InGrammar {
			return "", ""
		}
		o := ref.Eval(items, env)
		if o.Unspecified || o.Err {
			return "", ""
		}
		if y != o.Value {
			return "string-wrong", fmt.Sprintf("%s: %q interpolated to %q, expected %q", path, x, y, o.Value)
		}
		return "", ""
	default:
		if in == nil && out == nil {
			return "", ""
		}
		if in == nil || out == nil || reflect.TypeOf(in) != reflect.TypeOf(out) || !reflect.DeepEqual(in, out) {
			return "nonstring-changed", fmt.Sprintf("%s: non-string scalar %T %v became %T %v", path, in, in, out, out)
		}
		return "", ""
	}
}

func keysOf(m map[string]any) []string {
	ks := make([]string, 0, len(m))
	for k := range m {
		ks = append(ks, k)
	}
	sort.Strings(ks)
	return ks
}

func runRaw(s *core.Shard, caseNo *int) {
	n := s.Pick(4000, 60000)
	g := &gen{r: s.Rand("raw")}
	rawSamples := 0
	for i := 0; i < n; i++ {
		tree, interesting := g.rawTree(0)
		text := render(tree)
		*caseNo++
		if !s.Mine(*caseNo) {
			continue
		}
		if i%500 == 0 || s.Count > 64 {
			if !s.Begin(fmt.Sprintf("raw/%d", i)) {
				continue
			}
		}
		pc := &pairCase{Part: "raw", RawYAML: text, RawEnv: rawEnv}
		v := report(s, judgeRaw(s, pc))
		if v == "held" {
			s.Add("raw_held", 1)
			if interesting {
				s.Nontrivial("raw", text)
			}
			if s.WantSample() && interesting && rawSamples == 0 {
				rawSamples++
				s.Sample(map[string]any{"part": "raw", "input": text, "env": rawEnv})
			}
		}
	}
}

// ---------------------------------------------------------------------------

func leavesOfSchema() ([]ref.SchemaLeaf, error) {
	return ref.SchemaLeaves(schema.Schema)
}

func run(s *core.Shard) {
	leaves, err := leavesOfSchema()
	if err != nil {
		s.Inconclusive("cannot walk the schema: " + err.Error())
		return
	}
	if s.Index == 0 {
		s.Add("schema_scalar_positions", len(leaves))
	}
	caseNo := 0
	runTyped(s, leaves, &caseNo)
	runDocs(s, &caseNo)
	runRaw(s, &caseNo)
}

func floor(tier string, m *core.Merged) []string {
	var r []string
	c := m.Counters
	if c["typed_decided"] < 2000 || c["invalid_decided"] < 200 || c["onoff_decided"] < 300 || c["docs_decided"] < 300 || c["raw_held"] < 1000 {
		r = append(r, fmt.Sprintf("too few decided cases: typed=%d invalid=%d onoff=%d docs=%d raw=%d", c["typed_decided"], c["invalid_decided"], c["onoff_decided"], c["docs_decided"], c["raw_held"]))
	}
	seen, decided := m.Cover["typed-path-seen"], m.Cover["typed-path-decided"]
	if len(seen) < 40 {
		r = append(r, fmt.Sprintf("the schema walk produced only %d typed positions", len(seen)))
	}
	var missing []string
	for p := range seen {
		if decided[p] == 0 {
			missing = append(missing, p)
		}
	}
	sort.Strings(missing)
	if len(missing)*10 > len(seen) {
		r = append(r, fmt.Sprintf("%d of %d typed positions never had a loading reference literal: %v", len(missing), len(seen), missing))
	}
	for _, cl := range []string{"bool", "int", "float", "bytes", "duration", "stringly"} {
		if m.Cover["class"][cl] == 0 {
			r = append(r, "class never decided: "+cl)
		}
	}
	for _, f := range forms {
		if m.Cover["form"][f] == 0 {
			r = append(r, "variable form never decided: "+f)
		}
	}
	for _, mode := range docModes {
		if m.Cover["docs-mode"][mode] == 0 {
			r = append(r, "document mode never decided: "+mode)
		}
	}
	return r
}
