package c08

import (
	"regexp"
	"sort"
	"strings"

	"gopkg.in/yaml.v3"

	"verif/harness/internal/ref"
)

// lit is a YAML scalar written verbatim in plain style (so `300`, `yes`, `1gb`
// are read back by the YAML parser exactly as a user would have typed them).
type lit struct{ Text string }

// slot is the placeholder of the attribute under test inside a carrier document.
type slot struct{ v any }

// carrier is a minimal document holding one schema position.
type carrier struct {
	doc   map[string]any
	slot  *slot
	names []string // resource name and attribute name an error message must mention
	files map[string]string
	// override: the document is loaded as a second file over a minimal base
	override bool
}

// toNode renders the small document model (map[string]any, []any, string, lit,
// *slot, bool, int, float64, nil) into a yaml.Node with sorted keys.
func toNode(v any) *yaml.Node {
	switch x := v.(type) {
	case *slot:
		return toNode(x.v)
	case lit:
		return &yaml.Node{Kind: yaml.ScalarNode, Value: x.Text}
	case string:
		return &yaml.Node{Kind: yaml.ScalarNode, Tag: "!!str", Value: x}
	case nil:
		return &yaml.Node{Kind: yaml.ScalarNode, Tag: "!!null", Value: "null"}
	case map[string]any:
		n := &yaml.Node{Kind: yaml.MappingNode, Tag: "!!map"}
		keys := make([]string, 0, len(x))
		for k := range x {
			keys = append(keys, k)
		}
		sort.Strings(keys)
		for _, k := range keys {
			n.Content = append(n.Content, &yaml.Node{Kind: yaml.ScalarNode, Tag: "!!str", Value: k}, toNode(x[k]))
		}
		return n
	case []any:
		n := &yaml.Node{Kind: yaml.SequenceNode, Tag: "!!seq"}
		for _, e := range x {
			n.Content = append(n.Content, toNode(e))
		}
		return n
	default:
		n := &yaml.Node{}
		_ = n.Encode(x)
		return n
	}
}

func render(doc any) string {
	b, err := yaml.Marshal(toNode(doc))
	if err != nil {
		panic("c08: cannot render document: " + err.Error())
	}
	return string(b)
}

var keyCandidates = [][]string{
	{"s1", "k1", "nofile", "a"},
	{"Srv-2.x_y", "K.2-b_c", "nproc", "b"},
}

func chooseKey(shape, pattern string, variant int) string {
	switch shape {
	case "services.*.depends_on":
		return "dep1"
	case "services.*.networks":
		return "net1"
	}
	cands := keyCandidates[variant%len(keyCandidates)]
	if pattern == "" {
		return cands[1]
	}
	re, err := regexp.Compile(pattern)
	if err != nil {
		return cands[1]
	}
	for _, c := range cands {
		if re.MatchString(c) {
			return c
		}
	}
	for _, c := range keyCandidates[0] {
		if re.MatchString(c) {
			return c
		}
	}
	return cands[1]
}

type builder struct {
	steps   []ref.SchemaStep
	variant int
	slot    *slot
	top     map[string]map[string]any // additional top-level resources
	files   map[string]string
	keys    []string
}

func (b *builder) addTop(section, name string, v any) {
	if b.top[section] == nil {
		b.top[section] = map[string]any{}
	}
	b.top[section][name] = v
}

func (b *builder) descend(i int) any {
	if i == len(b.steps) {
		return b.slot
	}
	st := b.steps[i]
	shape := ref.ShapeOf(b.steps[:i])
	switch st.Kind {
	case ref.StepItem:
		return []any{b.descend(i + 1)}
	case ref.StepPattern:
		key := chooseKey(shape, st.Name, b.variant)
		b.keys = append(b.keys, key)
		child := b.descend(i + 1)
		m := map[string]any{key: child}
		b.supplement(shape, m, key, i)
		return m
	default:
		child := b.descend(i + 1)
		m := map[string]any{st.Name: child}
		b.supplement(shape, m, st.Name, i)
		return m
	}
}

// supplement adds what the loader needs around the attribute under test
// (the part of a carrier the schema's own `required` lists do not express).
func (b *builder) supplement(shape string, m map[string]any, next string, i int) {
	put := func(k string, v any) {
		if _, ok := m[k]; !ok {
			m[k] = v
		}
	}
	leafIsNext := i == len(b.steps)-1
	switch {
	case shape == "services.*":
		put("image", "img")
	case shape == "services.*.build":
		put("context", ".")
	case shape == "services.*.volumes[]":
		switch next {
		case "tmpfs":
			put("type", "tmpfs")
		case "bind":
			put("type", "bind")
			put("source", "/src")
		default:
			put("type", "volume")
			put("source", "vol1")
			b.addTop("volumes", "vol1", map[string]any{})
		}
		put("target", "/t")
	case shape == "services.*.ports[]":
		put("target", 80)
	case shape == "services.*.secrets[]" || shape == "services.*.build.secrets[]":
		put("source", "sec1")
		b.addTop("secrets", "sec1", map[string]any{"external": true})
	case shape == "services.*.configs[]":
		put("source", "cfg1")
		b.addTop("configs", "cfg1", map[string]any{"external": true})
	case shape == "services.*.depends_on.*":
		put("condition", "service_started")
		b.addTop("services", "dep1", map[string]any{"image": "img"})
	case shape == "services.*.networks":
		b.addTop("networks", "net1", map[string]any{})
	case shape == "services.*.env_file[]":
		put("path", "./e.env")
		b.files["e.env"] = "C08_E=1\n"
	case shape == "services.*.develop.watch[]":
		put("path", "./src")
		if next == "exec" {
			put("action", "sync+exec")
			put("target", "/app")
		} else {
			put("action", "rebuild")
		}
	case shape == "services.*.deploy.resources.reservations.devices[]":
		put("capabilities", []any{"gpu"})
	case shape == "services.*.deploy.resources.reservations.generic_resources[].discrete_resource_spec":
		put("kind", "gpu")
	case strings.HasPrefix(shape, "services.*.blkio_config.") && strings.HasSuffix(shape, "[]"):
		put("path", "/dev/sda")
	case shape == "services.*.post_start[]" || shape == "services.*.pre_stop[]" || shape == "services.*.develop.watch[].exec":
		put("command", []any{"echo"})
	case shape == "services.*.ulimits.*" || shape == "services.*.build.ulimits.*":
		put("soft", 7)
		put("hard", 7)
	case shape == "services.*.healthcheck":
		if next != "disable" {
			put("test", []any{"CMD", "true"})
		}
	case shape == "secrets.*":
		if next != "external" {
			put("environment", "C08_SECRET")
		}
	case shape == "configs.*":
		if next != "external" {
			put("content", "x")
		}
	}
	_ = leafIsNext
}

// buildCarrier builds the minimal document around a schema position.
func buildCarrier(l ref.SchemaLeaf, variant int) *carrier {
	b := &builder{steps: l.Steps, variant: variant, slot: &slot{}, top: map[string]map[string]any{}, files: map[string]string{}}
	root, ok := b.descend(0).(map[string]any)
	if !ok {
		return nil
	}
	for section, entries := range b.top {
		sec, _ := root[section].(map[string]any)
		if sec == nil {
			sec = map[string]any{}
			root[section] = sec
		}
		for k, v := range entries {
			if _, exists := sec[k]; !exists {
				sec[k] = v
			}
		}
	}
	if _, ok := root["services"]; !ok {
		root["services"] = map[string]any{"s1": map[string]any{"image": "img"}}
	}
	c := &carrier{doc: root, slot: b.slot, files: b.files}
	// names an error must mention: the resource key and the attribute (or map key) itself
	if len(l.Steps) >= 2 && l.Steps[1].Kind == ref.StepPattern && len(b.keys) > 0 {
		c.names = append(c.names, b.keys[0]) // keys are appended outermost first
	}
	last := l.Steps[len(l.Steps)-1]
	switch last.Kind {
	case ref.StepProp:
		c.names = append(c.names, last.Name)
	case ref.StepPattern:
		if len(b.keys) > 0 {
			c.names = append(c.names, b.keys[len(b.keys)-1])
		}
	case ref.StepItem:
		for j := len(l.Steps) - 1; j >= 0; j-- {
			if l.Steps[j].Kind == ref.StepProp {
				c.names = append(c.names, l.Steps[j].Name)
				break
			}
		}
	}
	return c
}
