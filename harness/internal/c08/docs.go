package c08

import (
	"fmt"
	"math/rand"
	"strings"

	"verif/harness/internal/core"
	"verif/harness/internal/ld"
	"verif/harness/internal/ref"
)

// part D: generated documents whose string values are (written, meaning) pairs.
//
//	doubling      values are plain or have every `$` of their meaning written as `$$`
//	              (the statement's second sentence, literally); keys are `$`-free
//	substitution  values may also be templates of the C07 grammar whose meaning the
//	              reference evaluator decides
//	keys          as substitution, and mapping keys of labels / environment / args /
//	              options / driver_opts / extensions carry `$` and must be preserved

var docModes = []string{"doubling", "substitution", "keys"}

var docEnv = map[string]string{"A": "va", "B_1": "", "C": "$A ${B_1}", "D2": "x y", "k": "KEY-WAS-INTERPOLATED"}

// pair is a string value: W is written in the interpolated document, M is what it means.
type pair struct{ W, M string }

type gen struct {
	r       *rand.Rand
	mode    string
	dollars int
}

func (g *gen) pick(xs []string) string { return xs[g.r.Intn(len(xs))] }

var plainPool = []string{"x", "a-b", "v1.2", "hello world", "p/q", "img:1", "0", "A"}
var dollarTokens = []string{"$", "$$", "${", "}", "{", "A", "B_1", "x", ":-", "?", "-", " ", "/", "$A", "${A}", "${B_1:-d}", "$$A", "${A", "${U:?no}"}

func (g *gen) dollarString() string {
	for {
		n := 1 + g.r.Intn(4)
		var sb strings.Builder
		for i := 0; i < n; i++ {
			sb.WriteString(g.pick(dollarTokens))
		}
		s := strings.TrimSpace(sb.String())
		if s != "" && strings.Contains(s, "$") {
			return s
		}
	}
}

var tmplNames = []string{"A", "B_1", "C", "U"}
var tmplLits = []string{"x", "a-b", " ", "/", "1"}
var tmplOps = []string{":-", "-", ":+", "+"}

func namey(c byte) bool {
	return c == '_' || c >= 'a' && c <= 'z' || c >= 'A' && c <= 'Z' || c >= '0' && c <= '9'
}

func (g *gen) items(n, depth int) []ref.Item {
	var out []ref.Item
	for i := 0; i < n; i++ {
		switch k := g.r.Intn(6); {
		case k == 0:
			out = append(out, ref.Item{Kind: ref.Lit, Text: g.pick(tmplLits)})
		case k == 1:
			out = append(out, ref.Item{Kind: ref.Esc})
		case k <= 3 || depth == 0:
			out = append(out, ref.Item{Kind: ref.Var, Name: g.pick(tmplNames), Braced: g.r.Intn(2) == 0})
		default:
			out = append(out, ref.Item{Kind: ref.Op, Name: g.pick(tmplNames), Oper: g.pick(tmplOps), Sub: g.items(g.r.Intn(3), depth-1)})
		}
	}
	// keep the rendering unambiguous
	for i := 0; i+1 < len(out); i++ {
		if out[i].Kind == ref.Var && !out[i].Braced {
			nx := out[i+1]
			if nx.Kind == ref.Lit && nx.Text != "" && namey(nx.Text[0]) {
				out[i].Braced = true
			}
		}
		if out[i].Kind == ref.Lit && out[i+1].Kind == ref.Lit {
			out[i+1] = ref.Item{Kind: ref.Esc}
		}
	}
	return out
}

// template draws a well-formed template and its meaning under env.
func (g *gen) template(env map[string]string) pair {
	look := func(k string) (string, bool) { v, ok := env[k]; return v, ok }
	for {
		it := g.items(1+g.r.Intn(3), 1)
		w := ref.Render(it)
		o := ref.Eval(it, look)
		if o.Err || o.Unspecified || !strings.Contains(w, "$") {
			continue
		}
		// the text must parse back to the same meaning
		it2, st := ref.Parse(w)
		if st != ref.InGrammar {
			continue
		}
		if o2 := ref.Eval(it2, look); o2.Err || o2.Unspecified || o2.Value != o.Value {
			continue
		}
		return pair{w, o.Value}
	}
}

func (g *gen) str() pair {
	k := g.r.Intn(10)
	switch {
	case k < 3:
		s := g.pick(plainPool)
		return pair{s, s}
	case k < 6 || g.mode == "doubling":
		m := g.dollarString()
		g.dollars++
		return pair{strings.ReplaceAll(m, "$", "$$"), m}
	default:
		g.dollars++
		return g.template(docEnv)
	}
}

var plainKeys = []string{"k", "a.b", "com.example.x", "K_2", "opt-1", "z"}
var dollarKeys = []string{"$A", "${A}", "x$$y", "${A:-d}", "${", "$", "$k", "a${B_1}b", "${U:?no}"}

func (g *gen) keys(n int) []string {
	seen := map[string]bool{}
	var out []string
	for len(out) < n {
		k := g.pick(plainKeys)
		if g.mode == "keys" && g.r.Intn(2) == 0 {
			k = g.pick(dollarKeys)
			g.dollars++
		}
		if !seen[k] {
			seen[k] = true
			out = append(out, k)
		}
	}
	return out
}

func (g *gen) strMap() map[string]any {
	m := map[string]any{}
	for _, k := range g.keys(1 + g.r.Intn(3)) {
		m[k] = g.str()
	}
	return m
}

func (g *gen) strList(n int) []any {
	var l []any
	seen := map[string]bool{}
	for len(l) < n {
		p := g.str()
		if seen[p.M] { // several list attributes demand unique items
			continue
		}
		seen[p.M] = true
		l = append(l, p)
	}
	return l
}

// prefixed keeps a value non-empty whatever its meaning.
func (g *gen) prefixed(prefix string) pair {
	p := g.str()
	return pair{prefix + p.W, prefix + p.M}
}

// kvList renders KEY=VALUE entries (each entry is one string scalar).
func (g *gen) kvList() []any {
	var l []any
	for i, k := range []string{"K1", "k.two", "K_3"}[:1+g.r.Intn(3)] {
		p := g.str()
		_ = i
		l = append(l, pair{k + "=" + p.W, k + "=" + p.M})
	}
	return l
}

var scalarAttrs = []string{"hostname", "domainname", "user", "working_dir", "stop_signal", "cgroup_parent", "runtime", "mac_address"}
var listAttrs = []string{"command", "entrypoint", "dns", "dns_search", "cap_add", "cap_drop", "security_opt"}
var mapAttrs = []string{"labels", "environment", "annotations", "sysctls"}

type typedSample struct {
	attr   string
	quoted []string // strings admitted by the schema at a typed position
	lits   []string
}

var typedSamples = []typedSample{
	{"privileged", []string{"true", "yes", "off"}, []string{"true", "false"}},
	{"init", []string{"on", "False"}, []string{"true"}},
	{"read_only", []string{"no", "TRUE"}, []string{"false"}},
	{"tty", []string{"y"}, []string{"true"}},
	{"scale", []string{"3"}, []string{"2"}},
	{"cpus", []string{"1.5", "0.1"}, []string{"0.5"}},
	{"mem_limit", []string{"1gb", "512m"}, []string{"1048576"}},
	{"cpu_shares", []string{"300"}, []string{"7"}},
	{"pids_limit", []string{"-1", "10"}, []string{"5"}},
	{"stop_grace_period", []string{"1m30s"}, nil},
	{"shm_size", []string{"64m"}, []string{"4096"}},
}

func (g *gen) service() map[string]any {
	svc := map[string]any{"image": g.prefixed("r/")}
	n := 4 + g.r.Intn(7)
	for i := 0; i < n; i++ {
		switch g.r.Intn(12) {
		case 0, 1:
			svc[g.pick(scalarAttrs)] = g.str()
		case 2, 3:
			a := g.pick(listAttrs)
			if (a == "command" || a == "entrypoint") && g.r.Intn(3) == 0 {
				svc[a] = g.str() // string spelling (shell-split)
			} else {
				svc[a] = g.strList(1 + g.r.Intn(3))
			}
		case 4, 5:
			a := g.pick(mapAttrs)
			if (a == "labels" || a == "environment") && g.r.Intn(3) == 0 {
				svc[a] = g.kvList()
			} else {
				svc[a] = g.strMap()
			}
		case 6:
			svc["logging"] = map[string]any{"driver": g.str(), "options": g.strMap()}
		case 7:
			b := map[string]any{"context": ".", "args": g.strMap()}
			if g.r.Intn(2) == 0 {
				b["target"] = g.str()
			}
			if g.r.Intn(2) == 0 {
				b["labels"] = g.strMap()
			}
			svc["build"] = b
		case 8:
			svc["healthcheck"] = map[string]any{"test": []any{"CMD", g.str(), g.str()}, "retries": lit{"3"}}
		case 9:
			svc["deploy"] = map[string]any{"labels": g.strMap(), "endpoint_mode": g.str()}
		case 10:
			svc["x-c08"] = map[string]any{"s": g.str(), "l": g.strList(2), "m": g.strMap(), "n": lit{"300"}, "b": lit{"true"}, "f": lit{"1.5"}, "z": nil}
		case 11:
			t := typedSamples[g.r.Intn(len(typedSamples))]
			if len(t.lits) > 0 && g.r.Intn(3) == 0 {
				svc[t.attr] = lit{g.pick(t.lits)}
			} else {
				q := g.pick(t.quoted)
				svc[t.attr] = pair{q, q}
			}
		}
	}
	return svc
}

func (g *gen) document() map[string]any {
	doc := map[string]any{}
	svcs := map[string]any{}
	for i := 0; i < 1+g.r.Intn(2); i++ {
		svcs[fmt.Sprintf("s%d", i+1)] = g.service()
	}
	doc["services"] = svcs
	if g.r.Intn(2) == 0 {
		doc["networks"] = map[string]any{"n1": map[string]any{"driver": g.str(), "driver_opts": g.strMap(), "labels": g.strMap()}}
		svcs["s1"].(map[string]any)["networks"] = []any{"n1"}
	}
	if g.r.Intn(2) == 0 {
		v := map[string]any{"driver_opts": g.strMap(), "labels": g.strMap()}
		if g.r.Intn(2) == 0 {
			v["name"] = g.str()
		}
		doc["volumes"] = map[string]any{"v1": v}
	}
	if g.r.Intn(3) == 0 {
		doc["configs"] = map[string]any{"c1": map[string]any{"content": g.str()}}
	}
	if g.r.Intn(3) == 0 {
		doc["secrets"] = map[string]any{"sec1": map[string]any{"environment": g.prefixed("E"), "labels": g.strMap()}}
	}
	if g.r.Intn(3) == 0 {
		doc["x-top"] = map[string]any{"v": g.str(), "m": g.strMap(), "n": lit{"7"}}
	}
	return doc
}

// side projects a tree of pairs to the written (true) or meaning (false) document.
func side(v any, written bool) any {
	switch x := v.(type) {
	case pair:
		if written {
			return x.W
		}
		return x.M
	case map[string]any:
		m := map[string]any{}
		for k, e := range x {
			m[k] = side(e, written)
		}
		return m
	case []any:
		l := make([]any, len(x))
		for i, e := range x {
			l[i] = side(e, written)
		}
		return l
	}
	return v
}

func runDocs(s *core.Shard, caseNo *int) {
	n := s.Pick(1500, 20000)
	r := s.Rand("docs")
	docSamples := 0
	for i := 0; i < n; i++ {
		g := &gen{r: r, mode: docModes[i%len(docModes)]}
		doc := g.document()
		*caseNo++
		if !s.Mine(*caseNo) {
			continue
		}
		if !s.Begin(fmt.Sprintf("docs/%d", i)) {
			continue
		}
		on, off := render(side(doc, true)), render(side(doc, false))
		if g.mode == "doubling" {
			// the statement's wording, literally: every `$` of the original written as `$$`
			if doubled := strings.ReplaceAll(off, "$", "$$"); doubled != on {
				s.Inconclusive("doubling generator is not the textual doubling of the original")
				continue
			}
		}
		pc := &pairCase{Part: "docs", Rel: g.mode,
			A: &ld.Case{Files: map[string]string{"compose.yaml": off}, ComposeFiles: []string{"compose.yaml"}, Env: docEnv, Opts: ld.Opts{SkipInterpolation: true}},
			B: &ld.Case{Files: map[string]string{"compose.yaml": on}, ComposeFiles: []string{"compose.yaml"}, Env: docEnv, Opts: ld.Opts{}},
		}
		if i%3 == 2 {
			// the same relation with service s1 inherited from another file through `extends`
			// (a document reached through extends is interpolated once, like any other)
			split := func(d any) (string, string) {
				m := d.(map[string]any)
				svcs := m["services"].(map[string]any)
				base := map[string]any{"services": map[string]any{"b1": svcs["s1"]}}
				main := map[string]any{}
				for k, v := range m {
					main[k] = v
				}
				ms := map[string]any{}
				for k, v := range svcs {
					ms[k] = v
				}
				ms["s1"] = map[string]any{"extends": map[string]any{"file": "base/base.yaml", "service": "b1"}}
				main["services"] = ms
				return render(main), render(base)
			}
			offMain, offBase := split(side(doc, false))
			onMain, onBase := split(side(doc, true))
			pc.A.Files = map[string]string{"compose.yaml": offMain, "base/base.yaml": offBase}
			pc.B.Files = map[string]string{"compose.yaml": onMain, "base/base.yaml": onBase}
			s.Cover("docs-origin", "extends-from-other-file")
		} else {
			s.Cover("docs-origin", "single-file")
		}
		v := report(s, judgePair(s, pc))
		if v == "undecided" {
			s.Add("docs_reference_did_not_load", 1)
			continue
		}
		s.Add("docs_decided", 1)
		s.Cover("docs-mode", g.mode)
		if g.dollars > 0 {
			s.Nontrivial("docs", on)
		}
		if v == "held" && s.WantSample() && g.dollars > 2 && docSamples == 0 {
			docSamples++
			s.Sample(map[string]any{"part": "docs", "mode": g.mode, "interpolated_document": on, "uninterpolated_document": off, "env": docEnv})
		}
	}
}

// ---------------------------------------------------------------------------
// part R generator

var rawKeys = []string{"k", "a", "name", "$A", "${A}", "a$$b", "${A:-x}", "${", "$", "${A:?e}", "$k", "${k}"}
var rawLits = []string{"300", "-1", "1.5", "true", "false", "null", "~", "0x10", "1e3", "2001-12-14", ".inf", "9223372036854775808", "0o17", "0"}

// rawTree draws a mapping; interesting reports a `$`-bearing key or string next to a non-string scalar.
func (g *gen) rawTree(depth int) (map[string]any, bool) {
	dollar, nonstr := false, false
	var build func(d int) any
	build = func(d int) any {
		k := g.r.Intn(20)
		switch {
		case k < 8:
			switch g.r.Intn(3) {
			case 0:
				return g.pick(plainPool)
			case 1:
				dollar = true
				return g.template(rawEnv).W
			default:
				dollar = true
				return strings.ReplaceAll(g.dollarString(), "$", "$$")
			}
		case k < 14 || d >= 3:
			nonstr = true
			return lit{g.pick(rawLits)}
		case k < 17:
			var l []any
			for i := 0; i < 1+g.r.Intn(3); i++ {
				l = append(l, build(d+1))
			}
			return l
		default:
			m := map[string]any{}
			for i := 0; i < 1+g.r.Intn(3); i++ {
				key := g.pick(rawKeys)
				if strings.Contains(key, "$") {
					dollar = true
				}
				m[key] = build(d + 1)
			}
			return m
		}
	}
	m := map[string]any{}
	for i := 0; i < 1+g.r.Intn(4); i++ {
		key := g.pick(rawKeys)
		if strings.Contains(key, "$") {
			dollar = true
		}
		m[key] = build(depth + 1)
	}
	return m, dollar && nonstr
}
