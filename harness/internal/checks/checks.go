// Package checks links every property check into cmd/check.
package checks

import (
	_ "verif/harness/internal/c07"
	_ "verif/harness/internal/c13"
	_ "verif/harness/internal/c14"
	_ "verif/harness/internal/c19"
)
