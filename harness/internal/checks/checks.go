// Package checks links every property check into cmd/check.
package checks

import (
	_ "verif/harness/internal/c01"
	_ "verif/harness/internal/c02"
	_ "verif/harness/internal/c03"
	_ "verif/harness/internal/c04"
	_ "verif/harness/internal/c05"
	_ "verif/harness/internal/c06"
	_ "verif/harness/internal/c07"
	_ "verif/harness/internal/c08"
	_ "verif/harness/internal/c09"
	_ "verif/harness/internal/c10"
	_ "verif/harness/internal/c11"
	_ "verif/harness/internal/c12"
	_ "verif/harness/internal/c13"
	_ "verif/harness/internal/c14"
	_ "verif/harness/internal/c15"
	_ "verif/harness/internal/c16"
	_ "verif/harness/internal/c17"
	_ "verif/harness/internal/c18"
	_ "verif/harness/internal/c19"
	_ "verif/harness/internal/c20"
)
