// Package c13 checks property C13 (dependency-ordered traversal) with a trace
// monitor at the public visitor boundary and a schedule controller that
// enumerates completion orders (mode A) and perturbs the traversal's internal
// steps through the verif yield points (mode B). Shards run from the -race build.
package c13

import (
	"context"
	"encoding/json"
	"errors"
	"fmt"
	"math/rand"
	"path/filepath"
	"reflect"
	"runtime"
	"sort"
	"strings"
	"sync"

	"github.com/compose-spec/compose-go/v2/graph"
	"github.com/compose-spec/compose-go/v2/types"

	"verif/harness/internal/core"
	"verif/harness/internal/sched"
)

func init() {
	core.Register(&core.Spec{
		ID:    "C13",
		Level: "exploration",
		Rule:  "controlled executions of graph.InDependencyOrder on generated projects: every labelled DAG on <=4 services, every topologically ordered DAG on 5 (thorough: sampled on 6) x direction x max concurrency {0,1,2,3} x root selections x injected visitor errors x optional dependencies on an unknown / a profile-disabled service. Mode A: hooks pass through and every order in which running visits can be released is enumerated depth-first (one visit released per global quiescence). Mode B: every internal yield point (ready, enter, done, spawned, receive) parks as well and seeded random / starvation strategies choose what moves next. All digraphs with a cycle on <=4 nodes must be refused before any visit. A run is non-trivial when >=2 visits happened or the graph was cyclic; distinct = distinct (configuration, recorded event trace).",
		Assumptions: []string{
			"events are recorded at the public visitor boundary under the monitor's own mutex; internal hook events only schedule, they never judge",
			"quiescence = every goroutine other than the controller is blocked in a channel/sync wait state (runtime.Stack scan, confirmed twice); decided without clocks",
			"'first visitor error' is asserted exactly only when visits are released one at a time with hooks passing through (mode A); with parked internal steps the returned error must be one of the injected errors of completed visits",
			"liveness is the bounded restatement: a run that reaches global quiescence with nothing parked and no return is a deadlock; a run that burns the CPU budget is a hang",
		},
		Exhaustive: func(tier string) bool { return false },
		Race:       func(string) bool { return true },
		CPUBudget:  func(string) float64 { return 240 },
		Run:        run,
		Replay:     replay,
		Witness:    witness,
		Floor: func(tier string, m *core.Merged) []string {
			var r []string
			for _, p := range []string{"ready", "enter", "done", "spawned", "receive"} {
				if m.Cover["hook-point"][p] == 0 {
					r = append(r, "yield point never reached: "+p)
				}
			}
			if m.Counters["runs_modeA"] < 1000 || m.Counters["runs_modeB"] < 1000 || m.Counters["cyclic_graphs"] < 100 {
				r = append(r, fmt.Sprintf("too few controlled runs: %v", m.Counters))
			}
			return r
		},
	})
}

// RunSpec is one traversal configuration (JSON-serialisable for replay).
type RunSpec struct {
	N        int      `json:"n"`
	Edges    [][2]int `json:"edges"`                      // [a,b]: service a depends_on service b
	Optional []int    `json:"optional_missing,omitempty"` // services carrying an optional dependency on an unknown service
	// services carrying an optional dependency on a service that exists but is disabled by profiles
	OptionalDisabled []int    `json:"optional_disabled,omitempty"`
	Reverse          bool     `json:"reverse"`
	Max              int      `json:"max"`
	Roots            []int    `json:"roots,omitempty"`
	Fail             []int    `json:"fail,omitempty"` // visits that return an error
	Hooks            bool     `json:"hooks"`          // mode B
	Strategy         string   `json:"strategy,omitempty"`
	Choices          []string `json:"choices,omitempty"` // replay: entity chosen at each step
	RandSeed         int64    `json:"rand_seed,omitempty"`
	// Before: edges the very same project value had when it was walked (and cycle-checked) just before
	// this run; its depends_on were then rewritten in place to Edges (same services)
	Before [][2]int `json:"before"`
	// Cancel: visits that cancel the context the caller gave to the traversal, then return nil
	Cancel []int `json:"cancel,omitempty"`
}

func name(i int) string { return fmt.Sprintf("s%d", i) }

func (rs *RunSpec) project() *types.Project {
	p := &types.Project{Name: "c13", Services: types.Services{}, DisabledServices: types.Services{}}
	for i := 0; i < rs.N; i++ {
		p.Services[name(i)] = types.ServiceConfig{Name: name(i), Image: "img"}
	}
	for _, e := range rs.Edges {
		s := p.Services[name(e[0])]
		if s.DependsOn == nil {
			s.DependsOn = types.DependsOnConfig{}
		}
		s.DependsOn[name(e[1])] = types.ServiceDependency{Condition: types.ServiceConditionStarted, Required: true}
		p.Services[name(e[0])] = s
	}
	for _, i := range rs.Optional {
		s := p.Services[name(i)]
		if s.DependsOn == nil {
			s.DependsOn = types.DependsOnConfig{}
		}
		s.DependsOn["ghost"] = types.ServiceDependency{Condition: types.ServiceConditionStarted, Required: false}
		p.Services[name(i)] = s
	}
	for _, i := range rs.OptionalDisabled {
		s := p.Services[name(i)]
		if s.DependsOn == nil {
			s.DependsOn = types.DependsOnConfig{}
		}
		s.DependsOn["dz"] = types.ServiceDependency{Condition: types.ServiceConditionHealthy, Required: false}
		p.Services[name(i)] = s
		p.DisabledServices["dz"] = types.ServiceConfig{Name: "dz", Image: "img", Profiles: []string{"off"}}
	}
	return p
}

func (rs *RunSpec) key() string {
	return fmt.Sprintf("n=%d e=%v opt=%v rev=%v max=%d roots=%v fail=%v hooks=%v/%s", rs.N, fmt.Sprint(rs.Edges, " before=", rs.Before), fmt.Sprint(rs.Optional, rs.OptionalDisabled), rs.Reverse, rs.Max, rs.Roots, fmt.Sprint(rs.Fail, " cancel=", rs.Cancel), rs.Hooks, rs.Strategy)
}

// deps[a] = services a depends on; closure etc. computed independently of compose-go.
func (rs *RunSpec) deps() [][]int {
	d := make([][]int, rs.N)
	for _, e := range rs.Edges {
		d[e[0]] = append(d[e[0]], e[1])
	}
	return d
}

func (rs *RunSpec) cyclic() bool {
	d := rs.deps()
	state := make([]int, rs.N)
	var dfs func(int) bool
	dfs = func(v int) bool {
		state[v] = 1
		for _, w := range d[v] {
			if state[w] == 1 || state[w] == 0 && dfs(w) {
				return true
			}
		}
		state[v] = 2
		return false
	}
	for v := 0; v < rs.N; v++ {
		if state[v] == 0 && dfs(v) {
			return true
		}
	}
	return false
}

// expected returns the set of services that must be visited.
func (rs *RunSpec) expected() map[int]bool {
	out := map[int]bool{}
	if len(rs.Roots) == 0 {
		for i := 0; i < rs.N; i++ {
			out[i] = true
		}
		return out
	}
	d := rs.deps()
	// v is expected iff v is a root or transitively depends on a root
	var reach func(v int, seen map[int]bool) bool
	isRoot := map[int]bool{}
	for _, r := range rs.Roots {
		isRoot[r] = true
	}
	reach = func(v int, seen map[int]bool) bool {
		if isRoot[v] {
			return true
		}
		seen[v] = true
		for _, w := range d[v] {
			if !seen[w] && reach(w, seen) {
				return true
			}
		}
		return false
	}
	for v := 0; v < rs.N; v++ {
		if reach(v, map[int]bool{}) {
			out[v] = true
		}
	}
	return out
}

// ---- trace monitor ---------------------------------------------------------

type monitor struct {
	mu       sync.Mutex
	rs       *RunSpec
	deps     [][]int
	rdeps    [][]int
	started  map[int]bool
	ended    map[int]bool
	running  int
	returned bool
	events   []string
	firstErr error
	errs     map[int]error
	viol     []core.Violation
	// cancelled: a visit cancelled the context the caller gave to the traversal
	cancelled bool
}

func newMonitor(rs *RunSpec) *monitor {
	m := &monitor{rs: rs, deps: rs.deps(), started: map[int]bool{}, ended: map[int]bool{}, errs: map[int]error{}}
	m.rdeps = make([][]int, rs.N)
	for _, e := range rs.Edges {
		m.rdeps[e[1]] = append(m.rdeps[e[1]], e[0])
	}
	return m
}

func (m *monitor) flag(kind, what string) {
	m.viol = append(m.viol, core.Violation{
		Attrs: map[string]string{"kind": kind, "reverse": fmt.Sprint(m.rs.Reverse), "bounded": fmt.Sprint(m.rs.Max > 0), "hooks": fmt.Sprint(m.rs.Hooks)},
		What:  what,
	})
}

func idx(n string) int {
	var i int
	fmt.Sscanf(n, "s%d", &i) //nolint:errcheck
	return i
}

func (m *monitor) start(n string) {
	m.mu.Lock()
	defer m.mu.Unlock()
	i := idx(n)
	m.events = append(m.events, "S("+n+")")
	if m.returned {
		m.flag("visit-after-return", "visit of "+n+" started after the traversal returned")
	}
	if m.started[i] {
		m.flag("duplicate-visit", "service "+n+" visited more than once")
	}
	m.started[i] = true
	before := m.deps[i]
	if m.rs.Reverse {
		before = m.rdeps[i]
	}
	exp := m.rs.expected()
	for _, d := range before {
		// a service outside the selected closure is skipped (no visit), so there is no visit to wait for
		if exp[d] && !m.ended[d] {
			rel := "its dependency"
			if m.rs.Reverse {
				rel = "its dependent"
			}
			m.flag("early-start", fmt.Sprintf("visit of %s started before the visit of %s %s had returned", n, rel, name(d)))
		}
	}
	m.running++
	if m.rs.Max > 0 && m.running > m.rs.Max {
		m.flag("over-concurrency", fmt.Sprintf("%d visits running with max concurrency %d", m.running, m.rs.Max))
	}
	if !exp[i] {
		m.flag("unexpected-visit", "service "+n+" visited although it is neither a root nor depends on one")
	}
}

func (m *monitor) end(n string, err error) {
	m.mu.Lock()
	defer m.mu.Unlock()
	i := idx(n)
	if err != nil {
		m.events = append(m.events, "E("+n+",err)")
		if m.firstErr == nil {
			m.firstErr = err
		}
		m.errs[i] = err
	} else {
		m.events = append(m.events, "E("+n+")")
	}
	m.ended[i] = true
	m.running--
}

func (m *monitor) ret(err error) {
	m.mu.Lock()
	defer m.mu.Unlock()
	m.returned = true
	if err != nil {
		m.events = append(m.events, "R(err)")
	} else {
		m.events = append(m.events, "R")
	}
	if m.running != 0 {
		m.flag("return-with-running", fmt.Sprintf("traversal returned while %d visit(s) were still running", m.running))
	}
	if m.rs.cyclic() {
		if err == nil {
			m.flag("cycle-accepted", "cyclic dependency graph was traversed without error")
		}
		if len(m.started) > 0 {
			m.flag("visit-on-cycle", "a visit started although the dependency graph is cyclic")
		}
		return
	}
	if len(m.errs) == 0 {
		if err != nil {
			if m.cancelled {
				return // the caller's context was cancelled: an error is a faithful answer
			}
			m.flag("unexpected-error", "traversal returned an error although no visitor failed: "+err.Error())
			return
		}
		exp := m.rs.expected()
		for i := range exp {
			if !m.started[i] {
				m.flag("missing-visit", "traversal returned nil but "+name(i)+" was never visited")
			}
		}
		return
	}
	if err == nil {
		m.flag("missing-error", "a visitor failed but the traversal returned nil")
		return
	}
	if !m.rs.Hooks {
		if !errors.Is(err, m.firstErr) {
			m.flag("wrong-error", fmt.Sprintf("traversal returned %q, the first visitor error was %q", err, m.firstErr))
		}
		return
	}
	for _, e := range m.errs {
		if errors.Is(err, e) {
			return
		}
	}
	m.flag("wrong-error", fmt.Sprintf("traversal returned %q which is none of the visitor errors", err))
}

// ---- controlled execution --------------------------------------------------

type chooser func(step int, parked []*sched.Entity) int

type outcome struct {
	viol      []core.Violation
	events    []string
	choices   []string
	branching []int // number of alternatives at each step
	chosen    []int
	inconcl   string
	hookSeen  map[string]int
	deadlock  bool
}

func execute(rs *RunSpec, choose chooser) (out outcome) {
	c := sched.New()
	m := newMonitor(rs)
	proj := rs.project()
	if rs.Before != nil {
		// one project value with a history: walked with other dependencies, then edited in place
		first := *rs
		first.Edges, first.Before, first.Fail, first.Roots = rs.Before, nil, nil, nil
		proj = first.project()
		graph.SetVerifHook(nil)
		_ = graph.InDependencyOrder(context.Background(), proj, func(context.Context, string, types.ServiceConfig) error { return nil })
		_ = graph.CheckCycle(proj)
		for name, svc := range rs.project().Services {
			proj.Services[name] = svc
		}
	}
	snapshot := rs.project()
	hookSeen := map[string]int{}
	var hmu sync.Mutex
	if rs.Hooks {
		graph.SetVerifHook(func(point, key string) {
			hmu.Lock()
			hookSeen[point]++
			hmu.Unlock()
			c.Park("hook", point, key)
		})
	} else {
		graph.SetVerifHook(func(point, key string) {
			hmu.Lock()
			hookSeen[point]++
			hmu.Unlock()
		})
	}
	defer graph.SetVerifHook(nil)

	fail := map[int]bool{}
	for _, f := range rs.Fail {
		fail[f] = true
	}
	var opts []func(*graph.Options)
	if rs.Reverse {
		opts = append(opts, graph.InReverseOrder)
	}
	if rs.Max > 0 {
		opts = append(opts, graph.WithMaxConcurrency(rs.Max))
	}
	if len(rs.Roots) > 0 {
		var names []string
		for _, r := range rs.Roots {
			names = append(names, name(r))
		}
		opts = append(opts, graph.WithRootNodesAndDown(names))
	}
	cancelling := map[int]bool{}
	for _, f := range rs.Cancel {
		cancelling[f] = true
	}
	parent, cancelParent := context.WithCancel(context.Background())
	defer cancelParent()
	var panicked *core.PanicInfo
	c.Go(func() {
		var err error
		panicked = core.Guard(func() {
			err = graph.InDependencyOrder(parent, proj, func(ctx context.Context, n string, _ types.ServiceConfig) error {
				m.start(n)
				c.Park("visit", "visit", n)
				var e error
				if fail[idx(n)] {
					e = fmt.Errorf("injected failure of %s", n)
				}
				if cancelling[idx(n)] {
					m.mu.Lock()
					m.cancelled = true
					m.mu.Unlock()
					cancelParent()
				}
				m.end(n, e)
				return e
			}, opts...)
		})
		if panicked == nil {
			m.ret(err)
		}
	})

	out = outcome{}
	defer func() {
		hmu.Lock()
		out.hookSeen = map[string]int{}
		for k, v := range hookSeen {
			out.hookSeen[k] = v
		}
		hmu.Unlock()
	}()
	for step := 0; ; step++ {
		ok, why := c.Quiesce()
		if !ok {
			out.inconcl = why
			break
		}
		if c.Returned() {
			break
		}
		parked := c.Parked()
		if len(parked) == 0 {
			out.deadlock = true
			m.mu.Lock()
			m.flag("deadlock", fmt.Sprintf("global quiescence with nothing running, nothing parked and no return (events so far: %s)", strings.Join(m.events, " ")))
			m.mu.Unlock()
			break
		}
		k := choose(step, parked)
		if k < 0 || k >= len(parked) {
			k = 0
		}
		out.branching = append(out.branching, len(parked))
		out.chosen = append(out.chosen, k)
		out.choices = append(out.choices, parked[k].String())
		c.Release(parked[k])
	}
	if !out.deadlock && out.inconcl == "" {
		// a visit may have been left parked if the traversal returned early
		if left := c.Parked(); len(left) > 0 {
			c.ReleaseAll()
		}
	}
	m.mu.Lock()
	defer m.mu.Unlock()
	if panicked != nil {
		m.viol = append(m.viol, core.Violation{Attrs: map[string]string{"kind": "panic", "site": panicked.Site, "class": panicked.Class}, What: "traversal panicked: " + panicked.Value})
	}
	if !out.deadlock && out.inconcl == "" && !reflect.DeepEqual(proj, snapshot) {
		m.flag("project-modified", "the project differs from its pre-call snapshot after the traversal")
	}
	out.viol = m.viol
	out.events = append([]string(nil), m.events...)
	return out
}

// ---- graph families --------------------------------------------------------

func pairs(n int, upperOnly bool) [][2]int {
	var ps [][2]int
	for a := 0; a < n; a++ {
		for b := 0; b < n; b++ {
			if a == b || upperOnly && a > b {
				continue
			}
			ps = append(ps, [2]int{a, b})
		}
	}
	return ps
}

func edgesOf(ps [][2]int, mask int) [][2]int {
	var es [][2]int
	for i, p := range ps {
		if mask&(1<<i) != 0 {
			es = append(es, p)
		}
	}
	return es
}

func acyclic(n int, es [][2]int) bool {
	rs := RunSpec{N: n, Edges: es}
	return !rs.cyclic()
}

// ---- shard body ------------------------------------------------------------

type runner struct {
	s        *core.Shard
	deadlock int
}

func (r *runner) report(rs *RunSpec, o outcome) {
	s := r.s
	s.Eval(1)
	if rs.Hooks {
		s.Add("runs_modeB", 1)
	} else {
		s.Add("runs_modeA", 1)
	}
	for p, n := range o.hookSeen {
		if n > 0 {
			s.Cover("hook-point", p)
		}
	}
	if o.inconcl != "" {
		s.Inconclusive("controller: " + o.inconcl)
		return
	}
	if len(o.events) >= 5 || rs.cyclic() {
		s.Nontrivial(rs.key(), strings.Join(o.events, " "))
	}
	if s.WantSample() && len(o.events) >= 7 && len(rs.Fail) > 0 {
		s.Sample(map[string]any{"config": rs, "released_in_order": o.choices, "trace": o.events})
	}
	if o.deadlock {
		r.deadlock++
	}
	for _, v := range o.viol {
		rc := *rs
		rc.Choices = o.choices
		s.Violation(v.Attrs, v.What+" ["+rs.key()+"]", map[string]any{"case.json": rc, "trace.txt": strings.Join(o.events, "\n")})
	}
}

// dfs enumerates every order in which parked entities can be released.
func (r *runner) dfs(rs *RunSpec, capRuns int) int {
	prefix := []int{}
	runs := 0
	for {
		o := execute(rs, func(step int, parked []*sched.Entity) int {
			if step < len(prefix) {
				return prefix[step]
			}
			return 0
		})
		runs++
		r.report(rs, o)
		if o.deadlock || o.inconcl != "" {
			return runs
		}
		d := len(o.chosen) - 1
		for d >= 0 && o.chosen[d]+1 >= o.branching[d] {
			d--
		}
		if d < 0 {
			return runs
		}
		prefix = append(append([]int(nil), o.chosen[:d]...), o.chosen[d]+1)
		if runs >= capRuns {
			r.s.Add("dfs_truncated", 1)
			return runs
		}
	}
}

func (r *runner) random(rs *RunSpec, rng *rand.Rand) {
	strategy := rs.Strategy
	o := execute(rs, func(step int, parked []*sched.Entity) int {
		switch {
		case strings.HasPrefix(strategy, "starve:"):
			// release anything but the starved hook point while possible
			pt := strategy[len("starve:"):]
			var others []int
			for i, e := range parked {
				if !(e.Kind == "hook" && e.Point == pt) {
					others = append(others, i)
				}
			}
			if len(others) > 0 {
				return others[rng.Intn(len(others))]
			}
		case strategy == "visits-last":
			var hooks []int
			for i, e := range parked {
				if e.Kind == "hook" {
					hooks = append(hooks, i)
				}
			}
			if len(hooks) > 0 {
				return hooks[rng.Intn(len(hooks))]
			}
		case strategy == "visits-first":
			var visits []int
			for i, e := range parked {
				if e.Kind == "visit" {
					visits = append(visits, i)
				}
			}
			if len(visits) > 0 {
				return visits[rng.Intn(len(visits))]
			}
		}
		return rng.Intn(len(parked))
	})
	r.report(rs, o)
}

var strategies = []string{"uniform", "uniform", "starve:done", "starve:receive", "starve:ready", "starve:enter", "starve:spawned", "visits-last", "visits-first"}

func subsetsUpTo(n, k int) [][]int {
	var out [][]int
	for mask := 1; mask < 1<<n; mask++ {
		var sub []int
		for i := 0; i < n; i++ {
			if mask&(1<<i) != 0 {
				sub = append(sub, i)
			}
		}
		if len(sub) <= k {
			out = append(out, sub)
		}
	}
	return out
}

func run(s *core.Shard) {
	runtime.GOMAXPROCS(2)
	r := &runner{s: s}
	rng := s.Rand(fmt.Sprintf("shard-%d", s.Index))
	caseNo := 0
	next := func(id string) bool {
		caseNo++
		if !s.Mine(caseNo) {
			return false
		}
		return s.Begin(id)
	}
	type family struct {
		n     int
		upper bool
	}
	families := []family{{1, false}, {2, false}, {3, false}, {4, false}, {5, true}}

	// ---- cyclic digraphs on <= 4 nodes: refused before any visit ---------------
	for n := 1; n <= 4; n++ {
		ps := pairs(n, false)
		selfLoops := n // also allow self-dependencies
		for mask := 0; mask < 1<<len(ps); mask++ {
			es := edgesOf(ps, mask)
			for self := 0; self <= selfLoops; self++ {
				ee := es
				if self > 0 {
					ee = append(append([][2]int(nil), es...), [2]int{self - 1, self - 1})
				}
				if acyclic(n, ee) {
					continue
				}
				if n == 4 && self > 1 {
					continue
				}
				if !next(fmt.Sprintf("cyclic/%d/%d/%d", n, mask, self)) {
					continue
				}
				for _, rev := range []bool{false, true} {
					rs := &RunSpec{N: n, Edges: ee, Reverse: rev, Max: int(mask % 3)}
					if mask%3 == 2 { // the cycle was introduced in place after the project had been walked without it
						rs.Before = [][2]int{}
					}
					if mask%3 == 1 { // the refusal leaves the project alone, optional dependencies included
						rs.Optional, rs.OptionalDisabled = []int{mask % n}, []int{(mask / 3) % n}
					}
					o := execute(rs, func(int, []*sched.Entity) int { return 0 })
					s.Add("cyclic_graphs", 1)
					r.report(rs, o)
				}
			}
		}
	}

	// ---- mode A: completion orders, depth-first --------------------------------
	for _, f := range families {
		ps := pairs(f.n, f.upper)
		for mask := 0; mask < 1<<len(ps); mask++ {
			es := edgesOf(ps, mask)
			if !acyclic(f.n, es) {
				continue
			}
			if f.n == 5 && !s.Thorough() && mask%8 != int(s.Seed)%8 {
				continue // quick: a seed-selected eighth of the 5-node family
			}
			if !next(fmt.Sprintf("modeA/%d/%d", f.n, mask)) {
				continue
			}
			s.Cover("graph-size", fmt.Sprint(f.n))
			for _, rev := range []bool{false, true} {
				for _, max := range []int{0, 1, 2, 3} {
					capRuns := s.Pick(60, 400)
					// all services, no failure: full enumeration of release orders
					r.dfs(&RunSpec{N: f.n, Edges: es, Reverse: rev, Max: max}, capRuns)
					// one failing visit at each position
					for fail := 0; fail < f.n; fail++ {
						if !s.Thorough() && (mask+fail+max)%2 == 1 {
							continue
						}
						r.dfs(&RunSpec{N: f.n, Edges: es, Reverse: rev, Max: max, Fail: []int{fail}}, s.Pick(20, 120))
					}
					// root selections: each single root, plus pairs in the thorough tier
					for _, roots := range subsetsUpTo(f.n, s.Pick(1, 2)) {
						if !s.Thorough() && (mask+roots[0]+max)%2 == 0 {
							continue
						}
						r.dfs(&RunSpec{N: f.n, Edges: es, Reverse: rev, Max: max, Roots: roots}, s.Pick(20, 120))
					}
					if s.Thorough() && f.n >= 2 {
						// two failing visits
						r.dfs(&RunSpec{N: f.n, Edges: es, Reverse: rev, Max: max, Fail: []int{0, f.n - 1}}, 60)
					}
					if f.n >= 2 && (s.Thorough() || (mask+max)%4 == 2) {
						// a visit cancels the context the caller gave: nil only if every service was visited all the same
						r.dfs(&RunSpec{N: f.n, Edges: es, Reverse: rev, Max: max, Cancel: []int{mask % f.n}}, s.Pick(12, 60))
					}
					if f.n >= 2 && f.n <= 4 && (s.Thorough() || (mask+max)%4 == 1) {
						// the same project value walked before with other dependencies (another DAG, or none)
						other := edgesOf(ps, (mask*7+3)%(1<<len(ps)))
						if !acyclic(f.n, other) || len(other) == 0 {
							other = [][2]int{}
						}
						r.dfs(&RunSpec{N: f.n, Edges: es, Reverse: rev, Max: max, Before: other}, s.Pick(10, 40))
					}
					if s.Thorough() || (mask+max)%3 == 0 {
						// an optional dependency on an unknown service, on a service disabled by profiles, or both
						r.dfs(&RunSpec{N: f.n, Edges: es, Reverse: rev, Max: max, Optional: []int{mask % f.n}}, s.Pick(12, 60))
						r.dfs(&RunSpec{N: f.n, Edges: es, Reverse: rev, Max: max, OptionalDisabled: []int{(mask + 1) % f.n}, Optional: []int{mask % f.n}[:mask%2]}, s.Pick(12, 60))
					}
				}
			}
			if r.deadlock > 20 {
				return
			}
		}
	}

	// ---- mode B: internal interleavings ----------------------------------------
	perGraph := s.Pick(2, 12)
	famB := []family{{2, false}, {3, false}, {4, false}, {5, true}}
	if s.Thorough() {
		famB = append(famB, family{6, true})
	}
	for _, f := range famB {
		ps := pairs(f.n, f.upper)
		total := 1 << len(ps)
		for mask := 0; mask < total; mask++ {
			if f.n == 6 && mask%32 != int(s.Seed)%32 {
				continue
			}
			es := edgesOf(ps, mask)
			if !acyclic(f.n, es) {
				continue
			}
			if !next(fmt.Sprintf("modeB/%d/%d", f.n, mask)) {
				continue
			}
			for k := 0; k < perGraph; k++ {
				rs := &RunSpec{N: f.n, Edges: es, Hooks: true,
					Reverse:  rng.Intn(2) == 0,
					Max:      []int{0, 1, 2, 3}[rng.Intn(4)],
					Strategy: strategies[rng.Intn(len(strategies))],
					RandSeed: rng.Int63(),
				}
				if rng.Intn(4) == 0 {
					rs.Optional = []int{rng.Intn(f.n)}
				}
				if rng.Intn(4) == 0 {
					rs.OptionalDisabled = []int{rng.Intn(f.n)}
				}
				switch rng.Intn(4) {
				case 0:
					rs.Fail = []int{rng.Intn(f.n)}
				case 1:
					rs.Roots = []int{rng.Intn(f.n)}
				case 2:
					if rng.Intn(3) == 0 {
						rs.Fail = []int{rng.Intn(f.n), rng.Intn(f.n)}
						sort.Ints(rs.Fail)
						if rs.Fail[0] == rs.Fail[1] {
							rs.Fail = rs.Fail[:1]
						}
					}
				}
				s.Cover("strategy", rs.Strategy)
				r.random(rs, rand.New(rand.NewSource(rs.RandSeed)))
			}
			if r.deadlock > 20 {
				return
			}
		}
	}
}

func replay(s *core.Shard, dir string) {
	var rs RunSpec
	if err := core.ReadJSON(filepath.Join(dir, "case.json"), &rs); err != nil {
		s.Inconclusive("replay: " + err.Error())
		return
	}
	runtime.GOMAXPROCS(2)
	r := &runner{s: s}
	// follow the recorded choices where possible; repeat to cover map-order dependent start sets
	for rep := 0; rep < 50; rep++ {
		o := execute(&rs, func(step int, parked []*sched.Entity) int {
			if step < len(rs.Choices) {
				for i, e := range parked {
					if e.String() == rs.Choices[step] {
						return i
					}
				}
			}
			return 0
		})
		r.report(&rs, o)
		if len(o.viol) > 0 {
			return
		}
	}
}

// witness re-runs the configuration stored with a known/fixed finding: the
// full depth-first enumeration of release orders (hooks passing through) and
// 200 seeded schedules with the internal yield points parked.
func witness(s *core.Shard, f core.Finding) (bool, string) {
	var rs RunSpec
	if err := jsonUnmarshal(f.Witness, &rs); err != nil {
		return false, "bad witness: " + err.Error()
	}
	runtime.GOMAXPROCS(2)
	want := f.Match["kind"]
	hit := ""
	check := func(o outcome) bool {
		for _, v := range o.viol {
			if v.Attrs["kind"] == want {
				hit = v.What
				return true
			}
		}
		return false
	}
	prefix := []int{}
	for runs := 0; runs < 400; runs++ {
		a := rs
		a.Hooks = false
		o := execute(&a, func(step int, parked []*sched.Entity) int {
			if step < len(prefix) {
				return prefix[step]
			}
			return 0
		})
		if check(o) {
			return true, hit
		}
		if o.deadlock || o.inconcl != "" {
			break
		}
		d := len(o.chosen) - 1
		for d >= 0 && o.chosen[d]+1 >= o.branching[d] {
			d--
		}
		if d < 0 {
			break
		}
		prefix = append(append([]int(nil), o.chosen[:d]...), o.chosen[d]+1)
	}
	rng := rand.New(rand.NewSource(1))
	for k := 0; k < 200; k++ {
		b := rs
		b.Hooks = true
		o := execute(&b, func(step int, parked []*sched.Entity) int { return rng.Intn(len(parked)) })
		if check(o) {
			return true, hit
		}
	}
	return false, ""
}

func jsonUnmarshal(b []byte, v any) error { return json.Unmarshal(b, v) }

// TraversalSlice is a reduced traversal workload used by C19 (the library's own
// parallel operations must be free of deadlocks and propagate the first error):
// failing visitors under concurrency limits on small DAGs, release orders
// enumerated depth-first, plus seeded yield-point schedules.
func TraversalSlice(s *core.Shard, next func(string) bool) {
	r := &runner{s: s}
	rng := s.Rand(fmt.Sprintf("traversal-slice-%d", s.Index))
	for n := 2; n <= 4; n++ {
		ps := pairs(n, n == 4)
		for mask := 0; mask < 1<<len(ps); mask++ {
			es := edgesOf(ps, mask)
			if !acyclic(n, es) {
				continue
			}
			if !next(fmt.Sprintf("traversal/%d/%d", n, mask)) {
				continue
			}
			for _, rev := range []bool{false, true} {
				for _, max := range []int{1, 2} {
					var failSets [][]int
					for f := 0; f < n; f++ {
						failSets = append(failSets, []int{f})
					}
					failSets = append(failSets, []int{0, n - 1})
					if n >= 3 {
						failSets = append(failSets, []int{0, 1, 2})
					}
					for _, fs := range failSets {
						if (mask+len(fs)+max)%2 == 0 && !s.Thorough() {
							continue
						}
						r.dfs(&RunSpec{N: n, Edges: es, Reverse: rev, Max: max, Fail: fs}, s.Pick(8, 40))
					}
				}
			}
			rs := &RunSpec{N: n, Edges: es, Hooks: true, Reverse: rng.Intn(2) == 0, Max: 1 + rng.Intn(2), Fail: []int{rng.Intn(n)}, Strategy: strategies[rng.Intn(len(strategies))], RandSeed: rng.Int63()}
			r.random(rs, rand.New(rand.NewSource(rs.RandSeed)))
			if r.deadlock > 10 {
				return
			}
		}
	}
}
