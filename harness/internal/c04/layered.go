package c04

import (
	"fmt"
	"strings"

	"verif/harness/internal/ld"
)

// layered builds hand-shaped three-layer cases that the per-attribute engine produces only
// rarely: a layer that introduces several entries in the *short* spelling (whose payload is an
// implied default) between an earlier layer that already has the attribute and a later one that
// refines exactly one of the new entries in mapping spelling. The untouched siblings must keep
// their defaults ("anything a later file does not mention is preserved unchanged").
func layered(i int) *Case {
	names := [][]string{{"db", "cache", "queue"}, {"a", "b"}, {"x1", "x2", "x3", "x4"}}[i%3]
	refined := names[(i/3)%len(names)]
	asDocs := (i/12)%2 == 1
	kind := []string{"depends_on", "networks"}[(i/24)%2]
	var l1, l2, l3, target strings.Builder
	decl := func(sb *strings.Builder) {
		for _, n := range append([]string{"first"}, names...) {
			if kind == "depends_on" {
				fmt.Fprintf(sb, "  %s:\n    image: img\n", n)
			}
		}
	}
	switch kind {
	case "depends_on":
		l1.WriteString("services:\n  s:\n    image: img\n    depends_on:\n      first: {condition: service_started}\n")
		decl(&l1)
		l2.WriteString("services:\n  s:\n    depends_on:\n")
		for _, n := range names {
			fmt.Fprintf(&l2, "      - %s\n", n)
		}
		fmt.Fprintf(&l3, "services:\n  s:\n    depends_on:\n      %s: {condition: service_healthy, restart: true}\n", refined)
		target.WriteString("services:\n  s:\n    image: img\n    depends_on:\n      first: {condition: service_started, required: true}\n")
		for _, n := range names {
			if n == refined {
				fmt.Fprintf(&target, "      %s: {condition: service_healthy, restart: true, required: true}\n", n)
			} else {
				fmt.Fprintf(&target, "      %s: {condition: service_started, required: true}\n", n)
			}
		}
		decl(&target)
	default:
		nets := "networks:\n  first: {}\n"
		for _, n := range names {
			nets += fmt.Sprintf("  %s: {}\n", n)
		}
		l1.WriteString("services:\n  s:\n    image: img\n    networks:\n      first: {}\n" + nets)
		l2.WriteString("services:\n  s:\n    networks:\n")
		for _, n := range names {
			fmt.Fprintf(&l2, "      - %s\n", n)
		}
		fmt.Fprintf(&l3, "services:\n  s:\n    networks:\n      %s: {aliases: [al1], priority: 5}\n", refined)
		target.WriteString("services:\n  s:\n    image: img\n    networks:\n      first: {}\n")
		for _, n := range names {
			if n == refined {
				fmt.Fprintf(&target, "      %s: {aliases: [al1], priority: 5}\n", n)
			} else {
				fmt.Fprintf(&target, "      %s: {}\n", n)
			}
		}
		target.WriteString(nets)
	}
	c := &Case{Focus: "services." + kind + " (short list between two layers)", Parts: 3}
	c.Target = ld.Case{Files: map[string]string{"compose.yaml": target.String()}, ComposeFiles: []string{"compose.yaml"}}
	if asDocs {
		c.Carrier = "documents"
		c.Split = ld.Case{Files: map[string]string{"compose.yaml": l1.String() + "---\n" + l2.String() + "---\n" + l3.String()}, ComposeFiles: []string{"compose.yaml"}}
	} else {
		c.Carrier = "files"
		c.Split = ld.Case{Files: map[string]string{"compose.yaml": l1.String(), "compose.1.yaml": l2.String(), "compose.2.yaml": l3.String()},
			ComposeFiles: []string{"compose.yaml", "compose.1.yaml", "compose.2.yaml"}}
	}
	return c
}

// emptied builds three-layer cases in which the middle layer spells an attribute as an empty
// sequence and a further layer (which does not mention the attribute) follows: for the attributes
// replaced wholesale (command, entrypoint, healthcheck.test) the empty value is the result, for
// the appended sequences the empty layer adds nothing. Either way the layers after it must load.
func emptied(i int) *Case {
	type attr struct {
		path    string // "" = directly under the service
		key     string
		vals    string // flow sequence of the first layer
		replace bool
	}
	attrs := []attr{
		{"", "command", `["run", "--fast"]`, true},
		{"", "entrypoint", `["/bin/entry", "-x"]`, true},
		{"healthcheck", "test", `["CMD", "true"]`, true},
		{"", "security_opt", `["label=disable"]`, false},
		{"", "extra_hosts", `["h1=10.0.0.1"]`, false},
		{"", "group_add", `["mail"]`, false},
		{"", "dns", `["8.8.8.8"]`, false},
		{"", "dns_search", `["example.com"]`, false},
		{"", "cap_add", `["NET_ADMIN"]`, false},
		{"", "cap_drop", `["ALL"]`, false},
		{"", "expose", `["8080"]`, false},
		{"", "devices", `["/dev/a:/dev/b"]`, false},
		{"", "tmpfs", `["/run"]`, false},
		{"", "profiles", `["dev"]`, false},
		{"", "dns_opt", `["ndots:1"]`, false},
		{"", "external_links", `["other:alias"]`, false},
	}
	a := attrs[i%len(attrs)]
	firstHas := (i/len(attrs))%2 == 0 || a.replace // appended sequences also with nothing before the empty layer
	asDocs := (i/(2*len(attrs)))%2 == 1
	line := func(v string) string {
		if a.path != "" {
			return fmt.Sprintf("    %s:\n      %s: %s\n", a.path, a.key, v)
		}
		return fmt.Sprintf("    %s: %s\n", a.key, v)
	}
	l1 := "services:\n  s:\n    image: img\n"
	if firstHas {
		l1 += line(a.vals)
	}
	l2 := "services:\n  s:\n" + line("[]")
	l3 := "services:\n  s:\n    labels: {tier: last}\n"
	target := "services:\n  s:\n    image: img\n    labels: {tier: last}\n"
	switch {
	case a.replace:
		target += line("[]")
	case firstHas:
		target += line(a.vals)
	}
	c := &Case{Focus: "services." + a.key + " (empty sequence followed by a further layer)", Parts: 3}
	c.Target = ld.Case{Files: map[string]string{"compose.yaml": target}, ComposeFiles: []string{"compose.yaml"}}
	if asDocs {
		c.Carrier = "documents"
		c.Split = ld.Case{Files: map[string]string{"compose.yaml": l1 + "---\n" + l2 + "---\n" + l3}, ComposeFiles: []string{"compose.yaml"}}
	} else {
		c.Carrier = "files"
		c.Split = ld.Case{Files: map[string]string{"compose.yaml": l1, "compose.1.yaml": l2, "compose.2.yaml": l3},
			ComposeFiles: []string{"compose.yaml", "compose.1.yaml", "compose.2.yaml"}}
	}
	return c
}

// uncleanKey: a mount declared for the same container path by two layers, the later one spelling
// the path uncleanly (trailing slash, `./` or `//` segment, `a/../b`): it is the same key, so a
// single entry remains and the later layer wins.
func uncleanKey(i int) *Case {
	targets := []string{"/var/lib/postgresql/data/", "/var/lib/./postgresql/data", "/var/lib//postgresql/data", "/var/lib/x/../postgresql/data", "/var/lib/postgresql/data/."}
	t := targets[i%len(targets)]
	laterLong := (i/len(targets))%2 == 1
	asDocs := (i/(2*len(targets)))%2 == 1
	l1 := "services:\n  s:\n    image: img\n    volumes:\n      - dbdata:/var/lib/postgresql/data\n      - ./conf:/etc/postgresql\nvolumes:\n  dbdata: {}\n  other: {}\n"
	l2 := "services:\n  s:\n    volumes:\n      - other:" + t + "\n"
	if laterLong {
		l2 = "services:\n  s:\n    volumes:\n      - {type: volume, source: other, target: " + t + "}\n"
	}
	target := "services:\n  s:\n    image: img\n    volumes:\n      - other:/var/lib/postgresql/data\n      - ./conf:/etc/postgresql\nvolumes:\n  dbdata: {}\n  other: {}\n"
	c := &Case{Focus: "services.volumes (same target spelled uncleanly by the later layer)", Parts: 2}
	c.Target = ld.Case{Files: map[string]string{"compose.yaml": target}, ComposeFiles: []string{"compose.yaml"}}
	if asDocs {
		c.Carrier = "documents"
		c.Split = ld.Case{Files: map[string]string{"compose.yaml": l1 + "---\n" + l2}, ComposeFiles: []string{"compose.yaml"}}
	} else {
		c.Carrier = "files"
		c.Split = ld.Case{Files: map[string]string{"compose.yaml": l1, "compose.1.yaml": l2}, ComposeFiles: []string{"compose.yaml", "compose.1.yaml"}}
	}
	return c
}

// portKey: one published port declared by two layers, the later one replacing the earlier whatever
// the spelling of `published` / `target` (integer, quoted text, short syntax) on either side.
func portKey(i int) *Case {
	spell := []string{
		`"8080:80"`,
		`{target: 80, published: 8080}`,
		`{target: 80, published: "8080"}`,
		`{target: 80, published: 8080, protocol: tcp}`,
		`{target: 80, published: "8080", protocol: tcp, mode: ingress}`,
	}
	a, b := spell[i%len(spell)], spell[(i/len(spell))%len(spell)]
	asDocs := (i/(len(spell)*len(spell)))%2 == 1
	later := strings.TrimSuffix(b, "}")
	if strings.HasPrefix(b, "{") {
		later += ", name: web}"
	} else {
		later = b
	}
	l1 := "services:\n  s:\n    image: img\n    ports:\n      - " + a + "\n      - \"9090:90\"\n"
	l2 := "services:\n  s:\n    ports:\n      - " + later + "\n"
	target := "services:\n  s:\n    image: img\n    ports:\n      - " + later + "\n      - \"9090:90\"\n"
	c := &Case{Focus: "services.ports (one published port declared by two layers, spellings of published/target vary)", Parts: 2}
	c.Target = ld.Case{Files: map[string]string{"compose.yaml": target}, ComposeFiles: []string{"compose.yaml"}}
	if asDocs {
		c.Carrier = "documents"
		c.Split = ld.Case{Files: map[string]string{"compose.yaml": l1 + "---\n" + l2}, ComposeFiles: []string{"compose.yaml"}}
	} else {
		c.Carrier = "files"
		c.Split = ld.Case{Files: map[string]string{"compose.yaml": l1, "compose.1.yaml": l2}, ComposeFiles: []string{"compose.yaml", "compose.1.yaml"}}
	}
	return c
}

// portRange: a short-syntax port range that meets a declaration of one of its ports (made by the
// earlier layer, by the same range repeated, by a long entry in the later layer, or earlier in the
// same list): a range is one entry per port, each entry keyed like any other port.
func portRange(i int) *Case {
	type pr struct{ l1, l2, target string }
	item := func(xs ...string) string {
		var sb strings.Builder
		for _, x := range xs {
			sb.WriteString("      - " + x + "\n")
		}
		return sb.String()
	}
	cases := []pr{
		{item(`"8081:81"`), item(`"8080-8081:80-81"`), item(`"8080:80"`, `"8081:81"`)},
		{item(`"8080-8082:80-82/udp"`), item(`"8080-8082:80-82/udp"`), item(`"8080-8082:80-82/udp"`)},
		{item(`"8080-8081:80-81"`), item(`{target: 81, published: "8081", name: x}`), item(`"8080:80"`, `{target: 81, published: "8081", name: x}`)},
		{item(`"8081:81"`, `"8080-8081:80-81"`), "", item(`"8080:80"`, `"8081:81"`)},
		{item(`{target: 80, published: "8080", protocol: tcp}`), item(`"8080-8081:80-81"`), item(`"8080:80"`, `"8081:81"`)},
		{item(`"127.0.0.1:9000-9001:90-91"`), item(`"127.0.0.1:9001:91"`, `"9001:91"`), item(`"127.0.0.1:9000:90"`, `"127.0.0.1:9001:91"`, `"9001:91"`)},
	}
	k := cases[i%len(cases)]
	asDocs := (i/len(cases))%2 == 1
	l1 := "services:\n  s:\n    image: img\n    ports:\n" + k.l1
	l2 := "services:\n  s:\n    labels: {later: \"1\"}\n"
	if k.l2 != "" {
		l2 += "    ports:\n" + k.l2
	}
	target := "services:\n  s:\n    image: img\n    labels: {later: \"1\"}\n    ports:\n" + k.target
	c := &Case{Focus: "services.ports (a short-syntax range meeting a declaration of one of its ports)", Parts: 2}
	c.Target = ld.Case{Files: map[string]string{"compose.yaml": target}, ComposeFiles: []string{"compose.yaml"}}
	if asDocs {
		c.Carrier = "documents"
		c.Split = ld.Case{Files: map[string]string{"compose.yaml": l1 + "---\n" + l2}, ComposeFiles: []string{"compose.yaml"}}
	} else {
		c.Carrier = "files"
		c.Split = ld.Case{Files: map[string]string{"compose.yaml": l1, "compose.1.yaml": l2}, ComposeFiles: []string{"compose.yaml", "compose.1.yaml"}}
	}
	return c
}

// taggedExtends: in the later layer the service carries `X: !override …` / `X: !reset …` and also
// extends a template that defines X itself; the earlier layer sets X too. The tag applies to
// everything that came before: the template's value and the earlier layer's.
func taggedExtends(i int) *Case {
	type tc struct{ early, tmpl, tagged, final string }
	cases := []tc{
		{"    ports:\n      - \"8080:80\"\n", "    ports:\n      - \"7070:70\"\n", "    ports: !override\n      - \"9090:90\"\n", "    ports:\n      - \"9090:90\"\n"},
		{"    environment:\n      MODE: production\n", "    environment:\n      TEMPLATE: \"yes\"\n", "    environment: !reset null\n", ""},
		{"    cap_add:\n      - NET_ADMIN\n", "    cap_add:\n      - SYS_TIME\n", "    cap_add: !reset []\n", ""},
		{"    labels:\n      a: \"1\"\n", "    labels:\n      t: \"1\"\n", "    labels: !override\n      k: v\n", "    labels:\n      k: v\n"},
		{"    dns:\n      - 1.1.1.1\n", "    dns:\n      - 8.8.8.8\n", "    dns: !override\n      - 9.9.9.9\n", "    dns:\n      - 9.9.9.9\n"},
		{"    volumes:\n      - ./a:/a\n", "    volumes:\n      - ./t:/t\n", "    volumes: !override\n      - ./n:/n\n", "    volumes:\n      - ./n:/n\n"},
	}
	k := cases[i%len(cases)]
	asDocs := (i/len(cases))%2 == 1
	otherFile := (i/(2*len(cases)))%2 == 1 // the template lives in another file
	l1 := "services:\n  web:\n    image: nginx\n    hostname: kept\n" + k.early
	tmplSvc := "  template:\n    image: busybox\n" + k.tmpl
	l2 := "services:\n" + tmplSvc + "  web:\n    extends:\n      service: template\n" + k.tagged
	target := "services:\n" + tmplSvc + "  web:\n    image: busybox\n    hostname: kept\n" + k.final
	extra := map[string]string{}
	if otherFile {
		extra["tmpl.yaml"] = "services:\n" + tmplSvc
		l2 = "services:\n  web:\n    extends:\n      file: tmpl.yaml\n      service: template\n" + k.tagged
		target = "services:\n  web:\n    image: busybox\n    hostname: kept\n" + k.final
	}
	c := &Case{Focus: "tag on a service that extends a template defining the tagged attribute", Parts: 2}
	c.Target = ld.Case{Files: map[string]string{"compose.yaml": target}, ComposeFiles: []string{"compose.yaml"}}
	if asDocs {
		c.Carrier = "documents"
		c.Split = ld.Case{Files: map[string]string{"compose.yaml": l1 + "---\n" + l2}, ComposeFiles: []string{"compose.yaml"}}
	} else {
		c.Carrier = "files"
		c.Split = ld.Case{Files: map[string]string{"compose.yaml": l1, "compose.1.yaml": l2}, ComposeFiles: []string{"compose.yaml", "compose.1.yaml"}}
	}
	for f, v := range extra {
		c.Split.Files[f] = v
	}
	return c
}

// grantKey: a config / secret granted to the service by two layers for the same target, one side
// relying on the default target (`/<source>` for a config, `/run/secrets/<source>` for a secret),
// the other writing it out: one grant remains, the later layer's.
func grantKey(i int) *Case {
	type gc struct{ kind, l1, l2, final string }
	cases := []gc{
		{"configs", "      - app_conf\n", "      - {source: app_conf, target: /app_conf, mode: 0440}\n", "      - {source: app_conf, target: /app_conf, mode: 0440}\n"},
		{"configs", "      - {source: app_conf, target: /app_conf, uid: \"103\"}\n", "      - app_conf\n", "      - app_conf\n"},
		{"configs", "      - app_conf\n", "      - {source: other_conf, target: /app_conf}\n", "      - {source: other_conf, target: /app_conf}\n"},
		{"secrets", "      - app_conf\n", "      - {source: app_conf, target: /run/secrets/app_conf, mode: 0400}\n", "      - {source: app_conf, target: /run/secrets/app_conf, mode: 0400}\n"},
		{"secrets", "      - {source: other_conf, target: /run/secrets/app_conf}\n", "      - app_conf\n", "      - app_conf\n"},
	}
	k := cases[i%len(cases)]
	asDocs := (i/len(cases))%2 == 1
	top := "configs:\n  app_conf: {content: a}\n  other_conf: {content: o}\n"
	if k.kind == "secrets" {
		top = "secrets:\n  app_conf: {environment: A}\n  other_conf: {environment: O}\n"
	}
	l1 := "services:\n  s:\n    image: img\n    " + k.kind + ":\n" + k.l1 + top
	l2 := "services:\n  s:\n    " + k.kind + ":\n" + k.l2
	target := "services:\n  s:\n    image: img\n    " + k.kind + ":\n" + k.final + top
	c := &Case{Focus: "services." + k.kind + " (same target, default on one side and written out on the other)", Parts: 2}
	c.Target = ld.Case{Files: map[string]string{"compose.yaml": target}, ComposeFiles: []string{"compose.yaml"}}
	if asDocs {
		c.Carrier = "documents"
		c.Split = ld.Case{Files: map[string]string{"compose.yaml": l1 + "---\n" + l2}, ComposeFiles: []string{"compose.yaml"}}
	} else {
		c.Carrier = "files"
		c.Split = ld.Case{Files: map[string]string{"compose.yaml": l1, "compose.1.yaml": l2}, ComposeFiles: []string{"compose.yaml", "compose.1.yaml"}}
	}
	return c
}

// taggedAnchor: in the later layer a tagged node carries an anchor and is used again through
// aliases by other services: the tag applies wherever the node stands.
func taggedAnchor(i int) *Case {
	asDocs := i%2 == 1
	variant := (i / 2) % 3
	l1 := "services:\n  one:\n    image: a\n    environment: {KEEP: one}\n    ports: [\"8001:80\"]\n  two:\n    image: b\n    environment: {KEEP: two}\n    ports: [\"8002:80\"]\n  three:\n    image: c\n    environment: {KEEP: three}\n    ports: [\"8003:80\"]\n"
	var l2, target string
	switch variant {
	case 0: // !override on an anchored mapping, two aliases
		l2 = "services:\n  one:\n    environment: &env !override {NEW: \"1\"}\n  two:\n    environment: *env\n  three:\n    environment: *env\n"
		target = "services:\n  one:\n    image: a\n    environment: {NEW: \"1\"}\n    ports: [\"8001:80\"]\n  two:\n    image: b\n    environment: {NEW: \"1\"}\n    ports: [\"8002:80\"]\n  three:\n    image: c\n    environment: {NEW: \"1\"}\n    ports: [\"8003:80\"]\n"
	case 1: // !reset on an anchored null
		l2 = "services:\n  one:\n    ports: &none !reset null\n  two:\n    ports: *none\n  three:\n    ports: *none\n"
		target = "services:\n  one:\n    image: a\n    environment: {KEEP: one}\n  two:\n    image: b\n    environment: {KEEP: two}\n  three:\n    image: c\n    environment: {KEEP: three}\n"
	default: // an anchored extension fragment holding a tagged attribute, merged into the services
		l2 = "x-common: &common\n  ports: !override [\"9000:90\"]\nservices:\n  one:\n    <<: *common\n  two:\n    <<: *common\n  three:\n    <<: *common\n"
		target = "x-common:\n  ports: [\"9000:90\"]\nservices:\n  one:\n    image: a\n    environment: {KEEP: one}\n    ports: [\"9000:90\"]\n  two:\n    image: b\n    environment: {KEEP: two}\n    ports: [\"9000:90\"]\n  three:\n    image: c\n    environment: {KEEP: three}\n    ports: [\"9000:90\"]\n"
	}
	c := &Case{Focus: "tagged node with an anchor, used again through aliases", Parts: 2}
	c.Target = ld.Case{Files: map[string]string{"compose.yaml": target}, ComposeFiles: []string{"compose.yaml"}}
	if asDocs {
		c.Carrier = "documents"
		c.Split = ld.Case{Files: map[string]string{"compose.yaml": l1 + "---\n" + l2}, ComposeFiles: []string{"compose.yaml"}}
	} else {
		c.Carrier = "files"
		c.Split = ld.Case{Files: map[string]string{"compose.yaml": l1, "compose.1.yaml": l2}, ComposeFiles: []string{"compose.yaml", "compose.1.yaml"}}
	}
	return c
}

// nameLayers: `name` is a scalar like any other: the last layer (file or document) that sets it
// wins, also for the project name the loader derives and hands to interpolation.
func nameLayers(i int) *Case {
	asDocs := i%2 == 1
	variant := (i / 2) % 3
	svc := "services:\n  s:\n    image: img\n    labels: {project: \"${COMPOSE_PROJECT_NAME}\"}\n"
	var parts []string
	final := ""
	switch variant {
	case 0:
		parts, final = []string{"name: base\n" + svc, "name: final\nservices:\n  s:\n    labels: {more: \"1\"}\n"}, "final"
	case 1:
		parts, final = []string{svc, "name: final\nservices:\n  s:\n    labels: {more: \"1\"}\n"}, "final"
	default:
		parts, final = []string{"name: base\n" + svc, "services:\n  s:\n    labels: {more: \"1\"}\n", "name: final\n"}, "final"
	}
	target := "name: " + final + "\nservices:\n  s:\n    image: img\n    labels: {project: \"" + final + "\", more: \"1\"}\n"
	c := &Case{Focus: "name (set or re-set by a later layer, no name given by the caller)", Parts: len(parts)}
	c.Target = ld.Case{Files: map[string]string{"compose.yaml": target}, ComposeFiles: []string{"compose.yaml"}, Opts: ld.Opts{Name: "-"}}
	if asDocs {
		c.Carrier = "documents"
		c.Split = ld.Case{Files: map[string]string{"compose.yaml": strings.Join(parts, "---\n")}, ComposeFiles: []string{"compose.yaml"}, Opts: ld.Opts{Name: "-"}}
	} else {
		c.Carrier = "files"
		c.Split = ld.Case{Files: map[string]string{}, Opts: ld.Opts{Name: "-"}}
		for k, p := range parts {
			n := "compose.yaml"
			if k > 0 {
				n = fmt.Sprintf("compose.%d.yaml", k)
			}
			c.Split.Files[n] = p
			c.Split.ComposeFiles = append(c.Split.ComposeFiles, n)
		}
	}
	return c
}
