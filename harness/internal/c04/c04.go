// Package c04 checks property C04: loading several files / YAML documents
// yields the model obtained by applying each later one onto the result so far
// by the Compose override rules.
//
// Metamorphic monitor. A generator draws a target model T; the decomposition
// engine (internal/decomp) splits every attribute's final value into 2..4
// parts that the rules *as worded in the statement* map back to it. T is
// loaded as a single document (merged onto an empty tree, hence immune to the
// merge rules) and is the oracle for the project loaded from the parts.
package c04

import (
	"encoding/json"
	"fmt"
	"os"
	"path/filepath"
	"regexp"
	"sort"
	"strconv"
	"strings"

	"verif/harness/internal/core"
	"verif/harness/internal/decomp"
	"verif/harness/internal/diff"
	"verif/harness/internal/ld"
)

func init() {
	core.Register(&core.Spec{
		ID:    "C04",
		Level: "exploration",
		Rule: "seeded target models (1..3 services + the networks/volumes/secrets/configs they use) from an attribute catalogue transcribed from the statement's merge rules; " +
			"two thirds of the cases focus one catalogue attribute (round robin over every service / resource attribute path), one third split ~10 attributes at once; " +
			"each attribute's final value is decomposed into 2..4 parts (decoy-then-target, key-wise with stale and exact-duplicate entries, consecutive chunks, chunk with duplicate, list|mapping|string spelling per part, silence, !reset, !override) " +
			"carried as separate files, `---` documents of one file, or a mix; the project loaded from the parts must equal the project loaded from the single target document. " +
			"Hand-shaped families on top: a short list between two layers of which the later refines one entry; an attribute emptied (`[]`) by the middle one of three layers; a mount target spelled uncleanly by the later layer. " +
			"A case is non-trivial when at least one attribute is mentioned by >= 2 parts and both loads succeed; distinct = distinct split inputs.",
		Assumptions: []string{
			"the single-document load of the target is the oracle (it involves no merging); defects that affect single-document loading identically on both sides are invisible here",
			"intersection discipline: colliding ports share ip/published/target/protocol; extra_hosts parts use disjoint hosts; logging.driver never changes across parts; ulimits.<name> is atomic; plain lists never repeat an element across parts; !reset/!override at attribute level only; extensions (x-*) are not generated",
			"list order after de-duplication is not specified: lists that received an exact duplicate are compared as multisets, keyed lists always",
		},
		Exhaustive: func(string) bool { return false },
		Run:        run,
		Replay:     replay,
		Witness:    witness,
		Floor:      floor,
	})
}

// Case is the replayable form of one metamorphic pair.
type Case struct {
	Target    ld.Case  `json:"target"`
	Split     ld.Case  `json:"split"`
	Unordered []string `json:"unordered,omitempty"`
	Focus     string   `json:"focus,omitempty"`
	Carrier   string   `json:"carrier,omitempty"`
	Parts     int      `json:"parts,omitempty"`
}

var focusPaths []string

// quarantine: focus path -> catalogue row of the attributes with a recorded finding.
var quarantine = map[string]*decomp.Attr{
	"networks.ipam.config": decomp.Lookup(decomp.NetworkAttr, "ipam.config"),
	"volumes.labels":       decomp.Lookup(decomp.VolumeAttr, "labels"),
	"secrets.labels":       decomp.Lookup(decomp.SecretAttr, "labels"),
	"configs.labels":       decomp.Lookup(decomp.ConfigAttr, "labels"),
	"services.build.ssh":   decomp.Lookup(decomp.ServiceAttr, "build.ssh"),
}

func init() {
	for _, p := range decomp.AttrPaths(decomp.ServiceAttr) {
		focusPaths = append(focusPaths, "services."+p)
	}
	for kind, a := range map[string]*decomp.Attr{"networks": decomp.NetworkAttr, "volumes": decomp.VolumeAttr, "secrets": decomp.SecretAttr, "configs": decomp.ConfigAttr} {
		for _, p := range decomp.AttrPaths(a) {
			if strings.HasSuffix(p, "external") {
				continue
			}
			focusPaths = append(focusPaths, kind+"."+p)
		}
	}
	sort.Strings(focusPaths)
}

// build generates case number i.
func build(s *core.Shard, i int) (*Case, *decomp.Engine) {
	r := s.Rand(fmt.Sprintf("case/%d", i))
	g := decomp.NewG(r)
	c := &Case{}
	o := decomp.ModelOpts{MinResources: 1}
	if i%3 != 2 {
		c.Focus = focusPaths[(i/3*2+i%3)%len(focusPaths)]
		kind, rest, _ := strings.Cut(c.Focus, ".")
		if kind == "services" {
			o.Force = []string{rest}
		} else {
			o.ForceResource = []string{c.Focus}
		}
		o.Density = 0.03
		o.Services = 2
	} else {
		o.Density = 0.08 + 0.12*r.Float64()
	}
	t := g.Model(o)
	n := 2 + r.Intn(3)
	e := decomp.NewEngine(g)
	if r.Intn(2) == 0 {
		e.PTag = 0
		e.PResetAbsent = 0
	} else if c.Focus != "" {
		e.PTag = 0.3
	}
	// Attributes with a finding recorded in FINDINGS.md are split only when
	// they are the focus of the case (and in one of eight whole-model cases), so
	// that a known defect does not mask the other attributes of a case.
	if !(c.Focus == "" && i%8 == 2) {
		e.Single = map[*decomp.Attr]bool{}
		for p, a := range quarantine {
			if p != c.Focus {
				e.Single[a] = true
			}
		}
	}
	parts := e.Decompose(t, decomp.RootAttr, n)
	var docs []string
	for _, p := range parts {
		if p != nil {
			docs = append(docs, decomp.Doc(p))
		}
	}
	c.Parts = len(docs)
	tt := t.Clone()
	if r.Intn(2) == 0 {
		tt.Reseed(r)
	} else {
		tt.Canonical()
	}
	files := map[string]string{}
	for tok, content := range g.Files {
		files[strings.TrimPrefix(tok, "./")] = content
	}
	opts := ld.Opts{Profiles: []string{"*"}}
	c.Target = ld.Case{Files: copyFiles(files, map[string]string{"compose.yaml": decomp.Doc(tt)}), ComposeFiles: []string{"compose.yaml"}, Opts: opts}
	c.Split = ld.Case{Files: copyFiles(files, nil), Opts: opts}
	switch carrier := r.Intn(3); {
	case carrier == 0 || len(docs) < 2:
		c.Carrier = "files"
		for k, d := range docs {
			name := fmt.Sprintf("compose.%d.yaml", k)
			c.Split.Files[name] = d
			c.Split.ComposeFiles = append(c.Split.ComposeFiles, name)
		}
	case carrier == 1:
		c.Carrier = "documents"
		c.Split.Files["compose.yaml"] = strings.Join(docs, "---\n")
		c.Split.ComposeFiles = []string{"compose.yaml"}
	default:
		c.Carrier = "mixed"
		cur := ""
		k := 0
		for j, d := range docs {
			if cur != "" && r.Intn(2) == 0 {
				cur += "---\n" + d
			} else {
				if cur != "" {
					name := fmt.Sprintf("compose.%d.yaml", k)
					c.Split.Files[name] = cur
					c.Split.ComposeFiles = append(c.Split.ComposeFiles, name)
					k++
				}
				cur = d
			}
			if j == len(docs)-1 {
				name := fmt.Sprintf("compose.%d.yaml", k)
				c.Split.Files[name] = cur
				c.Split.ComposeFiles = append(c.Split.ComposeFiles, name)
			}
		}
	}
	for f := range e.Unordered {
		c.Unordered = append(c.Unordered, f)
	}
	sort.Strings(c.Unordered)
	return c, e
}

func copyFiles(a, b map[string]string) map[string]string {
	out := make(map[string]string, len(a)+len(b))
	for k, v := range a {
		out[k] = v
	}
	for k, v := range b {
		out[k] = v
	}
	return out
}

var (
	reDotted     = regexp.MustCompile(`eu\.west\.svc-[a-z]|svc\.[a-z]`) // generated service names containing dots
	reDigits     = regexp.MustCompile(`[0-9]+`)
	reQuoted     = regexp.MustCompile(`"[^"]*"`)
	reValidating = regexp.MustCompile(`validating /[^ ]*: `)
	reNames      = regexp.MustCompile(`\b(services|networks|volumes|secrets|configs)(\.|\[)[^. \]]+`)
)

// errClass reduces an error message to a stable class (no scratch paths, names or numbers).
func errClass(work string, err error) string {
	m := err.Error()
	m = reDotted.ReplaceAllString(m, "svc-z")
	m = strings.ReplaceAll(m, work, "")
	m = reValidating.ReplaceAllString(m, "validating: ")
	m = reQuoted.ReplaceAllString(m, `"_"`)
	m = reNames.ReplaceAllString(m, "${1}${2}_")
	m = reDigits.ReplaceAllString(m, "N")
	if len(m) > 160 {
		m = m[:160]
	}
	return m
}

// judge loads both sides and reports. Returns (both loaded, violated).
func judge(s *core.Shard, c *Case) (bool, bool) {
	work := s.Scratch()
	files := map[string]any{"case.json": c}
	_, tr := ld.Run(work, &c.Target)
	s.Eval(1)
	if tr.Panic != nil {
		ld.PanicViolation(s, tr.Panic, &c.Target, map[string]string{"side": "target"})
		return false, true
	}
	if tr.Err != nil {
		// the generator produced an invalid target: not a verdict about merging
		s.Add("target_load_error", 1)
		s.Cover("target-load-error", errClass(filepath.Join(work, "case"), tr.Err))
		return false, false
	}
	s.Add("target_loaded", 1)
	_, sr := ld.Run(work, &c.Split)
	s.Eval(1)
	if sr.Panic != nil {
		ld.PanicViolation(s, sr.Panic, &c.Split, map[string]string{"side": "split"})
		return false, true
	}
	if sr.Err != nil {
		cls := errClass(filepath.Join(work, "case"), sr.Err)
		s.Violation(map[string]string{"kind": "split-load-failed", "error": cls},
			fmt.Sprintf("the target document loads, its decomposition into %d parts (%s, focus %q) fails: %v", c.Parts, c.Carrier, c.Focus, sr.Err), files)
		return false, true
	}
	o := diff.Default()
	o.IgnoreField["ComposeFiles"] = true
	for _, f := range c.Unordered {
		o.UnorderedField[f] = true
	}
	if d := diff.Compare(tr.Project, sr.Project, o); d != "" {
		s.Violation(map[string]string{"kind": "split-differs", "path": diff.PathOf(d)},
			fmt.Sprintf("project loaded from %d parts (%s, focus %q) differs from the project loaded from the target document (target vs split): %s", c.Parts, c.Carrier, c.Focus, d), files)
		return true, true
	}
	return true, false
}

func run(s *core.Shard) {
	n := s.Pick(10000, 120000)
	if v := os.Getenv("VERIF_DEBUG"); strings.HasPrefix(v, "n=") { // development aid only: smaller case list
		if k, err := strconv.Atoi(v[2:]); err == nil {
			n = k
		}
	}
	for i := 0; i < 48; i++ {
		if !s.Mine(n + i) {
			continue
		}
		if !s.Begin(fmt.Sprintf("layered/%d", i)) {
			continue
		}
		c := layered(i)
		if ok, _ := judge(s, c); ok {
			s.Cover("carrier", c.Carrier)
			s.Cover("focus", c.Focus)
			s.Nontrivial(c.Split.Key())
		}
	}
	for i := 0; i < 6; i++ {
		if !s.Mine(n + 234 + i) {
			continue
		}
		if !s.Begin(fmt.Sprintf("name-layers/%d", i)) {
			continue
		}
		c := nameLayers(i)
		if ok, _ := judge(s, c); ok {
			s.Cover("carrier", c.Carrier)
			s.Cover("focus", c.Focus)
			s.Nontrivial(c.Split.Key())
		}
	}
	for i := 0; i < 6; i++ {
		if !s.Mine(n + 228 + i) {
			continue
		}
		if !s.Begin(fmt.Sprintf("tagged-anchor/%d", i)) {
			continue
		}
		c := taggedAnchor(i)
		if ok, _ := judge(s, c); ok {
			s.Cover("carrier", c.Carrier)
			s.Cover("focus", c.Focus)
			s.Nontrivial(c.Split.Key())
		}
	}
	for i := 0; i < 10; i++ {
		if !s.Mine(n + 218 + i) {
			continue
		}
		if !s.Begin(fmt.Sprintf("grant-key/%d", i)) {
			continue
		}
		c := grantKey(i)
		if ok, _ := judge(s, c); ok {
			s.Cover("carrier", c.Carrier)
			s.Cover("focus", c.Focus)
			s.Nontrivial(c.Split.Key())
		}
	}
	for i := 0; i < 24; i++ {
		if !s.Mine(n + 194 + i) {
			continue
		}
		if !s.Begin(fmt.Sprintf("tagged-extends/%d", i)) {
			continue
		}
		c := taggedExtends(i)
		if ok, _ := judge(s, c); ok {
			s.Cover("carrier", c.Carrier)
			s.Cover("focus", c.Focus)
			s.Nontrivial(c.Split.Key())
		}
	}
	for i := 0; i < 12; i++ {
		if !s.Mine(n + 182 + i) {
			continue
		}
		if !s.Begin(fmt.Sprintf("port-range/%d", i)) {
			continue
		}
		c := portRange(i)
		if ok, _ := judge(s, c); ok {
			s.Cover("carrier", c.Carrier)
			s.Cover("focus", c.Focus)
			s.Nontrivial(c.Split.Key())
		}
	}
	for i := 0; i < 50; i++ {
		if !s.Mine(n + 132 + i) {
			continue
		}
		if !s.Begin(fmt.Sprintf("port-key/%d", i)) {
			continue
		}
		c := portKey(i)
		if ok, _ := judge(s, c); ok {
			s.Cover("carrier", c.Carrier)
			s.Cover("focus", c.Focus)
			s.Nontrivial(c.Split.Key())
		}
	}
	for i := 0; i < 20; i++ {
		if !s.Mine(n + 112 + i) {
			continue
		}
		if !s.Begin(fmt.Sprintf("unclean-key/%d", i)) {
			continue
		}
		c := uncleanKey(i)
		if ok, _ := judge(s, c); ok {
			s.Cover("carrier", c.Carrier)
			s.Cover("focus", c.Focus)
			s.Nontrivial(c.Split.Key())
		}
	}
	for i := 0; i < 64; i++ {
		if !s.Mine(n + 48 + i) {
			continue
		}
		if !s.Begin(fmt.Sprintf("emptied/%d", i)) {
			continue
		}
		c := emptied(i)
		if ok, _ := judge(s, c); ok {
			s.Cover("carrier", c.Carrier)
			s.Cover("focus", c.Focus)
			s.Nontrivial(c.Split.Key())
		}
	}
	for i := 0; i < n; i++ {
		if !s.Mine(i) {
			continue
		}
		if !s.Begin(fmt.Sprintf("case/%d", i)) {
			continue
		}
		c, e := build(s, i)
		ok, _ := judge(s, c)
		if !ok {
			continue
		}
		s.Cover("carrier", c.Carrier)
		s.Cover("parts", fmt.Sprint(c.Parts))
		for sh, k := range e.Shapes {
			if k > 0 {
				s.Cover("decomposition", sh)
			}
		}
		if c.Focus != "" {
			s.Cover("focus", c.Focus)
		}
		if e.Touched > 0 && c.Parts >= 2 {
			s.Nontrivial(c.Split.Key())
			s.Add("nontrivial", 1)
			s.Add("attributes_split_over_2plus_parts", e.Touched)
		}
		if s.WantSample() && e.Touched > 0 && c.Focus != "" && len(c.Split.Files) <= 4 && len(c.Split.Key()) < 1500 {
			s.Sample(map[string]any{"focus": c.Focus, "carrier": c.Carrier, "target": c.Target.Files["compose.yaml"], "split": c.Split.Files})
		}
	}
}

func replay(s *core.Shard, dir string) {
	var c Case
	if err := core.ReadJSON(filepath.Join(dir, "case.json"), &c); err != nil {
		s.Inconclusive("replay: " + err.Error())
		return
	}
	judge(s, &c)
}

func witness(s *core.Shard, f core.Finding) (bool, string) {
	var c Case
	if err := jsonUnmarshal(f.Witness, &c); err != nil {
		return false, "witness unreadable: " + err.Error()
	}
	work := s.Scratch()
	_, tr := ld.Run(work, &c.Target)
	if tr.Err != nil || tr.Panic != nil {
		return false, fmt.Sprintf("target no longer loads: %v", tr.Err)
	}
	_, sr := ld.Run(work, &c.Split)
	if sr.Panic != nil {
		return true, "split panics: " + sr.Panic.Value
	}
	if sr.Err != nil {
		return true, "split fails: " + sr.Err.Error()
	}
	o := diff.Default()
	o.IgnoreField["ComposeFiles"] = true
	for _, u := range c.Unordered {
		o.UnorderedField[u] = true
	}
	if d := diff.Compare(tr.Project, sr.Project, o); d != "" {
		return true, d
	}
	return false, "split and target load to equal projects"
}

func floor(tier string, m *core.Merged) []string {
	var r []string
	min := int64(2000)
	if tier == "thorough" {
		min = 40000
	}
	if m.Counters["nontrivial"] < min {
		r = append(r, fmt.Sprintf("too few non-trivial decompositions: %d", m.Counters["nontrivial"]))
	}
	if m.Counters["target_load_error"]*10 > m.Counters["target_loaded"] {
		r = append(r, fmt.Sprintf("generator produced too many invalid targets: %d of %d", m.Counters["target_load_error"], m.Counters["target_loaded"]+m.Counters["target_load_error"]))
	}
	for _, c := range []string{"files", "documents", "mixed"} {
		if m.Cover["carrier"][c] == 0 {
			r = append(r, "carrier never exercised: "+c)
		}
	}
	for _, sh := range []string{"replace/decoy-then-target", "wholesale/decoy-then-target", "append/append-chunks", "append-unique/append-with-duplicate",
		"kv-by-key/same-key-stale", "kv-by-key/mixed-spelling", "keyed(target)/same-key-stale", "keyed(target)/exact-duplicate"} {
		if m.Cover["decomposition"][sh] == 0 {
			r = append(r, "decomposition shape never exercised: "+sh)
		}
	}
	tagged := int64(0)
	for k, v := range m.Cover["decomposition"] {
		if strings.HasSuffix(k, "/override") || strings.Contains(k, "/reset-") {
			tagged += v
		}
	}
	if tagged < 100 {
		r = append(r, fmt.Sprintf("too few !reset/!override decompositions: %d", tagged))
	}
	if len(m.Cover["focus"])*10 < len(focusPaths)*9 {
		r = append(r, fmt.Sprintf("only %d of %d catalogue attributes were the focus of a loaded case", len(m.Cover["focus"]), len(focusPaths)))
	}
	return r
}

func jsonUnmarshal(b []byte, v any) error { return json.Unmarshal(b, v) }
