// Package c15 checks property C15: profile and service selection keep a sound
// partition of the services. Every selection operation of types.Project is
// executed on generated receivers (exhaustively on <= 3 services, sampled up to
// 6, histories of up to 5 operations), each call repeated on the same receiver;
// a set-based reference model written from the statement (internal/ref/selection.go)
// judges every step, and the repetitions must be deeply equal to each other.
package c15

import (
	"encoding/json"
	"fmt"
	"math/rand"
	"path/filepath"
	"reflect"
	"runtime"
	"runtime/debug"
	"sort"
	"strings"

	"github.com/compose-spec/compose-go/v2/types"
	"github.com/sirupsen/logrus"
	"gopkg.in/yaml.v3"

	"verif/harness/internal/core"
	"verif/harness/internal/diff"
	"verif/harness/internal/ld"
	"verif/harness/internal/ref"
)

func init() {
	logrus.SetLevel(logrus.PanicLevel)
	core.Register(&core.Spec{
		ID:    "C15",
		Level: "exploration",
		Rule: "part A: projects on 1..3 services with profile sets over {none,{p},{q},{p,q}} and every labelled DAG with required/optional edges (7 060 projects; thorough: all of them, quick: all on <= 2 services and a seed-chosen fifth of those on 3), each taken raw and after 3 (thorough 5) profile selections, then EVERY single operation of a fixed argument grid (8 profile lists incl. `*` and an unknown profile; every subset of the service names plus an unknown name for enable / disable / select x {no option, IncludeDependencies, IncludeDependents, IgnoreDependencies}; prune), 8 repetitions per step; " +
			"part B (sampled): random projects on 1..6 services (random DAG, required/optional edges, resource references incl. an undeclared one; half of the states use the same names for networks, volumes, secrets, configs and a service) x random histories of 1..5 operations with arguments drawn independently of the state (unknown and disabled names included); part C: the same through the real loader (YAML rendering, profiles given as a load option) followed by a random history; 8 (thorough 25) repetitions per step. " +
			"The repetitions of a step run on the same receiver and must be reflect.DeepEqual to each other; the first (and any differing one) is judged by the reference model relative to the abstract state of its receiver. " +
			"A step is non-trivial when it changes the partition, a dependency set, the active profiles or the resources, or fails; distinct = distinct (receiver state, operation) pairs.",
		Assumptions: []string{
			"internal/ref/selection.go is a faithful reading of the statement; it judges every step relative to the abstract state of its receiver, so a nondeterministic earlier step cannot desynchronise the model",
			"left free because the statement is silent: which dependencies a *removed* service keeps; whether an edge towards an already-disabled service survives disable/select; whether enabling a service also brings back other profile-less disabled services; selection with an empty name list; whether a required dependency on a non-enabled service makes the selection fail; the order of Project.Profiles; error messages",
			"WithServicesEnabled is only applied to receivers whose enabled services all match the active profiles (every state reachable from WithProfiles); on other receivers the statement does not say whether activating profiles re-partitions",
			"frame condition asserted beyond the literal statement: a service moved between the sets keeps its content (everything but depends_on, environment, env_file), kept resources keep their values",
			"dependency graphs are acyclic (as the quantifier says); cycles are not generated",
		},
		Exhaustive: func(string) bool { return false },
		CPUBudget:  func(string) float64 { return 300 },
		Run:        run,
		Replay:     replay,
		Witness:    witness,
		Floor: func(tier string, m *core.Merged) []string {
			var r []string
			if m.Counters["steps"] < 20000 || m.Counters["steps_history"] < 5000 || m.Counters["loader_receivers"] < 50 {
				r = append(r, fmt.Sprintf("too few steps: %v", m.Counters))
			}
			for _, k := range []string{ref.OpProfiles, ref.OpEnable, ref.OpDisable, ref.OpSelect, ref.OpPrune} {
				if m.Cover["operation"][k] == 0 || m.Cover["nontrivial-operation"][k] == 0 {
					r = append(r, "operation never (non-trivially) exercised: "+k)
				}
			}
			for _, k := range []string{"default", ref.PolDependencies, ref.PolDependents, ref.PolIgnore} {
				if m.Cover["select-policy"][k] == 0 {
					r = append(r, "selection policy never exercised: "+k)
				}
			}
			for _, k := range []string{"select-error-required", "closure-depth>=2", "optional-edge-to-disabled", "star-profile", "prune-drops-resource"} {
				if m.Cover["situation"][k] == 0 {
					r = append(r, "situation never met: "+k)
				}
			}
			return r
		},
	})
}

// ---------------------------------------------------------------------------
// abstract state <-> real project

func strp(s string) *string { return &s }

// build constructs a real project from an abstract state.
func build(st ref.SelState) *types.Project {
	p := &types.Project{
		Name:        "c15",
		WorkingDir:  "/work",
		Services:    types.Services{},
		Networks:    types.Networks{},
		Volumes:     types.Volumes{},
		Secrets:     types.Secrets{},
		Configs:     types.Configs{},
		Environment: types.Mapping{"FROM_PROJECT": "1"},
	}
	if st.Active != nil {
		p.Profiles = append([]string{}, st.Active...)
	}
	for _, n := range st.Networks {
		p.Networks[n] = types.NetworkConfig{Name: "c15_" + n, Labels: types.Labels{"l": n}}
	}
	for _, n := range st.Volumes {
		p.Volumes[n] = types.VolumeConfig{Name: "c15_" + n, Driver: "local"}
	}
	for _, n := range st.Secrets {
		p.Secrets[n] = types.SecretConfig{Name: "c15_" + n, File: "/work/" + n + ".txt"}
	}
	for _, n := range st.Configs {
		p.Configs[n] = types.ConfigObjConfig{Name: "c15_" + n, Content: "content of " + n}
	}
	for name, sv := range st.Services {
		sc := types.ServiceConfig{
			Name:        name,
			Image:       "img/" + name,
			Labels:      types.Labels{"svc": name},
			Environment: types.MappingWithEquals{"K": strp("v-" + name), "FROM_PROJECT": nil},
			Command:     types.ShellCommand{"run", name},
		}
		if len(sv.Profiles) > 0 {
			sc.Profiles = append([]string{}, sv.Profiles...)
		}
		if len(sv.Deps) > 0 {
			sc.DependsOn = types.DependsOnConfig{}
			for d, req := range sv.Deps {
				sc.DependsOn[d] = types.ServiceDependency{Condition: types.ServiceConditionStarted, Required: req}
			}
		}
		if len(sv.Networks) > 0 {
			sc.Networks = map[string]*types.ServiceNetworkConfig{}
			for _, x := range sv.Networks {
				sc.Networks[x] = nil
			}
		}
		for _, x := range sv.Volumes {
			sc.Volumes = append(sc.Volumes, types.ServiceVolumeConfig{Type: types.VolumeTypeVolume, Source: x, Target: "/mnt/" + x})
		}
		// a bind mount and an anonymous volume never reference a top-level volume
		sc.Volumes = append(sc.Volumes,
			types.ServiceVolumeConfig{Type: types.VolumeTypeBind, Source: "/host/" + name, Target: "/host"},
			types.ServiceVolumeConfig{Type: types.VolumeTypeVolume, Target: "/anon"})
		for i, x := range sv.Secrets {
			if i%2 == 1 {
				if sc.Build == nil {
					sc.Build = &types.BuildConfig{Context: "/work/" + name}
				}
				sc.Build.Secrets = append(sc.Build.Secrets, types.ServiceSecretConfig{Source: x})
			} else {
				sc.Secrets = append(sc.Secrets, types.ServiceSecretConfig{Source: x, Target: "/run/secrets/" + x})
			}
		}
		for _, x := range sv.Configs {
			sc.Configs = append(sc.Configs, types.ServiceConfigObjConfig{Source: x, Target: "/etc/" + x})
		}
		if sv.Enabled {
			p.Services[name] = sc
		} else {
			if p.DisabledServices == nil {
				p.DisabledServices = types.Services{}
			}
			p.DisabledServices[name] = sc
		}
	}
	return p
}

func uniqSorted(l []string) []string {
	m := map[string]bool{}
	for _, x := range l {
		m[x] = true
	}
	out := make([]string, 0, len(m))
	for x := range m {
		out = append(out, x)
	}
	sort.Strings(out)
	if len(out) == 0 {
		return nil
	}
	return out
}

func keys[V any](m map[string]V) []string {
	out := make([]string, 0, len(m))
	for k := range m {
		out = append(out, k)
	}
	sort.Strings(out)
	if len(out) == 0 {
		return nil
	}
	return out
}

func abstractService(sc types.ServiceConfig, enabled bool) ref.SelService {
	sv := ref.SelService{Enabled: enabled}
	if len(sc.Profiles) > 0 {
		sv.Profiles = append([]string{}, sc.Profiles...)
	}
	if len(sc.DependsOn) > 0 {
		sv.Deps = map[string]bool{}
		for d, dep := range sc.DependsOn {
			sv.Deps[d] = dep.Required
		}
	}
	sv.Networks = keys(sc.Networks)
	var vols, secs, cfgs []string
	for _, v := range sc.Volumes {
		if v.Type == types.VolumeTypeVolume && v.Source != "" {
			vols = append(vols, v.Source)
		}
	}
	for _, x := range sc.Secrets {
		secs = append(secs, x.Source)
	}
	if sc.Build != nil {
		for _, x := range sc.Build.Secrets {
			secs = append(secs, x.Source)
		}
	}
	for _, x := range sc.Configs {
		cfgs = append(cfgs, x.Source)
	}
	sv.Volumes, sv.Secrets, sv.Configs = uniqSorted(vols), uniqSorted(secs), uniqSorted(cfgs)
	return sv
}

// abstract reduces a real project to the model's state.
func abstract(p *types.Project) ref.SelState {
	st := ref.SelState{Services: map[string]ref.SelService{}}
	if p.Profiles != nil {
		st.Active = append([]string{}, p.Profiles...)
	}
	for n, sc := range p.Services {
		st.Services[n] = abstractService(sc, true)
	}
	for n, sc := range p.DisabledServices {
		if _, dup := p.Services[n]; dup {
			st.Overlap = append(st.Overlap, n)
			continue
		}
		st.Services[n] = abstractService(sc, false)
	}
	sort.Strings(st.Overlap)
	st.Networks, st.Volumes, st.Secrets, st.Configs = keys(p.Networks), keys(p.Volumes), keys(p.Secrets), keys(p.Configs)
	return st
}

func stateKey(st ref.SelState) string {
	var sb strings.Builder
	for _, n := range keys(st.Services) {
		sv := st.Services[n]
		fmt.Fprintf(&sb, "%s:%v:%v:", n, sv.Enabled, sv.Profiles)
		for _, d := range keys(sv.Deps) {
			fmt.Fprintf(&sb, "%s=%v,", d, sv.Deps[d])
		}
		fmt.Fprintf(&sb, "%v%v%v%v;", sv.Networks, sv.Volumes, sv.Secrets, sv.Configs)
	}
	fmt.Fprintf(&sb, "|%v|%v%v%v%v|%v", st.Active, st.Networks, st.Volumes, st.Secrets, st.Configs, st.Overlap)
	return sb.String()
}

// ---------------------------------------------------------------------------
// executing one operation

func policyOpt(pol string) []types.DependencyOption {
	switch pol {
	case ref.PolDependencies:
		return []types.DependencyOption{types.IncludeDependencies}
	case ref.PolDependents:
		return []types.DependencyOption{types.IncludeDependents}
	case ref.PolIgnore:
		return []types.DependencyOption{types.IgnoreDependencies}
	}
	return nil
}

func exec(p *types.Project, op ref.SelOp) (res *types.Project, err error) {
	args := append([]string(nil), op.Args...) // the callee may keep the slice
	switch op.Kind {
	case ref.OpProfiles:
		return p.WithProfiles(args)
	case ref.OpEnable:
		return p.WithServicesEnabled(args...)
	case ref.OpDisable:
		return p.WithServicesDisabled(args...), nil
	case ref.OpSelect:
		return p.WithSelectedServices(args, policyOpt(op.Policy)...)
	case ref.OpPrune:
		return p.WithoutUnnecessaryResources(), nil
	}
	panic("c15: unknown operation " + op.Kind)
}

var frameOpts = func() diff.Options {
	o := diff.Options{Exact: true, IgnoreField: map[string]bool{
		"ServiceConfig.DependsOn": true, "ServiceConfig.Environment": true, "ServiceConfig.EnvFiles": true,
	}}
	return o
}()

var projFrameOpts = diff.Options{Exact: true, IgnoreField: map[string]bool{
	"Project.Services": true, "Project.DisabledServices": true, "Project.Profiles": true,
	"Project.Networks": true, "Project.Volumes": true, "Project.Secrets": true, "Project.Configs": true,
}}

// frame checks that services and resources carried over keep their content.
func frame(recv, res *types.Project) (field, detail string) {
	all := func(p *types.Project) map[string]types.ServiceConfig {
		m := map[string]types.ServiceConfig{}
		for n, s := range p.DisabledServices {
			m[n] = s
		}
		for n, s := range p.Services {
			m[n] = s
		}
		return m
	}
	a, b := all(recv), all(res)
	for _, n := range keys(b) {
		sa, ok := a[n]
		if !ok {
			continue
		}
		if b[n].Name != n {
			return "ServiceConfig.Name", fmt.Sprintf("service stored under %q is named %q", n, b[n].Name)
		}
		if d := diff.Compare(sa, b[n], frameOpts); d != "" {
			return "ServiceConfig." + diff.PathOf(d), fmt.Sprintf("service %q: %s", n, d)
		}
	}
	if d := diff.Compare(*recv, *res, projFrameOpts); d != "" {
		return "Project." + diff.PathOf(d), d
	}
	cmpRes := func(name string, x, y any) (string, string) {
		xv, yv := reflect.ValueOf(x), reflect.ValueOf(y)
		for _, k := range yv.MapKeys() {
			xe := xv.MapIndex(k)
			if !xe.IsValid() {
				continue
			}
			if d := diff.Compare(xe.Interface(), yv.MapIndex(k).Interface(), diff.Options{Exact: true}); d != "" {
				return name + "." + diff.PathOf(d), fmt.Sprintf("%s[%s]: %s", name, k, d)
			}
		}
		return "", ""
	}
	for _, r := range []struct {
		n    string
		x, y any
	}{{"Networks", recv.Networks, res.Networks}, {"Volumes", recv.Volumes, res.Volumes}, {"Secrets", recv.Secrets, res.Secrets}, {"Configs", recv.Configs, res.Configs}} {
		if f, d := cmpRes(r.n, r.x, r.y); f != "" {
			return f, d
		}
	}
	return "", ""
}

// found is one violation discovered by a step.
type found struct {
	attrs map[string]string
	what  string
	extra map[string]any
}

// stepCase is the self-contained witness of one step (replay and known-finding format).
type stepCase struct {
	State  ref.SelState `json:"state"`
	Op     ref.SelOp    `json:"op"`
	Reps   int          `json:"reps"`
	Origin string       `json:"origin,omitempty"`
	// Load / Prefix: when the receiver came from the loader, the load case and
	// the operations applied before this step.
	Load   *ld.Case    `json:"load,omitempty"`
	Prefix []ref.SelOp `json:"prefix,omitempty"`
}

type stepResult struct {
	next       *types.Project // first successful result (nil on error / panic)
	after      ref.SelState
	err        error
	found      []found
	nontrivial bool
}

// step executes op reps times on recv and judges the outcome.
func step(recv *types.Project, op ref.SelOp, reps int) stepResult {
	var sr stepResult
	before := abstract(recv)
	beforeKey := stateKey(before)
	report := func(attrs map[string]string, what string, extra map[string]any) {
		attrs["op"] = op.Kind
		if op.Kind == ref.OpSelect {
			pol := op.Policy
			if pol == "" {
				pol = "default"
			}
			attrs["policy"] = pol
		}
		sr.found = append(sr.found, found{attrs, fmt.Sprintf("%s on a project with services %s: %s", op, describe(before), what), extra})
	}
	results := make([]*types.Project, reps)
	errs := make([]error, reps)
	for i := 0; i < reps; i++ {
		i := i
		if pi := core.Guard(func() { results[i], errs[i] = exec(recv, op) }); pi != nil {
			report(map[string]string{"kind": "panic", "site": pi.Site, "class": pi.Class}, "panic: "+pi.Value, map[string]any{"stack.txt": pi.Stack})
			return sr
		}
		if errs[i] == nil && results[i] == nil {
			report(map[string]string{"kind": "nil-result"}, "returned neither a project nor an error", nil)
			return sr
		}
	}
	if k := stateKey(abstract(recv)); k != beforeKey {
		report(map[string]string{"kind": "receiver-mutated"}, "the receiver's own service sets / dependencies / resources changed during the call", nil)
		return sr
	}
	// ---- determinism: every repetition equals the first ------------------------
	judged := []int{0}
	seenField := map[string]bool{}
	for i := 1; i < reps; i++ {
		if (errs[i] == nil) != (errs[0] == nil) {
			if !seenField["error"] {
				seenField["error"] = true
				report(map[string]string{"kind": "nondeterministic", "field": "error"}, fmt.Sprintf("repetition %d returned error %v, repetition 0 returned %v", i, errs[i], errs[0]), nil)
			}
			judged = append(judged, i)
			continue
		}
		if errs[i] != nil || reflect.DeepEqual(results[0], results[i]) {
			continue
		}
		d := diff.Compare(results[0], results[i], diff.Options{Exact: true})
		field := "unlocated"
		if d != "" {
			field = diff.PathOf(d)
		}
		if !seenField[field] {
			seenField[field] = true
			report(map[string]string{"kind": "nondeterministic", "field": field},
				fmt.Sprintf("repetitions 0 and %d on the same receiver differ: %s", i, d), nil)
			judged = append(judged, i)
		}
	}
	// ---- reference model (first result, plus any repetition that differed) -----
	seenMis := map[string]bool{}
	for _, i := range judged {
		var after ref.SelState
		if errs[i] == nil {
			after = abstract(results[i])
		}
		for _, m := range ref.Judge(before, op, errs[i] != nil, after) {
			k := m.Kind + "/" + m.Field
			if seenMis[k] {
				continue
			}
			seenMis[k] = true
			det := m.Detail
			if errs[i] != nil {
				det += fmt.Sprintf(" (error: %v)", errs[i])
			}
			report(map[string]string{"kind": m.Kind, "field": m.Field}, det, nil)
		}
		if errs[i] == nil {
			if f, d := frame(recv, results[i]); f != "" && !seenMis["frame/"+f] {
				seenMis["frame/"+f] = true
				report(map[string]string{"kind": "content-altered", "field": f}, "content carried over by the operation changed: "+d, nil)
			}
		}
	}
	sr.err = errs[0]
	if errs[0] == nil {
		sr.next = results[0]
		sr.after = abstract(results[0])
		sr.nontrivial = stateKey(sr.after) != beforeKey
	} else {
		sr.nontrivial = true
	}
	return sr
}

func describe(st ref.SelState) string {
	var parts []string
	for _, n := range keys(st.Services) {
		sv := st.Services[n]
		s := n
		if !sv.Enabled {
			s = "(" + n + " disabled)"
		}
		if len(sv.Profiles) > 0 {
			s += fmt.Sprintf(" profiles=%v", sv.Profiles)
		}
		if len(sv.Deps) > 0 {
			var ds []string
			for _, d := range keys(sv.Deps) {
				if sv.Deps[d] {
					ds = append(ds, d)
				} else {
					ds = append(ds, d+"?")
				}
			}
			s += " depends_on=" + strings.Join(ds, ",")
		}
		parts = append(parts, s)
	}
	return "{" + strings.Join(parts, "; ") + "} active=" + fmt.Sprint(st.Active)
}

// ---------------------------------------------------------------------------
// running steps inside a shard

type runner struct {
	s    *core.Shard
	reps int
}

// do runs one step, reports what it finds and records the observations.
func (r *runner) do(recv *types.Project, op ref.SelOp, origin string, load *ld.Case, prefix []ref.SelOp) stepResult {
	s := r.s
	before := abstract(recv)
	sr := step(recv, op, r.reps)
	s.Eval(1)
	s.Add("steps", 1)
	s.Add("op_executions", r.reps)
	s.Cover("operation", op.Kind)
	if op.Kind == ref.OpSelect {
		pol := op.Policy
		if pol == "" {
			pol = "default"
		}
		s.Cover("select-policy", pol)
	}
	r.situations(before, op, sr)
	if sr.nontrivial {
		s.Cover("nontrivial-operation", op.Kind)
		s.Nontrivial(stateKey(before), op.String())
	}
	if sr.err != nil {
		s.Add("steps_error", 1)
	}
	for _, f := range sr.found {
		files := map[string]any{"case.json": stepCase{State: before, Op: op, Reps: r.reps, Origin: origin, Load: load, Prefix: prefix}}
		for k, v := range f.extra {
			files[k] = v
		}
		s.Violation(f.attrs, f.what, files)
	}
	if sr.nontrivial && sr.err == nil && len(before.Services) >= 3 && s.WantSample() && (op.Kind == ref.OpSelect || op.Kind == ref.OpEnable) {
		s.Sample(map[string]any{"receiver": describe(before), "operation": op.String(), "result": describe(sr.after), "repetitions": r.reps})
	}
	return sr
}

// situations records which interesting situations the workload met.
func (r *runner) situations(before ref.SelState, op ref.SelOp, sr stepResult) {
	s := r.s
	en := before.EnabledSet()
	switch op.Kind {
	case ref.OpProfiles:
		for _, a := range op.Args {
			if a == "*" {
				s.Cover("situation", "star-profile")
			}
		}
	case ref.OpSelect:
		if len(op.Args) == 0 {
			s.Cover("situation", "select-no-name")
			return
		}
		keep, must, free := ref.Closure(before, op.Args, op.Policy)
		switch {
		case must:
			s.Cover("situation", "select-error-required")
		case free:
			s.Cover("situation", "select-required-dependency-not-enabled(unspecified)")
		default:
			// depth >= 2: some kept service is neither named nor adjacent to a named one
			named := map[string]bool{}
			for _, a := range op.Args {
				named[a] = true
			}
			for k := range keep {
				if named[k] {
					continue
				}
				adjacent := false
				for a := range named {
					if _, ok := before.Services[a].Deps[k]; ok {
						adjacent = true
					}
					if _, ok := before.Services[k].Deps[a]; ok {
						adjacent = true
					}
				}
				if !adjacent {
					s.Cover("situation", "closure-depth>=2")
				}
			}
			if len(keep) < len(en) {
				s.Cover("situation", "select-removes-services")
			}
		}
	case ref.OpPrune:
		if sr.err == nil && sr.next != nil {
			if len(sr.after.Networks) < len(before.Networks) || len(sr.after.Volumes) < len(before.Volumes) || len(sr.after.Secrets) < len(before.Secrets) || len(sr.after.Configs) < len(before.Configs) {
				s.Cover("situation", "prune-drops-resource")
			}
		}
	case ref.OpEnable:
		for _, a := range op.Args {
			if sv, ok := before.Services[a]; ok && !sv.Enabled && len(sv.Profiles) > 0 {
				s.Cover("situation", "enable-activates-profile")
			}
		}
	}
	for n := range en {
		for d, req := range before.Services[n].Deps {
			if !en[d] && !req {
				s.Cover("situation", "optional-edge-to-disabled")
			}
		}
	}
}

// ---------------------------------------------------------------------------
// generators

var profileSets = [][]string{nil, {"p"}, {"q"}, {"p", "q"}}

// acyclic reports whether the edge matrix e (e[i][j] != 0: i depends on j) has no cycle.
func acyclic(n int, e [][]int) bool {
	state := make([]int, n)
	var visit func(i int) bool
	visit = func(i int) bool {
		if state[i] == 1 {
			return false
		}
		if state[i] == 2 {
			return true
		}
		state[i] = 1
		for j := 0; j < n; j++ {
			if e[i][j] != 0 && !visit(j) {
				return false
			}
		}
		state[i] = 2
		return true
	}
	for i := 0; i < n; i++ {
		if !visit(i) {
			return false
		}
	}
	return true
}

var allNames = []string{"a", "b", "c", "d", "e", "f"}

// addResources draws the resource references of every service.
func addResources(rng *rand.Rand, st *ref.SelState) {
	st.Networks = []string{"n1", "n2", "n3"}
	st.Volumes = []string{"v1", "v2"}
	st.Secrets = []string{"s1", "s2", "s3"}
	st.Configs = []string{"c1", "c2"}
	if rng.Intn(2) == 0 {
		// the four kinds are separate namespaces: the same names in each of them (and a service's name)
		st.Networks = []string{"a", "r1", "r2"}
		st.Volumes = []string{"r1", "r2"}
		st.Secrets = []string{"a", "r1", "r2"}
		st.Configs = []string{"r1", "r2"}
	}
	sub := func(l []string, p float64) []string {
		var out []string
		for _, x := range l {
			if rng.Float64() < p {
				out = append(out, x)
			}
		}
		return out
	}
	for _, n := range keys(st.Services) {
		sv := st.Services[n]
		sv.Networks = sub(st.Networks[:2], 0.5)
		sv.Volumes = sub(st.Volumes, 0.4)
		sv.Secrets = sub(st.Secrets, 0.4)
		sv.Configs = sub(st.Configs, 0.4)
		if rng.Intn(8) == 0 {
			sv.Networks = append(sv.Networks, "undeclared") // referenced but not declared: pruning must not invent it
		}
		st.Services[n] = sv
	}
}

// enumerateSmall calls f with every project on n services (profiles x labelled DAGs), all enabled.
func enumerateSmall(n int, f func(st ref.SelState)) {
	pairs := [][2]int{}
	for i := 0; i < n; i++ {
		for j := 0; j < n; j++ {
			if i != j {
				pairs = append(pairs, [2]int{i, j})
			}
		}
	}
	e := make([][]int, n)
	for i := range e {
		e[i] = make([]int, n)
	}
	prof := make([]int, n)
	var edges func(k int)
	var profs func(k int)
	profs = func(k int) {
		if k == n {
			st := ref.SelState{Services: map[string]ref.SelService{}}
			for i := 0; i < n; i++ {
				sv := ref.SelService{Enabled: true, Profiles: profileSets[prof[i]]}
				for j := 0; j < n; j++ {
					if e[i][j] != 0 {
						if sv.Deps == nil {
							sv.Deps = map[string]bool{}
						}
						sv.Deps[allNames[j]] = e[i][j] == 1
					}
				}
				st.Services[allNames[i]] = sv
			}
			f(st)
			return
		}
		for v := 0; v < len(profileSets); v++ {
			prof[k] = v
			profs(k + 1)
		}
	}
	edges = func(k int) {
		if k == len(pairs) {
			if acyclic(n, e) {
				profs(0)
			}
			return
		}
		for v := 0; v < 3; v++ { // none, required, optional
			e[pairs[k][0]][pairs[k][1]] = v
			edges(k + 1)
		}
		e[pairs[k][0]][pairs[k][1]] = 0
	}
	edges(0)
}

func subsets(l []string) [][]string {
	var out [][]string
	for m := 0; m < 1<<len(l); m++ {
		var s []string
		for i, x := range l {
			if m&(1<<i) != 0 {
				s = append(s, x)
			}
		}
		out = append(out, s)
	}
	return out
}

var profileArgs = [][]string{{}, {"p"}, {"q"}, {"p", "q"}, {"*"}, {"z"}, {"z", "*"}, {"q", "z"}}
var policies = []string{ref.PolDefault, ref.PolDependencies, ref.PolDependents, ref.PolIgnore}

// opGrid lists every single operation of part A for a project on the given names.
func opGrid(names []string) []ref.SelOp {
	var ops []ref.SelOp
	for _, p := range profileArgs {
		ops = append(ops, ref.SelOp{Kind: ref.OpProfiles, Args: p})
	}
	subs := subsets(append(append([]string{}, names...), "zz"))
	for _, a := range subs {
		ops = append(ops, ref.SelOp{Kind: ref.OpEnable, Args: a}, ref.SelOp{Kind: ref.OpDisable, Args: a})
		for _, pol := range policies {
			ops = append(ops, ref.SelOp{Kind: ref.OpSelect, Args: a, Policy: pol})
		}
	}
	ops = append(ops, ref.SelOp{Kind: ref.OpPrune})
	return ops
}

func randomSubset(rng *rand.Rand, l []string, p float64) []string {
	var out []string
	for _, x := range l {
		if rng.Float64() < p {
			out = append(out, x)
		}
	}
	rng.Shuffle(len(out), func(i, j int) { out[i], out[j] = out[j], out[i] })
	return out
}

// randomOp draws an operation whose arguments do not depend on the current state.
func randomOp(rng *rand.Rand, names []string) ref.SelOp {
	universe := append(append([]string{}, names...), "zz")
	few := func() []string {
		switch rng.Intn(6) {
		case 0:
			return nil
		case 1, 2, 3:
			return []string{universe[rng.Intn(len(names))]} // one known name
		case 4:
			return randomSubset(rng, names, 0.4)
		}
		return randomSubset(rng, universe, 0.3)
	}
	switch k := rng.Intn(10); {
	case k < 2:
		return ref.SelOp{Kind: ref.OpProfiles, Args: append([]string{}, profileArgs[rng.Intn(len(profileArgs))]...)}
	case k < 4:
		return ref.SelOp{Kind: ref.OpEnable, Args: few()}
	case k < 6:
		return ref.SelOp{Kind: ref.OpDisable, Args: few()}
	case k < 9:
		return ref.SelOp{Kind: ref.OpSelect, Args: few(), Policy: policies[rng.Intn(len(policies))]}
	}
	return ref.SelOp{Kind: ref.OpPrune}
}

// randomProject draws a project on n services.
func randomProject(rng *rand.Rand, n int) ref.SelState {
	st := ref.SelState{Services: map[string]ref.SelService{}}
	order := rng.Perm(n)
	pEdge := []float64{0.2, 0.35, 0.5}[rng.Intn(3)]
	for pos, i := range order {
		sv := ref.SelService{Enabled: true}
		switch k := rng.Intn(10); {
		case k < 4:
		case k < 9:
			sv.Profiles = profileSets[1+rng.Intn(3)]
		default:
			sv.Profiles = []string{"r"}
		}
		for _, j := range order[:pos] { // edges only towards earlier positions: acyclic
			if rng.Float64() < pEdge {
				if sv.Deps == nil {
					sv.Deps = map[string]bool{}
				}
				sv.Deps[allNames[j]] = rng.Float64() < 0.6
			}
		}
		st.Services[allNames[i]] = sv
	}
	addResources(rng, &st)
	return st
}

// history runs a sequence of operations starting from recv.
func (r *runner) history(recv *types.Project, ops []ref.SelOp, origin string, load *ld.Case) {
	cur := recv
	consistent := abstract(recv).ProfileConsistent()
	for k, op := range ops {
		if op.Kind == ref.OpEnable && !consistent {
			r.s.Add("enable_skipped_on_profile_inconsistent_receiver", 1)
			continue
		}
		var prefix []ref.SelOp
		if load != nil {
			prefix = ops[:k]
		}
		sr := r.do(cur, op, origin, load, prefix)
		r.s.Add("steps_history", 1)
		r.s.Cover("history-position", fmt.Sprint(k+1))
		if sr.next != nil {
			cur = sr.next
			if op.Kind == ref.OpProfiles {
				consistent = true
			}
		} else if sr.err == nil {
			return // panic or nil result: reported
		}
	}
}

func run(s *core.Shard) {
	// one shard per CPU is already running: keep the Go runtime of this one
	// from spreading its garbage collector over all of them
	runtime.GOMAXPROCS(2)
	debug.SetGCPercent(400)
	r := &runner{s: s, reps: 8}
	slice := int(s.Seed % 5)
	if slice < 0 {
		slice = -slice
	}

	// ---- part A: exhaustive small projects x initial selection x every single operation
	initial := [][]string{nil, {}, {"p"}, {"p", "q"}}
	if s.Thorough() {
		initial = append(initial, []string{"q"}, []string{"*"})
	}
	idx, mineIdx := 0, 0
	for n := 1; n <= 3; n++ {
		names := allNames[:n]
		grid := opGrid(names)
		enumerateSmall(n, func(st ref.SelState) {
			idx++
			if n == 3 && !s.Thorough() && idx%5 != slice {
				return // quick tier: a seed-dependent fifth of the 3-service projects
			}
			mineIdx++
			if !s.Mine(mineIdx) {
				return
			}
			if !s.Begin(fmt.Sprintf("A/%d", idx)) {
				return
			}
			s.Add("projects_exhaustive", 1)
			addResources(s.Rand(fmt.Sprintf("A/%d", idx)), &st)
			raw := build(st)
			if stateKey(abstract(raw)) != stateKey(st) {
				s.Inconclusive("harness: build/abstract do not round-trip")
				return
			}
			for ii, p0 := range initial {
				recv := raw
				if ii > 0 {
					sr := r.do(raw, ref.SelOp{Kind: ref.OpProfiles, Args: p0}, "A", nil, nil)
					if sr.next == nil {
						continue
					}
					recv = sr.next
				}
				for _, op := range grid {
					if ii == 0 && op.Kind == ref.OpEnable {
						continue // raw receiver: not profile-consistent in general
					}
					r.do(recv, op, "A", nil, nil)
				}
			}
		})
	}
	s.Add("projects_exhaustive_enumerated_by_this_shard_walk", idx)

	// ---- part B: sampled projects x random histories ----------------------------
	r.reps = s.Pick(8, 25)
	nB := s.Pick(12000, 250000)
	for i := 0; i < nB; i++ {
		if !s.Mine(i) {
			continue
		}
		if !s.Begin(fmt.Sprintf("B/%d", i)) {
			continue
		}
		rng := s.Rand(fmt.Sprintf("B/%d", i))
		n := []int{1, 2, 3, 4, 4, 4, 5, 5, 6, 6}[rng.Intn(10)]
		st := randomProject(rng, n)
		names := allNames[:n]
		var ops []ref.SelOp
		if rng.Intn(4) != 0 {
			ops = append(ops, ref.SelOp{Kind: ref.OpProfiles, Args: append([]string{}, profileArgs[rng.Intn(len(profileArgs))]...)})
		}
		for l := 1 + rng.Intn(5); len(ops) < l; {
			ops = append(ops, randomOp(rng, names))
		}
		s.Cover("services", fmt.Sprint(n))
		r.history(build(st), ops, "B", nil)
	}

	// ---- part C: receivers produced by the real loader -----------------------------
	nC := s.Pick(400, 6000)
	for i := 0; i < nC; i++ {
		if !s.Mine(i) {
			continue
		}
		if !s.Begin(fmt.Sprintf("C/%d", i)) {
			continue
		}
		rng := s.Rand(fmt.Sprintf("C/%d", i))
		n := 2 + rng.Intn(4)
		st := randomProject(rng, n)
		sel := append([]string{}, profileArgs[rng.Intn(len(profileArgs))]...)
		c := renderCase(st, sel)
		_, res := ld.Run(s.Scratch(), c)
		if res.Panic != nil {
			ld.PanicViolation(s, res.Panic, c, map[string]string{"op": "load"})
			continue
		}
		if res.Err != nil {
			s.Inconclusive("harness: generated document does not load: " + res.Err.Error())
			continue
		}
		s.Add("loader_receivers", 1)
		// the loader applied the profile selection: judge it as a WithProfiles step
		got := abstract(res.Project)
		want := map[string]bool{}
		for nme, sv := range st.Services {
			if ref.ProfileMatch(sv.Profiles, sel) {
				want[nme] = true
			}
		}
		s.Eval(1)
		if fmt.Sprint(keys(want)) != fmt.Sprint(keys(got.EnabledSet())) || len(got.Services) != len(st.Services) {
			s.Violation(map[string]string{"kind": "wrong-partition", "op": "load", "field": "profiles-option"},
				fmt.Sprintf("loading with profiles %v enabled %v (known: %v), expected %v", sel, keys(got.EnabledSet()), keys(got.Services), keys(want)),
				map[string]any{"case.json": stepCase{State: st, Op: ref.SelOp{Kind: ref.OpProfiles, Args: sel}, Origin: "C-load", Load: c}})
			continue
		}
		var ops []ref.SelOp
		for l := 1 + rng.Intn(5); len(ops) < l; {
			ops = append(ops, randomOp(rng, allNames[:n]))
		}
		r.history(res.Project, ops, "C", c)
	}
}

// renderCase writes the abstract project as a compose file.
func renderCase(st ref.SelState, profiles []string) *ld.Case {
	services := map[string]any{}
	for n, sv := range st.Services {
		m := map[string]any{"image": "img/" + n, "environment": map[string]any{"K": "v-" + n}}
		if len(sv.Profiles) > 0 {
			m["profiles"] = sv.Profiles
		}
		if len(sv.Deps) > 0 {
			d := map[string]any{}
			for k, req := range sv.Deps {
				d[k] = map[string]any{"condition": "service_started", "required": req}
			}
			m["depends_on"] = d
		}
		var nets []string
		for _, x := range sv.Networks {
			if x != "undeclared" {
				nets = append(nets, x)
			}
		}
		if len(nets) > 0 {
			m["networks"] = nets
		}
		var vols []string
		for _, x := range sv.Volumes {
			vols = append(vols, x+":/mnt/"+x)
		}
		vols = append(vols, "/host/"+n+":/host")
		m["volumes"] = vols
		if len(sv.Secrets) > 0 {
			m["secrets"] = sv.Secrets
		}
		if len(sv.Configs) > 0 {
			m["configs"] = sv.Configs
		}
		services[n] = m
	}
	top := func(l []string, f func(string) any) map[string]any {
		m := map[string]any{}
		for _, x := range l {
			m[x] = f(x)
		}
		return m
	}
	doc := map[string]any{
		"services": services,
		"networks": top(st.Networks, func(string) any { return map[string]any{} }),
		"volumes":  top(st.Volumes, func(string) any { return map[string]any{} }),
		"secrets":  top(st.Secrets, func(x string) any { return map[string]any{"file": "./" + x + ".txt"} }),
		"configs":  top(st.Configs, func(x string) any { return map[string]any{"content": "content of " + x} }),
	}
	b, _ := yaml.Marshal(doc)
	// consistency checks are skipped: a required dependency on a profile-disabled
	// service is a legitimate *receiver* here (it is what WithProfiles alone produces)
	return &ld.Case{
		Files:        map[string]string{"compose.yaml": string(b)},
		ComposeFiles: []string{"compose.yaml"},
		Opts:         ld.Opts{Profiles: profiles, SkipConsistencyCheck: true},
	}
}

// ---------------------------------------------------------------------------
// replay and known-finding witnesses

func receiverOf(s *core.Shard, sc *stepCase) (*types.Project, string) {
	if sc.Load == nil {
		return build(sc.State), ""
	}
	_, res := ld.Run(s.Scratch(), sc.Load)
	if res.Panic != nil || res.Err != nil || res.Project == nil {
		return nil, fmt.Sprintf("load failed: %v %v", res.Err, res.Panic)
	}
	cur := res.Project
	for _, op := range sc.Prefix {
		next, err := exec(cur, op)
		if err == nil && next != nil {
			cur = next
		}
	}
	return cur, ""
}

func replay(s *core.Shard, dir string) {
	var sc stepCase
	if err := core.ReadJSON(filepath.Join(dir, "case.json"), &sc); err != nil {
		s.Inconclusive("replay: " + err.Error())
		return
	}
	recv, msg := receiverOf(s, &sc)
	if recv == nil {
		s.Inconclusive("replay: " + msg)
		return
	}
	reps := sc.Reps
	if reps < 100 {
		reps = 100
	}
	r := &runner{s: s, reps: reps}
	r.do(recv, sc.Op, "replay", sc.Load, sc.Prefix)
	if sc.Load != nil {
		// also on the receiver rebuilt from the recorded abstract state
		r.do(build(sc.State), sc.Op, "replay", nil, nil)
	}
}

func witness(s *core.Shard, f core.Finding) (bool, string) {
	var sc stepCase
	w := []byte(f.Witness)
	if len(w) == 0 {
		w = []byte(F1Witness)
	}
	if err := json.Unmarshal(w, &sc); err != nil {
		return false, "witness not readable: " + err.Error()
	}
	recv, msg := receiverOf(s, &sc)
	if recv == nil {
		return false, msg
	}
	reps := sc.Reps
	if reps < 300 {
		reps = 300
	}
	sr := step(recv, sc.Op, reps)
	for _, fd := range sr.found {
		if f.Matches(fd.attrs) {
			return true, fd.what
		}
	}
	return false, fmt.Sprintf("%d repetitions of %s agree with each other and with the model", reps, sc.Op)
}
