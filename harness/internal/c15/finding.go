package c15

// F1Witness is the minimal witness of the genuine finding on the pinned tree
// (attrs kind=nondeterministic op=WithSelectedServices field=DisabledServices.DependsOn):
// three enabled services, b depends on c, select [a]. WithSelectedServices
// disables b and c one by one in map-iteration order and strips the edge b->c
// only if c happens to be disabled before b, so DisabledServices["b"].DependsOn
// differs between repetitions on the same receiver, contradicting "repeated on
// the same project it returns a deeply equal result". It is used when a
// known-finding entry carries no witness of its own.
const F1Witness = `{"state":{"services":{"a":{"enabled":true},"b":{"enabled":true,"deps":{"c":true}},"c":{"enabled":true}}},"op":{"kind":"WithSelectedServices","args":["a"]},"reps":300}`
