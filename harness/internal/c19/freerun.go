package c19

import (
	"context"
	"fmt"
	"runtime"
	"sync"
	"sync/atomic"

	"github.com/compose-spec/compose-go/v2/graph"
	"github.com/compose-spec/compose-go/v2/types"

	"verif/harness/internal/core"
)

// freeSpec describes one free-running (not scheduled) traversal stress case: `fronts` services all
// depending on the head of a chain of `chain` services that ends in `base`, plus a few bystanders.
type freeSpec struct {
	Fronts  int    `json:"fronts"`
	Chain   int    `json:"chain"`
	Reverse bool   `json:"reverse"`
	Root    string `json:"root,omitempty"` // WithRootNodesAndDown([root]); "" = none
	Max     int    `json:"max"`
	Procs   int    `json:"gomaxprocs"`
	Rounds  int    `json:"rounds"`
	// Width > 1: the chain is a lattice, every service of a layer depends on every service of the
	// layer below (few services, exponentially many paths)
	Width int `json:"width,omitempty"`
}

func (f *freeSpec) project() (*types.Project, map[string][]string) {
	p := &types.Project{Name: "c19", Services: types.Services{}}
	deps := map[string][]string{}
	add := func(n string, d ...string) {
		s := types.ServiceConfig{Name: n, Image: "img"}
		if len(d) > 0 {
			s.DependsOn = types.DependsOnConfig{}
			for _, x := range d {
				s.DependsOn[x] = types.ServiceDependency{Condition: types.ServiceConditionStarted, Required: true}
			}
		}
		p.Services[n] = s
		deps[n] = d
	}
	add("base")
	prev := []string{"base"}
	for i := 0; i < f.Chain; i++ {
		var layer []string
		for w := 0; w < max(f.Width, 1); w++ {
			n := fmt.Sprintf("chain-%02d", i)
			if w > 0 {
				n = fmt.Sprintf("chain-%02d-w%d", i, w)
			}
			add(n, prev...)
			layer = append(layer, n)
		}
		prev = layer
	}
	for i := 0; i < f.Fronts; i++ {
		add(fmt.Sprintf("front-%02d", i), prev...)
	}
	add("lonely")
	add("side", "lonely")
	return p, deps
}

// expected: the services the function must be called for (computed from the edges alone).
func (f *freeSpec) expected(deps map[string][]string) map[string]bool {
	out := map[string]bool{}
	if f.Root == "" {
		for n := range deps {
			out[n] = true
		}
		return out
	}
	var reaches func(n string, seen map[string]bool) bool
	reaches = func(n string, seen map[string]bool) bool {
		if n == f.Root {
			return true
		}
		if seen[n] {
			return false
		}
		seen[n] = true
		for _, d := range deps[n] {
			if reaches(d, seen) {
				return true
			}
		}
		return false
	}
	for n := range deps {
		if reaches(n, map[string]bool{}) {
			out[n] = true
		}
	}
	return out
}

// runFree lets the traversal run at full speed on several CPUs (the race detector watches in the
// race build) and checks, per round, that the function ran exactly once for every service it must
// run for, never for the others, and that the collected map carries exactly its results.
func runFree(s *core.Shard, f *freeSpec) {
	old := runtime.GOMAXPROCS(f.Procs)
	defer runtime.GOMAXPROCS(old)
	graph.SetVerifHook(nil)
	p, deps := f.project()
	want := f.expected(deps)
	files := map[string]any{"case.json": map[string]any{"kind": "free-traversal", "spec": f}}
	for round := 0; round < f.Rounds; round++ {
		var mu sync.Mutex
		calls := map[string]int{}
		var running, peak int32
		var opts []func(*graph.Options)
		if f.Reverse {
			opts = append(opts, graph.InReverseOrder)
		}
		if f.Root != "" {
			opts = append(opts, graph.WithRootNodesAndDown([]string{f.Root}))
		}
		if f.Max > 0 {
			opts = append(opts, graph.WithMaxConcurrency(f.Max))
		}
		var res map[string]string
		var err error
		pi := core.Guard(func() {
			res, err = graph.CollectInDependencyOrder(context.Background(), p, func(_ context.Context, name string, _ types.ServiceConfig) (string, error) {
				r := atomic.AddInt32(&running, 1)
				for {
					pk := atomic.LoadInt32(&peak)
					if r <= pk || atomic.CompareAndSwapInt32(&peak, pk, r) {
						break
					}
				}
				mu.Lock()
				calls[name]++
				mu.Unlock()
				runtime.Gosched()
				atomic.AddInt32(&running, -1)
				return "result-of-" + name, nil
			}, opts...)
		})
		s.Eval(1)
		s.Add("free_traversals", 1)
		if pi != nil {
			s.Violation(map[string]string{"kind": "panic", "site": pi.Site, "class": pi.Class, "part": "free-traversal"}, "free-running traversal panicked: "+pi.Value, files)
			return
		}
		if err != nil {
			s.Violation(map[string]string{"kind": "traversal-error", "part": "free-traversal"}, fmt.Sprintf("free-running traversal (%+v) failed although no visit fails: %v", *f, err), files)
			return
		}
		if f.Max > 0 && int(peak) > f.Max {
			s.Violation(map[string]string{"kind": "over-concurrency", "part": "free-traversal"}, fmt.Sprintf("%d visits ran at once, limit %d (%+v)", peak, f.Max, *f), files)
			return
		}
		if peak >= 2 {
			s.Add("free_traversals_with_parallel_visits", 1)
		}
		for n := range deps {
			c := calls[n]
			switch {
			case want[n] && c != 1:
				s.Violation(map[string]string{"kind": "visit-count", "part": "free-traversal"}, fmt.Sprintf("round %d: the function ran %d time(s) for %s, expected once (%+v)", round, c, n, *f), files)
				return
			case !want[n] && c != 0:
				s.Violation(map[string]string{"kind": "visit-count", "part": "free-traversal"}, fmt.Sprintf("round %d: the function ran for %s, which is outside the selected roots (%+v)", round, n, *f), files)
				return
			case want[n] && res[n] != "result-of-"+n:
				s.Violation(map[string]string{"kind": "result-lost", "part": "free-traversal"}, fmt.Sprintf("round %d: the collected map holds %q for %s, the function returned %q (%+v)", round, res[n], n, "result-of-"+n, *f), files)
				return
			}
		}
	}
	s.Cover("free-traversal", fmt.Sprintf("reverse=%v root=%q max=%d", f.Reverse, f.Root, f.Max))
	s.Nontrivial("free", fmt.Sprintf("%+v", *f))
}
