// Package c19 checks property C19 (safe concurrent use). Part 1: groups of
// goroutines load generated inputs concurrently in a -race build; oracles are
// the race detector (reports collected by the driver from GORACE logs) and
// result equivalence with the same load performed alone. Part 2: the library's
// own fan-outs (WithServicesTransform / WithImagesResolved) are driven by the
// schedule controller of C13 and judged by a trace monitor.
package c19

import (
	"crypto/sha256"
	"encoding/hex"
	"encoding/json"
	"errors"
	"fmt"
	"math/rand"
	"os"
	"path/filepath"
	"reflect"
	"runtime"
	"sort"
	"strings"
	"sync"
	"sync/atomic"

	"github.com/compose-spec/compose-go/v2/types"
	"github.com/distribution/reference"
	godigest "github.com/opencontainers/go-digest"

	"verif/harness/internal/c13"
	"verif/harness/internal/core"
	"verif/harness/internal/ld"
	"verif/harness/internal/sched"
)

func init() {
	core.Register(&core.Spec{
		ID:    "C19",
		Level: "exploration",
		Rule: "part 1: seeded groups of 2..16 goroutines released from a barrier, each loading one of 10 input families (version:, extends in/across files, include with env_file, env/label files, secrets from the environment, multi-file override, interpolation, profiles, build/deploy) x {same input, all different, mixed} x GOMAXPROCS {1,2,4,16} x optional Gosched storm, in a -race build; every concurrent result is compared (YAML+JSON digest, or error class) with the same load done alone. " +
			"part 2: WithServicesTransform and WithImagesResolved on projects with 0..6 services with every callback parked on the schedule controller: every release order for <=4 services (sampled above), failures injected at each position and at pairs; trace monitor: each callback exactly once, returned services == per-service results (unique payloads), first failing callback's error in release order, return only after every started callback returned, deadlock = global quiescence with nothing parked and no return. " +
			"part 3: graph.InDependencyOrder on every labelled DAG on 2..3 services and ordered DAGs on 4, with concurrency limits 1..2 and 1..3 failing visitors, release orders enumerated depth-first plus seeded yield-point schedules (trace monitor of C13: no deadlock, first error, bound respected). " +
			"part 3b: free-running graph.CollectInDependencyOrder (no schedule controller, 8 CPUs, race detector) on fans of 6/16 services over chains of 8/40, forward and reverse, with and without WithRootNodesAndDown, concurrency limit 0/4: per round the function ran exactly once for every selected service, never for another, and the collected map holds its results. A case is non-trivial when >=2 goroutines/callbacks really ran; distinct = distinct (configuration, inputs / release order).",
		Assumptions: []string{
			"each concurrent load gets its own ConfigDetails value and its own Environment map with equal content (sharing one mutable map between callers is not what the statement promises)",
			"the race detector only sees races on executions that happened; reports are read from GORACE log files and de-duplicated by the pair of first compose-go frames",
			"inputs whose solo loads already differ from one another (a C02 matter) are excluded from the equivalence oracle and counted",
		},
		Race:      func(string) bool { return true },
		CPUBudget: func(string) float64 { return 300 },
		Run:       run,
		Replay:    replay,
		Witness:   witness,
		Floor: func(tier string, m *core.Merged) []string {
			var r []string
			if m.Counters["groups"] < 100 || m.Counters["concurrent_loads_ok"] < 300 || m.Counters["fanout_runs"] < 500 {
				r = append(r, fmt.Sprintf("too few observations: %v", m.Counters))
			}
			return r
		},
	})
}

// ---- part 1 inputs ---------------------------------------------------------

func input(family, v int) *ld.Case {
	t := fmt.Sprint(v)
	c := &ld.Case{Files: map[string]string{}, ComposeFiles: []string{"compose.yaml"}, Env: map[string]string{"TAG": "t" + t, "SECRET_" + t: "canary" + t, "PORT": "80" + fmt.Sprint(v%10)}}
	switch family {
	case 0:
		c.Files["compose.yaml"] = "services:\n  web" + t + ":\n    image: nginx:${TAG}\n    ports: [\"${PORT}:80\", \"9000-9002:9000-9002/udp\"]\n    environment:\n      A: \"" + t + "\"\n      B:\n  db:\n    image: postgres\n    volumes: [\"data:/var/lib/data\", \"./conf:/etc/conf:ro\"]\nvolumes:\n  data: {}\n"
	case 1:
		c.Files["compose.yaml"] = "version: \"3.8\"\nservices:\n  a" + t + ":\n    image: busybox\n    command: echo " + t + "\n"
	case 2:
		c.Files["compose.yaml"] = "services:\n  base:\n    image: base:" + t + "\n    environment: [X=1, Y=2]\n    labels: {l: b}\n  mid:\n    extends: base\n    environment: {Y: \"3\"}\n  top:\n    extends: {service: mid}\n    command: [run, \"" + t + "\"]\n  far:\n    extends: {file: other/base.yaml, service: remote}\n    image: far\n"
		c.Files["other/base.yaml"] = "services:\n  remote:\n    build: ./ctx\n    env_file: ./r.env\n    volumes: [\"./d:/d\"]\n"
		c.Files["other/r.env"] = "R=" + t + "\n"
	case 3:
		c.Files["compose.yaml"] = "include:\n  - path: inc/compose.yaml\n    env_file: inc/vars.env\n  - inc2/compose.yaml\nservices:\n  main:\n    image: main:" + t + "\n    depends_on: [inc_a]\n"
		c.Files["inc/compose.yaml"] = "services:\n  inc_a:\n    image: a:${V:-none}\n    build: ./b\n"
		c.Files["inc/vars.env"] = "V=" + t + "\n"
		c.Files["inc2/compose.yaml"] = "services:\n  inc_b:\n    image: b\n    networks: [n]\nnetworks:\n  n: {}\n"
		c.Files["inc2/.env"] = "W=" + t + "\n"
	case 4:
		c.Files["compose.yaml"] = "services:\n  s:\n    image: s\n    env_file:\n      - a.env\n      - path: b.env\n        required: false\n      - path: missing.env\n        required: false\n    label_file: [l.labels]\n    labels: {own: \"" + t + "\"}\n    environment: {B: over}\n"
		c.Files["a.env"] = "A=1\nB=2\nC=${A}-" + t + "\n"
		c.Files["b.env"] = "B=3\nD=\"quoted " + t + "\"\n"
		c.Files["l.labels"] = "com.example.l=" + t + "\n"
	case 5:
		c.Files["compose.yaml"] = "services:\n  s:\n    image: s\n    secrets: [sec, {source: fsec, target: /run/f}]\n    configs: [cfg]\nsecrets:\n  sec:\n    environment: SECRET_" + t + "\n  fsec:\n    file: ./f.txt\nconfigs:\n  cfg:\n    content: \"hello " + t + "\"\n"
		c.Files["f.txt"] = "x"
	case 6:
		c.ComposeFiles = []string{"compose.yaml", "override.yaml", "override2.yaml"}
		c.Files["compose.yaml"] = "services:\n  s:\n    image: s:1\n    environment: [A=1, B=2]\n    ports: [\"80:80\"]\n    dns: 1.1.1.1\n    cap_add: [NET_ADMIN]\n"
		c.Files["override.yaml"] = "services:\n  s:\n    image: s:" + t + "\n    environment: {B: \"3\", C: \"4\"}\n    ports: [\"81:81\"]\n    dns: [8.8.8.8]\n  t:\n    image: t\n"
		c.Files["override2.yaml"] = "services:\n  s:\n    cap_add: [SYS_TIME, NET_ADMIN]\n    command: !override [x, \"" + t + "\"]\n    labels: {a: b}\n"
	case 7:
		c.Files["compose.yaml"] = "name: proj" + t + "\nservices:\n  s:\n    image: \"${IMG:-img}:${TAG?need tag}\"\n    mem_limit: ${MEM:-64m}\n    cpu_count: ${CPUS:-2}\n    privileged: ${PRIV:-false}\n    labels:\n      a: \"$$literal ${TAG:+set}\"\n    healthcheck:\n      test: echo ${TAG}\n      interval: ${IV:-1m30s}\n"
		c.Opts.Name = "-"
	case 8:
		c.Files["compose.yaml"] = "services:\n  a:\n    image: a\n    depends_on: {b: {condition: service_healthy}, c: {condition: service_started, required: false}}\n  b:\n    image: b\n    depends_on: [d]\n  c:\n    image: c\n    profiles: [p" + t + "]\n  d:\n    image: d\n    network_mode: \"service:b\"\n"
		if v%2 == 0 {
			c.Opts.Profiles = []string{"p" + t}
		}
	case 9:
		c.Files["compose.yaml"] = "services:\n  s:\n    build:\n      context: ./app\n      args: {V: \"" + t + "\", W}\n      dockerfile_inline: |\n        FROM scratch\n      tags: [\"x:" + t + "\"]\n    deploy:\n      replicas: 2\n      resources:\n        limits: {cpus: \"0.5\", memory: 50M}\n        reservations: {devices: [{capabilities: [gpu], count: 1}]}\n    ulimits: {nofile: {soft: 10, hard: 20}, nproc: 5}\n    extra_hosts: [\"h1=1.2.3.4\", \"h2:::1\"]\n    sysctls: [a=1]\n    tmpfs: /run\n    x-ext: {k: " + t + "}\nx-top: [1, 2]\n"
		c.Env["W"] = "w" + t
	}
	return c
}

const families = 10

type loadResult struct {
	digest string
	isErr  bool
	errMsg string
	panic  *core.PanicInfo
}

func doLoad(dir string, c *ld.Case) loadResult {
	// own copy of the environment map per load
	cc := *c
	cc.Env = map[string]string{}
	for k, v := range c.Env {
		cc.Env[k] = v
	}
	r := ld.Load(dir, &cc)
	if r.Panic != nil {
		return loadResult{panic: r.Panic}
	}
	if r.Err != nil {
		return loadResult{isErr: true, errMsg: strings.ReplaceAll(r.Err.Error(), dir, "@DIR@"), digest: "error"}
	}
	h := sha256.New()
	var y, j []byte
	var e1, e2 error
	pi := core.Guard(func() {
		y, e1 = r.Project.MarshalYAML()
		j, e2 = r.Project.MarshalJSON()
	})
	if pi != nil {
		return loadResult{panic: pi}
	}
	if e1 != nil || e2 != nil {
		return loadResult{isErr: true, errMsg: fmt.Sprint(e1, e2), digest: "marshal-error"}
	}
	// the same input is loaded from several directories: paths are compared relative to the case directory
	h.Write([]byte(strings.ReplaceAll(string(y), dir, "@DIR@"))) //nolint:errcheck
	h.Write([]byte(strings.ReplaceAll(string(j), dir, "@DIR@"))) //nolint:errcheck
	// also fields that are not rendered
	fmt.Fprintf(h, "%v|%v|%v", r.Project.Profiles, r.Project.DisabledServiceNames(), r.Project.Environment["COMPOSE_PROJECT_NAME"])
	return loadResult{digest: hex.EncodeToString(h.Sum(nil)[:12])}
}

type groupSpec struct {
	Inputs     [][2]int `json:"inputs"` // (family, variant) per goroutine
	GoMaxProcs int      `json:"gomaxprocs"`
	Storm      bool     `json:"storm"`
}

var groupSeq int

func runGroup(s *core.Shard, g groupSpec) {
	runtime.GOMAXPROCS(g.GoMaxProcs)
	defer runtime.GOMAXPROCS(4)
	base := s.Scratch()
	// materialise each distinct input once; do the solo loads first
	type prepared struct {
		dir  string
		c    *ld.Case
		solo loadResult
		det  bool
	}
	prep := map[[2]int]*prepared{}
	for _, in := range g.Inputs {
		if _, ok := prep[in]; ok {
			continue
		}
		c := input(in[0], in[1])
		dir := filepath.Join(base, fmt.Sprintf("solo%d-in-%d-%d", groupSeq, in[0], in[1]))
		_ = os.MkdirAll(dir, 0o755)
		if err := ld.Materialise(dir, c); err != nil {
			s.Inconclusive("materialise: " + err.Error())
			return
		}
		p := &prepared{dir: dir, c: c, det: true}
		p.solo = doLoad(dir, c)
		for k := 0; k < 2; k++ {
			again := doLoad(dir, c)
			if again.digest != p.solo.digest {
				p.det = false
			}
		}
		if p.solo.panic != nil {
			ld.PanicViolation(s, p.solo.panic, c, nil)
			return
		}
		if !p.det {
			s.Add("solo_nondeterministic_inputs_skipped", 1)
		}
		prep[in] = p
	}
	// every concurrent load reads its own fresh copy of the input, at a path this process has never
	// loaded before: per-process state keyed by file name (the obsolete-version warning list) is then
	// written, not only read, by the concurrent loads
	groupSeq++
	dirs := make([]string, len(g.Inputs))
	for i, in := range g.Inputs {
		dirs[i] = filepath.Join(base, fmt.Sprintf("g%d-%d-in-%d-%d", groupSeq, i, in[0], in[1]))
		_ = os.MkdirAll(dirs[i], 0o755)
		if err := ld.Materialise(dirs[i], prep[in].c); err != nil {
			s.Inconclusive("materialise: " + err.Error())
			return
		}
	}
	results := make([]loadResult, len(g.Inputs))
	var start, done sync.WaitGroup
	barrier := make(chan struct{})
	var stop atomic.Bool
	if g.Storm {
		for i := 0; i < 4; i++ {
			go func() {
				for !stop.Load() {
					runtime.Gosched()
				}
			}()
		}
	}
	for i, in := range g.Inputs {
		start.Add(1)
		done.Add(1)
		go func(i int, p *prepared) {
			defer done.Done()
			start.Done()
			<-barrier
			results[i] = doLoad(dirs[i], p.c)
		}(i, prep[in])
	}
	start.Wait()
	close(barrier)
	done.Wait()
	stop.Store(true)
	s.Eval(len(g.Inputs))
	s.Add("groups", 1)
	s.Cover("group-size", fmt.Sprint(len(g.Inputs)))
	s.Cover("gomaxprocs", fmt.Sprint(g.GoMaxProcs))
	key, _ := json.Marshal(g)
	s.Nontrivial(string(key))
	for i, in := range g.Inputs {
		p := prep[in]
		r := results[i]
		s.Cover("input-family", fmt.Sprint(in[0]))
		if r.panic != nil {
			ld.PanicViolation(s, r.panic, p.c, map[string]string{"concurrent": "true"})
			continue
		}
		if r.isErr {
			s.Add("concurrent_loads_err", 1)
		} else {
			s.Add("concurrent_loads_ok", 1)
		}
		if !p.det {
			continue
		}
		if r.digest != p.solo.digest {
			s.Violation(map[string]string{"kind": "concurrent-result-differs", "family": fmt.Sprint(in[0])},
				fmt.Sprintf("input family %d loaded concurrently (group of %d) gave %s (%s), alone %s (%s)", in[0], len(g.Inputs), r.digest, r.errMsg, p.solo.digest, p.solo.errMsg),
				map[string]any{"case.json": map[string]any{"part": 1, "group": g}})
		}
	}
	if s.WantSample() && len(g.Inputs) >= 3 {
		s.Sample(map[string]any{"part": "concurrent loads", "group": g, "solo_digests": func() map[string]string {
			m := map[string]string{}
			for k, p := range prep {
				m[fmt.Sprint(k)] = p.solo.digest
			}
			return m
		}()})
	}
}

// ---- part 2: fan-out trace monitor -------------------------------------------

// FanSpec is one controlled fan-out run.
type FanSpec struct {
	Op      string   `json:"op"` // transform | images
	N       int      `json:"n"`
	Fail    []int    `json:"fail,omitempty"`
	Order   []int    `json:"order,omitempty"` // release order by service index (prefix; rest smallest first)
	Choices []string `json:"choices,omitempty"`
}

func svcName(i int) string { return fmt.Sprintf("svc%d", i) }

func fanProject(n int) *types.Project {
	p := &types.Project{Name: "c19", Services: types.Services{}}
	for i := 0; i < n; i++ {
		p.Services[svcName(i)] = types.ServiceConfig{Name: svcName(i), Image: fmt.Sprintf("repo/img%d:v1", i), Labels: types.Labels{"orig": fmt.Sprint(i)}}
	}
	return p
}

type fanOutcome struct {
	viol     []core.Violation
	events   []string
	chosen   []int
	branch   []int
	choices  []string
	deadlock bool
	inconcl  string
}

func executeFan(fs *FanSpec, choose func(step int, parked []*sched.Entity) int) fanOutcome {
	c := sched.New()
	proj := fanProject(fs.N)
	snapshot := fanProject(fs.N)
	fail := map[int]bool{}
	for _, f := range fs.Fail {
		fail[f] = true
	}
	var (
		mu       sync.Mutex
		calls    = map[string]int{}
		running  int
		returned bool
		events   []string
		firstErr error
		errsSeen []error
		viol     []core.Violation
	)
	flag := func(kind, what string) {
		viol = append(viol, core.Violation{Attrs: map[string]string{"kind": kind, "op": fs.Op}, What: what})
	}
	enter := func(n string) {
		mu.Lock()
		events = append(events, "S("+n+")")
		calls[n]++
		if calls[n] > 1 {
			flag("duplicate-callback", "callback invoked twice for "+n)
		}
		if returned {
			flag("callback-after-return", "callback for "+n+" started after the operation returned")
		}
		running++
		mu.Unlock()
	}
	leave := func(n string, err error) {
		mu.Lock()
		if err != nil {
			events = append(events, "E("+n+",err)")
			if firstErr == nil {
				firstErr = err
			}
			errsSeen = append(errsSeen, err)
		} else {
			events = append(events, "E("+n+")")
		}
		running--
		mu.Unlock()
	}
	idx := func(n string) int {
		var i int
		fmt.Sscanf(n, "svc%d", &i) //nolint:errcheck
		return i
	}
	var (
		res  *types.Project
		rerr error
		pi   *core.PanicInfo
	)
	c.Go(func() {
		pi = core.Guard(func() {
			switch fs.Op {
			case "transform":
				res, rerr = proj.WithServicesTransform(func(n string, svc types.ServiceConfig) (types.ServiceConfig, error) {
					enter(n)
					c.Park("visit", "callback", n)
					var e error
					if fail[idx(n)] {
						e = fmt.Errorf("injected failure of %s", n)
					}
					svc.Labels = types.Labels{"payload": "result-of-" + n}
					svc.ContainerName = "unique-" + n
					leave(n, e)
					return svc, e
				})
			case "images":
				res, rerr = proj.WithImagesResolved(func(named reference.Named) (godigest.Digest, error) {
					// repo/imgK:v1
					nm := reference.Path(named)
					k := strings.TrimPrefix(nm, "repo/img")
					n := "svc" + k
					enter(n)
					c.Park("visit", "callback", n)
					var e error
					if fail[idx(n)] {
						e = fmt.Errorf("injected failure of %s", n)
					}
					leave(n, e)
					return godigest.FromString("digest-of-" + n), e
				})
			}
		})
		mu.Lock()
		returned = true
		if rerr != nil {
			events = append(events, "R(err)")
		} else {
			events = append(events, "R")
		}
		if running != 0 {
			flag("return-with-running", fmt.Sprintf("operation returned while %d callback(s) were still running", running))
		}
		mu.Unlock()
	})
	out := fanOutcome{}
	for step := 0; ; step++ {
		ok, why := c.Quiesce()
		if !ok {
			out.inconcl = why
			break
		}
		if c.Returned() {
			break
		}
		parked := c.Parked()
		if len(parked) == 0 {
			out.deadlock = true
			mu.Lock()
			flag("deadlock", "global quiescence with nothing parked and no return; events: "+strings.Join(events, " "))
			mu.Unlock()
			break
		}
		k := choose(step, parked)
		if k < 0 || k >= len(parked) {
			k = 0
		}
		out.branch = append(out.branch, len(parked))
		out.chosen = append(out.chosen, k)
		out.choices = append(out.choices, parked[k].String())
		c.Release(parked[k])
	}
	if !out.deadlock && out.inconcl == "" {
		if left := c.Parked(); len(left) > 0 {
			c.ReleaseAll()
		}
	}
	mu.Lock()
	defer mu.Unlock()
	if pi != nil {
		viol = append(viol, core.Violation{Attrs: map[string]string{"kind": "panic", "site": pi.Site, "class": pi.Class, "op": fs.Op}, What: "fan-out panicked: " + pi.Value})
	}
	if !out.deadlock && out.inconcl == "" && pi == nil {
		if len(errsSeen) == 0 {
			if rerr != nil {
				flag("unexpected-error", "operation failed although no callback failed: "+rerr.Error())
			} else {
				for i := 0; i < fs.N; i++ {
					if calls[svcName(i)] != 1 {
						flag("missing-callback", fmt.Sprintf("callback invoked %d times for %s", calls[svcName(i)], svcName(i)))
					}
				}
				if res == nil || len(res.Services) != fs.N {
					flag("wrong-result", fmt.Sprintf("result has %d services, expected %d", func() int {
						if res == nil {
							return -1
						}
						return len(res.Services)
					}(), fs.N))
				} else {
					for i := 0; i < fs.N; i++ {
						n := svcName(i)
						got := res.Services[n]
						switch fs.Op {
						case "transform":
							if got.ContainerName != "unique-"+n || got.Labels["payload"] != "result-of-"+n || got.Name != n {
								flag("wrong-result", fmt.Sprintf("service %s carries %q/%v instead of the result of its own callback", n, got.ContainerName, got.Labels))
							}
						case "images":
							want := fmt.Sprintf("docker.io/repo/img%d:v1@%s", i, godigest.FromString("digest-of-"+n))
							if got.Image != want {
								flag("wrong-result", fmt.Sprintf("service %s image %q, expected %q", n, got.Image, want))
							}
						}
					}
				}
			}
		} else {
			if rerr == nil {
				flag("missing-error", "a callback failed but the operation returned nil")
			} else if !errors.Is(rerr, firstErr) {
				flag("wrong-error", fmt.Sprintf("operation returned %q, the first failing callback returned %q", rerr, firstErr))
			}
		}
		if !reflect.DeepEqual(proj, snapshot) {
			flag("receiver-modified", "the receiver differs from its snapshot after the operation")
		}
	}
	out.viol = viol
	out.events = append([]string(nil), events...)
	return out
}

func reportFan(s *core.Shard, fs *FanSpec, o fanOutcome) {
	s.Eval(1)
	s.Add("fanout_runs", 1)
	s.Cover("fanout-op", fs.Op)
	s.Cover("fanout-services", fmt.Sprint(fs.N))
	if o.inconcl != "" {
		s.Inconclusive("controller: " + o.inconcl)
		return
	}
	if fs.N >= 2 || fs.N == 0 {
		s.Nontrivial(fmt.Sprintf("%s/%d/%v", fs.Op, fs.N, fs.Fail), strings.Join(o.events, " "))
	}
	if s.WantSample() && fs.N >= 3 && len(fs.Fail) > 0 {
		s.Sample(map[string]any{"part": "fan-out", "config": fs, "released_in_order": o.choices, "trace": o.events})
	}
	for _, v := range o.viol {
		fc := *fs
		fc.Choices = o.choices
		s.Violation(v.Attrs, fmt.Sprintf("%s [%s n=%d fail=%v]", v.What, fs.Op, fs.N, fs.Fail), map[string]any{"case.json": map[string]any{"part": 2, "fan": fc}, "trace.txt": strings.Join(o.events, "\n")})
	}
}

func dfsFan(s *core.Shard, fs *FanSpec, capRuns int) (deadlocks int) {
	prefix := []int{}
	for runs := 0; runs < capRuns; runs++ {
		o := executeFan(fs, func(step int, parked []*sched.Entity) int {
			if step < len(prefix) {
				return prefix[step]
			}
			return 0
		})
		reportFan(s, fs, o)
		if o.deadlock {
			return 1
		}
		if o.inconcl != "" {
			return 0
		}
		d := len(o.chosen) - 1
		for d >= 0 && o.chosen[d]+1 >= o.branch[d] {
			d--
		}
		if d < 0 {
			return 0
		}
		prefix = append(append([]int(nil), o.chosen[:d]...), o.chosen[d]+1)
	}
	s.Add("fanout_dfs_truncated", 1)
	return 0
}

func run(s *core.Shard) {
	runtime.GOMAXPROCS(4)
	caseNo := 0
	next := func(id string) bool {
		caseNo++
		if !s.Mine(caseNo) {
			return false
		}
		return s.Begin(id)
	}
	// ---- part 2 first (cheap) ----------------------------------------------------
	deadlocks := 0
	for _, op := range []string{"transform", "images"} {
		for n := 0; n <= 6; n++ {
			failSets := [][]int{nil}
			for i := 0; i < n; i++ {
				failSets = append(failSets, []int{i})
			}
			for i := 0; i < n; i++ {
				for j := i + 1; j < n; j++ {
					failSets = append(failSets, []int{i, j})
				}
			}
			if n >= 3 {
				all := []int{}
				for i := 0; i < n; i++ {
					all = append(all, i)
				}
				failSets = append(failSets, all)
			}
			for fi, fsx := range failSets {
				if !next(fmt.Sprintf("fan/%s/%d/%d", op, n, fi)) {
					continue
				}
				capRuns := 30
				if n <= 4 {
					capRuns = 200 // 4! = 24 orders: complete
				} else if s.Thorough() {
					capRuns = 800 // 6! = 720 orders: complete
				} else if n == 5 {
					capRuns = 130 // 5! = 120: complete
				}
				deadlocks += dfsFan(s, &FanSpec{Op: op, N: n, Fail: fsx}, capRuns)
				if deadlocks > 10 {
					return
				}
			}
		}
	}
	// repeated zero/one-service runs: the only interleaving there is between the
	// caller and the collector, which the race detector sees only if it happens
	for k := 0; k < s.Pick(200, 2000); k++ {
		if !next(fmt.Sprintf("fan-small/%d", k)) {
			continue
		}
		for _, op := range []string{"transform", "images"} {
			for _, n := range []int{0, 1} {
				fs := &FanSpec{Op: op, N: n}
				reportFan(s, fs, executeFan(fs, func(int, []*sched.Entity) int { return 0 }))
			}
		}
	}

	// ---- part 3: dependency-ordered traversal (deadlock freedom, first error) -----
	c13.TraversalSlice(s, next)

	// ---- part 3b: the traversal at full speed on several CPUs -----------------------
	for _, rev := range []bool{false, true} {
		for _, root := range []string{"", "base", "chain-03", "lonely"} {
			for _, max := range []int{0, 4} {
				for _, shape := range [][2]int{{16, 40}, {6, 8}} {
					f := &freeSpec{Fronts: shape[0], Chain: shape[1], Reverse: rev, Root: root, Max: max, Procs: 8, Rounds: s.Pick(40, 300)}
					if !next(fmt.Sprintf("free-traversal/%v/%s/%d/%d", rev, root, max, shape[0])) {
						continue
					}
					runFree(s, f)
				}
			}
		}
	}

	// lattices: 2 x 30 services with 2^30 dependency paths between top and bottom
	for _, rev := range []bool{false, true} {
		for _, root := range []string{"", "base", "chain-03"} {
			f := &freeSpec{Fronts: 3, Chain: 30, Width: 2, Reverse: rev, Root: root, Max: 4, Procs: 4, Rounds: 3}
			if !next(fmt.Sprintf("free-traversal-lattice/%v/%s", rev, root)) {
				continue
			}
			runFree(s, f)
		}
	}

	// ---- part 1b: concurrent loads of documents with never-seen names -----------------
	runFreshNames(s, next)

	// ---- part 1: concurrent loads ----------------------------------------------
	rng := s.Rand("groups")
	groups := s.Pick(640, 12000)
	for gi := 0; gi < groups; gi++ {
		g := drawGroup(rng)
		if !next(fmt.Sprintf("group/%d", gi)) {
			continue
		}
		runGroup(s, g)
	}
}

func drawGroup(rng *rand.Rand) groupSpec {
	sizes := []int{2, 2, 3, 4, 4, 8, 16}
	n := sizes[rng.Intn(len(sizes))]
	g := groupSpec{GoMaxProcs: []int{1, 2, 4, 16}[rng.Intn(4)], Storm: rng.Intn(3) == 0}
	mode := rng.Intn(3)
	first := [2]int{rng.Intn(families), rng.Intn(50)}
	for i := 0; i < n; i++ {
		switch mode {
		case 0: // same input everywhere
			g.Inputs = append(g.Inputs, first)
		case 1: // all different variants, often the same family (same files read, same package state touched)
			g.Inputs = append(g.Inputs, [2]int{first[0], first[1] + i})
		default:
			g.Inputs = append(g.Inputs, [2]int{rng.Intn(families), rng.Intn(50)})
		}
	}
	return g
}

func replay(s *core.Shard, dir string) {
	var rc struct {
		Part  int       `json:"part"`
		Group groupSpec `json:"group"`
		Fan   FanSpec   `json:"fan"`
		Kind  string    `json:"kind"`
		Spec  *freeSpec `json:"spec"`
	}
	if err := core.ReadJSON(filepath.Join(dir, "case.json"), &rc); err != nil {
		s.Inconclusive("replay: " + err.Error())
		return
	}
	if rc.Kind == "free-traversal" && rc.Spec != nil {
		rc.Spec.Rounds *= 5
		runFree(s, rc.Spec)
		return
	}
	if rc.Part == 4 {
		// concurrent loads of never-seen names: the stored document only shows the shape, fresh names are drawn again
		runFreshNames(s, func(string) bool { return true })
		return
	}
	runtime.GOMAXPROCS(4)
	if rc.Part == 1 {
		for k := 0; k < 50; k++ {
			runGroup(s, rc.Group)
		}
		return
	}
	for rep := 0; rep < 50; rep++ {
		o := executeFan(&rc.Fan, func(step int, parked []*sched.Entity) int {
			if step < len(rc.Fan.Choices) {
				for i, e := range parked {
					if e.String() == rc.Fan.Choices[step] {
						return i
					}
				}
			}
			return 0
		})
		reportFan(s, &rc.Fan, o)
		if len(o.viol) > 0 {
			return
		}
	}
}

// witness replays the configuration stored with a finding. For race findings the
// verdict comes from the race log of this process, which the driver inspects.
func witness(s *core.Shard, f core.Finding) (bool, string) {
	var w struct {
		Part  int       `json:"part"`
		Group groupSpec `json:"group"`
		Fan   FanSpec   `json:"fan"`
		Reps  int       `json:"reps"`
		Kind  string    `json:"kind"`
		Spec  *freeSpec `json:"spec"`
	}
	if err := json.Unmarshal(f.Witness, &w); err != nil {
		return false, "bad witness: " + err.Error()
	}
	if w.Kind == "free-traversal" && w.Spec != nil {
		// a reproduction kills or stalls this process (the driver reports that); returning means it did not
		runFree(s, w.Spec)
		return false, "the free-running traversal completed"
	}
	runtime.GOMAXPROCS(4)
	if w.Reps == 0 {
		w.Reps = 200
	}
	hit := false
	for k := 0; k < w.Reps; k++ {
		if w.Part == 1 {
			runGroup(s, w.Group)
		} else {
			o := executeFan(&w.Fan, func(int, []*sched.Entity) int { return 0 })
			for _, v := range o.viol {
				if v.Attrs["kind"] == f.Match["kind"] {
					hit = true
				}
			}
		}
	}
	return hit, ""
}

var _ = sort.Ints
