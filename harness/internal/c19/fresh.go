package c19

import (
	"fmt"
	"os"
	"path/filepath"
	"runtime"
	"sync"

	"verif/harness/internal/core"
	"verif/harness/internal/ld"
)

// runFreshNames: concurrent loads of documents whose service, network, volume, secret and config
// names no load of this process has met before (whatever the library keeps per name or per path is
// then written, not only read, while other loads run). The solo loads used for comparison come
// afterwards, so nothing is warmed up for the concurrent ones.
func runFreshNames(s *core.Shard, next func(string) bool) {
	rounds := s.Pick(12, 120)
	for round := 0; round < rounds; round++ {
		if !next(fmt.Sprintf("fresh-names/%d", round)) {
			continue
		}
		const n = 8
		old := runtime.GOMAXPROCS(8)
		base := filepath.Join(s.Scratch(), fmt.Sprintf("fresh-%d", round))
		_ = os.RemoveAll(base)
		cases := make([]*ld.Case, n)
		dirs := make([]string, n)
		for i := 0; i < n; i++ {
			tag := fmt.Sprintf("r%ds%dg%di%d", round, s.Index, s.Seed, i)
			doc := fmt.Sprintf("services:\n  web-%[1]s:\n    image: img\n    ports: [\"80%[2]d:80\", {target: 90, published: \"90%[2]d\"}]\n    volumes: [\"vol-%[1]s:/data\", \"./src:/src\"]\n    networks: [net-%[1]s]\n    secrets: [sec-%[1]s]\n    configs: [{source: cfg-%[1]s, target: /c}]\n    environment: [A=1, B]\n    depends_on: [db-%[1]s]\n    build: {context: ., args: [X=1]}\n    extra_hosts: [\"h=1.1.1.1\"]\n  db-%[1]s:\n    image: db\n    labels: {l: v}\n    deploy: {resources: {limits: {memory: 64M}}}\nnetworks:\n  net-%[1]s: {}\nvolumes:\n  vol-%[1]s: {driver: local}\nsecrets:\n  sec-%[1]s: {environment: S}\nconfigs:\n  cfg-%[1]s: {content: c}\nx-ext-%[1]s: {k: v}\n", tag, i)
			cases[i] = &ld.Case{Files: map[string]string{"compose.yaml": doc}, Dirs: []string{"src"}, ComposeFiles: []string{"compose.yaml"}, Env: map[string]string{"S": "s", "B": "b"}}
			dirs[i] = filepath.Join(base, fmt.Sprint(i))
			_ = os.MkdirAll(dirs[i], 0o755)
			if err := ld.Materialise(dirs[i], cases[i]); err != nil {
				s.Inconclusive("materialise: " + err.Error())
				runtime.GOMAXPROCS(old)
				return
			}
		}
		results := make([]loadResult, n)
		var wg sync.WaitGroup
		barrier := make(chan struct{})
		for i := 0; i < n; i++ {
			wg.Add(1)
			go func(i int) {
				defer wg.Done()
				<-barrier
				results[i] = doLoad(dirs[i], cases[i])
			}(i)
		}
		close(barrier)
		wg.Wait()
		runtime.GOMAXPROCS(old)
		s.Eval(2 * n)
		s.Add("fresh_name_loads", n)
		for i := 0; i < n; i++ {
			solo := doLoad(dirs[i], cases[i])
			files := map[string]any{"case.json": map[string]any{"part": 4, "doc": cases[i].Files["compose.yaml"]}}
			switch {
			case results[i].panic != nil:
				ld.PanicViolation(s, results[i].panic, cases[i], map[string]string{"part": "fresh-names"})
			case results[i].digest != solo.digest:
				s.Violation(map[string]string{"kind": "concurrent-differs", "part": "fresh-names"},
					fmt.Sprintf("a document with never-seen names loaded concurrently with 7 others gives %s %s, alone it gives %s %s", results[i].digest, results[i].errMsg, solo.digest, solo.errMsg), files)
			}
		}
		s.Cover("concurrent-loads", "documents with names never seen by the process")
		s.Nontrivial("fresh-names", fmt.Sprint(round))
	}
}
