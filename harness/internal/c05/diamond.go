package c05

import (
	"fmt"
	"strings"

	"verif/harness/internal/ld"
)

// diamond builds hand-shaped cases in which two (or three) services extend the same
// intermediate base and each appends to the same inherited sequence: what one sibling adds
// must never show up in the other, whatever order the services are visited in. The shape
// (base <- mid (+1 element) <- {left, right}) is the one where a result that aliases the
// base's sequence instead of copying it becomes visible.
func diamond(i int) *Case {
	attrs := []struct{ name, field string }{
		{"dns", "DNS"}, {"dns_search", "DNSSearch"}, {"cap_add", "CapAdd"}, {"security_opt", "SecurityOpt"},
		{"group_add", "GroupAdd"}, {"tmpfs", "Tmpfs"}, {"expose", "Expose"},
	}
	at := attrs[i%len(attrs)]
	baseLen := []int{1, 3, 5, 6, 7}[(i/len(attrs))%5]
	otherFile := (i/35)%2 == 1
	skipInterp := (i/70)%2 == 1
	sibs := []string{"left", "right"}
	if i%3 == 0 {
		sibs = append(sibs, "third")
	}
	val := func(tag string, k int) string {
		if at.name == "expose" {
			return fmt.Sprint(8000 + k + len(tag)*100)
		}
		return fmt.Sprintf("%s-%d.example", tag, k)
	}
	list := func(tag string, n int) []string {
		var out []string
		for k := 0; k < n; k++ {
			out = append(out, val(tag, k))
		}
		return out
	}
	yl := func(xs []string) string { return "[" + "\"" + strings.Join(xs, "\", \"") + "\"]" }
	baseVals := list("base", baseLen)
	midVals := list("mid", 1)
	var flat, main, basef strings.Builder
	flat.WriteString("services:\n")
	fmt.Fprintf(&flat, "  base:\n    image: img\n    %s: %s\n", at.name, yl(baseVals))
	fmt.Fprintf(&flat, "  mid:\n    image: img\n    %s: %s\n", at.name, yl(append(append([]string{}, baseVals...), midVals...)))
	for _, sname := range sibs {
		own := list(sname, 1)
		all := append(append(append([]string{}, baseVals...), midVals...), own...)
		fmt.Fprintf(&flat, "  %s:\n    image: img\n    %s: %s\n", sname, at.name, yl(all))
	}
	baseDoc := fmt.Sprintf("  base:\n    image: img\n    %s: %s\n  mid:\n    extends: base\n    %s: %s\n", at.name, yl(baseVals), at.name, yl(midVals))
	main.WriteString("services:\n")
	ext := "    extends: mid\n"
	if otherFile {
		basef.WriteString("services:\n" + baseDoc)
		ext = "    extends: {file: base.yaml, service: mid}\n"
		// the flat document has no base/mid services in this layout
		flat.Reset()
		flat.WriteString("services:\n")
		for _, sname := range sibs {
			own := list(sname, 1)
			all := append(append(append([]string{}, baseVals...), midVals...), own...)
			fmt.Fprintf(&flat, "  %s:\n    image: img\n    %s: %s\n", sname, at.name, yl(all))
		}
	} else {
		main.WriteString(baseDoc)
	}
	for _, sname := range sibs {
		fmt.Fprintf(&main, "  %s:\n%s    %s: %s\n", sname, ext, at.name, yl(list(sname, 1)))
	}
	opts := ld.Opts{SkipInterpolation: skipInterp}
	c := &Case{Kind: "equivalence", Service: "left", Shape: "diamond/" + map[bool]string{false: "same-file", true: "other-file"}[otherFile], Chain: 2, Repeat: 8, Input: "plain"}
	c.Flat = ld.Case{Files: map[string]string{"proj/compose.yaml": flat.String()}, ComposeFiles: []string{"proj/compose.yaml"}, WorkingDir: "proj", Opts: opts}
	c.Ext = ld.Case{Files: map[string]string{"proj/compose.yaml": main.String()}, ComposeFiles: []string{"proj/compose.yaml"}, WorkingDir: "proj", Opts: opts}
	if otherFile {
		c.Ext.Files["proj/base.yaml"] = basef.String()
	}
	return c
}
