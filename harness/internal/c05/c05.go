// Package c05 checks property C05: a service that extends another equals the
// base's fully resolved definition with its own attributes applied on top by
// the override rules; no `extends` remains; chains are transitive and
// order-independent; inherited relative paths are anchored at the base file's
// directory; missing bases/files and cycles are errors.
//
// Metamorphic monitor on top of the decomposition engine: a flat target
// service T is split into k+1 parts (the C04 inverse rules); the parts become
// the chain Bk <- ... <- B1 <- L spread over files and directories. The flat
// document (T in place of L, inherited relative paths written as the absolute
// path under the directory of the file that carried them) is the oracle.
package c05

import (
	"encoding/json"
	"fmt"
	"os"
	"path/filepath"
	"regexp"
	"sort"
	"strconv"
	"strings"

	"verif/harness/internal/core"
	"verif/harness/internal/decomp"
	"verif/harness/internal/diff"
	"verif/harness/internal/ld"
)

func init() {
	core.Register(&core.Spec{
		ID:    "C05",
		Level: "exploration",
		Rule: "seeded target services from the decomposition engine's catalogue, split into chains of 1..4 bases (same file, other file in the same directory, in a sub-directory, in a sibling directory, mixed; short and long `extends`; names reused across files; a second extender sharing the bases in 30% of the cases; !reset/!override in extending members); " +
			"every distributed project is loaded 3x (5x thorough) and each result compared with the project loaded from the flat document; plus cyclic chains of length 1..4 within and across files, missing base services and missing base files, which must fail. " +
			"A positive case is non-trivial when >= 1 attribute is mentioned by >= 2 chain members and both sides load; distinct = distinct distributed inputs.",
		Assumptions: []string{
			"the flat document's load is the oracle for the chain (it involves no extends)",
			"`extends.file` is written relative to the directory of the file that contains it; the main compose file sits in the project directory, so 'relative to the file' and 'relative to the project directory' agree for it",
			"the merge-rule intersection discipline of C04 applies to the parts; attributes with a C04 finding (build.ssh) are carried by one chain member only",
			"base services living in the main file are real services of the project: the generator keeps every intermediate definition consistent (image in the deepest base, no attribute pairs that C10 rules out)",
		},
		Exhaustive: func(string) bool { return false },
		Run:        run,
		Replay:     replay,
		Witness:    witness,
		Floor:      floor,
	})
}

const rootMark = "@@ROOT@@"

// Case is the replayable form.
type Case struct {
	Kind    string   `json:"kind"` // equivalence | cycle | missing-service | missing-file
	Flat    ld.Case  `json:"flat"`
	Ext     ld.Case  `json:"ext"`
	Service string   `json:"service"`
	Shape   string   `json:"shape,omitempty"`
	Chain   int      `json:"chain,omitempty"`
	Unord   []string `json:"unordered,omitempty"`
	Repeat  int      `json:"repeat,omitempty"`
	// Input names the distinguishing shape of the input (stable violation attribute).
	Input string `json:"input,omitempty"`
}

type member struct {
	name string
	file int // index into files
}

type fileSpec struct {
	path string // relative to the case root
	dir  string
}

var fileChoices = []fileSpec{
	{"proj/compose.yaml", "proj"},
	{"proj/base.yaml", "proj"},
	{"proj/sub/base.yaml", "proj/sub"},
	{"shared/base.yaml", "shared"},
	{"shared/deep/more.yaml", "shared/deep"},
	{"proj/sub/inner/leaf.yaml", "proj/sub/inner"},
}

var safeExtras = []string{"hostname", "domainname", "user", "working_dir", "stop_signal", "labels", "annotations", "cap_add", "dns_opt", "sysctls", "security_opt", "stop_grace_period", "tty", "read_only", "extra_hosts", "devices"}

// noPlant: attributes never planted as garbage-then-reset on a chain (a base
// living in the main file must stay a consistent service by itself).
var noPlant = map[string]bool{"network_mode": true, "networks": true, "scale": true, "deploy": true, "container_name": true,
	"cpus": true, "mem_limit": true, "mem_reservation": true, "pids_limit": true, "platform": true, "build": true, "depends_on": true, "links": true, "profiles": true}

func fixForChain(t *decomp.Val) {
	if t.Sub["deploy"] != nil {
		for _, k := range []string{"cpus", "mem_limit", "mem_reservation", "pids_limit", "scale", "container_name"} {
			t.Del(k)
		}
	}
	if t.Sub["scale"] != nil {
		t.Del("container_name")
	}
	if t.Sub["build"] != nil {
		t.Del("platform")
	}
	// a base in the main file is enabled/disabled by its own profiles: keep profiles out of chains
	t.Del("profiles")
}

func relTo(fromDir, toPath string) string {
	r, err := filepath.Rel(fromDir, toPath)
	if err != nil {
		return toPath
	}
	if !strings.HasPrefix(r, ".") {
		if len(r)%2 == 0 {
			r = "./" + r
		}
	}
	return r
}

func withExtends(part *decomp.Val, ext any, pos int) decomp.OM {
	var om decomp.OM
	if part != nil {
		c := *part
		c.Sp &^= 1 // mapping spelling of the service itself
		if m, ok := c.Render().(decomp.OM); ok {
			om = m
		}
	}
	if ext == nil {
		return om
	}
	if len(om) == 0 {
		return decomp.OM{{K: "extends", V: ext}}
	}
	pos %= len(om) + 1
	out := append(decomp.OM{}, om[:pos]...)
	out = append(out, decomp.KVp{K: "extends", V: ext})
	return append(out, om[pos:]...)
}

func build(s *core.Shard, i int) *Case {
	r := s.Rand(fmt.Sprintf("case/%d", i))
	g := decomp.NewG(r)
	g.NoPlant = noPlant
	c := &Case{Kind: "equivalence", Repeat: s.Pick(3, 5)}
	o := decomp.ModelOpts{MinResources: 1, Services: 2 + r.Intn(2)}
	o.Density = 0.06 + 0.1*r.Float64()
	if i%2 == 0 {
		o.Force = []string{chainFocus[(i/2)%len(chainFocus)]}
		o.Density = 0.04
	}
	root := g.Model(o)
	svcs := root.Sub["services"]
	lname := svcs.Keys[len(svcs.Keys)-1]
	c.Service = lname
	t := svcs.Sub[lname]
	fixForChain(t)
	g.SvcIdx = len(g.Services) - 1

	k := 1 + r.Intn(4)
	c.Chain = k
	e := decomp.NewEngine(g)
	e.Single = map[*decomp.Attr]bool{decomp.Lookup(decomp.ServiceAttr, "build.ssh"): true}
	// attributes with a recorded finding (FINDINGS.md) are split over chain
	// members only when they are the focus of the case or in one case of eight
	for _, q := range []string{"depends_on", "ports"} {
		if !(len(o.Force) == 1 && o.Force[0] == q) && i%8 != 5 {
			e.Single[decomp.Lookup(decomp.ServiceAttr, q)] = true
		}
	}
	if r.Intn(2) == 0 {
		e.PTag, e.PResetAbsent = 0, 0
	}
	parts := e.Decompose(t, decomp.ServiceAttr, k+1)
	// the deepest base carries an image (a base in the main file is a service of the project)
	if parts[0] == nil {
		parts[0] = &decomp.Val{A: decomp.ServiceAttr}
	}
	if parts[0].Sub["image"] == nil {
		parts[0].Set("image", decomp.ServiceAttr.Field("image").Gen(g))
	}

	// placement of the members: index k = L (main file), k-1 .. 0 = bases
	shape := []string{"same-file", "other-file", "other-dir", "mixed"}[r.Intn(4)]
	c.Shape = shape
	mem := make([]member, k+1)
	mem[k] = member{name: lname, file: 0}
	cur := 0
	used := map[int]map[string]bool{0: {}}
	for _, n := range svcs.Keys {
		used[0][n] = true
	}
	reuse := i%7 == 3 // names reused across files in one case of seven (see FINDINGS.md #1, #2)
	for j := k - 1; j >= 0; j-- {
		switch shape {
		case "same-file":
		case "other-file":
			cur = 1
		case "other-dir":
			if cur == 0 {
				cur = 2 + r.Intn(3)
			} else if r.Intn(3) == 0 && cur < len(fileChoices)-1 {
				cur++
			}
		case "mixed":
			if r.Intn(2) == 0 && cur < len(fileChoices)-1 {
				cur += 1 + r.Intn(len(fileChoices)-1-cur)
			}
		}
		if used[cur] == nil {
			used[cur] = map[string]bool{}
		}
		name := fmt.Sprintf("base%d", j)
		if reuse && cur != 0 && !used[cur][lname] && r.Intn(2) == 0 {
			name = lname // the usual `extends: {file: common.yaml, service: <same name>}`
		}
		used[cur][name] = true
		mem[j] = member{name: name, file: cur}
	}

	// distinguishing input shapes: the extender's name is also the name of a base
	// in another file; and, on top of that, one of the services bearing that name
	// (the extender itself included) carries a !reset / !override
	c.Input = "plain"
	shared := false
	for j := 0; j < k; j++ {
		if mem[j].name == lname {
			shared = true
		}
	}
	if shared {
		c.Input = "base-named-like-extender"
		for j := 0; j <= k; j++ {
			if mem[j].name != lname || parts[j] == nil {
				continue
			}
			parts[j].Walk("", func(_ string, x *decomp.Val) {
				if x.Tag != "" {
					c.Input = "tagged-base-named-like-extender"
				}
			})
		}
	}

	// path tokens: anchored at the directory of the file that carries their last mention
	tokenDir := map[string]string{}
	for j := 0; j <= k; j++ {
		if parts[j] == nil {
			continue
		}
		d := fileChoices[mem[j].file].dir
		parts[j].RawLeaves(func(raw any) {
			for _, tok := range decomp.Tokens(raw) {
				tokenDir[tok] = d
			}
		})
	}
	anchor := func(s string) string {
		return decomp.PathToken.ReplaceAllStringFunc(s, func(tok string) string {
			if d, ok := tokenDir[tok]; ok && d != "proj" {
				return rootMark + "/" + d + "/" + strings.TrimPrefix(tok, "./")
			}
			return tok
		})
	}

	// second extender sharing the bases: L's own part plus attributes T lacks
	var l2part, t2 *decomp.Val
	l2name := "second"
	if r.Intn(10) < 3 {
		l2part = &decomp.Val{A: decomp.ServiceAttr}
		if parts[k] != nil {
			l2part = parts[k].Clone()
		}
		t2 = t.Clone()
		mentioned := map[string]bool{}
		for _, p := range parts {
			if p != nil {
				for _, key := range p.Keys {
					mentioned[key] = true
				}
			}
		}
		for _, name := range safeExtras {
			if mentioned[name] || t.Sub[name] != nil || r.Intn(3) != 0 {
				continue
			}
			v := decomp.ServiceAttr.Field(name).Gen(g)
			if v == nil {
				continue
			}
			v.Reseed(r)
			l2part.Set(name, v)
			t2.Set(name, v.Clone())
		}
	}

	files := map[int]decomp.OM{} // file index -> services mapping
	extRef := func(j int) any {  // how member j refers to its base j-1
		b := mem[j-1]
		if b.file == mem[j].file {
			if r.Intn(2) == 0 {
				return b.name
			}
			return decomp.OM{{K: "service", V: b.name}}
		}
		rel := relTo(fileChoices[mem[j].file].dir, fileChoices[b.file].path)
		if r.Intn(2) == 0 {
			return decomp.OM{{K: "file", V: rel}, {K: "service", V: b.name}}
		}
		return decomp.OM{{K: "service", V: b.name}, {K: "file", V: rel}}
	}
	for j := 0; j <= k; j++ {
		var ext any
		if j > 0 {
			ext = extRef(j)
		}
		def := withExtends(parts[j], ext, r.Intn(8))
		if j == 0 && len(def) == 0 {
			def = decomp.OM{}
		}
		files[mem[j].file] = append(files[mem[j].file], decomp.KVp{K: mem[j].name, V: def})
	}
	if l2part != nil {
		files[0] = append(files[0], decomp.KVp{K: l2name, V: withExtends(l2part, extRef(k), r.Intn(8))})
	}
	// a member spells `build` in its short form and a later member carries a tag *inside* build
	// (`build: {context: !reset …}`): recorded finding (the tag path finds no mapping to act on)
	shortBuildAt := -1
	for j := 0; j <= k; j++ {
		if parts[j] == nil || parts[j].Sub["build"] == nil {
			continue
		}
		b := parts[j].Sub["build"]
		if shortBuildAt >= 0 {
			for _, sub := range b.Sub {
				if sub != nil && sub.Tag != "" {
					c.Input = "tag-inside-build-over-a-short-form-build"
				}
			}
		}
		if _, isString := b.Render().(string); isString {
			shortBuildAt = j
		}
	}

	// main documents: the model with L (and the second extender) replaced
	mainDoc := func(flat bool) string {
		m := root.Clone()
		ms := m.Sub["services"]
		ms.Del(lname)
		raw := m.Render().(decomp.OM)
		var svcOM decomp.OM
		for idx, e := range raw {
			if e.K == "services" {
				svcOM, _ = e.V.(decomp.OM)
				raw = append(raw[:idx:idx], raw[idx+1:]...)
				break
			}
		}
		var own decomp.OM
		for _, e := range files[0] {
			switch {
			case flat && e.K == lname:
				tf := t.Clone()
				tf.MapStrings(anchor)
				tf.Reseed(r)
				own = append(own, decomp.KVp{K: lname, V: tf.Render()})
			case flat && e.K == l2name && t2 != nil:
				tf := t2.Clone()
				tf.MapStrings(anchor)
				tf.Reseed(r)
				own = append(own, decomp.KVp{K: l2name, V: tf.Render()})
			default:
				own = append(own, e)
			}
		}
		// declaration order of the services is shuffled (visit order is random anyway)
		all := append(append(decomp.OM{}, svcOM...), own...)
		r.Shuffle(len(all), func(a, b int) { all[a], all[b] = all[b], all[a] })
		raw = append(raw, decomp.KVp{K: "services", V: all})
		return decomp.Marshal(raw)
	}
	common := map[string]string{}
	for tok, content := range g.Files {
		base := strings.TrimPrefix(tok, "./")
		d := "proj"
		if m := decomp.PathToken.FindString(tok); m != "" {
			if td, ok := tokenDir[m]; ok {
				d = td
			}
		}
		common[d+"/"+base] = content
	}
	for fi, svcsOM := range files {
		if fi == 0 {
			continue
		}
		doc := decomp.OM{{K: "services", V: svcsOM}}
		common[fileChoices[fi].path] = decomp.Marshal(doc)
	}
	opts := ld.Opts{Profiles: []string{"*"}}
	// render both mains from identical PRNG states so that unrelated services are spelled identically
	c.Ext = ld.Case{Files: merge(common, map[string]string{"proj/compose.yaml": mainDoc(false)}), ComposeFiles: []string{"proj/compose.yaml"}, WorkingDir: "proj", Opts: opts}
	c.Flat = ld.Case{Files: merge(common, map[string]string{"proj/compose.yaml": mainDoc(true)}), ComposeFiles: []string{"proj/compose.yaml"}, WorkingDir: "proj", Opts: opts}
	for f := range e.Unordered {
		c.Unord = append(c.Unord, f)
	}
	sort.Strings(c.Unord)
	if e.Touched == 0 {
		c.Shape += "/trivial"
	}

	// negative variants
	switch {
	case i%10 == 7:
		negCycle(c, r.Intn(4), mem, k, files, common, root, lname)
	case i%10 == 8:
		negMissing(c, r.Intn(2) == 0, mem, k)
	}
	return c
}

func merge(a, b map[string]string) map[string]string {
	out := make(map[string]string, len(a)+len(b))
	for k, v := range a {
		out[k] = v
	}
	for k, v := range b {
		out[k] = v
	}
	return out
}

// negCycle closes the chain: the deepest base extends a member further up.
func negCycle(c *Case, pick int, mem []member, k int, files map[int]decomp.OM, common map[string]string, root *decomp.Val, lname string) {
	c.Kind = "cycle"
	target := k - pick%(k+1) // member the deepest base will extend: k (=L) .. 0 (itself)
	if target < 0 {
		target = 0
	}
	c.Chain = target + 1 // cycle length
	b0, tm := mem[0], mem[target]
	var ext any
	if tm.file == b0.file {
		ext = tm.name
	} else {
		ext = decomp.OM{{K: "file", V: relTo(fileChoices[b0.file].dir, fileChoices[tm.file].path)}, {K: "service", V: tm.name}}
	}
	// rewrite the file holding the deepest base (text-level: re-render from the recorded OM)
	svcsOM := files[b0.file]
	out := make(decomp.OM, len(svcsOM))
	copy(out, svcsOM)
	for idx, e := range out {
		if e.K == b0.name {
			def, _ := e.V.(decomp.OM)
			nd := append(decomp.OM{}, def...)
			nd = append(nd, decomp.KVp{K: "extends", V: ext})
			out[idx] = decomp.KVp{K: e.K, V: nd}
			break
		}
	}
	if b0.file == 0 {
		// re-render the main file with the modified base
		m := root.Clone()
		m.Sub["services"].Del(lname)
		raw := m.Render().(decomp.OM)
		for idx, e := range raw {
			if e.K == "services" {
				so, _ := e.V.(decomp.OM)
				raw[idx] = decomp.KVp{K: "services", V: append(append(decomp.OM{}, so...), out...)}
			}
		}
		c.Ext.Files["proj/compose.yaml"] = decomp.Marshal(raw)
	} else {
		c.Ext.Files[fileChoices[b0.file].path] = decomp.Marshal(decomp.OM{{K: "services", V: out}})
	}
}

var reExtSvc = regexp.MustCompile(`(?m)^(\s+)(extends: |service: )(base0)$`)

// negMissing points the reference to the deepest base at a service / file that does not exist.
func negMissing(c *Case, service bool, mem []member, k int) {
	holder := fileChoices[mem[1].file].path // the file of the member that extends base 0
	doc := c.Ext.Files[holder]
	if service || mem[1].file == mem[0].file {
		c.Kind = "missing-service"
		if mem[0].name != "base0" {
			c.Kind = "skip"
			return
		}
		n := reExtSvc.ReplaceAllString(doc, "${1}${2}nosuch0")
		if n == doc {
			c.Kind = "skip"
			return
		}
		c.Ext.Files[holder] = n
		return
	}
	c.Kind = "missing-file"
	delete(c.Ext.Files, fileChoices[mem[0].file].path)
	// the file may hold other members too: then it is still a missing file for them, which is fine
}

var (
	reDotted = regexp.MustCompile(`eu\.west\.svc-[a-z]|svc\.[a-z]`) // generated service names containing dots
	reDigits = regexp.MustCompile(`[0-9]+`)
	reQuoted = regexp.MustCompile(`"[^"]*"`)
	reNames  = regexp.MustCompile(`\b(svc-[a-z]|base[0-9]|second|net[0-9]|vol[0-9]|sec[0-9]|cfg[0-9])\b`)
	rePaths  = regexp.MustCompile(`/[^ :]*\.yaml`)
)

func errClass(root string, err error) string {
	m := strings.ReplaceAll(err.Error(), root, "")
	m = reDotted.ReplaceAllString(m, "svc-z")
	if i := strings.Index(m, "\n"); i > 0 {
		m = m[:i] // first line only (cycle reports list the whole chain)
	}
	m = rePaths.ReplaceAllString(m, "<file>")
	m = reQuoted.ReplaceAllString(m, `"_"`)
	m = reNames.ReplaceAllString(m, "_")
	m = reDigits.ReplaceAllString(m, "N")
	if len(m) > 160 {
		m = m[:160]
	}
	return m
}

func subst(c ld.Case, root string) ld.Case {
	out := c
	out.Files = make(map[string]string, len(c.Files))
	for k, v := range c.Files {
		out.Files[k] = strings.ReplaceAll(v, rootMark, root)
	}
	return out
}

// judge runs one case. Returns whether a positive case was fully evaluated.
func judge(s *core.Shard, c *Case) bool {
	work := s.Scratch()
	root := filepath.Join(work, "case")
	files := map[string]any{"case.json": c}
	ext := subst(c.Ext, root)
	if c.Kind != "equivalence" {
		_, er := ld.Run(work, &ext)
		s.Eval(1)
		if er.Panic != nil {
			ld.PanicViolation(s, er.Panic, &ext, map[string]string{"case": c.Kind})
			return false
		}
		s.Add("negative_"+c.Kind, 1)
		if er.Err == nil {
			s.Violation(map[string]string{"kind": c.Kind + "-accepted", "shape": strings.TrimSuffix(c.Shape, "/trivial")},
				fmt.Sprintf("%s (length/chain %d, placement %s) loaded without error", c.Kind, c.Chain, c.Shape), files)
		}
		return false
	}
	flat := subst(c.Flat, root)
	_, fr := ld.Run(work, &flat)
	s.Eval(1)
	if fr.Panic != nil {
		ld.PanicViolation(s, fr.Panic, &flat, map[string]string{"side": "flat"})
		return false
	}
	if fr.Err != nil {
		s.Add("flat_load_error", 1)
		s.Cover("flat-load-error", errClass(root, fr.Err))
		return false
	}
	s.Add("flat_loaded", 1)
	o := diff.Default()
	o.IgnoreField["ComposeFiles"] = true
	for _, f := range c.Unord {
		o.UnorderedField[f] = true
	}
	rep := c.Repeat
	if rep == 0 {
		rep = 3
	}
	for n := 0; n < rep; n++ {
		_, er := ld.Run(work, &ext)
		s.Eval(1)
		if er.Panic != nil {
			ld.PanicViolation(s, er.Panic, &ext, map[string]string{"side": "extends"})
			return false
		}
		if er.Err != nil {
			s.Violation(map[string]string{"kind": "chain-load-failed", "error": errClass(root, er.Err), "input": c.Input},
				fmt.Sprintf("the flat document loads, the same service as an extends chain of %d bases (%s) fails: %v", c.Chain, c.Shape, er.Err), files)
			return false
		}
		for name, svc := range er.Project.Services {
			if svc.Extends != nil {
				s.Violation(map[string]string{"kind": "extends-remains"}, fmt.Sprintf("service %s still carries extends=%v after loading", name, *svc.Extends), files)
				return false
			}
		}
		if d := diff.Compare(fr.Project, er.Project, o); d != "" {
			p := diff.PathOf(d)
			s.Violation(map[string]string{"kind": "chain-differs", "path": p, "input": c.Input},
				fmt.Sprintf("service %q as a chain of %d bases (%s) differs from the flat definition (flat vs chain, load #%d): %s", c.Service, c.Chain, c.Shape, n+1, d), files)
			return false
		}
	}
	return true
}

var chainFocus []string

func init() {
	skip := map[string]bool{"image": true, "profiles": true, "container_name": true, "scale": true, "platform": true, "cpus": true, "mem_limit": true, "mem_reservation": true, "pids_limit": true, "network_mode": true}
	for _, p := range decomp.AttrPaths(decomp.ServiceAttr) {
		if !skip[p] {
			chainFocus = append(chainFocus, p)
		}
	}
}

func run(s *core.Shard) {
	n := s.Pick(5000, 80000)
	if v := os.Getenv("VERIF_DEBUG"); strings.HasPrefix(v, "n=") { // development aid only: smaller case list
		if k, err := strconv.Atoi(v[2:]); err == nil {
			n = k
		}
	}
	for i := 0; i < 7; i++ {
		if !s.Mine(n + 160 + i) {
			continue
		}
		if !s.Begin(fmt.Sprintf("dollar-or-label/%d", i)) {
			continue
		}
		var c *Case
		if i < 4 {
			c = dollarBase(i)
		} else {
			c = labelledMain(i - 4)
		}
		if judge(s, c) {
			s.Cover("placement", c.Shape)
			s.Nontrivial(c.Ext.Key())
		}
	}
	for i := 0; i < 2; i++ {
		if !s.Mine(n + 158 + i) {
			continue
		}
		if !s.Begin(fmt.Sprintf("null-base/%d", i)) {
			continue
		}
		c := nullBase(i)
		if judge(s, c) {
			s.Cover("placement", c.Shape)
			s.Nontrivial(c.Ext.Key())
		}
	}
	for i := 0; i < 6; i++ {
		if !s.Mine(n + 152 + i) {
			continue
		}
		if !s.Begin(fmt.Sprintf("repeated-entry/%d", i)) {
			continue
		}
		c := repeated(i)
		if judge(s, c) {
			s.Cover("placement", c.Shape)
			s.Nontrivial(c.Ext.Key())
		}
	}
	for i := 0; i < 12; i++ {
		if !s.Mine(n + 140 + i) {
			continue
		}
		if !s.Begin(fmt.Sprintf("spelled-path/%d", i)) {
			continue
		}
		c := spelled(i)
		if judge(s, c) {
			s.Cover("placement", c.Shape)
			s.Nontrivial(c.Ext.Key())
		}
	}
	for i := 0; i < 140; i++ {
		if !s.Mine(n + i) {
			continue
		}
		if !s.Begin(fmt.Sprintf("diamond/%d", i)) {
			continue
		}
		c := diamond(i)
		if judge(s, c) {
			s.Cover("placement", c.Shape)
			s.Nontrivial(c.Ext.Key())
		}
	}
	for i := 0; i < n; i++ {
		if !s.Mine(i) {
			continue
		}
		if !s.Begin(fmt.Sprintf("case/%d", i)) {
			continue
		}
		c := build(s, i)
		if c.Kind == "skip" {
			continue
		}
		ok := judge(s, c)
		if c.Kind != "equivalence" {
			s.Cover("negative", fmt.Sprintf("%s/len%d/%s", c.Kind, c.Chain, strings.TrimSuffix(c.Shape, "/trivial")))
			s.Nontrivial(c.Ext.Key())
			continue
		}
		if !ok {
			continue
		}
		s.Cover("placement", strings.TrimSuffix(c.Shape, "/trivial"))
		s.Cover("chain-length", fmt.Sprint(c.Chain))
		if !strings.HasSuffix(c.Shape, "/trivial") {
			s.Nontrivial(c.Ext.Key())
			s.Add("nontrivial", 1)
		}
		if s.WantSample() && len(c.Ext.Key()) < 1800 && !strings.HasSuffix(c.Shape, "/trivial") {
			s.Sample(map[string]any{"shape": c.Shape, "chain": c.Chain, "flat": c.Flat.Files["proj/compose.yaml"], "ext": c.Ext.Files})
		}
	}
}

func replay(s *core.Shard, dir string) {
	var c Case
	if err := core.ReadJSON(filepath.Join(dir, "case.json"), &c); err != nil {
		s.Inconclusive("replay: " + err.Error())
		return
	}
	judge(s, &c)
}

func witness(s *core.Shard, f core.Finding) (bool, string) {
	var c Case
	if err := json.Unmarshal(f.Witness, &c); err != nil {
		return false, "witness unreadable: " + err.Error()
	}
	work := s.Scratch()
	root := filepath.Join(work, "case")
	ext := subst(c.Ext, root)
	if c.Kind != "equivalence" {
		_, er := ld.Run(work, &ext)
		return er.Err == nil && er.Panic == nil, fmt.Sprintf("err=%v", er.Err)
	}
	flat := subst(c.Flat, root)
	_, fr := ld.Run(work, &flat)
	if fr.Err != nil || fr.Panic != nil {
		return false, fmt.Sprintf("flat no longer loads: %v", fr.Err)
	}
	o := diff.Default()
	o.IgnoreField["ComposeFiles"] = true
	for _, u := range c.Unord {
		o.UnorderedField[u] = true
	}
	for n := 0; n < 12; n++ {
		_, er := ld.Run(work, &ext)
		if er.Panic != nil {
			return true, "chain panics: " + er.Panic.Value
		}
		if er.Err != nil {
			return true, "chain fails: " + er.Err.Error()
		}
		if d := diff.Compare(fr.Project, er.Project, o); d != "" {
			return true, d
		}
	}
	return false, "chain and flat load to equal projects"
}

func floor(tier string, m *core.Merged) []string {
	var r []string
	min := int64(1000)
	if tier == "thorough" {
		min = 15000
	}
	if m.Counters["nontrivial"] < min {
		r = append(r, fmt.Sprintf("too few non-trivial chains: %d", m.Counters["nontrivial"]))
	}
	if m.Counters["flat_load_error"]*10 > m.Counters["flat_loaded"] {
		r = append(r, fmt.Sprintf("generator produced too many invalid flat documents: %d vs %d loaded", m.Counters["flat_load_error"], m.Counters["flat_loaded"]))
	}
	for _, p := range []string{"same-file", "other-file", "other-dir", "mixed"} {
		if m.Cover["placement"][p] == 0 {
			r = append(r, "placement never exercised: "+p)
		}
	}
	for _, l := range []string{"1", "2", "3", "4"} {
		if m.Cover["chain-length"][l] == 0 {
			r = append(r, "chain length never exercised: "+l)
		}
	}
	for _, k := range []string{"negative_cycle", "negative_missing-service", "negative_missing-file"} {
		if m.Counters[k] < 20 {
			r = append(r, fmt.Sprintf("too few negative cases %s: %d", k, m.Counters[k]))
		}
	}
	return r
}
