package c05

import (
	"path"

	"verif/harness/internal/ld"
)

// spelled builds hand-shaped cases for "relative paths inherited from a base in another file
// resolve against that file's directory", whatever the spelling of the relative path: `./x`, `x`,
// `app/x` inside directory app (so: app/app/x), `../app/x`, `sub/../x`. A decoy with other content
// sits where a resolution against the extending file's directory would look.
func spelled(i int) *Case {
	spellings := []string{"./", "", "app/", "../app/", "sub/../", "app/../"}
	sp := spellings[i%len(spellings)]
	nested := (i/len(spellings))%2 == 1 // the base itself extends a service of a file named with the same spelling
	dir := "proj/app"
	abs := func(rel string) string { return rootMark + "/" + path.Join(dir, sp+rel) }
	at := func(rel string) string { return path.Join(dir, sp+rel) } // file location, case-root relative
	base := "services:\n  base:\n    image: img\n" +
		"    build:\n      context: " + sp + "ctx\n      additional_contexts:\n        extra: " + sp + "actx\n" +
		"    env_file:\n      - " + sp + "vars.env\n    label_file:\n      - " + sp + "labels.txt\n" +
		"    develop:\n      watch:\n        - {path: " + sp + "src, action: rebuild}\n"
	flat := "services:\n  web:\n    image: img\n" +
		"    build:\n      context: " + abs("ctx") + "\n      additional_contexts:\n        extra: " + abs("actx") + "\n" +
		"    env_file:\n      - " + abs("vars.env") + "\n    label_file:\n      - " + abs("labels.txt") + "\n" +
		"    develop:\n      watch:\n        - {path: " + abs("src") + ", action: rebuild}\n"
	files := map[string]string{
		"proj/compose.yaml": "services:\n  web:\n    extends: {file: app/base.yml, service: base}\n",
		at("vars.env"):      "V=right\n", at("labels.txt"): "l=right\n",
	}
	dirs := []string{at("ctx"), at("actx"), at("src"), "proj/app/sub"}
	// decoys: where the same text would lead from the project directory or from app/ itself
	for _, decoy := range []string{path.Join("proj", sp+"vars.env"), "proj/app/vars.env", "proj/vars.env"} {
		if _, taken := files[decoy]; !taken {
			files[decoy] = "V=wrong\n"
		}
	}
	for _, decoy := range []string{path.Join("proj", sp+"labels.txt"), "proj/app/labels.txt", "proj/labels.txt"} {
		if _, taken := files[decoy]; !taken {
			files[decoy] = "l=wrong\n"
		}
	}
	if nested {
		base = "services:\n  base:\n    extends: {file: " + sp + "root.yml, service: root}\n" + base[len("services:\n  base:\n    image: img\n"):]
		files[at("root.yml")] = "services:\n  root:\n    image: img\n    hostname: right-root\n"
		for _, decoy := range []string{path.Join("proj", sp+"root.yml"), "proj/app/root.yml", "proj/root.yml"} {
			if _, taken := files[decoy]; !taken {
				files[decoy] = "services:\n  root:\n    image: img\n    hostname: wrong-root\n"
			}
		}
		flat += "    hostname: right-root\n"
	}
	files["proj/app/base.yml"] = base
	c := &Case{Kind: "equivalence", Service: "web", Shape: "spelled-path/" + sp, Chain: 1, Repeat: 2, Input: "path spelled " + sp + "x in a base file of directory app"}
	if nested {
		c.Chain = 2
	}
	flatFiles := map[string]string{"proj/compose.yaml": flat}
	for k, v := range files {
		if k != "proj/compose.yaml" {
			flatFiles[k] = v
		}
	}
	c.Flat = ld.Case{Files: flatFiles, Dirs: dirs, ComposeFiles: []string{"proj/compose.yaml"}, WorkingDir: "proj"}
	c.Ext = ld.Case{Files: files, Dirs: dirs, ComposeFiles: []string{"proj/compose.yaml"}, WorkingDir: "proj"}
	return c
}

// repeated builds cases in which an intermediate base of the main file (web -> mid -> b, b in
// another file) repeats an entry its own base already has: the chain must load, and the same way,
// whatever order the services are visited in (mid is resolved once for itself and once for web).
func repeated(i int) *Case {
	type rc struct{ attr, base, mid, flat string }
	cases := []rc{
		{"extra_hosts", `["a=1.1.1.1"]`, `["a=1.1.1.1", "b=2.2.2.2"]`, `["a=1.1.1.1", "b=2.2.2.2"]`},
		{"extra_hosts", `["a=1.1.1.1", "c=3.3.3.3"]`, `{b: 2.2.2.2, a: 1.1.1.1}`, `["a=1.1.1.1", "c=3.3.3.3", "b=2.2.2.2"]`},
		{"extra_hosts", `{a: 1.1.1.1}`, `["b=2.2.2.2", "a=1.1.1.1", "d=4.4.4.4"]`, `["a=1.1.1.1", "b=2.2.2.2", "d=4.4.4.4"]`},
	}
	k := cases[i%len(cases)]
	third := (i/len(cases))%2 == 1 // a second extender of mid
	main := "services:\n  web:\n    extends: mid\n  mid:\n    extends: {file: other.yml, service: b}\n    " + k.attr + ": " + k.mid + "\n"
	flat := "services:\n  web:\n    image: b\n    " + k.attr + ": " + k.flat + "\n  mid:\n    image: b\n    " + k.attr + ": " + k.flat + "\n"
	if third {
		main += "  also:\n    extends: {service: mid}\n    labels: {x: \"1\"}\n"
		flat += "  also:\n    image: b\n    labels: {x: \"1\"}\n    " + k.attr + ": " + k.flat + "\n"
	}
	other := "services:\n  b:\n    image: b\n    " + k.attr + ": " + k.base + "\n"
	c := &Case{Kind: "equivalence", Service: "web", Shape: "repeated-entry/" + k.attr, Chain: 2, Repeat: 12, Input: "an intermediate base repeats an entry of its own base (other file)", Unord: []string{"ExtraHosts"}}
	c.Flat = ld.Case{Files: map[string]string{"proj/compose.yaml": flat}, ComposeFiles: []string{"proj/compose.yaml"}, WorkingDir: "proj"}
	c.Ext = ld.Case{Files: map[string]string{"proj/compose.yaml": main, "proj/other.yml": other}, ComposeFiles: []string{"proj/compose.yaml"}, WorkingDir: "proj"}
	return c
}

// nullBase: a base declared with an empty body (`base:` and nothing else), in the same or another
// file: there is nothing to inherit, and the extending service still carries no `extends` afterwards.
func nullBase(i int) *Case {
	other := true // (an empty body is not valid in a file loaded with validation on)
	chain := i%2 == 1 // web -> mid -> base(null)
	main := "services:\n  web:\n    image: a\n    extends: {service: base}\n  base:\n"
	files := map[string]string{}
	if chain {
		main = "services:\n  web:\n    image: a\n    extends: {service: mid}\n  mid:\n    extends: {service: base}\n    labels: {m: \"1\"}\n  base:\n"
	}
	flat := "services:\n  web:\n    image: a\n"
	if chain {
		flat = "services:\n  web:\n    image: a\n    labels: {m: \"1\"}\n"
	}
	if other {
		files["proj/b.yml"] = "services:\n  base:\n"
		main = "services:\n  web:\n    image: a\n    extends: {file: b.yml, service: base}\n"
		if chain {
			files["proj/b.yml"] = "services:\n  mid:\n    extends: {service: base}\n    labels: {m: \"1\"}\n  base:\n"
			main = "services:\n  web:\n    image: a\n    extends: {file: b.yml, service: mid}\n"
		}
	}
	c := &Case{Kind: "equivalence", Service: "web", Shape: "null-base/" + map[bool]string{false: "same-file", true: "other-file"}[other], Chain: 1, Repeat: 3, Input: "a base declared with an empty body"}
	if chain {
		c.Chain = 2
	}
	c.Flat = ld.Case{Files: map[string]string{"proj/compose.yaml": flat}, ComposeFiles: []string{"proj/compose.yaml"}, WorkingDir: "proj", Opts: ld.Opts{SkipConsistencyCheck: true}}
	files["proj/compose.yaml"] = main
	c.Ext = ld.Case{Files: files, ComposeFiles: []string{"proj/compose.yaml"}, WorkingDir: "proj", Opts: ld.Opts{SkipConsistencyCheck: true}}
	return c
}

// dollarBase: the resolved definition of a base may contain `$` (from the `$$` escape, or from a
// variable whose value holds one): it is inherited as it is, whether the base is in the same file
// or in another one, and whatever the extending file's own interpolation does afterwards.
func dollarBase(i int) *Case {
	other := i%2 == 1
	two := (i/2)%2 == 1 // web -> mid -> base
	attrs := "    command: [\"echo\", \"$${TAG}\", \"$$HOME\"]\n    environment:\n      E: \"$$VAR and ${V}\"\n    labels:\n      l: \"${V}\"\n      m: \"cost $$5\"\n"
	base := "  base:\n    image: img\n" + attrs
	flat := "services:\n  web:\n    image: img\n" + attrs
	env := map[string]string{"TAG": "1.0", "VAR": "x", "V": "pa$TAGss ${TAG}", "HOME": "/home/u"}
	files := map[string]string{}
	var main string
	switch {
	case other && two:
		files["proj/lib/base.yml"] = "services:\n" + base
		files["proj/mid.yml"] = "services:\n  mid:\n    extends: {file: lib/base.yml, service: base}\n"
		main = "services:\n  web:\n    extends: {file: mid.yml, service: mid}\n"
	case other:
		files["proj/lib/base.yml"] = "services:\n" + base
		main = "services:\n  web:\n    extends: {file: lib/base.yml, service: base}\n"
	case two:
		main = "services:\n" + base + "  mid:\n    extends: base\n  web:\n    extends: {service: mid}\n"
		flat += "  mid:\n    image: img\n" + attrs + base
	default:
		main = "services:\n" + base + "  web:\n    extends: base\n"
		flat += base
	}
	files["proj/compose.yaml"] = main
	c := &Case{Kind: "equivalence", Service: "web", Shape: "dollar-in-base/" + map[bool]string{false: "same-file", true: "other-file"}[other], Chain: 1, Repeat: 3, Input: "a base whose resolved values contain `$`"}
	if two {
		c.Chain = 2
	}
	c.Flat = ld.Case{Files: map[string]string{"proj/compose.yaml": flat}, ComposeFiles: []string{"proj/compose.yaml"}, WorkingDir: "proj", Env: env}
	c.Ext = ld.Case{Files: files, ComposeFiles: []string{"proj/compose.yaml"}, WorkingDir: "proj", Env: env}
	return c
}

// labelledMain: the main file is given under a name that is relative (or a mere label), the project
// directory is another directory, and a file of that very relative name there is what a service
// extends: `extends.file` is relative to the project directory, it is not the main file.
func labelledMain(i int) *Case {
	variant := i % 3
	deploy := "services:\n  web:\n    image: deploy-base\n    labels: {from: deploy}\n  base:\n    image: deploy-base\n    labels: {from: deploy}\n"
	main := "services:\n  web:\n    extends: {file: compose.yaml, service: web}\n    hostname: h\n"
	flat := "services:\n  web:\n    image: deploy-base\n    labels: {from: deploy}\n    hostname: h\n"
	switch variant {
	case 1: // base defined only by the other file
		main = "services:\n  web:\n    extends: {file: compose.yaml, service: base}\n    hostname: h\n"
	case 2: // main also defines a service of the base's name
		main = "services:\n  web:\n    extends: {file: compose.yaml, service: base}\n    hostname: h\n  base:\n    image: main-base\n"
		flat += "  base:\n    image: main-base\n"
	}
	c := &Case{Kind: "equivalence", Service: "web", Shape: "main-file-under-a-relative-name", Chain: 1, Repeat: 2, Input: "extends.file spelled like the (relative) name of the main file"}
	// the main file lives in cfg/, is named by the relative text `compose.yaml` (ld joins it with the case root: see Ext below),
	// the project directory is proj/, which holds another compose.yaml
	c.Flat = ld.Case{Files: map[string]string{"proj/flat.yaml": flat}, ComposeFiles: []string{"proj/flat.yaml"}, WorkingDir: "proj"}
	c.Ext = ld.Case{Files: map[string]string{"compose.yaml": main, "proj/compose.yaml": deploy}, ComposeFiles: []string{"compose.yaml"}, WorkingDir: "proj", Labels: true}
	return c
}
