// Package sched is the schedule controller used by the trace monitors of C13
// and C19: code under test runs in its own goroutines, every visit/callback
// and (optionally) every internal yield point parks on the controller, and the
// controller releases exactly one parked entity each time the whole process is
// quiescent. Quiescence is decided logically from goroutine wait states
// (runtime.Stack), never from elapsed time.
package sched

import (
	"bytes"
	"fmt"
	"runtime"
	"sort"
	"sync"
)

// Entity is something parked on the controller.
type Entity struct {
	Kind  string // "visit" (public callback) or "hook" (internal yield point)
	Point string
	Key   string
	ch    chan struct{}
}

func (e *Entity) String() string { return e.Kind + ":" + e.Point + ":" + e.Key }

// Controller owns the set of parked entities of one controlled run.
type Controller struct {
	mu       sync.Mutex
	parked   []*Entity
	returned bool
	buf      []byte
	// Scans counts stack scans (reported as evidence of how quiescence was decided).
	Scans int
}

func New() *Controller { return &Controller{buf: make([]byte, 1<<20)} }

// Park registers the calling goroutine as parked and blocks until released.
func (c *Controller) Park(kind, point, key string) {
	e := &Entity{Kind: kind, Point: point, Key: key, ch: make(chan struct{})}
	c.mu.Lock()
	c.parked = append(c.parked, e)
	c.mu.Unlock()
	<-e.ch
}

// Go runs fn (the operation under test) in its own goroutine.
func (c *Controller) Go(fn func()) {
	go func() {
		fn()
		c.mu.Lock()
		c.returned = true
		c.mu.Unlock()
	}()
}

// Returned reports whether the operation under test has returned.
func (c *Controller) Returned() bool {
	c.mu.Lock()
	defer c.mu.Unlock()
	return c.returned
}

// Parked returns the parked entities in a deterministic order.
func (c *Controller) Parked() []*Entity {
	c.mu.Lock()
	out := append([]*Entity(nil), c.parked...)
	c.mu.Unlock()
	sort.Slice(out, func(i, j int) bool { return out[i].String() < out[j].String() })
	return out
}

// Release lets one parked entity continue.
func (c *Controller) Release(e *Entity) {
	c.mu.Lock()
	for i, p := range c.parked {
		if p == e {
			c.parked = append(c.parked[:i], c.parked[i+1:]...)
			break
		}
	}
	c.mu.Unlock()
	close(e.ch)
}

// ReleaseAll drains everything (used to clean up after a verdict).
func (c *Controller) ReleaseAll() {
	for {
		p := c.Parked()
		if len(p) == 0 {
			return
		}
		for _, e := range p {
			c.Release(e)
		}
		if ok, _ := c.Quiesce(); !ok {
			return
		}
	}
}

var (
	stableStates = map[string]bool{
		"chan receive": true, "chan send": true, "select": true,
		"sync.Mutex.Lock": true, "sync.RWMutex.Lock": true, "sync.RWMutex.RLock": true,
		"sync.Cond.Wait": true, "sync.WaitGroup.Wait": true,
		"chan receive (nil chan)": true, "chan send (nil chan)": true, "select (no cases)": true,
	}
	goroutineHdr = []byte("goroutine ")
)

// scan classifies every goroutine but the caller: stable (blocked on
// synchronisation that only another goroutine can end), or not.
func (c *Controller) scan() (stable bool, sig string, offending string) {
	var n int
	for {
		n = runtime.Stack(c.buf, true)
		if n < len(c.buf) {
			break
		}
		c.buf = make([]byte, 2*len(c.buf))
	}
	c.Scans++
	blocks := bytes.Split(c.buf[:n], []byte("\n\n"))
	var sb bytes.Buffer
	for i, b := range blocks {
		if i == 0 {
			continue // the caller (always first, running)
		}
		if !bytes.HasPrefix(b, goroutineHdr) {
			continue
		}
		nl := bytes.IndexByte(b, '\n')
		hdr := b
		rest := []byte(nil)
		if nl >= 0 {
			hdr, rest = b[:nl], b[nl+1:]
		}
		lb := bytes.IndexByte(hdr, '[')
		rb := bytes.LastIndexByte(hdr, ']')
		if lb < 0 || rb < lb {
			return false, "", string(hdr)
		}
		state := string(hdr[lb+1 : rb])
		if k := bytes.IndexByte([]byte(state), ','); k >= 0 {
			state = state[:k]
		}
		ok := stableStates[state]
		if !ok && state == "semacquire" {
			// only a semaphore wait entered through package sync is a wait for
			// another goroutine; runtime-internal semaphores (GC start, stop-the-world)
			// resume by themselves.
			first := rest
			if k := bytes.IndexByte(first, '\n'); k >= 0 {
				first = first[:k]
			}
			ok = bytes.HasPrefix(first, []byte("sync."))
		}
		if !ok {
			return false, "", string(hdr)
		}
		sb.Write(hdr[:rb+1])
		sb.WriteByte(';')
	}
	return true, sb.String(), ""
}

// Quiesce waits until every other goroutine of the process is in a stable
// blocked state (confirmed by a second identical scan after yielding). It
// returns false with the offending goroutine header if that never happens
// within a generous number of scans (=> inconclusive, never a violation).
func (c *Controller) Quiesce() (bool, string) {
	prev := ""
	prevOK := false
	last := ""
	for iter := 0; iter < 400000; iter++ {
		ok, sig, off := c.scan()
		if ok {
			if prevOK && sig == prev {
				return true, ""
			}
			prev, prevOK = sig, true
		} else {
			prevOK = false
			last = off
		}
		runtime.Gosched()
	}
	return false, fmt.Sprintf("no quiescence; last offending goroutine: %s", last)
}
