// Package c06 checks property C06: loading a file that includes others yields
// the same project as the single file obtained by pasting the included files'
// resources as loaded on their own (interpolated with the parent environment
// plus, for variables it does not define, the included project's .env /
// declared env_file; relative paths anchored at the included project
// directory); differing redefinitions conflict, identical resources through two
// routes are accepted, nesting composes, cycles are errors.
//
// Metamorphic monitor: a target model from the decomposition engine's
// generator is partitioned over a tree of files; the pasted document (literal
// values where the distributed files use variables, absolute paths where they
// use relative ones) is the oracle.
package c06

import (
	"encoding/json"
	"fmt"
	"os"
	"path/filepath"
	"regexp"
	"sort"
	"strconv"
	"strings"

	"github.com/compose-spec/compose-go/v2/types"

	"verif/harness/internal/core"
	"verif/harness/internal/decomp"
	"verif/harness/internal/diff"
	"verif/harness/internal/ld"
)

func init() {
	core.Register(&core.Spec{
		ID:    "C06",
		Level: "exploration",
		Rule: "seeded target models (2..4 services and the networks/volumes/secrets/configs they use) partitioned into a main file and 1..3 included files (nesting depth <= 3; sub-directories, the parent's directory, a sibling directory; short and long include syntax, path as string or list; with/without project_directory; .env in the included project directory, declared env_file, or none); " +
			"included files use variables defined only in the parent environment, only in their own env file, in both (parent must win, also when the parent's value is empty), in an outer and an inner included env file (outer must win), or nowhere (default operators), relative paths, and secrets/configs sourced from a variable that the parent environment or only the included project's env file defines; the project is compared with the one loaded from the pasted single document. " +
			"Negative cases: a resource of each of the five kinds redefined with one attribute changed (in the main file or in a sibling include) must fail, include cycles of length 1..3 must fail; positive: the same file included through two routes must load and equal the pasted model. " +
			"A positive case is non-trivial when at least one included file holds a resource that uses a variable or a relative path and both sides load; distinct = distinct distributed inputs.",
		Assumptions: []string{
			"the pasted single document's load is the oracle (it involves no include)",
			"every including file sits in its own project directory, so 'relative to the including file' and 'relative to its project directory' agree for include.path, include.env_file and include.project_directory; an explicit project_directory different from the file's directory is only given to files that include nothing themselves",
			"when env_file is declared no .env is placed in the included project directory (the statement says '.env or declared env_file'); valueless environment entries name variables defined nowhere; env files hold plain KEY=value lines",
			"identical redefinition is only asserted for two include routes (not main file vs included file, which the statement does not mention)",
		},
		Exhaustive: func(string) bool { return false },
		Run:        run,
		Replay:     replay,
		Witness:    witness,
		Floor:      floor,
	})
}

const rootMark = "@@ROOT@@"

// Case is the replayable form.
type Case struct {
	Kind   string  `json:"kind"` // equivalence | diamond | conflict | cycle
	Pasted ld.Case `json:"pasted"`
	Dist   ld.Case `json:"dist"`
	Shape  string  `json:"shape,omitempty"`
	Detail string  `json:"detail,omitempty"`
	Nodes  int     `json:"nodes,omitempty"`
	Depth  int     `json:"depth,omitempty"`
	Uses   int     `json:"uses,omitempty"` // variables + relative paths used inside included files
	// Input names the distinguishing shape of the input (stable violation attribute).
	Input string `json:"input,omitempty"`
}

type node struct {
	id       int
	parent   int
	depth    int
	file     string // relative to the case root
	dir      string // directory of the file
	projDir  string // project directory of the included project
	pdMode   string // "default" | "explicit-own" | "explicit-other"
	envMode  string // "none" | "dotenv" | "env_file"
	envFile  string // relative to the case root
	long     bool
	pathList bool
	children []int
	res      map[string][]string
	env      map[string]string // variables defined by this node's env file
}

var kinds = []string{"services", "networks", "volumes", "secrets", "configs"}

var varCandidate = regexp.MustCompile(`^(host|domain|user|cname|runc|cgparent|v|o|stage|netname|volname|secname|cfgname|HKLM|cred|port|u|alias)[0-9]+$`)

func rel(fromDir, to string) string {
	r, err := filepath.Rel(fromDir, to)
	if err != nil {
		return to
	}
	return r
}

func dotted(r string, yes bool) string {
	if yes && !strings.HasPrefix(r, ".") {
		return "./" + r
	}
	return r
}

func build(s *core.Shard, i int) *Case {
	r := s.Rand(fmt.Sprintf("case/%d", i))
	g := decomp.NewG(r)
	c := &Case{Kind: "equivalence", Input: "plain"}
	root := g.Model(decomp.ModelOpts{MinResources: 1, Services: 2 + r.Intn(3), Density: 0.05 + 0.08*r.Float64()})

	// ---- the include tree -------------------------------------------------
	m := 1 + r.Intn(3)
	if i%10 == 6 && m < 2 {
		m = 2
	}
	nodes := []*node{{id: 0, parent: -1, file: "proj/compose.yaml", dir: "proj", projDir: "proj", envMode: "none", res: map[string][]string{}}}
	for id := 1; id <= m; id++ {
		var cands []int
		for _, n := range nodes {
			if n.depth < 3 && n.pdMode != "explicit-other" {
				cands = append(cands, n.id)
			}
		}
		p := nodes[cands[r.Intn(len(cands))]]
		n := &node{id: id, parent: p.id, depth: p.depth + 1, res: map[string][]string{}, env: map[string]string{}}
		switch k := r.Intn(6); {
		case k < 3:
			n.dir = fmt.Sprintf("%s/inc%d", p.dir, id)
			n.file = n.dir + "/compose.yaml"
		case k < 4:
			n.dir = p.dir
			n.file = fmt.Sprintf("%s/part%d.yaml", p.dir, id)
		case k < 5:
			n.dir = fmt.Sprintf("shared%d", id)
			n.file = fmt.Sprintf("%s/stack.yaml", n.dir)
		default:
			n.dir = fmt.Sprintf("%s/inc%d/deeper", p.dir, id)
			n.file = n.dir + "/c.yml"
		}
		n.projDir, n.pdMode = n.dir, "default"
		n.long = r.Intn(2) == 0
		switch r.Intn(5) {
		case 0:
			n.pdMode, n.long = "explicit-own", true
		case 1:
			n.pdMode, n.long = "explicit-other", true
			if r.Intn(2) == 0 {
				n.projDir = p.projDir
			} else {
				n.projDir = fmt.Sprintf("%s/pd%d", p.dir, id)
			}
		}
		n.envMode = []string{"none", "dotenv", "dotenv", "env_file"}[r.Intn(4)]
		if n.depth >= 2 && i%5 != 4 {
			// recorded finding (FINDINGS.md #1): below the first nesting level a declared env_file or an explicit
			// project_directory is resolved against the process working directory. Kept to one case in five so
			// that it does not mask the rest.
			n.projDir, n.pdMode = n.dir, "default"
			if n.envMode == "env_file" {
				n.envMode = "dotenv"
			}
		}
		if n.depth >= 2 && (n.pdMode != "default" || n.envMode == "env_file") {
			c.Input = "nested-explicit-project_directory-or-env_file"
		}
		switch n.envMode {
		case "dotenv":
			n.envFile = n.projDir + "/.env"
		case "env_file":
			n.envFile = fmt.Sprintf("%s/vars%d.env", p.dir, id)
			n.long = true
		}
		n.pathList = n.long && r.Intn(3) == 0
		p.children = append(p.children, id)
		nodes = append(nodes, n)
	}
	if i%10 == 6 {
		// two-route cases: only the last file may carry an env file, so that both routes to it see the same environment
		for _, n := range nodes[1 : len(nodes)-1] {
			n.envMode, n.envFile = "none", ""
		}
	}
	// nodes sharing a project directory share its .env: a declared env_file next to a shared .env would
	// make "the included project's .env or declared env_file" ambiguous -> such nodes use the .env too
	dotenvDirs := map[string]bool{}
	for _, n := range nodes[1:] {
		if n.envMode == "dotenv" {
			dotenvDirs[n.projDir] = true
		}
	}
	for _, n := range nodes[1:] {
		if n.envMode != "dotenv" && dotenvDirs[n.projDir] {
			n.envMode, n.envFile = "dotenv", n.projDir+"/.env"
			n.pathList = n.long && n.pathList
		}
	}
	dirEnv := map[string]map[string]string{} // env file path -> variables
	envOf := func(n *node) map[string]string {
		if n.envMode == "none" {
			return nil
		}
		if dirEnv[n.envFile] == nil {
			dirEnv[n.envFile] = map[string]string{}
		}
		return dirEnv[n.envFile]
	}

	for _, n := range nodes[1:] {
		envOf(n) // the env file exists even when no variable ends up in it
	}

	// ---- partition of the resources --------------------------------------
	type resRef struct{ kind, name string }
	var all []resRef
	for _, k := range kinds {
		if mv := root.Sub[k]; mv != nil {
			for _, name := range mv.Keys {
				all = append(all, resRef{k, name})
			}
		}
	}
	r.Shuffle(len(all), func(a, b int) { all[a], all[b] = all[b], all[a] })
	owner := map[resRef]*node{}
	for idx, rr := range all {
		var n *node
		if idx < m {
			n = nodes[idx+1] // every included file holds something
		} else {
			n = nodes[r.Intn(len(nodes))]
		}
		owner[rr] = n
		n.res[rr.kind] = append(n.res[rr.kind], rr.name)
	}
	for _, n := range nodes {
		for _, k := range kinds {
			sort.Strings(n.res[k])
		}
		if n.depth > c.Depth {
			c.Depth = n.depth
		}
	}
	c.Nodes = m

	// ---- variables ----------------------------------------------------------
	topEnv := map[string]string{}
	dist := root.Clone()                 // distributed spelling: variables in place of literals
	ancestors := func(n *node) []*node { // outermost first, excluding main, including n
		var out []*node
		for x := n; x.id != 0; x = nodes[x.parent] {
			out = append([]*node{x}, out...)
		}
		return out
	}
	for _, n := range nodes[1:] {
		// literal tokens of this node's resources
		seen := map[string]bool{}
		var toks []string
		for _, k := range kinds {
			for _, name := range n.res[k] {
				root.Sub[k].Sub[name].RawLeaves(func(raw any) {
					decomp.MapStrings(raw, func(sv string) string {
						if varCandidate.MatchString(sv) && !seen[sv] {
							seen[sv] = true
							toks = append(toks, sv)
						}
						return sv
					})
				})
			}
		}
		sort.Strings(toks)
		r.Shuffle(len(toks), func(a, b int) { toks[a], toks[b] = toks[b], toks[a] })
		if len(toks) > 4 {
			toks = toks[:4]
		}
		repl := map[string]string{}
		for vi, tok := range toks {
			name := fmt.Sprintf("N%d_VAR%d", n.id, vi)
			own := envOf(n)
			mode := r.Intn(7)
			if own == nil && (mode == 1 || mode == 2 || mode == 5) {
				mode = 0
			}
			if mode == 6 && (own == nil || n.depth != 1) {
				mode = 0
			}
			expr := "${" + name + "}"
			switch mode {
			case 0: // only the parent environment defines it
				topEnv[name] = tok
				if r.Intn(2) == 0 {
					expr = "${" + name + ":-wrong-default}"
				}
			case 1: // only the included project's env file defines it
				own[name] = tok
			case 2: // both: the parent wins
				topEnv[name] = tok
				own[name] = "wrong-from-included-env"
			case 6: // every directly included project defines the same name in its own env file with its own value:
				// what one sibling's env file defines must not be visible to (let alone win in) another sibling
				if _, taken := own[fmt.Sprintf("SIBLING_VAR%d", vi)]; !taken { // (siblings in one directory share their env file)
					name = fmt.Sprintf("SIBLING_VAR%d", vi)
				}
				expr = "${" + name + "}"
				own[name] = tok
			case 5: // the parent defines it as empty: it is defined, the included env file must not replace it
				topEnv[name] = ""
				own[name] = "wrong-from-included-env-over-empty-parent-value"
				expr = "${" + name + ":-" + tok + "}"
			case 3: // nobody: default operator
				expr = "${" + name + ":-" + tok + "}"
			case 4: // an outer included project's env file and this one: the outer one is "the parent environment" here
				anc := ancestors(n)
				var outer map[string]string
				for _, a := range anc[:len(anc)-1] {
					if e := envOf(a); e != nil {
						outer = e
						break
					}
				}
				switch {
				case outer != nil && own != nil && !sameMap(outer, own):
					outer[name] = tok
					own[name] = "wrong-from-inner-env"
				case outer != nil:
					outer[name] = tok
				case own != nil:
					own[name] = tok
				default:
					topEnv[name] = tok
				}
			}
			repl[tok] = expr
			c.Uses++
		}
		for _, k := range kinds {
			for _, name := range n.res[k] {
				dist.Sub[k].Sub[name].MapStrings(func(sv string) string {
					if e, ok := repl[sv]; ok {
						return e
					}
					return sv
				})
			}
		}
	}
	laterLayer := ""
	// a variable every included env file defines with its own value, read by a label in the main file
	// through a default operator: an included project's env file must not leak into the main file
	if svcs := nodes[0].res["services"]; len(svcs) > 0 {
		probe := "LEAK_PROBE"
		for _, e := range dirEnv {
			e[probe] = "leaked-from-included-env"
		}
		name := svcs[0]
		addLabel(root.Sub["services"].Sub[name], "probe.leak", "main-default")
		addLabel(dist.Sub["services"].Sub[name], "probe.leak", "${"+probe+":-main-default}")
		// the same question asked by a later layer of the including project (an override file, or a
		// second document of the main file), which is interpolated after the include entries were applied
		addLabel(root.Sub["services"].Sub[name], "probe.leak.later", "later-default")
		laterLayer = "services:\n  " + strconv.Quote(name) + ":\n    labels:\n      probe.leak.later: \"${" + probe + ":-later-default}\"\n"
	}

	// ---- secrets / configs sourced from an environment variable: some of the variables are set ------
	pastedOnly := map[string]string{}
	for _, k := range []string{"secrets", "configs"} {
		mv := root.Sub[k]
		if mv == nil {
			continue
		}
		for _, name := range mv.Keys {
			ev := mv.Sub[name].Sub["environment"]
			if ev == nil {
				continue
			}
			vn, _ := ev.Spells[0].(string)
			n := owner[resRef{k, name}]
			included := n != nil && n.id != 0
			if k == "configs" && included && i%5 != 3 {
				// recorded finding (FINDINGS.md #3): only one case in five sets the variable of an included config
				continue
			}
			if vn == "" {
				continue
			}
			switch w := r.Intn(6); {
			case w < 3:
				topEnv[vn] = "value-of-" + vn
				if included {
					c.Uses++
					if k == "configs" && c.Input == "plain" {
						c.Input = "included-config-from-set-variable"
					}
				}
			case w == 3 && included && envOf(n) != nil:
				// only the included project's env file defines it: the resource has that value "as loaded
				// on its own", whatever the including project's environment says about the name
				if _, taken := envOf(n)[vn]; !taken {
					envOf(n)[vn] = "included-value-of-" + vn
					pastedOnly[vn] = "included-value-of-" + vn
					c.Uses++
					s.Cover("secret_config_variable", k+" from the included project's env file")
				}
			}
		}
	}

	// ---- `environment` keys written without a value in included services: the included project's env
	// file may be the only one to define them (both spellings of `environment` are generated)
	if svcs := root.Sub["services"]; svcs != nil {
		for _, name := range svcs.Keys {
			n := owner[resRef{"services", name}]
			if n == nil || n.id == 0 || envOf(n) == nil {
				continue
			}
			var kvs []decomp.KV
			if ev := svcs.Sub[name].Sub["environment"]; ev != nil {
				kvs = append(kvs, ev.KVs...)
			}
			if b := svcs.Sub[name].Sub["build"]; b != nil && b.Sub["args"] != nil {
				kvs = append(kvs, b.Sub["args"].KVs...) // build arguments are resolved the same way
			}
			for _, kv := range kvs {
				if kv.V != nil || r.Intn(2) == 0 {
					continue
				}
				if _, taken := topEnv[kv.K]; taken {
					continue
				}
				if _, taken := envOf(n)[kv.K]; taken {
					continue
				}
				envOf(n)[kv.K] = "included-value-of-" + kv.K
				pastedOnly[kv.K] = "included-value-of-" + kv.K
				c.Uses++
				s.Cover("secret_config_variable", "service environment key without value, defined by the included project's env file")
			}
		}
	}

	// ---- relative paths: anchored at the included project directory ------------
	tokenDir := map[string]string{}
	for rr, n := range owner {
		root.Sub[rr.kind].Sub[rr.name].RawLeaves(func(raw any) {
			for _, tok := range decomp.Tokens(raw) {
				tokenDir[tok] = n.projDir
				if n.id != 0 {
					c.Uses++
				}
			}
		})
	}
	pasted := root.Clone()
	// a build section without context means context "." of the project the file belongs to
	ctxAttr := decomp.Lookup(decomp.ServiceAttr, "build.context")
	for rr, n := range owner {
		if rr.kind != "services" || n.id == 0 || n.projDir == "proj" {
			continue
		}
		if b := pasted.Sub["services"].Sub[rr.name].Sub["build"]; b != nil && b.Sub["context"] == nil {
			b.Set("context", &decomp.Val{A: ctxAttr, Spells: []any{rootMark + "/" + n.projDir}})
			c.Uses++
		}
	}
	pasted.MapStrings(func(sv string) string {
		return decomp.PathToken.ReplaceAllStringFunc(sv, func(tok string) string {
			if d, ok := tokenDir[tok]; ok && d != "proj" {
				return rootMark + "/" + d + "/" + strings.TrimPrefix(tok, "./")
			}
			return tok
		})
	})

	// ---- files ---------------------------------------------------------------
	common := map[string]string{}
	for tok, content := range g.Files {
		d := "proj"
		if mt := decomp.PathToken.FindString(tok); mt != "" {
			if td, ok := tokenDir[mt]; ok {
				d = td
			}
		}
		common[d+"/"+strings.TrimPrefix(tok, "./")] = content
	}
	distFiles := map[string]string{}
	for path, vars := range dirEnv {
		var keys []string
		for k := range vars {
			keys = append(keys, k)
		}
		sort.Strings(keys)
		var sb strings.Builder
		for _, k := range keys {
			sb.WriteString(k + "=" + vars[k] + "\n")
		}
		distFiles[path] = sb.String()
	}
	var dirs []string
	for _, n := range nodes {
		dirs = append(dirs, n.projDir)
	}
	absPD := false
	earlier := map[string]string{} // earlier env file -> the env file listed after it
	includeEntry := func(p, ch *node) any {
		path := dotted(rel(p.dir, ch.file), r.Intn(2) == 0)
		if !ch.long {
			return path
		}
		var pv any = path
		if ch.pathList {
			pv = []any{path}
		}
		e := decomp.OM{{K: "path", V: pv}}
		if ch.pdMode != "default" {
			pd := rel(p.dir, ch.projDir)
			if r.Intn(3) == 0 {
				// an absolute project directory (what `${PWD}/mod` gives)
				e = append(e, decomp.KVp{K: "project_directory", V: rootMark + "/" + ch.projDir})
				absPD = true
			} else {
				e = append(e, decomp.KVp{K: "project_directory", V: dotted(pd, r.Intn(2) == 0 && pd != ".")})
			}
		}
		if ch.envMode == "env_file" {
			ef := dotted(rel(p.dir, ch.envFile), r.Intn(2) == 0)
			switch r.Intn(4) {
			case 0:
				e = append(e, decomp.KVp{K: "env_file", V: ef})
			case 1:
				e = append(e, decomp.KVp{K: "env_file", V: []any{ef}})
			default:
				// an earlier env file defining the same names with other values: the later one wins
				earlier[ch.envFile+".first"] = ch.envFile
				e = append(e, decomp.KVp{K: "env_file", V: []any{dotted(rel(p.dir, ch.envFile+".first"), r.Intn(2) == 0), ef}})
			}
		}
		r.Shuffle(len(e), func(a, b int) { e[a], e[b] = e[b], e[a] })
		return e
	}
	docOf := func(n *node, src *decomp.Val, extraInclude []any, extraDefs map[string]decomp.OM) string {
		var doc decomp.OM
		var inc []any
		for _, ch := range n.children {
			inc = append(inc, includeEntry(n, nodes[ch]))
		}
		inc = append(inc, extraInclude...)
		if len(inc) > 0 {
			doc = append(doc, decomp.KVp{K: "include", V: inc})
		}
		for _, k := range kinds {
			var om decomp.OM
			for _, name := range n.res[k] {
				om = append(om, decomp.KVp{K: name, V: src.Sub[k].Sub[name].Render()})
			}
			om = append(om, extraDefs[k]...)
			if len(om) > 0 {
				doc = append(doc, decomp.KVp{K: k, V: om})
			}
		}
		r.Shuffle(len(doc), func(a, b int) { doc[a], doc[b] = doc[b], doc[a] })
		return decomp.Marshal(doc)
	}

	// ---- variants ----------------------------------------------------------------
	variant := "plain"
	switch i % 10 {
	case 6:
		variant = "diamond"
	case 7:
		variant = "conflict"
	case 8:
		variant = "cycle"
	}
	extra := map[int][]any{}
	extraDefs := map[int]map[string]decomp.OM{}
	extraFiles := map[string]string{}
	if variant == "diamond" {
		// a second route to an included leaf: another file of the tree includes it as well
		var leaves []*node
		for _, n := range nodes[1:] {
			if len(n.children) == 0 && n.pdMode == "default" && n.envMode != "env_file" {
				leaves = append(leaves, n)
			}
		}
		variant = "plain"
		if len(leaves) > 0 {
			leaf := leaves[len(leaves)-1]
			var others []*node
			for _, n := range nodes {
				if n.id != leaf.id && n.id != leaf.parent && n.pdMode != "explicit-other" && !isAncestor(nodes, leaf.id, n.id) {
					others = append(others, n)
				}
			}
			// the second route must see the same environment for the leaf's variables: route through main or
			// through nodes without env files of their own
			var ok []*node
			for _, n := range others {
				clean := true
				for _, a := range append(ancestors(n), ancestors(nodes[leaf.parent])...) {
					if a.envMode != "none" {
						clean = false
					}
				}
				if clean {
					ok = append(ok, n)
				}
			}
			if len(ok) > 0 {
				o := ok[r.Intn(len(ok))]
				extra[o.id] = append(extra[o.id], includeEntry(o, leaf))
				variant = "diamond"
				c.Detail = fmt.Sprintf("%s also included from %s", leaf.file, o.file)
				if c.Input == "plain" {
					c.Input = "two-routes"
					if !strings.HasPrefix(o.dir, "proj") || !strings.HasPrefix(nodes[leaf.parent].dir, "proj") {
						c.Input = "two-routes-one-through-a-directory-outside-the-project"
					}
				}
			}
		}
	}
	switch variant {
	case "conflict":
		// redefine one resource of an included file, one attribute changed, in the main file or in a sibling route
		var cands []resRef
		for rr, n := range owner {
			if n.id != 0 {
				cands = append(cands, rr)
			}
		}
		sort.Slice(cands, func(a, b int) bool { return cands[a].kind+cands[a].name < cands[b].kind+cands[b].name })
		kind := kinds[(i/10)%len(kinds)]
		var pick *resRef
		for idx := range cands {
			if cands[idx].kind == kind {
				pick = &cands[idx]
				break
			}
		}
		if pick == nil {
			c.Kind = "skip"
			return c
		}
		changed := dist.Sub[pick.kind].Sub[pick.name].Clone()
		changeOne(g, changed, pick.kind)
		def := decomp.OM{{K: pick.name, V: changed.Render()}}
		c.Detail = pick.kind
		if on := owner[*pick]; on.depth >= 2 && r.Intn(2) == 0 {
			// the conflict sits below the top level: an included file redefines a resource of a file it includes itself
			c.Detail += "/included-vs-its-own-include"
			extraDefs[on.parent] = map[string]decomp.OM{pick.kind: def}
		} else if r.Intn(2) == 0 {
			c.Detail += "/main-vs-included"
			extraDefs[0] = map[string]decomp.OM{pick.kind: def}
		} else {
			c.Detail += "/included-vs-included"
			extraFiles["proj/conflicting.yaml"] = decomp.Marshal(decomp.OM{{K: pick.kind, V: def}})
			if r.Intn(2) == 0 {
				extra[0] = append(extra[0], "conflicting.yaml")
			} else {
				extra[0] = append(extra[0], decomp.OM{{K: "path", V: "./conflicting.yaml"}})
			}
		}
	case "cycle":
		// a file of the tree includes one of its ancestors (or itself)
		n := nodes[1+r.Intn(m)]
		if n.pdMode == "explicit-other" {
			n = nodes[n.parent]
		}
		anc := append([]*node{nodes[0]}, ancestors(n)...)
		target := anc[r.Intn(len(anc))]
		c.Detail = fmt.Sprintf("length-%d", n.depth-target.depth+1)
		extra[n.id] = append(extra[n.id], dotted(rel(n.dir, target.file), r.Intn(2) == 0))
	}
	for _, n := range nodes {
		distFiles[n.file] = docOf(n, dist, extra[n.id], extraDefs[n.id])
	}
	for f, content := range extraFiles {
		distFiles[f] = content
	}
	for first, later := range earlier {
		var keys []string
		for k := range dirEnv[later] {
			keys = append(keys, k)
		}
		sort.Strings(keys)
		var sb strings.Builder
		sb.WriteString("ONLY_IN_THE_EARLIER_FILE=1\n")
		for _, k := range keys {
			sb.WriteString(k + "=wrong-from-the-earlier-env-file\n")
		}
		distFiles[first] = sb.String()
		c.Uses++
	}
	if absPD {
		s.Cover("include-entry", "absolute project_directory")
		if c.Input == "two-routes" {
			// same root cause as the recorded two-routes finding: one route yields absolute paths,
			// the other relative ones, and imports are compared as text before the final resolution
			c.Input = "two-routes-one-through-an-absolute-project_directory"
		}
	}
	if len(earlier) > 0 {
		s.Cover("include-entry", "two env files, the later overriding the earlier")
	}
	// the pasted document: everything in one file
	one := &node{res: map[string][]string{}}
	for _, k := range kinds {
		if mv := root.Sub[k]; mv != nil {
			one.res[k] = append([]string(nil), mv.Keys...)
		}
	}
	pastedDoc := docOf(one, pasted, nil, nil)

	// a quarter of the cases run with a remote resource loader registered (it accepts nothing)
	opts := ld.Opts{Profiles: []string{"*"}, RemoteLoader: i%4 == 3}
	pastedEnv := topEnv
	if len(pastedOnly) > 0 {
		pastedEnv = merge(topEnv, pastedOnly)
	}
	c.Pasted = ld.Case{Files: merge(common, map[string]string{"proj/compose.yaml": pastedDoc}), Dirs: dirs, ComposeFiles: []string{"proj/compose.yaml"}, WorkingDir: "proj", Env: pastedEnv, Opts: opts}
	distCompose := []string{"proj/compose.yaml"}
	if laterLayer != "" && variant == "plain" {
		if i%2 == 0 {
			distFiles["proj/compose.later.yaml"] = laterLayer
			distCompose = append(distCompose, "proj/compose.later.yaml")
			s.Cover("include-entry", "a later file of the including project asks for a variable of the included env")
		} else {
			distFiles["proj/compose.yaml"] += "---\n" + laterLayer
			s.Cover("include-entry", "a later document of the including file asks for a variable of the included env")
		}
	} else if laterLayer != "" {
		distFiles["proj/compose.yaml"] += "---\n" + strings.Replace(laterLayer, "${LEAK_PROBE:-later-default}", "later-default", 1)
	}
	c.Dist = ld.Case{Files: merge(common, distFiles), Dirs: dirs, ComposeFiles: distCompose, WorkingDir: "proj", Env: topEnv, Opts: opts}
	var shape []string
	for _, n := range nodes[1:] {
		shape = append(shape, fmt.Sprintf("d%d/%s/%s", n.depth, n.pdMode, n.envMode))
	}
	sort.Strings(shape)
	c.Shape = strings.Join(shape, ",")
	c.Kind = map[string]string{"plain": "equivalence", "diamond": "diamond", "conflict": "conflict", "cycle": "cycle"}[variant]

	return c
}

func sameMap(a, b map[string]string) bool {
	return fmt.Sprintf("%p", a) == fmt.Sprintf("%p", b)
}

func isAncestor(nodes []*node, desc, anc int) bool {
	for x := nodes[desc]; x.parent >= 0; x = nodes[x.parent] {
		if x.parent == anc {
			return true
		}
	}
	return false
}

func addLabel(svc *decomp.Val, k, v string) {
	la := decomp.ServiceAttr.Field("labels")
	l := svc.Sub["labels"]
	if l == nil {
		l = &decomp.Val{A: la}
		svc.Set("labels", l)
	}
	l.KVs = append(l.KVs, decomp.KV{K: k, V: v})
}

// changeOne alters one attribute of a resource definition.
func changeOne(g *decomp.G, v *decomp.Val, kind string) {
	switch kind {
	case "services":
		v.Set("image", decomp.ServiceAttr.Field("image").Gen(g))
	case "networks":
		if v.Sub["external"] != nil {
			v.Set("name", decomp.NetworkAttr.Field("name").Gen(g))
			return
		}
		v.Set("driver_opts", decomp.NetworkAttr.Field("driver_opts").Gen(g))
	case "volumes":
		if v.Sub["external"] != nil {
			v.Set("name", decomp.VolumeAttr.Field("name").Gen(g))
			return
		}
		v.Set("driver_opts", decomp.VolumeAttr.Field("driver_opts").Gen(g))
	case "secrets":
		v.Set("name", decomp.SecretAttr.Field("name").Gen(g))
	case "configs":
		v.Set("name", decomp.ConfigAttr.Field("name").Gen(g))
	}
}

func merge(a, b map[string]string) map[string]string {
	out := make(map[string]string, len(a)+len(b))
	for k, v := range a {
		out[k] = v
	}
	for k, v := range b {
		out[k] = v
	}
	return out
}

var (
	reDotted = regexp.MustCompile(`eu\.west\.svc-[a-z]|svc\.[a-z]`) // generated service names containing dots
	reDigits = regexp.MustCompile(`[0-9]+`)
	reQuoted = regexp.MustCompile(`"[^"]*"`)
	reNames  = regexp.MustCompile(`\b(services|networks|volumes|secrets|configs)(\.|\[)[^. \]]+`)
	rePaths  = regexp.MustCompile(`/[^ :]*\.(yaml|yml|env)`)
)

func errClass(root string, err error) string {
	m := strings.ReplaceAll(err.Error(), root, "")
	m = reDotted.ReplaceAllString(m, "svc-z")
	if i := strings.Index(m, "\n"); i > 0 {
		m = m[:i]
	}
	m = rePaths.ReplaceAllString(m, "<file>")
	m = reQuoted.ReplaceAllString(m, `"_"`)
	m = reNames.ReplaceAllString(m, "${1}${2}_")
	m = reDigits.ReplaceAllString(m, "N")
	if len(m) > 160 {
		m = m[:160]
	}
	return m
}

func subst(c ld.Case, root string) ld.Case {
	out := c
	out.Files = make(map[string]string, len(c.Files))
	for k, v := range c.Files {
		out.Files[k] = strings.ReplaceAll(v, rootMark, root)
	}
	return out
}

func judge(s *core.Shard, c *Case) bool {
	work := s.Scratch()
	root := filepath.Join(work, "case")
	files := map[string]any{"case.json": c}
	dist := subst(c.Dist, root)
	if c.Kind == "conflict" || c.Kind == "cycle" {
		_, dr := ld.Run(work, &dist)
		s.Eval(1)
		if dr.Panic != nil {
			ld.PanicViolation(s, dr.Panic, &dist, map[string]string{"case": c.Kind})
			return false
		}
		s.Add("negative_"+c.Kind, 1)
		if dr.Err == nil {
			s.Violation(map[string]string{"kind": c.Kind + "-accepted", "detail": c.Detail},
				fmt.Sprintf("%s (%s; include tree %s) loaded without error", c.Kind, c.Detail, c.Shape), files)
		}
		return false
	}
	pasted := subst(c.Pasted, root)
	_, pr := ld.Run(work, &pasted)
	s.Eval(1)
	if pr.Panic != nil {
		ld.PanicViolation(s, pr.Panic, &pasted, map[string]string{"side": "pasted"})
		return false
	}
	if pr.Err != nil {
		s.Add("pasted_load_error", 1)
		s.Cover("pasted-load-error", errClass(root, pr.Err))
		return false
	}
	s.Add("pasted_loaded", 1)
	_, dr := ld.Run(work, &dist)
	s.Eval(1)
	if dr.Panic != nil {
		ld.PanicViolation(s, dr.Panic, &dist, map[string]string{"side": "include"})
		return false
	}
	if dr.Err != nil {
		s.Violation(map[string]string{"kind": "include-load-failed", "error": errClass(root, dr.Err), "case": c.Kind, "input": c.Input},
			fmt.Sprintf("the pasted document loads, the model distributed over %d included files (%s) fails: %v", c.Nodes, c.Shape, dr.Err), files)
		return false
	}
	if d := compareProjects(c, pr.Project, dr.Project); d != "" {
		s.Violation(map[string]string{"kind": "include-differs", "path": diff.PathOf(d), "case": c.Kind, "input": c.Input},
			fmt.Sprintf("project loaded through %d included files (%s) differs from the pasted document (pasted vs include): %s", c.Nodes, c.Shape, d), files)
		return false
	}
	return true
}

func run(s *core.Shard) {
	n := s.Pick(6000, 100000)
	if v := os.Getenv("VERIF_DEBUG"); strings.HasPrefix(v, "n=") { // development aid only: smaller case list
		if k, err := strconv.Atoi(v[2:]); err == nil {
			n = k
		}
	}
	for i := 0; i < n; i++ {
		if !s.Mine(i) {
			continue
		}
		if !s.Begin(fmt.Sprintf("case/%d", i)) {
			continue
		}
		c := build(s, i)
		if c.Kind == "skip" {
			continue
		}
		ok := judge(s, c)
		if c.Kind == "conflict" || c.Kind == "cycle" {
			s.Cover("negative", c.Kind+"/"+c.Detail)
			s.Nontrivial(c.Dist.Key())
			continue
		}
		if !ok {
			continue
		}
		s.Cover("case", c.Kind)
		s.Cover("included-files", fmt.Sprint(c.Nodes))
		s.Cover("nesting-depth", fmt.Sprint(c.Depth))
		for _, sh := range strings.Split(c.Shape, ",") {
			s.Cover("include-shape", sh)
		}
		if c.Uses > 0 {
			s.Nontrivial(c.Dist.Key())
			s.Add("nontrivial", 1)
			s.Add("variables_and_relative_paths_in_included_files", c.Uses)
		}
		if s.WantSample() && len(c.Dist.Key()) < 2500 && c.Uses > 1 {
			s.Sample(map[string]any{"shape": c.Shape, "env": c.Dist.Env, "pasted": c.Pasted.Files["proj/compose.yaml"], "distributed": c.Dist.Files})
		}
	}
}

func replay(s *core.Shard, dir string) {
	var c Case
	if err := core.ReadJSON(filepath.Join(dir, "case.json"), &c); err != nil {
		s.Inconclusive("replay: " + err.Error())
		return
	}
	judge(s, &c)
}

func witness(s *core.Shard, f core.Finding) (bool, string) {
	var c Case
	if err := json.Unmarshal(f.Witness, &c); err != nil {
		return false, "witness unreadable: " + err.Error()
	}
	work := s.Scratch()
	root := filepath.Join(work, "case")
	dist := subst(c.Dist, root)
	if c.Kind == "conflict" || c.Kind == "cycle" {
		_, dr := ld.Run(work, &dist)
		return dr.Err == nil && dr.Panic == nil, fmt.Sprintf("err=%v", dr.Err)
	}
	pasted := subst(c.Pasted, root)
	_, pr := ld.Run(work, &pasted)
	if pr.Err != nil || pr.Panic != nil {
		return false, fmt.Sprintf("pasted document no longer loads: %v", pr.Err)
	}
	_, dr := ld.Run(work, &dist)
	if dr.Panic != nil {
		return true, "include side panics: " + dr.Panic.Value
	}
	if dr.Err != nil {
		return true, "include side fails: " + dr.Err.Error()
	}
	if d := compareProjects(&c, pr.Project, dr.Project); d != "" {
		return true, d
	}
	return false, "included and pasted models load to equal projects"
}

// compareProjects compares the pasted and the distributed project. When the pasted side was given
// variables that the distributed side only finds in an included project's env file (a secret or
// config sourced from such a variable), the project environments differ by exactly those names.
func compareProjects(c *Case, pp, dp *types.Project) string {
	o := diff.Default()
	o.IgnoreField["ComposeFiles"] = true
	extra := map[string]bool{}
	for k := range c.Pasted.Env {
		if _, ok := c.Dist.Env[k]; !ok {
			extra[k] = true
		}
	}
	if len(extra) > 0 {
		o.IgnoreField["Project.Environment"] = true
		for k, v := range dp.Environment {
			if pv, ok := pp.Environment[k]; !ok || pv != v {
				return fmt.Sprintf(".Environment[%s]: %q (present=%v) != %q", k, pv, ok, v)
			}
		}
		for k := range pp.Environment {
			if _, ok := dp.Environment[k]; !ok && !extra[k] {
				return fmt.Sprintf(".Environment[%s]: only in the pasted project", k)
			}
		}
	}
	return diff.Compare(pp, dp, o)
}

func floor(tier string, m *core.Merged) []string {
	var r []string
	min := int64(1500)
	if tier == "thorough" {
		min = 25000
	}
	if m.Counters["nontrivial"] < min {
		r = append(r, fmt.Sprintf("too few non-trivial partitions: %d", m.Counters["nontrivial"]))
	}
	if m.Counters["pasted_load_error"]*10 > m.Counters["pasted_loaded"] {
		r = append(r, fmt.Sprintf("generator produced too many invalid pasted documents: %d vs %d loaded", m.Counters["pasted_load_error"], m.Counters["pasted_loaded"]))
	}
	for _, d := range []string{"1", "2", "3"} {
		if m.Cover["nesting-depth"][d] == 0 {
			r = append(r, "nesting depth never exercised: "+d)
		}
	}
	if m.Counters["negative_conflict"] < 50 || m.Counters["negative_cycle"] < 50 {
		r = append(r, fmt.Sprintf("too few negative cases: conflict %d, cycle %d", m.Counters["negative_conflict"], m.Counters["negative_cycle"]))
	}
	if m.Cover["case"]["diamond"] == 0 {
		r = append(r, "no two-route (diamond) include loaded")
	}
	return r
}
