package c16

import (
	"fmt"
	"sort"
	"strings"

	"github.com/compose-spec/compose-go/v2/types"

	"verif/harness/internal/core"
	"verif/harness/internal/ld"
)

// Interaction scenarios: several services sharing one env file (whose references
// resolve per service), a shared missing file with mixed `required` flags, and a
// profile-disabled service enabled after a load that discarded env files. Each
// scenario is a constructive model: the expected environments are written down by
// the generator.
type interCase struct {
	Kind   string                       `json:"kind"`
	Case   ld.Case                      `json:"case"`
	Want   map[string]map[string]string `json:"want,omitempty"` // service -> environment
	Fail   bool                         `json:"fail,omitempty"`
	Enable string                       `json:"enable,omitempty"`
}

func envOf(svc types.ServiceConfig) map[string]string {
	out := map[string]string{}
	for k, v := range svc.Environment {
		if v != nil {
			out[k] = *v
		} else {
			out[k] = "<nil>"
		}
	}
	return out
}

func sameMap(a, b map[string]string) bool {
	if len(a) != len(b) {
		return false
	}
	for k, v := range a {
		if w, ok := b[k]; !ok || w != v {
			return false
		}
	}
	return true
}

func judgeInter(s *core.Shard, ic interCase, sink func(map[string]string, string, map[string]any)) {
	if sink == nil {
		sink = s.Violation
	}
	files := map[string]any{"case.json": map[string]any{"interaction": ic}}
	// map iteration order inside the library changes per call: repeat
	for rep := 0; rep < 6; rep++ {
		_, r := ld.Run(s.Scratch(), &ic.Case)
		s.Eval(1)
		if r.Panic != nil {
			sink(map[string]string{"kind": "panic", "site": r.Panic.Site, "class": r.Panic.Class}, "load panicked: "+r.Panic.Value, files)
			return
		}
		if ic.Fail {
			if r.Err == nil {
				sink(map[string]string{"kind": "missing-required-accepted", "scenario": ic.Kind}, "a required env file that cannot be read ("+ic.Kind+") did not make the load fail", files)
				return
			}
			continue
		}
		if r.Err != nil {
			sink(map[string]string{"kind": "unexpected-error", "scenario": ic.Kind}, "load failed: "+r.Err.Error(), files)
			return
		}
		p := r.Project
		if ic.Enable != "" {
			var err error
			p, err = p.WithServicesEnabled(ic.Enable)
			if err != nil {
				sink(map[string]string{"kind": "unexpected-error", "scenario": ic.Kind}, "WithServicesEnabled failed: "+err.Error(), files)
				return
			}
		}
		names := make([]string, 0, len(ic.Want))
		for n := range ic.Want {
			names = append(names, n)
		}
		sort.Strings(names)
		for _, n := range names {
			got := envOf(p.Services[n])
			if !sameMap(got, ic.Want[n]) {
				sink(map[string]string{"kind": "env-wrong", "scenario": ic.Kind},
					fmt.Sprintf("%s: service %s has environment %v, the layering requires %v", ic.Kind, n, got, ic.Want[n]), files)
				return
			}
		}
	}
}

func interactions(idx int) []interCase {
	var out []interCase
	// service names vary so that map iteration / sorting order varies
	nameSets := [][]string{{"a", "b"}, {"zeta", "alpha"}, {"s1", "s2", "s3"}, {"web", "db", "cache", "job"}}
	names := nameSets[idx%len(nameSets)]
	sharedFirst := idx/len(nameSets)%2 == 1
	long := idx/(2*len(nameSets))%2 == 1

	// A: shared env file referencing a variable defined per service in an earlier file
	{
		c := ld.Case{Files: map[string]string{}, ComposeFiles: []string{"compose.yaml"}, Env: map[string]string{"FROM_PROJECT": "proj"}}
		want := map[string]map[string]string{}
		var sb strings.Builder
		sb.WriteString("services:\n")
		c.Files["shared.env"] = "GREETING=\"hello ${WHO}\"\nSHARED=same\nP=${FROM_PROJECT}\n"
		for i, n := range names {
			c.Files[n+".env"] = fmt.Sprintf("WHO=%s-%d\n", n, i)
			fmt.Fprintf(&sb, "  %s:\n    image: img\n    env_file:\n", n)
			entries := []string{n + ".env", "shared.env"}
			w := map[string]string{"WHO": fmt.Sprintf("%s-%d", n, i), "GREETING": fmt.Sprintf("hello %s-%d", n, i), "SHARED": "same", "P": "proj"}
			if sharedFirst && i == 0 {
				// for the first service the shared file comes first: WHO is not yet known there
				entries = []string{"shared.env", n + ".env"}
				w["GREETING"] = "hello "
			}
			for _, e := range entries {
				if long {
					fmt.Fprintf(&sb, "      - path: %s\n", e)
				} else {
					fmt.Fprintf(&sb, "      - %s\n", e)
				}
			}
			want[n] = w
		}
		c.Files["compose.yaml"] = sb.String()
		out = append(out, interCase{Kind: "shared-env-file", Case: c, Want: want})
	}
	// B: a shared env file is missing; optional for some services, required for one (or for none)
	for _, allOptional := range []bool{false, true} {
		c := ld.Case{Files: map[string]string{}, ComposeFiles: []string{"compose.yaml"}}
		var sb strings.Builder
		sb.WriteString("services:\n")
		want := map[string]map[string]string{}
		reqAt := idx % len(names)
		for i, n := range names {
			fmt.Fprintf(&sb, "  %s:\n    image: img\n    environment: {OWN: \"%d\"}\n    env_file:\n", n, i)
			if i == reqAt && !allOptional {
				sb.WriteString("      - path: missing.env\n")
			} else {
				sb.WriteString("      - path: missing.env\n        required: false\n")
			}
			want[n] = map[string]string{"OWN": fmt.Sprint(i)}
		}
		c.Files["compose.yaml"] = sb.String()
		ic := interCase{Kind: "shared-missing-file", Case: c, Fail: !allOptional}
		if allOptional {
			ic.Want = want
		}
		out = append(out, ic)
	}
	// D: a required env file that cannot be found for another reason than "no such file":
	// a path component is a regular file, or the name is longer than the file system allows
	for vi, bad := range []string{"present.env/extra.env", strings.Repeat("n", 300) + ".env"} {
		c := ld.Case{Files: map[string]string{"present.env": "P=1\n"}, ComposeFiles: []string{"compose.yaml"}}
		req := idx%2 == 0
		entry := "      - path: " + bad + "\n"
		if !req {
			entry = "      - " + bad + "\n" // short syntax: required by default
		}
		c.Files["compose.yaml"] = "services:\n  " + names[0] + ":\n    image: img\n    env_file:\n      - present.env\n" + entry
		out = append(out, interCase{Kind: fmt.Sprintf("required-env-file-unreachable-%d", vi), Case: c, Fail: true})
	}
	// C: profile-disabled service, load with discard, then enable it
	{
		n := names[0]
		c := ld.Case{Files: map[string]string{}, ComposeFiles: []string{"compose.yaml"}, Env: map[string]string{"FROM_PROJECT": "proj"},
			Opts: ld.Opts{DiscardEnvFiles: true}}
		c.Files["late.env"] = "FROM_FILE=file\nOVER=file\nREF=${FROM_PROJECT}\n"
		c.Files["compose.yaml"] = fmt.Sprintf("services:\n  %s:\n    image: img\n    profiles: [later]\n    env_file: [late.env]\n    environment: {OVER: own, FROM_PROJECT}\n  always:\n    image: img\n    env_file: [late.env]\n", n)
		out = append(out, interCase{Kind: "discard-then-enable", Case: c, Enable: n, Want: map[string]map[string]string{
			n:        {"FROM_FILE": "file", "OVER": "own", "REF": "proj", "FROM_PROJECT": "proj"},
			"always": {"FROM_FILE": "file", "OVER": "file", "REF": "proj"},
		}})
	}
	// D: a file listed twice with another one in between: entries apply in order, the last one last
	{
		n := names[0]
		for vi, form := range []string{"[a.env, b.env, a.env]", "[a.env, b.env, ./a.env]", "[{path: a.env}, {path: b.env}, {path: a.env}]"} {
			c := ld.Case{Files: map[string]string{"a.env": "X=from-a\nONLY_A=1\n", "b.env": "X=from-b\nONLY_B=1\n"}, ComposeFiles: []string{"compose.yaml"}}
			c.Files["compose.yaml"] = fmt.Sprintf("services:\n  %s:\n    image: img\n    env_file: %s\n", n, form)
			out = append(out, interCase{Kind: fmt.Sprintf("env-file-listed-twice-%d", vi), Case: c, Want: map[string]map[string]string{
				n: {"X": "from-a", "ONLY_A": "1", "ONLY_B": "1"},
			}})
		}
	}
	return out
}

func runInteractions(s *core.Shard, offset int) {
	n := s.Pick(48, 480)
	for i := 0; i < n; i++ {
		if !s.Mine(offset + i) {
			continue
		}
		if !s.Begin(fmt.Sprintf("interaction/%d", i)) {
			continue
		}
		for _, ic := range interactions(i) {
			s.Cover("interaction", ic.Kind)
			s.Nontrivial("interaction", ic.Case.Key(), ic.Kind)
			judgeInter(s, ic, nil)
		}
	}
}
