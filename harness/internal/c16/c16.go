// Package c16 checks property C16: a service's environment is its env files in
// order overridden by its `environment` entries (valueless entries taking the
// project environment's value), labels are layered the same way from
// label_file and `labels`, a missing env file is an error unless marked not
// required, and discarding env files removes only the file references.
//
// The generator draws, per service and key, the set of layers that define the
// key, with a distinct value per (key, layer) that names its layer; the
// expected maps are the fold of internal/ref/envlayers.go. Every model is
// loaded three ways: loader, loader with WithDiscardEnvFiles, and loader with
// SkipResolveEnvironment followed by Project.WithServicesEnvironmentResolved.
package c16

import (
	"fmt"
	"path/filepath"
	"sort"
	"strings"

	"github.com/compose-spec/compose-go/v2/types"
	"github.com/sirupsen/logrus"
	"gopkg.in/yaml.v3"

	"verif/harness/internal/core"
	"verif/harness/internal/diff"
	"verif/harness/internal/ld"
	"verif/harness/internal/ref"
)

func init() {
	logrus.SetLevel(logrus.PanicLevel)
	core.Register(&core.Spec{
		ID:    "C16",
		Level: "exploration",
		Rule: "seeded models of 1..2 services x 5 environment keys (+2 helper names) x 4 label keys; per key the set of defining layers is drawn from {project environment, env_file 1..3} x {absent from `environment`, with value, with empty value, without value} (all 64 combinations are forced on one key by the case counter) and {label_file 1..3} x {absent from `labels`, value, empty}; distinct value per (key, layer); file values may reference ${NAME}, ${NAME-default} or ${NAME:-default} with NAME defined in exactly one of {earlier file, project environment, earlier line} (with a default, also nowhere), helper names may be defined with an empty value in a file (defined for `-`, replaced for `:-`); env_file entries in short/long/optional syntax, present or missing; `environment`/`labels` as mapping or list; each model is loaded by the loader, by the loader with WithDiscardEnvFiles, and by the loader with SkipResolveEnvironment (with and without SkipNormalization) followed by WithServicesEnvironmentResolved(false|true). " +
			"A case is non-trivial when some key of some service is defined in at least two layers (or the case carries a missing file) and every execution reached a verdict; distinct = distinct case inputs.",
		Assumptions: []string{
			"the 60-line fold in internal/ref/envlayers.go is a faithful reading of the statement",
			"not asserted (observed, counted in coverage table open-valueless): a key written without a value in `environment` that the project environment does not define (whatever the env files say)",
			"references are only generated to names defined in exactly one of {earlier file, project environment, earlier line}: the statement does not order these sources; label files never reference the project environment (the statement does not say they may)",
			"missing label files are not generated (the statement only speaks about missing env files); env/label file syntax itself is C18's subject and is kept to KEY=VALUE lines",
		},
		Exhaustive: func(string) bool { return false },
		Run:        run,
		Replay:     replay,
		Floor: func(tier string, m *core.Merged) []string {
			var r []string
			c := m.Counters
			if c["loads_ok"] < 3000 || c["env_keys_checked"] < 10000 || c["label_keys_checked"] < 5000 || c["expected_errors_seen"] < 50 {
				r = append(r, fmt.Sprintf("too few observations: %v", c))
			}
			if n := len(m.Cover["env-layers"]); n < 64 {
				r = append(r, fmt.Sprintf("only %d of 64 environment layer combinations exercised", n))
			}
			if n := len(m.Cover["label-layers"]); n < 24 {
				r = append(r, fmt.Sprintf("only %d of 24 label layer combinations exercised", n))
			}
			for _, f := range []string{"ref-earlier-file", "ref-project", "ref-earlier-line", "missing-optional", "missing-required", "env-list", "env-mapping", "labels-list", "labels-mapping", "route-loader", "route-loader-discard", "route-direct", "route-direct-discard", "route-direct-raw", "route-direct-raw-discard", "env_file-string", "env_file-long"} {
				if m.Cover["feature"][f] == 0 {
					r = append(r, "feature never exercised: "+f)
				}
			}
			return r
		},
	})
}

// ---------------------------------------------------------------------------

type rng struct{ s uint64 }

func (r *rng) next() uint64 {
	r.s += 0x9e3779b97f4a7c15
	z := r.s
	z = (z ^ (z >> 30)) * 0xbf58476d1ce4e5b9
	z = (z ^ (z >> 27)) * 0x94d049bb133111eb
	return z ^ (z >> 31)
}
func (r *rng) n(n int) int         { return int(r.next() % uint64(n)) }
func (r *rng) p(num, den int) bool { return r.n(den) < num }
func (r *rng) shuffle(l []string) {
	for i := len(l) - 1; i > 0; i-- {
		j := r.n(i + 1)
		l[i], l[j] = l[j], l[i]
	}
}

// ---------------------------------------------------------------------------
// model (JSON-serialisable: it is the replay case)

type fileSpec struct {
	Path     string        `json:"path"`
	Syntax   string        `json:"syntax"` // short | long | long-required | optional
	Required bool          `json:"required"`
	File     ref.LayerFile `json:"file"`
	Quote    []string      `json:"quote,omitempty"` // per line: "" | "\"" | "'"
}

type labelEntry struct {
	Key   string `json:"key"`
	Value string `json:"value"`
}

type svcModel struct {
	Name         string         `json:"name"`
	EnvFiles     []fileSpec     `json:"env_files"`
	EnvFileStr   bool           `json:"env_file_as_string,omitempty"`
	Environment  []ref.EnvEntry `json:"environment"`
	EnvAsList    bool           `json:"environment_as_list"`
	LabelFiles   []fileSpec     `json:"label_files"`
	Labels       []labelEntry   `json:"labels"`
	LabelsAsList bool           `json:"labels_as_list"`
}

type model struct {
	Project  map[string]string `json:"project_environment"`
	Services []svcModel        `json:"services"`
	// ExpectErr: some required env file is missing.
	ExpectErr bool `json:"expect_error,omitempty"`
}

var (
	envKeys   = []string{"K1", "K2", "K3", "K4", "K5"}
	helpers   = []string{"R1", "R2"}
	labelKeys = []string{"com.ex.a", "com.ex.b", "l_c", "L4"}
	labelRefs = []string{"l_c", "L4"}
)

func val(key, layer string) string { return "v-" + key + "-" + layer }

// layerOf names the layer a value observed in the result came from.
func layerOf(v *string) string {
	if v == nil {
		return "nil"
	}
	if *v == "" {
		return "empty"
	}
	parts := strings.SplitN(*v, "-", 3)
	if len(parts) < 3 || parts[0] != "v" {
		return "other"
	}
	l := parts[2]
	for i := 0; i < len(l); i++ {
		c := l[i]
		if !(c >= 'a' && c <= 'z' || c >= '0' && c <= '9') {
			l = l[:i]
			break
		}
	}
	return l
}

func toLayerFiles(fs []fileSpec) []ref.LayerFile {
	out := make([]ref.LayerFile, len(fs))
	for i, f := range fs {
		out[i] = f.File
	}
	return out
}

// drawLines builds the lines of file number fi (1-based) of one stack of
// files; names lists what may be referenced, project is nil for label files.
func drawLines(r *rng, keys []string, layer string, earlier []ref.LayerFile, project map[string]string, names []string, feats *[]string) ([]ref.LayerLine, []string) {
	envSoFar := ref.LayerFoldFiles(earlier, project)
	local := map[string]string{}
	var lines []ref.LayerLine
	var quotes []string
	isHelper := func(k string) bool {
		for _, h := range helpers {
			if h == k {
				return true
			}
		}
		return false
	}
	for _, k := range keys {
		l := ref.LayerLine{Key: k, Pieces: []ref.LayerPiece{{Lit: val(k, layer)}}}
		q := ""
		if isHelper(k) && r.p(1, 3) {
			// a name defined with an empty value: defined, for ${NAME-x}
			l.Pieces = []ref.LayerPiece{{Lit: ""}}
			*feats = append(*feats, "empty-file-value")
			if r.p(1, 2) {
				q = []string{"\"", "'"}[r.n(2)]
			}
		} else if r.p(1, 3) {
			op := []string{"", "", "-", ":-"}[r.n(4)]
			var cands []string
			for _, nme := range names {
				if nme == k {
					continue
				}
				_, n := ref.LayerLookup(nme, envSoFar, project, local)
				// with a default, a name defined nowhere may be referenced too
				// (env files only: a label file's view of the project
				// environment is not stated)
				if n == 1 || (n == 0 && op != "" && project != nil) {
					cands = append(cands, nme)
				}
			}
			if len(cands) > 0 {
				nme := cands[r.n(len(cands))]
				v, n := ref.LayerLookup(nme, envSoFar, project, local)
				switch {
				case n == 0:
					*feats = append(*feats, "ref-undefined"+op)
				case has(envSoFar, nme):
					*feats = append(*feats, "ref-earlier-file"+op)
				case has(project, nme):
					*feats = append(*feats, "ref-project"+op)
				default:
					*feats = append(*feats, "ref-earlier-line"+op)
				}
				if n == 1 && v == "" {
					*feats = append(*feats, "ref-empty-valued"+op)
				}
				piece := ref.LayerPiece{Ref: nme, Op: op}
				if op != "" {
					piece.Def = "dflt" + k
				}
				l.Pieces = append(l.Pieces, ref.LayerPiece{Lit: "/"}, piece, ref.LayerPiece{Lit: "/"})
				if r.p(1, 2) {
					q = "\""
				}
			}
		} else if r.p(1, 4) {
			q = []string{"\"", "'"}[r.n(2)]
		}
		// value of this line, for later lines of the same file
		var sb strings.Builder
		for _, p := range l.Pieces {
			if p.Ref == "" {
				sb.WriteString(p.Lit)
			} else {
				sb.WriteString(ref.LayerExpand(p, envSoFar, project, local))
			}
		}
		local[k] = sb.String()
		lines = append(lines, l)
		quotes = append(quotes, q)
	}
	return lines, quotes
}

func has(m map[string]string, k string) bool { _, ok := m[k]; return ok }

type genInfo struct {
	features []string
	envCombo []string // per (service,key): realised layer combination
	lblCombo []string
	multi    bool // some key defined in >= 2 layers
}

func generate(r *rng, idx int) (model, genInfo) {
	var m model
	var gi genInfo
	m.Project = map[string]string{}
	for _, k := range append(append([]string{}, envKeys...), helpers...) {
		if r.p(1, 2) {
			m.Project[k] = val(k, "proj")
			if r.p(1, 10) {
				m.Project[k] = ""
			}
		}
	}
	// the case counter forces every combination on K1 of the first service
	forced := idx%2 == 0
	combo := (idx / 2) % 64
	if forced {
		if combo&1 == 1 {
			if _, ok := m.Project["K1"]; !ok {
				m.Project["K1"] = val("K1", "proj")
			}
		} else {
			delete(m.Project, "K1")
		}
	}
	errCase := idx%12 == 5
	nsvc := 1 + r.n(2)
	for si := 0; si < nsvc; si++ {
		s := svcModel{Name: fmt.Sprintf("s%d", si+1)}
		nf := r.n(4)
		if forced && si == 0 {
			nf = 3
		}
		if errCase && si == 0 && nf == 0 {
			nf = 1
		}
		// which keys each file defines, and the `environment` mode per key
		fileBits := map[string]int{}
		mode := map[string]int{}
		for _, k := range envKeys {
			fileBits[k] = r.n(8)
			mode[k] = r.n(4)
		}
		for _, h := range helpers {
			fileBits[h] = 0
			if r.p(1, 3) {
				fileBits[h] = 1 << r.n(3)
			}
		}
		if forced && si == 0 {
			fileBits["K1"] = (combo >> 1) & 7
			mode["K1"] = (combo >> 4) & 3
		}
		missingRequired := -1
		if errCase && si == 0 {
			missingRequired = r.n(nf)
		}
		var done []ref.LayerFile
		for fi := 0; fi < nf; fi++ {
			f := fileSpec{Path: fmt.Sprintf("%s-e%d.env", s.Name, fi+1), Required: true}
			if r.p(1, 3) {
				f.Path = "envs/" + f.Path
			}
			f.File.Present = true
			switch k := r.n(8); {
			case k < 3:
				f.Syntax = "short"
			case k < 4:
				f.Syntax = "long"
			case k < 5:
				f.Syntax = "long-required"
			case k < 6:
				f.Syntax, f.Required = "optional", false
			default:
				if forced && si == 0 {
					f.Syntax = "short"
				} else {
					f.Syntax, f.Required, f.File.Present = "optional", false, false
					gi.features = append(gi.features, "missing-optional")
				}
			}
			if fi == missingRequired {
				f.Required, f.File.Present = true, false
				if f.Syntax == "optional" {
					f.Syntax = "long-required"
				}
				m.ExpectErr = true
				gi.features = append(gi.features, "missing-required")
			}
			if f.File.Present {
				var keys []string
				for _, k := range append(append([]string{}, envKeys...), helpers...) {
					if fileBits[k]&(1<<fi) != 0 {
						keys = append(keys, k)
					}
				}
				r.shuffle(keys)
				f.File.Lines, f.Quote = drawLines(r, keys, fmt.Sprintf("f%d", fi+1), done, m.Project, append(append([]string{}, envKeys...), helpers...), &gi.features)
			}
			if f.Syntax == "short" {
				gi.features = append(gi.features, "env_file-string")
			} else {
				gi.features = append(gi.features, "env_file-long")
			}
			done = append(done, f.File)
			s.EnvFiles = append(s.EnvFiles, f)
		}
		s.EnvFileStr = nf == 1 && s.EnvFiles[0].Syntax == "short" && r.p(1, 2)
		for _, k := range envKeys {
			switch mode[k] {
			case 1:
				v := val(k, "env")
				if r.p(1, 6) {
					v += "=x y"
				}
				s.Environment = append(s.Environment, ref.EnvEntry{Key: k, Mode: ref.EnvValue, Value: v})
			case 2:
				s.Environment = append(s.Environment, ref.EnvEntry{Key: k, Mode: ref.EnvEmpty})
			case 3:
				s.Environment = append(s.Environment, ref.EnvEntry{Key: k, Mode: ref.EnvNoValue})
			}
			// realised combination (only present files count)
			var parts []string
			layers := 0
			if has(m.Project, k) {
				parts = append(parts, "P")
			}
			for fi, f := range s.EnvFiles {
				if f.File.Present && fileBits[k]&(1<<fi) != 0 {
					parts = append(parts, fmt.Sprintf("F%d", fi+1))
					layers++
				}
			}
			parts = append(parts, "env:"+[]string{"absent", "value", "empty", "novalue"}[mode[k]])
			if mode[k] != 0 {
				layers++
			}
			if layers >= 2 {
				gi.multi = true
			}
			if len(s.EnvFiles) == 3 && s.EnvFiles[0].File.Present && s.EnvFiles[1].File.Present && s.EnvFiles[2].File.Present {
				gi.envCombo = append(gi.envCombo, strings.Join(parts, "+"))
			}
		}
		s.EnvAsList = r.p(1, 2)
		if s.EnvAsList {
			gi.features = append(gi.features, "env-list")
		} else {
			gi.features = append(gi.features, "env-mapping")
		}

		// labels
		nlf := r.n(4)
		lbits := map[string]int{}
		lmode := map[string]int{}
		for _, k := range labelKeys {
			lbits[k] = r.n(8)
			lmode[k] = r.n(3)
		}
		if forced && si == 0 {
			nlf = 3
			c24 := (idx / 2) % 24
			lbits[labelKeys[0]] = c24 & 7
			lmode[labelKeys[0]] = c24 >> 3
		}
		var ldone []ref.LayerFile
		for fi := 0; fi < nlf; fi++ {
			f := fileSpec{Path: fmt.Sprintf("%s-l%d.label", s.Name, fi+1), Required: true, Syntax: "short"}
			if r.p(1, 3) {
				f.Path = "labels/" + f.Path
			}
			f.File.Present = true
			var keys []string
			for _, k := range labelKeys {
				if lbits[k]&(1<<fi) != 0 {
					keys = append(keys, k)
				}
			}
			r.shuffle(keys)
			f.File.Lines, f.Quote = drawLines(r, keys, fmt.Sprintf("lf%d", fi+1), ldone, nil, labelRefs, &gi.features)
			ldone = append(ldone, f.File)
			s.LabelFiles = append(s.LabelFiles, f)
		}
		for _, k := range labelKeys {
			switch lmode[k] {
			case 1:
				s.Labels = append(s.Labels, labelEntry{k, val(k, "labels")})
			case 2:
				s.Labels = append(s.Labels, labelEntry{k, ""})
			}
			var parts []string
			layers := 0
			for fi := 0; fi < nlf; fi++ {
				if lbits[k]&(1<<fi) != 0 {
					parts = append(parts, fmt.Sprintf("LF%d", fi+1))
					layers++
				}
			}
			parts = append(parts, "labels:"+[]string{"absent", "value", "empty"}[lmode[k]])
			if lmode[k] != 0 {
				layers++
			}
			if layers >= 2 {
				gi.multi = true
			}
			if nlf == 3 {
				gi.lblCombo = append(gi.lblCombo, strings.Join(parts, "+"))
			}
		}
		s.LabelsAsList = r.p(1, 2)
		if s.LabelsAsList {
			gi.features = append(gi.features, "labels-list")
		} else {
			gi.features = append(gi.features, "labels-mapping")
		}
		m.Services = append(m.Services, s)
	}
	if m.ExpectErr {
		gi.multi = true
	}
	return m, gi
}

// ---------------------------------------------------------------------------
// rendering

func renderFile(f fileSpec) string {
	var sb strings.Builder
	for i, l := range f.File.Lines {
		q := ""
		if i < len(f.Quote) {
			q = f.Quote[i]
		}
		sb.WriteString(l.Key + "=" + q)
		for _, p := range l.Pieces {
			if p.Ref == "" {
				sb.WriteString(p.Lit)
			} else {
				sb.WriteString("${" + p.Ref + p.Op + p.Def + "}")
			}
		}
		sb.WriteString(q + "\n")
	}
	return sb.String()
}

func buildCase(m model, o ld.Opts) ld.Case {
	c := ld.Case{Files: map[string]string{}, ComposeFiles: []string{"compose.yaml"}, Env: m.Project, Opts: o}
	services := map[string]any{}
	for _, s := range m.Services {
		svc := map[string]any{"image": "img"}
		if len(s.EnvFiles) > 0 {
			var list []any
			for _, f := range s.EnvFiles {
				switch f.Syntax {
				case "short":
					list = append(list, f.Path)
				case "long":
					list = append(list, map[string]any{"path": f.Path})
				case "long-required":
					list = append(list, map[string]any{"path": f.Path, "required": true})
				default:
					list = append(list, map[string]any{"path": f.Path, "required": false})
				}
				if f.File.Present {
					c.Files[f.Path] = renderFile(f)
				}
			}
			if s.EnvFileStr {
				svc["env_file"] = s.EnvFiles[0].Path
			} else {
				svc["env_file"] = list
			}
		}
		if len(s.Environment) > 0 {
			if s.EnvAsList {
				var l []any
				for _, e := range s.Environment {
					switch e.Mode {
					case ref.EnvValue:
						l = append(l, e.Key+"="+e.Value)
					case ref.EnvEmpty:
						l = append(l, e.Key+"=")
					default:
						l = append(l, e.Key)
					}
				}
				svc["environment"] = l
			} else {
				mm := map[string]any{}
				for _, e := range s.Environment {
					switch e.Mode {
					case ref.EnvValue:
						mm[e.Key] = e.Value
					case ref.EnvEmpty:
						mm[e.Key] = ""
					default:
						mm[e.Key] = nil
					}
				}
				svc["environment"] = mm
			}
		}
		if len(s.LabelFiles) > 0 {
			var list []any
			for _, f := range s.LabelFiles {
				list = append(list, f.Path)
				c.Files[f.Path] = renderFile(f)
			}
			svc["label_file"] = list // always the list spelling (the string spelling is C03's finding)
		}
		if len(s.Labels) > 0 {
			if s.LabelsAsList {
				var l []any
				for _, e := range s.Labels {
					l = append(l, e.Key+"="+e.Value)
				}
				svc["labels"] = l
			} else {
				mm := map[string]any{}
				for _, e := range s.Labels {
					mm[e.Key] = e.Value
				}
				svc["labels"] = mm
			}
		}
		services[s.Name] = svc
	}
	b, _ := yaml.Marshal(map[string]any{"services": services})
	c.Files["compose.yaml"] = string(b)
	return c
}

// ---------------------------------------------------------------------------
// judging

type verdict struct {
	attrs map[string]string
	what  string
}

func showM(m map[string]string) string {
	keys := make([]string, 0, len(m))
	for k := range m {
		keys = append(keys, k)
	}
	sort.Strings(keys)
	var p []string
	for _, k := range keys {
		p = append(p, fmt.Sprintf("%s=%q", k, m[k]))
	}
	return "{" + strings.Join(p, " ") + "}"
}

func showE(m types.MappingWithEquals) string {
	keys := make([]string, 0, len(m))
	for k := range m {
		keys = append(keys, k)
	}
	sort.Strings(keys)
	var p []string
	for _, k := range keys {
		if m[k] == nil {
			p = append(p, k+"=<nil>")
		} else {
			p = append(p, fmt.Sprintf("%s=%q", k, *m[k]))
		}
	}
	return "{" + strings.Join(p, " ") + "}"
}

// checkEnv compares the resolved environment of every service.
func checkEnv(s *core.Shard, p *types.Project, m model, route string) []verdict {
	var out []verdict
	for _, sm := range m.Services {
		svc, ok := p.Services[sm.Name]
		if !ok {
			out = append(out, verdict{map[string]string{"kind": "service-missing", "route": route}, "service " + sm.Name + " missing from the project"})
			continue
		}
		want, open := ref.LayerEnvironment(toLayerFiles(sm.EnvFiles), m.Project, sm.Environment)
		keys := make([]string, 0, len(want))
		for k := range want {
			keys = append(keys, k)
		}
		sort.Strings(keys)
		for _, k := range keys {
			w := want[k]
			s.Add("env_keys_checked", 1)
			a, ok := svc.Environment[k]
			switch {
			case !ok || a == nil:
				out = append(out, verdict{map[string]string{"kind": "env-missing-key", "route": route, "expected": layerOf(&w), "got": layerOf(a)},
					fmt.Sprintf("service %s: %s expected %q, got %s; environment=%s expected=%s", sm.Name, k, w, map[bool]string{true: "<nil>", false: "no entry"}[ok], showE(svc.Environment), showM(want))})
			case *a != w:
				out = append(out, verdict{map[string]string{"kind": "env-wrong-value", "route": route, "expected": layerOf(&w), "got": layerOf(a)},
					fmt.Sprintf("service %s: %s = %q, expected %q; environment=%s expected=%s", sm.Name, k, *a, w, showE(svc.Environment), showM(want))})
			}
		}
		var akeys []string
		for k := range svc.Environment {
			akeys = append(akeys, k)
		}
		sort.Strings(akeys)
		for _, k := range akeys {
			a := svc.Environment[k]
			if open[k] {
				s.Cover("open-valueless", layerOf(a))
				continue
			}
			if _, ok := want[k]; !ok {
				out = append(out, verdict{map[string]string{"kind": "env-extra-key", "route": route, "got": layerOf(a)},
					fmt.Sprintf("service %s: unexpected key %s in environment=%s expected=%s", sm.Name, k, showE(svc.Environment), showM(want))})
			}
		}
		for k := range open {
			if _, ok := svc.Environment[k]; !ok {
				s.Cover("open-valueless", "no entry")
			}
		}
	}
	return out
}

func checkLabels(s *core.Shard, p *types.Project, m model, route string) []verdict {
	var out []verdict
	for _, sm := range m.Services {
		svc, ok := p.Services[sm.Name]
		if !ok {
			continue
		}
		lm := map[string]string{}
		for _, e := range sm.Labels {
			lm[e.Key] = e.Value
		}
		want := ref.LayerLabels(toLayerFiles(sm.LabelFiles), lm)
		all := map[string]bool{}
		for k := range want {
			all[k] = true
		}
		for k := range svc.Labels {
			all[k] = true
		}
		var keys []string
		for k := range all {
			keys = append(keys, k)
		}
		sort.Strings(keys)
		for _, k := range keys {
			s.Add("label_keys_checked", 1)
			w, wok := want[k]
			a, aok := svc.Labels[k]
			var ap *string
			if aok {
				ap = &a
			}
			what := fmt.Sprintf("service %s: labels=%s expected=%s", sm.Name, showM(svc.Labels), showM(want))
			switch {
			case wok && !aok:
				out = append(out, verdict{map[string]string{"kind": "label-missing-key", "route": route, "expected": layerOf(&w)}, what})
			case !wok && aok:
				out = append(out, verdict{map[string]string{"kind": "label-extra-key", "route": route, "got": layerOf(ap)}, what})
			case a != w:
				out = append(out, verdict{map[string]string{"kind": "label-wrong-value", "route": route, "expected": layerOf(&w), "got": layerOf(ap)}, what})
			}
		}
	}
	return out
}

// checkRefs: file references kept (not discarded) or removed (discarded).
func checkRefs(p *types.Project, m model, dir string, discardEnv bool, route string) []verdict {
	var out []verdict
	for _, sm := range m.Services {
		svc := p.Services[sm.Name]
		if discardEnv {
			if len(svc.EnvFiles) != 0 {
				out = append(out, verdict{map[string]string{"kind": "envfiles-not-discarded", "route": route}, fmt.Sprintf("service %s keeps env_file %v although discarding was requested", sm.Name, svc.EnvFiles)})
			}
			continue
		}
		if len(svc.EnvFiles) != len(sm.EnvFiles) {
			out = append(out, verdict{map[string]string{"kind": "envfiles-not-preserved", "route": route}, fmt.Sprintf("service %s: env_file %v, %d entries declared", sm.Name, svc.EnvFiles, len(sm.EnvFiles))})
			continue
		}
		for i, f := range sm.EnvFiles {
			got := svc.EnvFiles[i]
			if got.Path != filepath.Join(dir, f.Path) || got.Required != f.Required {
				out = append(out, verdict{map[string]string{"kind": "envfiles-not-preserved", "route": route}, fmt.Sprintf("service %s: env_file[%d] = %+v, declared path %s required %v", sm.Name, i, got, f.Path, f.Required)})
			}
		}
	}
	return out
}

func errVerdict(m model, err error, route string) verdict {
	kind := "unexpected-error"
	if strings.Contains(err.Error(), "not found") || strings.Contains(err.Error(), "no such file") {
		for _, sm := range m.Services {
			for _, f := range sm.EnvFiles {
				if !f.File.Present && !f.Required {
					kind = "optional-missing-rejected"
				}
			}
		}
	}
	return verdict{map[string]string{"kind": kind, "route": route}, fmt.Sprintf("%s: load failed: %v", route, err)}
}

// execute runs the model through the routes and returns all verdicts.
func execute(s *core.Shard, m model) (vs []verdict, c ld.Case) {
	addPanic := func(pi *core.PanicInfo, route string) {
		vs = append(vs, verdict{map[string]string{"kind": "panic", "site": pi.Site, "class": pi.Class, "route": route}, fmt.Sprintf("%s: panic in %s: %s", route, pi.Site, pi.Value)})
	}
	mustFail := func(route string) {
		vs = append(vs, verdict{map[string]string{"kind": "missing-required-accepted", "route": route}, route + ": the project loaded although a required env file is missing"})
	}
	// route A: loader
	c = buildCase(m, ld.Opts{})
	work := s.Scratch()
	dir, ra := ld.Run(work, &c)
	s.Eval(1)
	s.Cover("feature", "route-loader")
	var pa *types.Project
	switch {
	case ra.Panic != nil:
		addPanic(ra.Panic, "loader")
	case m.ExpectErr:
		if ra.Err == nil {
			mustFail("loader")
		} else {
			s.Add("expected_errors_seen", 1)
		}
	case ra.Err != nil:
		vs = append(vs, errVerdict(m, ra.Err, "loader"))
	default:
		s.Add("loads_ok", 1)
		pa = ra.Project
		vs = append(vs, checkEnv(s, pa, m, "loader")...)
		vs = append(vs, checkLabels(s, pa, m, "loader")...)
		vs = append(vs, checkRefs(pa, m, dir, false, "loader")...)
	}
	// route B: loader with WithDiscardEnvFiles (same files on disk)
	cb := buildCase(m, ld.Opts{DiscardEnvFiles: true})
	rb := ld.Load(dir, &cb)
	s.Eval(1)
	s.Cover("feature", "route-loader-discard")
	switch {
	case rb.Panic != nil:
		addPanic(rb.Panic, "loader-discard")
	case m.ExpectErr:
		if rb.Err == nil {
			mustFail("loader-discard")
		} else {
			s.Add("expected_errors_seen", 1)
		}
	case rb.Err != nil:
		vs = append(vs, errVerdict(m, rb.Err, "loader-discard"))
	default:
		s.Add("loads_ok", 1)
		vs = append(vs, checkEnv(s, rb.Project, m, "loader-discard")...)
		vs = append(vs, checkLabels(s, rb.Project, m, "loader-discard")...)
		vs = append(vs, checkRefs(rb.Project, m, dir, true, "loader-discard")...)
		if pa != nil {
			o := diff.Default()
			o.IgnoreField["EnvFiles"] = true
			o.IgnoreField["LabelFiles"] = true
			if d := diff.Compare(pa, rb.Project, o); d != "" {
				vs = append(vs, verdict{map[string]string{"kind": "discard-changes-model", "path": diff.PathOf(d)}, "discarding env files changed more than the file references: " + d})
			}
		}
	}
	// routes C/D: unresolved load (D: also without normalisation, so that the
	// resolution under test is the only one that ran), then the resolution applied directly
	for _, raw := range []bool{false, true} {
		suffix := ""
		if raw {
			suffix = "-raw"
		}
		cc := buildCase(m, ld.Opts{SkipResolveEnvironment: true, SkipNormalization: raw})
		rc := ld.Load(dir, &cc)
		s.Eval(1)
		switch {
		case rc.Panic != nil:
			addPanic(rc.Panic, "loader-unresolved"+suffix)
		case rc.Err != nil:
			if !m.ExpectErr {
				vs = append(vs, errVerdict(m, rc.Err, "loader-unresolved"+suffix))
			} else {
				s.Add("expected_errors_seen", 1)
			}
		default:
			for _, discard := range []bool{false, true} {
				route := "direct" + suffix
				if discard {
					route += "-discard"
				}
				s.Cover("feature", "route-"+route)
				var pd *types.Project
				var err error
				pi := core.Guard(func() { pd, err = rc.Project.WithServicesEnvironmentResolved(discard) })
				s.Eval(1)
				switch {
				case pi != nil:
					addPanic(pi, route)
				case m.ExpectErr:
					if err == nil {
						mustFail(route)
					} else {
						s.Add("expected_errors_seen", 1)
					}
				case err != nil:
					vs = append(vs, errVerdict(m, err, route))
				default:
					s.Add("loads_ok", 1)
					vs = append(vs, checkEnv(s, pd, m, route)...)
					vs = append(vs, checkLabels(s, pd, m, route)...)
					vs = append(vs, checkRefs(pd, m, dir, discard, route)...)
				}
			}
		}
	}
	// one report per attribute set
	seen := map[string]bool{}
	var uniq []verdict
	for _, v := range vs {
		k := core.AttrKey(v.attrs)
		if !seen[k] {
			seen[k] = true
			uniq = append(uniq, v)
		}
	}
	return uniq, c
}

func report(s *core.Shard, vs []verdict, m model, c ld.Case) {
	for _, v := range vs {
		files := map[string]any{"case.json": m, "loader-case.json": c}
		for name, content := range c.Files {
			files["input/"+name] = content
		}
		s.Violation(v.attrs, v.what, files)
	}
}

func replay(s *core.Shard, dir string) {
	var wrap struct {
		Interaction *interCase `json:"interaction"`
	}
	if err := core.ReadJSON(filepath.Join(dir, "case.json"), &wrap); err == nil && wrap.Interaction != nil {
		s.Begin("replay")
		judgeInter(s, *wrap.Interaction, nil)
		return
	}
	var m model
	if err := core.ReadJSON(filepath.Join(dir, "case.json"), &m); err != nil {
		s.Inconclusive("replay: " + err.Error())
		return
	}
	s.Begin("replay")
	vs, c := execute(s, m)
	report(s, vs, m, c)
}

func run(s *core.Shard) {
	n := s.Pick(4000, 25000)
	runInteractions(s, n)
	base := s.Rand("models").Uint64()
	for i := 0; i < n; i++ {
		if !s.Mine(i) {
			continue
		}
		if !s.Begin(fmt.Sprintf("model/%d", i)) {
			continue
		}
		r := &rng{s: base ^ uint64(i)*0x9e3779b97f4a7c15}
		m, gi := generate(r, i)
		for _, f := range gi.features {
			s.Cover("feature", f)
		}
		for _, c := range gi.envCombo {
			s.Cover("env-layers", c)
		}
		for _, c := range gi.lblCombo {
			s.Cover("label-layers", c)
		}
		vs, c := execute(s, m)
		if gi.multi {
			s.Nontrivial(c.Key())
		}
		if len(vs) > 0 {
			report(s, vs, m, c)
		} else if s.WantSample() && gi.multi && !m.ExpectErr && len(m.Services[0].EnvFiles) >= 2 {
			want, _ := ref.LayerEnvironment(toLayerFiles(m.Services[0].EnvFiles), m.Project, m.Services[0].Environment)
			s.Sample(map[string]any{"files": c.Files, "project_environment": m.Project, "expected_environment_s1": want})
		}
	}
}
