package c09

import (
	"encoding/json"
	"fmt"
	"math/rand"
	"os"
	"path/filepath"
	"sort"
	"strings"

	"verif/harness/internal/core"
	"verif/harness/internal/gen"
	"verif/harness/internal/ld"
)

var formats = []string{"yaml", "json"}

type replayCase struct {
	Case    *ld.Case `json:"case"`
	Formats []string `json:"formats"`
	Culprit string   `json:"culprit,omitempty"`
	// Expect (witness only): the failure that must show.
	Kind  string `json:"kind,omitempty"`
	Class string `json:"class,omitempty"`
}

type checker struct {
	s *core.Shard
	// culprit attribute sets already established in this shard
	cache [][]string
	// attributed counts the failures that went through culprit attribution (capped)
	attributed int
}

func optsFor(r *rand.Rand, m *gen.Model) ld.Opts {
	var o ld.Opts
	switch r.Intn(10) {
	case 0, 1:
		o.SkipNormalization = true
	case 2, 3:
		o.NoResolvePaths = true
	case 4:
		o.SkipNormalization, o.NoResolvePaths = true, true
	case 5:
		o.SkipConsistencyCheck = true
	case 6:
		if m.Layout != nil && len(m.Layout.Extends) > 0 {
			o.SkipExtends = true
		}
	}
	return o
}

func run(s *core.Shard) {
	k := &checker{s: s}
	if s.Index == 0 {
		for _, f := range fieldUniverse() {
			s.Cover("field_universe", f)
		}
	}
	i := 0
	next := func() (int, bool) { i++; return i, s.Mine(i) }
	k.hand(5)

	// (a) saturated models
	scale := 1
	if os.Getenv("VERIF_DEBUG") == "small" {
		scale = 10
	}
	nSat := s.Pick(24, 96) / scale
	for j := 0; j < nSat; j++ {
		n, mine := next()
		if !mine {
			continue
		}
		r := s.Rand(fmt.Sprintf("sat/%d", j))
		cfg := gen.Saturated()
		switch j % 6 {
		case 1:
			cfg.Spelling = "long"
		case 2:
			cfg.EnvFileFormat = true
		case 3:
			cfg.Deprecated = true
			cfg.Layout = true
		case 4:
			cfg.Variables = true
			cfg.Layout = true
		case 5:
			cfg.TrickyText = false
		}
		m := gen.Draw(r, cfg)
		m.Order = int64(j%3) * int64(n)
		opts := ld.Opts{}
		switch j % 8 {
		case 5:
			opts.SkipNormalization = true
		case 6:
			opts.NoResolvePaths = true
		case 7:
			if m.Layout != nil && len(m.Layout.Extends) > 0 {
				opts.SkipExtends = true
			}
		}
		k.model(fmt.Sprintf("sat/%d", j), m, opts)
	}

	// (b) the loader's own compose files
	for j, c := range gen.Corpus() {
		_, mine := next()
		if !mine {
			continue
		}
		for oi, o := range []ld.Opts{{}, {SkipConsistencyCheck: true}, {SkipNormalization: true, SkipConsistencyCheck: true}} {
			cc := *c
			cc.Opts = o
			id := fmt.Sprintf("corpus/%d/%d", j, oi)
			if !s.Begin(id) {
				continue
			}
			out := roundTrip(s.Scratch(), &cc, formats...)
			k.account(id, &cc, out, "corpus")
			for _, f := range out.failures {
				f.Detail += " (" + c.ComposeFiles[0] + " of the loader's own files)"
				k.report(f, &cc, out, "corpus", nil)
			}
		}
	}

	// (c) random models
	nRnd := s.Pick(1200, 20000) / scale
	for j := 0; j < nRnd; j++ {
		_, mine := next()
		if !mine {
			continue
		}
		r := s.Rand(fmt.Sprintf("rnd/%d", j))
		cfg := gen.Config{
			Density:    []float64{0.1, 0.2, 0.35, 0.6}[r.Intn(4)],
			Profiles:   r.Intn(3) == 0,
			TrickyText: r.Intn(2) == 0,
			Variables:  r.Intn(4) == 0,
			Layout:     r.Intn(3) == 0,
		}
		switch r.Intn(16) {
		case 0:
			cfg.EnvFileFormat = true
			cfg.Force = map[string]bool{"service.env_file": true, "service.env_file.format": true}
		case 1:
			cfg.Deprecated = true
		case 2, 3:
			cfg.Spelling = "long"
		}
		if cfg.Density >= 0.6 {
			cfg.MaxServices = 2
		}
		m := gen.Draw(r, cfg)
		if r.Intn(2) == 0 {
			m.Order = int64(j + 1)
		}
		k.model(fmt.Sprintf("rnd/%d", j), m, optsFor(r, m))
	}
}

func (k *checker) account(id string, c *ld.Case, out outcome, origin string) {
	s := k.s
	s.Eval(1)
	s.Cover("origin", origin)
	s.Cover("options", c.Opts.String())
	switch {
	case !out.loaded && len(out.failures) == 0:
		s.Add("loads_err", 1)
		return
	case out.skipped != "":
		s.Add("skipped_precondition", 1)
		return
	}
	s.Add("loads_ok", 1)
	s.Add("compared", out.compared)
	s.Eval(out.compared)
	if out.preRendered {
		s.Add("rendered_with_secret_content_first", 1)
	}
	if out.compared > 0 {
		s.Nontrivial(c.Key())
	}
	if out.project != nil {
		fields := map[string]bool{}
		nonZeroFields(out.project, fields)
		for f := range fields {
			s.Cover("field", f)
		}
	}
	if len(out.failures) == 0 && out.compared == len(formats) {
		s.Add("held", 1)
		if s.WantSample() {
			s.Sample(map[string]any{"case": id, "compose_files": c.ComposeFiles, "input": clip(c.Files[c.ComposeFiles[0]], 1500), "options": c.Opts.String(),
				"verdict": "yaml and json renderings reloaded to an equal project and re-rendered to identical bytes"})
		}
	}
}

// model runs the round trip on a generated model; on failure it attributes
// each failure to a culprit attribute, reports it, removes the culprit and
// goes on with the rest of the model.
func (k *checker) model(id string, m *gen.Model, opts ld.Opts) {
	s := k.s
	if !s.Begin(id) {
		return
	}
	cur := m
	for iter := 0; iter < 12; iter++ {
		c := cur.Case(opts)
		out := roundTrip(s.Scratch(), c, formats...)
		if iter == 0 {
			origin := "random"
			if strings.HasPrefix(id, "sat/") {
				origin = "saturated"
			}
			k.account(id, c, out, origin)
			if cur.Layout != nil {
				if len(cur.Layout.Extends) > 0 {
					s.Cover("layout", "extends")
				}
				if cur.Layout.Include != nil {
					s.Cover("layout", "include")
				}
				if len(cur.Layout.Override) > 0 {
					s.Cover("layout", "override")
				}
			}
		} else {
			s.Add("rechecks_after_culprit_removal", 1)
			s.Eval(1 + out.compared)
			s.Add("compared", out.compared)
		}
		if len(out.failures) == 0 {
			return
		}
		next := cur.Clone()
		removed := 0
		for _, f := range out.failures {
			if k.attributed >= 8 {
				// a tree on which everything fails: enough failures were attributed and minimised,
				// the rest is reported as found
				k.report(f, c, out, "", nil)
				continue
			}
			k.attributed++
			culprit, minimal, mf := k.attribute(cur, opts, f)
			k.report(mf, c, out, strings.Join(culprit, ","), minimal)
			if len(culprit) <= 2 {
				for _, p := range culprit {
					removed += gen.RemoveAttr(next.Doc, p)
				}
			}
		}
		if removed == 0 {
			return
		}
		cur = next
	}
}

func clip(x string, n int) string {
	if len(x) > n {
		return x[:n] + "\n... (clipped)"
	}
	return x
}

func hasFailure(out outcome, sig string) bool {
	for _, f := range out.failures {
		if f.sig() == sig {
			return true
		}
	}
	return false
}

// attribute finds the attribute(s) without which the failure disappears. It returns the
// culprit, and — when the model had to be pruned — the minimal model with its own failure.
func (k *checker) attribute(m *gen.Model, opts ld.Opts, f failure) ([]string, *gen.Model, failure) {
	s := k.s
	fmts := []string{f.Format}
	if f.Format == "load" {
		fmts = nil
	}
	var last outcome
	phase := "attribution_cache_tests"
	try := func(c *gen.Model) outcome {
		s.Add("attribution_loads", 1)
		s.Add(phase, 1)
		last = roundTrip(s.Scratch(), c.Case(opts), fmts...)
		return last
	}
	// culprits named by the failure text first, then most recently confirmed first
	norm := func(x string) string {
		return strings.ToLower(strings.NewReplacer("_", "", ".", "", "-", "").Replace(x))
	}
	text := norm(f.Class + " " + f.Detail)
	names := func(c []string, txt string) bool {
		for _, p := range c {
			if seg := norm(p[strings.LastIndex(p, ".")+1:]); len(seg) >= 3 && strings.Contains(txt, seg) {
				return true
			}
		}
		return false
	}
	sort.SliceStable(k.cache, func(a, b int) bool { return names(k.cache[a], text) && !names(k.cache[b], text) })
	// cured: the model without the culprit still loads and the failure is gone. When the failure
	// text names the culprit, a remaining failure of the same step that no longer names it is
	// another defect of the same model (the loader reports one error at a time, the comparer
	// one difference): it is attributed in the next round.
	cured := func(out outcome, culprit []string) bool {
		if !out.loaded || out.skipped != "" {
			return false
		}
		for _, x := range out.failures {
			if x.sig() != f.sig() {
				continue
			}
			if !names(culprit, text) || names(culprit, norm(x.Class+" "+x.Detail)) {
				return false
			}
		}
		return true
	}
	for i, known := range k.cache {
		c := m.Clone()
		n := 0
		for _, p := range known {
			n += gen.RemoveAttr(c.Doc, p)
		}
		if n == 0 {
			continue
		}
		if cured(try(c), known) {
			// move to front: the most frequent culprits are tried first
			copy(k.cache[1:i+1], k.cache[:i])
			k.cache[0] = known
			return known, nil, f
		}
	}
	pred := func(c *gen.Model) bool { return hasFailure(try(c), f.sig()) }
	start := m
	phase = "attribution_named_tests"
	s.Add("attribution_cache_misses", 1)
	// attributes of the model that the failure text names are tried before blind pruning
	var named []string
	for _, p := range gen.AttrPaths(m.Doc) {
		if seg := norm(p[strings.LastIndex(p, ".")+1:]); len(seg) >= 3 && strings.Contains(text, seg) {
			named = append(named, p)
		}
	}
	sort.SliceStable(named, func(a, b int) bool { return len(named[a]) > len(named[b]) })
	for _, p := range named {
		c := m.Clone()
		if gen.RemoveAttr(c.Doc, p) == 0 {
			continue
		}
		if cured(try(c), []string{p}) {
			// removing p cures it: prune from the sub-document that carries only p
			k := m.Clone()
			k.Layout = nil
			if gen.KeepOnly(k.Doc, p) && pred(k) {
				start = k
			}
			break
		}
	}
	phase = "attribution_shrink_loads"
	if start != m {
		s.Add("attribution_targeted_shrinks", 1)
	}
	min := gen.Shrink(start, pred, 400)
	culprit := gen.AttrPaths(min.Doc)
	if len(culprit) <= 2 {
		k.cache = append([][]string{culprit}, k.cache...)
	}
	for _, x := range try(min).failures {
		if x.sig() == f.sig() {
			return culprit, min, x
		}
	}
	return culprit, min, f
}

func (k *checker) report(f failure, c *ld.Case, out outcome, culprit string, minimal *gen.Model) {
	// stable attributes: what failed, in which rendering, and the attribute it is due to. The
	// differing field (mismatch) is stable by itself; an error text is only used when no
	// culprit attribute could be established.
	attrs := map[string]string{"kind": f.Kind, "format": f.Format}
	if f.Kind == "mismatch" || f.Kind == "rerender-differs" || f.Kind == "panic" {
		attrs["field"] = f.Class
	}
	if strings.Count(culprit, ",") >= 2 {
		culprit = "unresolved"
	}
	if culprit != "" {
		attrs["culprit"] = culprit
	}
	if (culprit == "" || culprit == "unresolved" || culprit == "corpus") && attrs["field"] == "" {
		attrs["class"] = f.Class
	}
	files := map[string]any{}
	rc := replayCase{Case: c, Formats: []string{f.Format}, Culprit: culprit}
	if minimal != nil {
		mc := minimal.Case(c.Opts)
		rc.Case = mc
		for name, content := range mc.Files {
			files["input/"+name] = content
		}
		files["original-case.json"] = c
	}
	if f.Format == "load" {
		rc.Formats = nil
	}
	files["case.json"] = rc
	for format, b := range out.rendered {
		if minimal == nil {
			files["rendered."+format] = b
		}
	}
	what := fmt.Sprintf("%s round trip: %s", f.Format, f.Detail)
	switch f.Kind {
	case "marshal-error":
		what = fmt.Sprintf("rendering the loaded project to %s fails: %s", f.Format, f.Detail)
	case "reload-error":
		what = fmt.Sprintf("the %s rendering of a loaded project is rejected by the loader: %s", f.Format, f.Detail)
	case "mismatch":
		what = fmt.Sprintf("the project reloaded from its %s rendering differs: %s", f.Format, f.Detail)
	case "rerender-differs":
		what = fmt.Sprintf("rendering the project reloaded from %s again gives different bytes (first differing key %s)", f.Format, f.Class)
	}
	if culprit != "" {
		what += " [attribute: " + culprit + "]"
	}
	k.s.Violation(attrs, what, files)
}

func replay(s *core.Shard, dir string) {
	var rc replayCase
	if err := core.ReadJSON(filepath.Join(dir, "case.json"), &rc); err != nil || rc.Case == nil {
		s.Inconclusive(fmt.Sprintf("replay: cannot read case.json: %v", err))
		return
	}
	out := roundTrip(s.Scratch(), rc.Case, rc.Formats...)
	s.Eval(1)
	k := &checker{s: s}
	for _, f := range out.failures {
		k.report(f, rc.Case, out, rc.Culprit, nil)
	}
}

func witness(s *core.Shard, f core.Finding) (bool, string) {
	var rc replayCase
	if err := json.Unmarshal(f.Witness, &rc); err != nil || rc.Case == nil {
		return false, fmt.Sprintf("witness unreadable: %v", err)
	}
	out := roundTrip(s.Scratch(), rc.Case, rc.Formats...)
	if !out.loaded {
		return false, fmt.Sprintf("the witness input no longer loads: %v", out.loadErr)
	}
	var seen []string
	for _, x := range out.failures {
		seen = append(seen, x.sig())
		if (rc.Kind == "" || x.Kind == rc.Kind) && (rc.Class == "" || x.Class == rc.Class) {
			return true, x.Detail
		}
	}
	sort.Strings(seen)
	return false, "round trip of the witness: " + strings.Join(seen, "; ")
}
