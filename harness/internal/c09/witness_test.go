package c09

import (
	"encoding/json"
	"os"
	"testing"

	"verif/harness/internal/core"
)

// TestSuggestedWitnesses: every entry of known_findings_suggested.json reproduces on the tree
// this test is built against (it documents the genuine findings of the check; once a defect is
// repaired its entry stops reproducing and must be dropped or marked fixed).
func TestSuggestedWitnesses(t *testing.T) {
	b, err := os.ReadFile("known_findings_suggested.json")
	if err != nil {
		t.Fatal(err)
	}
	var f struct {
		Findings []core.Finding `json:"findings"`
	}
	if err := json.Unmarshal(b, &f); err != nil {
		t.Fatal(err)
	}
	work := t.TempDir()
	os.Setenv("HOME", work)
	s, err := core.NewShard("C09", "quick", 1, 0, 1, work, work+"/replay", "")
	if err != nil {
		t.Fatal(err)
	}
	for _, x := range f.Findings {
		ok, detail := witness(s, x)
		t.Logf("%s: reproduces=%v %s", x.ID, ok, detail)
		if !ok {
			t.Errorf("%s does not reproduce: %s", x.ID, detail)
		}
	}
}
