package c09

import (
	"encoding/json"
	"os"
	"testing"

	"verif/harness/internal/core"
)

// TestSuggestedWitnesses: on the tree this test is built against, every `known` entry of
// known_findings_suggested.json reproduces and no `fixed` entry does (the file documents the
// genuine findings of the check and the commits that repaired them).
func TestSuggestedWitnesses(t *testing.T) {
	b, err := os.ReadFile("known_findings_suggested.json")
	if err != nil {
		t.Fatal(err)
	}
	var f struct {
		Findings []core.Finding `json:"findings"`
	}
	if err := json.Unmarshal(b, &f); err != nil {
		t.Fatal(err)
	}
	work := t.TempDir()
	os.Setenv("HOME", work)
	s, err := core.NewShard("C09", "quick", 1, 0, 1, work, work+"/replay", "")
	if err != nil {
		t.Fatal(err)
	}
	for _, x := range f.Findings {
		ok, detail := witness(s, x)
		t.Logf("%s: reproduces=%v %s", x.ID, ok, detail)
		if x.Status == "known" && !ok {
			t.Errorf("%s does not reproduce: %s", x.ID, detail)
		}
		if x.Status == "fixed" && ok {
			t.Errorf("%s is recorded as fixed by %s but reproduces: %s", x.ID, x.Commit, detail)
		}
	}
}
