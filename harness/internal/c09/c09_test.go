package c09

import (
	"math/rand"
	"os"
	"testing"

	"verif/harness/internal/gen"
	"verif/harness/internal/ld"
)

// TestShrink: a saturated model failing the round trip is pruned to its culprit attribute.
func TestShrink(t *testing.T) {
	work := t.TempDir()
	os.Setenv("HOME", work)
	for seed := int64(1); seed <= 3; seed++ {
		m := gen.Draw(rand.New(rand.NewSource(seed)), gen.Saturated())
		out := roundTrip(work, m.Case(ld.Opts{}), "yaml", "json")
		if !out.loaded {
			t.Fatalf("saturated model does not load: %v", out.loadErr)
		}
		for _, f := range out.failures {
			calls := 0
			min := gen.Shrink(m, func(c *gen.Model) bool {
				calls++
				return hasFailure(roundTrip(work, c.Case(ld.Opts{}), f.Format), f.sig())
			}, 400)
			t.Logf("seed %d: %s -> %v after %d loads\n%s", seed, f.sig(), gen.AttrPaths(min.Doc), calls, gen.Render(min.Doc, nil))
		}
	}
}
