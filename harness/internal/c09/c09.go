// Package c09 checks property C09: a marshalled project reloads to the same
// project, for YAML and JSON. Generated models (internal/gen) are loaded with
// the real loader, rendered with Project.MarshalYAML / MarshalJSON, the
// rendering is loaded again from the same working directory with the same
// environment, name and options, and the two typed projects are compared;
// the rendering of the reloaded project must be byte-identical.
//
// A failing model is pruned (gen.Shrink) to a minimal document; the generic
// attribute path that remains ("services.*.build.ssh") is the stable
// attribute of the violation, and the check goes on with the culprit attribute
// removed, so that one defect does not hide the verdict on the other fields
// of the same model.
package c09

import (
	"fmt"
	"os"
	"path/filepath"
	"reflect"
	"regexp"
	"sort"
	"strings"

	"github.com/compose-spec/compose-go/v2/types"

	"verif/harness/internal/core"
	"verif/harness/internal/diff"
	"verif/harness/internal/ld"
)

func init() {
	core.Register(&core.Spec{
		ID:    "C09",
		Level: "exploration",
		Rule: "seeded models from internal/gen: (a) saturated models in which every catalogue attribute of every model type is present (alternatives spread over 4 services, all spellings), " +
			"(b) the compose files shipped with the loader (full-example.yml, testdata), (c) random models of density 0.1..0.6 with tricky scalar texts, variables, profiles and multi-file layouts; " +
			"each loaded under one of {default, SkipNormalization, ResolvePaths=false, both, SkipConsistencyCheck, SkipExtends} then (half of the projects after a first rendering with WithSecretContent) rendered to YAML and JSON, reloaded with the same working directory, environment, name and options, compared field by field and re-rendered. " +
			"A case is non-trivial when the model loaded and at least one rendering was reloaded and compared; distinct = distinct inputs (files, environment, options). " +
			"classes.field lists the struct fields (by reflection over types.Project) seen non-zero in a project that went through the round trip; classes.field_universe lists all of them.",
		Assumptions: []string{
			"values never contain `$` after interpolation: a rendered `$` would be interpolated again on reload, which the statement does not address (clients escape it)",
			"lists the statement does not order (ports, volumes, secrets, configs, devices, env_file, ssh keys after de-duplication; the addresses of one extra_hosts name) are compared as multisets; nil and empty collections are equal, except that command/entrypoint distinguish null from [] and optional scalars (pointer fields) distinguish absent from zero",
			"fields that are not part of the rendering by design (working directory, compose file list, environment, disabled services, active profiles, CustomLabels) are not compared; JSON: nested x- extensions are not compared",
			"the deprecated attributes the schema no longer lists (net, log_driver, log_opt, dockerfile, volume_driver) and x- extensions below blkio_config are exercised with SkipValidation on both loads; env_file `format` with SkipResolveEnvironment (no format is registered in the library itself)",
			"secrets are only file- or environment-sourced (the schema has no inline content for secrets), so the by-design omission of secret content from the rendering does not come into play",
		},
		CPUBudget: func(string) float64 { return 600 },
		Run:       run,
		Replay:    replay,
		Witness:   witness,
		Floor:     floor,
	})
}

// ---- one round trip --------------------------------------------------------

type failure struct {
	Kind   string // panic | marshal-error | reload-error | mismatch | rerender-differs
	Format string // yaml | json
	Class  string // error class or differing field path
	Detail string
}

// sig identifies a failure while a model is pruned: which step failed, in which rendering. The
// error text / differing field is deliberately not part of it: which of several schema errors
// is reported first is not stable, and pruning towards "the yaml reload still fails" finds a
// minimal culprit either way (a second culprit shows up once the first is removed).
func (f failure) sig() string { return f.Kind + "|" + f.Format }

type outcome struct {
	loaded   bool
	loadErr  error
	project  *types.Project
	dir      string
	compared int
	failures []failure
	rendered map[string][]byte
	skipped  string
	// preRendered: the project was rendered with WithSecretContent before the plain renderings
	preRendered bool
}

var (
	rePath   = regexp.MustCompile(`(/[A-Za-z0-9_.~-]+)+`)
	reDigits = regexp.MustCompile(`[0-9]+`)
)

// errClass turns an error message into a stable class: no directories, no generated names, no numbers.
func errClass(msg string, p *types.Project) string {
	msg = rePath.ReplaceAllString(msg, "<path>")
	var names []string
	if p != nil {
		for n := range p.Services {
			names = append(names, n)
		}
		for n := range p.Networks {
			names = append(names, n)
		}
		for n := range p.Volumes {
			names = append(names, n)
		}
		for n := range p.Secrets {
			names = append(names, n)
		}
		for n := range p.Configs {
			names = append(names, n)
		}
	}
	sort.Slice(names, func(i, j int) bool { return len(names[i]) > len(names[j]) })
	for _, n := range names {
		if len(n) >= 3 {
			msg = strings.ReplaceAll(msg, n, "*")
		}
	}
	msg = reDigits.ReplaceAllString(msg, "N")
	msg = strings.Join(strings.Fields(msg), " ")
	if len(msg) > 110 {
		msg = msg[:110]
	}
	return msg
}

func compareOpts(jsonForm bool) diff.Options {
	o := diff.Default()
	o.UnorderedField["ExtraHosts"] = true
	if jsonForm {
		o.IgnoreField["Extensions"] = true
	}
	return o
}

// compareProjects compares what the statement lists: name, services, networks, volumes, secrets, configs, extensions.
func compareProjects(a, b *types.Project, jsonForm bool) string {
	o := compareOpts(jsonForm)
	if a.Name != b.Name {
		return fmt.Sprintf("Name: %q != %q", a.Name, b.Name)
	}
	roots := []struct {
		name string
		x, y any
	}{
		{"Services", a.Services, b.Services}, {"Networks", a.Networks, b.Networks}, {"Volumes", a.Volumes, b.Volumes},
		{"Secrets", a.Secrets, b.Secrets}, {"Configs", a.Configs, b.Configs},
	}
	for _, r := range roots {
		if d := diff.Compare(r.x, r.y, o); d != "" {
			return r.name + d
		}
	}
	if d := diff.Compare(a.Extensions, b.Extensions, compareOpts(false)); d != "" {
		return "Extensions" + d
	}
	for _, r := range roots {
		if d := nilness(reflect.ValueOf(r.x), reflect.ValueOf(r.y), r.name, o); d != "" {
			return d
		}
	}
	return ""
}

var shellCommandType = reflect.TypeOf(types.ShellCommand{})

// nilness walks two values that are already equal under the normalising
// comparer and reports a place where an optional scalar (pointer to a
// non-struct) or a shell command is absent on one side and present on the other.
func nilness(a, b reflect.Value, path string, o diff.Options) string {
	if !a.IsValid() || !b.IsValid() || a.Type() != b.Type() {
		return ""
	}
	switch a.Kind() {
	case reflect.Ptr:
		if a.Type().Elem().Kind() != reflect.Struct {
			if a.IsNil() != b.IsNil() {
				return fmt.Sprintf("%s: optional value absent on one side only (%v vs %v)", path, show(a), show(b))
			}
			return ""
		}
		if a.IsNil() || b.IsNil() {
			return ""
		}
		return nilness(a.Elem(), b.Elem(), path, o)
	case reflect.Interface:
		return ""
	case reflect.Struct:
		t := a.Type()
		for i := 0; i < a.NumField(); i++ {
			f := t.Field(i)
			if !f.IsExported() || o.IgnoreField[f.Name] {
				continue
			}
			if d := nilness(a.Field(i), b.Field(i), path+"."+f.Name, o); d != "" {
				return d
			}
		}
	case reflect.Map:
		for _, k := range a.MapKeys() {
			bv := b.MapIndex(k)
			if !bv.IsValid() {
				continue
			}
			if d := nilness(a.MapIndex(k), bv, fmt.Sprintf("%s[%v]", path, k.Interface()), o); d != "" {
				return d
			}
		}
	case reflect.Slice:
		if a.Type() == shellCommandType {
			if a.IsNil() != b.IsNil() {
				return fmt.Sprintf("%s: null command on one side, empty list on the other", path)
			}
			return ""
		}
		if a.Len() != b.Len() {
			return ""
		}
		for i := 0; i < a.Len(); i++ {
			if a.Index(i).CanInterface() && diff.Compare(a.Index(i).Interface(), b.Index(i).Interface(), o) != "" {
				continue // reordered multiset: elements do not correspond by index
			}
			if d := nilness(a.Index(i), b.Index(i), fmt.Sprintf("%s[%d]", path, i), o); d != "" {
				return d
			}
		}
	}
	return ""
}

func show(v reflect.Value) string {
	if v.Kind() == reflect.Ptr {
		if v.IsNil() {
			return "<absent>"
		}
		return fmt.Sprint(v.Elem().Interface())
	}
	return fmt.Sprint(v.Interface())
}

// preconditionMet: enabled services do not reference profile-disabled ones.
func preconditionMet(p *types.Project) bool {
	ref := func(n string) bool {
		_, disabled := p.DisabledServices[n]
		return !disabled
	}
	svcRef := func(v string) bool {
		if strings.HasPrefix(v, types.ServicePrefix) {
			return ref(v[len(types.ServicePrefix):])
		}
		return true
	}
	for _, s := range p.Services {
		for d := range s.DependsOn {
			if !ref(d) {
				return false
			}
		}
		for _, l := range s.Links {
			if !ref(strings.Split(l, ":")[0]) {
				return false
			}
		}
		for _, v := range s.VolumesFrom {
			if !strings.HasPrefix(v, types.ContainerPrefix) && !ref(strings.Split(v, ":")[0]) {
				return false
			}
		}
		if !svcRef(s.NetworkMode) || !svcRef(s.Ipc) || !svcRef(s.Pid) {
			return false
		}
		if s.Extends != nil && s.Extends.File == "" && !ref(s.Extends.Service) {
			return false
		}
	}
	return true
}

// roundTrip loads the case and pushes it through render/reload/compare/re-render for the given formats.
func roundTrip(work string, c *ld.Case, formats ...string) outcome {
	var out outcome
	dir := filepath.Join(work, "case")
	_ = os.RemoveAll(dir)
	if err := os.MkdirAll(dir, 0o755); err == nil {
		err = ld.Materialise(dir, c)
		if err != nil {
			out.skipped = "harness: " + err.Error()
			return out
		}
	}
	if c.Opts.NoResolvePaths {
		// without path resolution env_file / label_file stay relative to the process working
		// directory: load and reload from the case's working directory, as a client would
		if err := os.Chdir(filepath.Join(dir, c.WorkingDir)); err == nil {
			defer os.Chdir(filepath.Dir(work)) //nolint:errcheck // the shard directory outlives the scratch directory
		}
	}
	res := ld.Load(dir, c)
	out.dir = dir
	if res.Panic != nil {
		out.failures = append(out.failures, failure{Kind: "panic", Format: "load", Class: res.Panic.Site + " (" + res.Panic.Class + ")", Detail: res.Panic.Value})
		return out
	}
	if res.Err != nil {
		out.loadErr = res.Err
		return out
	}
	out.loaded = true
	p := res.Project
	out.project = p
	if !preconditionMet(p) {
		out.skipped = "enabled service references a profile-disabled one"
		return out
	}
	out.rendered = map[string][]byte{}
	if (len(p.Services)+len(p.Secrets)+len(p.Configs))%2 == 0 {
		// an earlier rendering made with the secret-content option (what `config --resolve…` style
		// clients do first) must leave the plain renderings of the same project as they are
		core.Guard(func() {
			_, _ = p.MarshalYAML(types.WithSecretContent)
			_, _ = p.MarshalJSON(types.WithSecretContent)
		})
		out.preRendered = true
	}
	// every format is rendered first and the bytes are held while the other renderings are made:
	// a rendering belongs to its caller from the moment it is returned
	type rendering struct {
		b   []byte
		err error
		pi  *core.PanicInfo
	}
	held := map[string]rendering{}
	for _, format := range formats {
		var r rendering
		f := format
		r.pi = core.Guard(func() {
			if f == "yaml" {
				r.b, r.err = p.MarshalYAML()
			} else {
				r.b, r.err = p.MarshalJSON()
			}
		})
		held[format] = r
	}
	for _, format := range formats {
		render := func(q *types.Project) (b []byte, err error, pi *core.PanicInfo) {
			if q == p {
				h := held[format]
				return h.b, h.err, h.pi
			}
			pi = core.Guard(func() {
				if format == "yaml" {
					b, err = q.MarshalYAML()
				} else {
					b, err = q.MarshalJSON()
				}
			})
			return
		}
		fail := func(kind, class, detail string) {
			out.failures = append(out.failures, failure{Kind: kind, Format: format, Class: class, Detail: detail})
		}
		b, err, pi := render(p)
		if pi != nil {
			fail("panic", pi.Site+" ("+pi.Class+")", "rendering panicked: "+pi.Value)
			continue
		}
		if err != nil {
			fail("marshal-error", errClass(err.Error(), p), err.Error())
			continue
		}
		out.rendered[format] = b
		name := "verif-rendered." + format
		wd := filepath.Join(dir, c.WorkingDir)
		if err := os.WriteFile(filepath.Join(wd, name), b, 0o644); err != nil {
			out.skipped = "harness: " + err.Error()
			return out
		}
		rc := *c
		rc.ComposeFiles = []string{filepath.Join(wd, name)}
		r2 := ld.Load(dir, &rc)
		if r2.Panic != nil {
			fail("panic", r2.Panic.Site+" ("+r2.Panic.Class+")", "reload panicked: "+r2.Panic.Value)
			continue
		}
		if r2.Err != nil {
			fail("reload-error", errClass(r2.Err.Error(), p), r2.Err.Error())
			continue
		}
		out.compared++
		if d := compareProjects(p, r2.Project, format == "json"); d != "" {
			fail("mismatch", diff.PathOf(d), d)
			continue
		}
		b2, err, pi := render(r2.Project)
		switch {
		case pi != nil:
			fail("panic", pi.Site+" ("+pi.Class+")", "second rendering panicked: "+pi.Value)
		case err != nil:
			fail("marshal-error", errClass(err.Error(), p), "second rendering: "+err.Error())
		case string(b2) != string(b):
			fail("rerender-differs", firstDiffLine(b, b2), "rendering the reloaded project gives different bytes")
		}
	}
	return out
}

var reKeyish = regexp.MustCompile(`^\s*(- )?([A-Za-z_.#-]+):`)

// firstDiffLine names the key of the first differing line (stable: no values).
func firstDiffLine(a, b []byte) string {
	la, lb := strings.Split(string(a), "\n"), strings.Split(string(b), "\n")
	for i := 0; i < len(la) && i < len(lb); i++ {
		if la[i] != lb[i] {
			if m := reKeyish.FindStringSubmatch(la[i]); m != nil {
				return m[2]
			}
			return "line"
		}
	}
	return "length"
}

// ---- reflection: field universe and coverage -----------------------------------

var typesPkg = reflect.TypeOf(types.Project{}).PkgPath()

// comparedRoots are the fields of types.Project the statement speaks about.
var comparedRoots = []string{"Name", "Services", "Networks", "Volumes", "Secrets", "Configs", "Extensions"}

func rendered(f reflect.StructField) bool {
	return f.IsExported() && !(f.Tag.Get("yaml") == "-" && f.Tag.Get("json") == "-")
}

// fieldUniverse lists "Type.Field" for every rendered field of every model type reachable from the compared roots.
func fieldUniverse() []string {
	seen := map[reflect.Type]bool{}
	set := map[string]bool{}
	var walk func(t reflect.Type)
	walk = func(t reflect.Type) {
		switch t.Kind() {
		case reflect.Ptr, reflect.Slice, reflect.Array:
			walk(t.Elem())
		case reflect.Map:
			walk(t.Elem())
		case reflect.Struct:
			if seen[t] || t.PkgPath() != typesPkg {
				return
			}
			seen[t] = true
			for i := 0; i < t.NumField(); i++ {
				f := t.Field(i)
				if !rendered(f) {
					continue
				}
				set[t.Name()+"."+f.Name] = true
				walk(f.Type)
			}
		}
	}
	pt := reflect.TypeOf(types.Project{})
	for _, r := range comparedRoots {
		f, _ := pt.FieldByName(r)
		set["Project."+r] = true
		walk(f.Type)
	}
	out := make([]string, 0, len(set))
	for k := range set {
		out = append(out, k)
	}
	sort.Strings(out)
	return out
}

// nonZeroFields collects "Type.Field" of every rendered field holding a non-zero value in p.
func nonZeroFields(p *types.Project, into map[string]bool) {
	var walk func(v reflect.Value)
	walk = func(v reflect.Value) {
		switch v.Kind() {
		case reflect.Ptr, reflect.Interface:
			if !v.IsNil() {
				walk(v.Elem())
			}
		case reflect.Slice, reflect.Array:
			for i := 0; i < v.Len(); i++ {
				walk(v.Index(i))
			}
		case reflect.Map:
			it := v.MapRange()
			for it.Next() {
				walk(it.Value())
			}
		case reflect.Struct:
			t := v.Type()
			if t.PkgPath() != typesPkg {
				return
			}
			for i := 0; i < v.NumField(); i++ {
				f := t.Field(i)
				if !rendered(f) {
					continue
				}
				fv := v.Field(i)
				zero := fv.IsZero()
				if !zero && (fv.Kind() == reflect.Map || fv.Kind() == reflect.Slice) && fv.Len() == 0 {
					zero = true
				}
				if !zero {
					into[t.Name()+"."+f.Name] = true
					walk(fv)
				}
			}
		}
	}
	pv := reflect.ValueOf(*p)
	for _, r := range comparedRoots {
		fv := pv.FieldByName(r)
		if !fv.IsZero() {
			into["Project."+r] = true
			walk(fv)
		}
	}
}

func floor(tier string, m *core.Merged) []string {
	var r []string
	if m.Counters["compared"] < 200 {
		r = append(r, fmt.Sprintf("too few compared round trips: %d", m.Counters["compared"]))
	}
	uni := fieldUniverse()
	var missing []string
	for _, f := range uni {
		if m.Cover["field"][f] == 0 {
			missing = append(missing, f)
		}
	}
	if len(missing)*100 > len(uni)*5 {
		r = append(r, fmt.Sprintf("only %d of %d model fields were seen non-zero; never reached: %s", len(uni)-len(missing), len(uni), strings.Join(missing, " ")))
	}
	for _, o := range []string{"default", "SkipNormalization", "NoResolvePaths"} {
		if m.Cover["options"][o] == 0 {
			r = append(r, "option set never exercised: "+o)
		}
	}
	return r
}
