package c09

import (
	"fmt"

	"verif/harness/internal/ld"
)

// Hand-shaped documents for value shapes the model generator does not draw (each was reported as
// failing the round trip on the tree as pinned; see known_findings.json).
func (k *checker) hand(offset int) {
	s := k.s
	docs := []struct{ id, doc string }{
		{"dollar-escape", "services:\n  a:\n    image: i\n    command: echo $$HOME\n    environment:\n      A: \"$$FOO\"\n    labels:\n      l: \"$${FOO}\"\n"},
		{"extra-hosts-two-addresses-for-one-host", "services:\n  a:\n    image: i\n    extra_hosts: [\"a=10.0.0.2\", \"a=10.0.0.1\"]\n"},
		{"extra-hosts-same-address-twice", "services:\n  a:\n    image: i\n    extra_hosts:\n      a: [\"1.1.1.1\", \"1.1.1.1\"]\n"},
		{"env-file-same-file-spelled-two-ways", "services:\n  a:\n    image: i\n    env_file:\n      - {path: ./a.env, required: false}\n      - {path: a.env, required: false}\n"},
		{"build-ssh-key-without-path", "services:\n  a:\n    image: i\n    build:\n      context: .\n      ssh:\n        mykey: null\n"},
		{"plain", "services:\n  a:\n    image: i\n    command: echo HOME\n    extra_hosts: [\"a=10.0.0.1\", \"b=10.0.0.2\"]\n"},
	}
	for i, d := range docs {
		if !s.Mine(offset + i) {
			continue
		}
		if !s.Begin("hand/" + d.id) {
			continue
		}
		c := &ld.Case{Files: map[string]string{"compose.yaml": d.doc, "a.env": "X=1\n"}, ComposeFiles: []string{"compose.yaml"}, Env: map[string]string{"HOME": "/home/x", "FOO": "foo"}}
		out := roundTrip(s.Scratch(), c, formats...)
		s.Eval(1 + out.compared)
		s.Cover("hand-shaped", d.id)
		if out.loaded {
			s.Nontrivial("hand", d.id)
		}
		if out.loadErr != nil {
			s.Inconclusive("hand/" + d.id + " does not load: " + out.loadErr.Error())
			continue
		}
		seen := map[string]bool{}
		for _, f := range out.failures {
			if seen[f.Kind+f.Format] {
				continue
			}
			seen[f.Kind+f.Format] = true
			s.Violation(map[string]string{"kind": f.Kind, "scenario": d.id},
				fmt.Sprintf("hand-shaped document %s, %s round trip: %s", d.id, f.Format, f.Detail),
				map[string]any{"case.json": replayCase{Case: c, Formats: []string{f.Format}, Culprit: "hand/" + d.id}})
		}
	}
}
