// Package c14 checks property C14: projects are immutable values. A
// reflection-driven filler populates every field reachable from types.Project;
// every derivation is applied (alone and in sequences) and judged by three
// monitors: receiver == own snapshot, unaffected fields preserved, and no
// map / slice / pointer shared between receiver and result (address scan plus
// a mutation of everything reachable in the result).
package c14

import (
	"encoding/json"
	"fmt"
	"math/rand"
	"os"
	"path/filepath"
	"reflect"
	"sort"
	"strings"

	"github.com/compose-spec/compose-go/v2/types"
	"github.com/distribution/reference"
	godigest "github.com/opencontainers/go-digest"

	"verif/harness/internal/core"
	"verif/harness/internal/diff"
	"verif/harness/internal/ld"
)

func init() {
	core.Register(&core.Spec{
		ID:    "C14",
		Level: "exploration",
		Rule:  "projects: (a) reflection-filled types.Project values (every exported field of every reachable type non-zero: 2-element maps and slices, non-nil pointers, real env/label files) with seeded names/profiles/dependency DAG, (b) projects loaded from fixed documents; operations: WithProfiles, WithServicesEnabled, WithServicesDisabled, WithSelectedServices (3 policies), WithoutUnnecessaryResources, WithImagesResolved, WithServicesEnvironmentResolved (both flags), WithServicesLabelsResolved (both flags), WithServicesTransform, ForEachService (callback mutates what it is handed), MarshalYAML/JSON with and without WithSecretContent; seeded sequences of 1..4 operations. After every step: receiver deep-equal to the harness's own snapshot; fields the operation does not concern deep-equal to the receiver's; address scan for shared maps/slices/pointers between receiver (and every earlier project of the sequence) and result; then every map, slice element and pointee reachable from the result is overwritten and the receiver compared to its snapshot again. Non-trivial = the operation returned a project with at least one service; distinct = distinct (project seed, operation sequence).",
		Assumptions: []string{
			"snapshots are taken by the harness's own reflective deep copy, not by the library's generated copy code",
			"values stored in Extensions maps (opaque payloads) may be shared, the Extensions maps themselves may not",
			"unexported fields are compared but cannot be filled by reflection (FileObjectConfig.marshallContent is exercised through WithSecretContent)",
		},
		Race:      func(tier string) bool { return tier == "thorough" },
		CPUBudget: func(string) float64 { return 300 },
		Run:       run,
		Replay:    replay,
		Witness:   witness,
		Floor: func(tier string, m *core.Merged) []string {
			var r []string
			if m.Counters["steps"] < 1000 {
				r = append(r, fmt.Sprintf("too few derivation steps: %v", m.Counters))
			}
			for _, op := range opNames {
				if m.Cover["operation"][op] == 0 {
					r = append(r, "operation never exercised: "+op)
				}
			}
			if m.Counters["fields_total"] > 0 && m.Counters["fields_filled"]*100 < m.Counters["fields_total"]*95 {
				r = append(r, fmt.Sprintf("filler reached only %d of %d struct fields", m.Counters["fields_filled"], m.Counters["fields_total"]))
			}
			return r
		},
	})
}

// ---- reflection-driven filler -----------------------------------------------

type filler struct {
	rng   *rand.Rand
	n     int
	dir   string
	seenF map[string]bool // Type.Field filled non-zero
	allF  map[string]bool
}

func (f *filler) str(prefix string) string {
	f.n++
	return fmt.Sprintf("%s%d", prefix, f.n)
}

func (f *filler) fill(v reflect.Value, depth int, hint string) {
	switch v.Kind() {
	case reflect.String:
		v.SetString(f.str(strings.ToLower(hint) + "-"))
	case reflect.Bool:
		v.SetBool(true)
	case reflect.Int, reflect.Int8, reflect.Int16, reflect.Int32, reflect.Int64:
		f.n++
		v.SetInt(int64(f.n%100 + 1))
	case reflect.Uint, reflect.Uint8, reflect.Uint16, reflect.Uint32, reflect.Uint64:
		f.n++
		v.SetUint(uint64(f.n%100 + 1))
	case reflect.Float32, reflect.Float64:
		f.n++
		v.SetFloat(float64(f.n%100) + 0.5)
	case reflect.Ptr:
		if depth > 12 {
			return
		}
		p := reflect.New(v.Type().Elem())
		f.fill(p.Elem(), depth+1, hint)
		v.Set(p)
	case reflect.Interface:
		// opaque payloads: a nested mutable value
		payload := map[string]any{f.str("k"): []any{f.str("v"), map[string]any{"n": f.n}}}
		v.Set(reflect.ValueOf(payload))
	case reflect.Slice:
		if depth > 12 {
			return
		}
		n := 2
		if depth > 5 {
			n = 1
		}
		s := reflect.MakeSlice(v.Type(), n, n+1) // spare capacity: appends must not be visible either
		for i := 0; i < n; i++ {
			f.fill(s.Index(i), depth+1, hint)
		}
		v.Set(s)
	case reflect.Map:
		if depth > 12 {
			return
		}
		m := reflect.MakeMap(v.Type())
		nk := 2
		if depth > 5 {
			nk = 1
		}
		for i := 0; i < nk; i++ {
			k := reflect.New(v.Type().Key()).Elem()
			f.fill(k, depth+1, hint+"key")
			e := reflect.New(v.Type().Elem()).Elem()
			f.fill(e, depth+1, hint)
			m.SetMapIndex(k, e)
		}
		v.Set(m)
	case reflect.Struct:
		t := v.Type()
		for i := 0; i < t.NumField(); i++ {
			sf := t.Field(i)
			name := t.Name() + "." + sf.Name
			f.allF[name] = true
			if !sf.IsExported() {
				continue
			}
			f.fill(v.Field(i), depth+1, sf.Name)
			if !v.Field(i).IsZero() {
				f.seenF[name] = true
			}
		}
	}
}

// project builds a filled project and repairs the parts operations interpret:
// service names, a dependency DAG over existing services, profiles, parseable
// images, existing env/label files, resource references.
func (f *filler) project(nsvc int) *types.Project {
	p := &types.Project{}
	f.fill(reflect.ValueOf(p).Elem(), 0, "project")
	proto := []types.ServiceConfig{}
	for _, s := range p.Services {
		proto = append(proto, s)
	}
	for _, s := range p.DisabledServices {
		proto = append(proto, s)
	}
	p.Services = types.Services{}
	p.DisabledServices = types.Services{}
	names := []string{}
	for i := 0; i < nsvc; i++ {
		names = append(names, fmt.Sprintf("svc%d", i))
	}
	profiles := [][]string{nil, {"p"}, {"q"}, {"p", "q"}}
	resNames := func(m any) []string {
		var out []string
		for _, k := range reflect.ValueOf(m).MapKeys() {
			out = append(out, k.String())
		}
		sort.Strings(out)
		return out
	}
	nets, vols, secs, cfgs := resNames(p.Networks), resNames(p.Volumes), resNames(p.Secrets), resNames(p.Configs)
	for i, n := range names {
		// every service gets its own freshly filled value (no sharing between services)
		var s types.ServiceConfig
		f.fill(reflect.ValueOf(&s).Elem(), 1, "service")
		_ = proto
		s.Name = n
		s.Image = fmt.Sprintf("repo/img%d:v%d", i, f.rng.Intn(9))
		s.Profiles = append([]string(nil), profiles[f.rng.Intn(len(profiles))]...)
		s.DependsOn = types.DependsOnConfig{}
		for j := 0; j < i; j++ {
			if f.rng.Intn(3) == 0 {
				var d types.ServiceDependency
				f.fill(reflect.ValueOf(&d).Elem(), 2, "dep")
				d.Required = f.rng.Intn(4) != 0
				s.DependsOn[names[j]] = d
			}
		}
		// env and label files must exist
		s.EnvFiles = nil
		for k := 0; k < 2; k++ {
			path := filepath.Join(f.dir, fmt.Sprintf("%s-%d.env", n, k))
			_ = os.WriteFile(path, []byte(fmt.Sprintf("FROM_FILE_%d=%s\nSHARED=%d\n", k, n, k)), 0o644)
			ef := types.EnvFile{Path: path, Required: true}
			s.EnvFiles = append(s.EnvFiles, ef)
		}
		s.LabelFiles = nil
		for k := 0; k < 2; k++ {
			path := filepath.Join(f.dir, fmt.Sprintf("%s-%d.labels", n, k))
			_ = os.WriteFile(path, []byte(fmt.Sprintf("label.file.%d=%s\n", k, n)), 0o644)
			s.LabelFiles = append(s.LabelFiles, path)
		}
		// references to declared resources (so that pruning keeps some and drops some)
		if len(nets) > 0 {
			nn := map[string]*types.ServiceNetworkConfig{}
			for _, v := range s.Networks {
				nn[nets[i%len(nets)]] = v
				break
			}
			s.Networks = nn
		}
		for k := range s.Volumes {
			s.Volumes[k].Type = types.VolumeTypeVolume
			if len(vols) > 0 {
				s.Volumes[k].Source = vols[(i+k)%len(vols)]
			}
		}
		for k := range s.Secrets {
			if len(secs) > 0 {
				s.Secrets[k].Source = secs[i%len(secs)]
			}
		}
		for k := range s.Configs {
			if len(cfgs) > 0 {
				s.Configs[k].Source = cfgs[i%len(cfgs)]
			}
		}
		if s.Build != nil {
			for k := range s.Build.Secrets {
				if len(secs) > 0 {
					s.Build.Secrets[k].Source = secs[(i+1)%len(secs)]
				}
			}
		}
		// a valueless environment entry to be resolved from the project environment
		s.Environment["FROM_PROJECT_ENV"] = nil
		if f.rng.Intn(4) == 0 && i > 0 {
			p.DisabledServices[n] = s
		} else {
			p.Services[n] = s
		}
	}
	p.Environment["FROM_PROJECT_ENV"] = "resolved"
	p.Profiles = []string{"p"}
	return p
}

// ---- own deep copy, alias scan, mutator ----------------------------------------

func clone(v reflect.Value) reflect.Value {
	switch v.Kind() {
	case reflect.Ptr:
		if v.IsNil() {
			return v
		}
		n := reflect.New(v.Type().Elem())
		n.Elem().Set(clone(v.Elem()))
		return n
	case reflect.Interface:
		if v.IsNil() {
			return v
		}
		n := reflect.New(v.Type()).Elem()
		n.Set(clone(v.Elem()))
		return n
	case reflect.Slice:
		if v.IsNil() {
			return v
		}
		n := reflect.MakeSlice(v.Type(), v.Len(), v.Len())
		for i := 0; i < v.Len(); i++ {
			n.Index(i).Set(clone(v.Index(i)))
		}
		return n
	case reflect.Map:
		if v.IsNil() {
			return v
		}
		n := reflect.MakeMapWithSize(v.Type(), v.Len())
		it := v.MapRange()
		for it.Next() {
			n.SetMapIndex(clone(it.Key()), clone(it.Value()))
		}
		return n
	case reflect.Struct:
		n := reflect.New(v.Type()).Elem()
		n.Set(v) // copies unexported fields by value
		for i := 0; i < v.NumField(); i++ {
			if v.Type().Field(i).IsExported() {
				n.Field(i).Set(clone(v.Field(i)))
			}
		}
		return n
	default:
		return v
	}
}

func snapshot(p *types.Project) *types.Project {
	return clone(reflect.ValueOf(p)).Interface().(*types.Project)
}

type ref struct {
	kind string
	addr uintptr
}

// collect records the address of every non-empty map, slice backing array and
// pointee reachable from v, with the path it was found at.
func collect(v reflect.Value, path string, into map[ref]string, inExt bool) {
	switch v.Kind() {
	case reflect.Ptr:
		if v.IsNil() {
			return
		}
		if v.Type().Elem().Size() > 0 {
			into[ref{"ptr", v.Pointer()}] = path
		}
		collect(v.Elem(), path, into, inExt)
	case reflect.Interface:
		if v.IsNil() || inExt {
			return // opaque extension payloads are excepted
		}
		collect(v.Elem(), path, into, inExt)
	case reflect.Slice:
		if v.Len() == 0 {
			return
		}
		if v.Type().Elem().Size() > 0 {
			into[ref{"slice", v.Pointer()}] = path
		}
		for i := 0; i < v.Len(); i++ {
			collect(v.Index(i), fmt.Sprintf("%s[%d]", path, i), into, inExt)
		}
	case reflect.Map:
		if v.IsNil() {
			return
		}
		into[ref{"map", v.Pointer()}] = path
		ext := v.Type() == reflect.TypeOf(types.Extensions{})
		it := v.MapRange()
		for it.Next() {
			collect(it.Value(), fmt.Sprintf("%s[%v]", path, it.Key()), into, inExt || ext)
		}
	case reflect.Struct:
		for i := 0; i < v.NumField(); i++ {
			collect(v.Field(i), path+"."+v.Type().Field(i).Name, into, inExt)
		}
	}
}

func shared(a, b *types.Project) (string, bool) {
	ma, mb := map[ref]string{}, map[ref]string{}
	collect(reflect.ValueOf(a), "", ma, false)
	collect(reflect.ValueOf(b), "", mb, false)
	var hits []string
	for r, pa := range ma {
		if pb, ok := mb[r]; ok {
			hits = append(hits, fmt.Sprintf("%s at receiver%s == result%s", r.kind, pa, pb))
		}
	}
	if len(hits) == 0 {
		return "", false
	}
	sort.Strings(hits)
	return hits[0], true
}

// stripIdx removes map keys / indexes from a path so that it is stable.
func stripIdx(p string) string {
	var sb strings.Builder
	depth := 0
	for _, r := range p {
		switch {
		case r == '[':
			depth++
		case r == ']':
			depth--
		case depth == 0:
			sb.WriteRune(r)
		}
	}
	return sb.String()
}

// mutate overwrites everything reachable from v (children first).
func mutate(v reflect.Value, inExt bool) {
	switch v.Kind() {
	case reflect.Ptr:
		if v.IsNil() {
			return
		}
		mutate(v.Elem(), inExt)
		if v.Elem().CanSet() {
			v.Elem().Set(reflect.Zero(v.Type().Elem()))
		}
	case reflect.Interface:
		if v.IsNil() || inExt {
			return
		}
		mutate(v.Elem(), inExt)
	case reflect.Slice:
		for i := 0; i < v.Len(); i++ {
			mutate(v.Index(i), inExt)
			v.Index(i).Set(reflect.Zero(v.Type().Elem()))
		}
	case reflect.Map:
		if v.IsNil() {
			return
		}
		ext := v.Type() == reflect.TypeOf(types.Extensions{})
		keys := v.MapKeys()
		for _, k := range keys {
			mutate(v.MapIndex(k), inExt || ext)
		}
		for _, k := range keys {
			v.SetMapIndex(k, reflect.Value{}) // delete
		}
		// insert a fresh key
		if v.Type().Key().Kind() == reflect.String {
			k := reflect.New(v.Type().Key()).Elem()
			k.SetString("c14-mutation")
			v.SetMapIndex(k, reflect.Zero(v.Type().Elem()))
		}
	case reflect.Struct:
		for i := 0; i < v.NumField(); i++ {
			if v.Type().Field(i).IsExported() {
				mutate(v.Field(i), inExt)
			}
		}
	}
}

// ---- operations ---------------------------------------------------------------

var opNames = []string{"WithProfiles", "WithServicesEnabled", "WithServicesDisabled", "WithSelectedServices", "WithoutUnnecessaryResources",
	"WithImagesResolved", "WithServicesEnvironmentResolved", "WithServicesLabelsResolved", "WithServicesTransform", "ForEachService", "Marshal"}

// Op is one derivation with its arguments (JSON-serialisable for replay).
type Op struct {
	Name   string   `json:"name"`
	Names  []string `json:"names,omitempty"`
	Policy int      `json:"policy,omitempty"` // 0 dependencies, 1 dependents, 2 ignore
	Flag   bool     `json:"flag,omitempty"`
}

func (o Op) String() string { return fmt.Sprintf("%s(%v,%d,%v)", o.Name, o.Names, o.Policy, o.Flag) }

func policy(i int) types.DependencyOption {
	switch i {
	case 1:
		return types.IncludeDependents
	case 2:
		return types.IgnoreDependencies
	}
	return types.IncludeDependencies
}

// apply runs the operation; ignore lists the Type.Field names the operation may legitimately change.
func apply(p *types.Project, o Op) (res *types.Project, err error, ignore []string, partition bool) {
	switch o.Name {
	case "WithProfiles":
		if o.Flag {
			// the receiver's own list, as a caller re-applying the active profiles does
			res, err = p.WithProfiles(p.Profiles)
			return res, err, []string{"Project.Profiles"}, true
		}
		res, err = p.WithProfiles(o.Names)
		return res, err, []string{"Project.Profiles"}, true
	case "WithServicesEnabled":
		res, err = p.WithServicesEnabled(o.Names...)
		return res, err, []string{"Project.Profiles", "ServiceConfig.Environment", "ServiceConfig.EnvFiles"}, true
	case "WithServicesDisabled":
		res = p.WithServicesDisabled(o.Names...)
		return res, nil, []string{"ServiceConfig.DependsOn"}, true
	case "WithSelectedServices":
		res, err = p.WithSelectedServices(o.Names, policy(o.Policy))
		return res, err, []string{"ServiceConfig.DependsOn"}, true
	case "WithoutUnnecessaryResources":
		res = p.WithoutUnnecessaryResources()
		return res, nil, []string{"Project.Networks", "Project.Volumes", "Project.Secrets", "Project.Configs"}, false
	case "WithImagesResolved":
		res, err = p.WithImagesResolved(func(named reference.Named) (godigest.Digest, error) {
			return godigest.FromString(named.String()), nil
		})
		return res, err, []string{"ServiceConfig.Image"}, false
	case "WithServicesEnvironmentResolved":
		res, err = p.WithServicesEnvironmentResolved(o.Flag)
		return res, err, []string{"ServiceConfig.Environment", "ServiceConfig.EnvFiles"}, false
	case "WithServicesLabelsResolved":
		res, err = p.WithServicesLabelsResolved(o.Flag)
		return res, err, []string{"ServiceConfig.Labels", "ServiceConfig.LabelFiles"}, false
	case "WithServicesTransform":
		res, err = p.WithServicesTransform(func(name string, s types.ServiceConfig) (types.ServiceConfig, error) {
			if o.Flag {
				// a transformation that writes through what it was handed
				mutate(reflect.ValueOf(&s).Elem(), false)
				s.Name = name
			}
			s.ContainerName = "transformed-" + name
			return s, nil
		})
		if o.Flag {
			return res, err, []string{"Project.Services"}, false
		}
		return res, err, []string{"ServiceConfig.ContainerName"}, false
	}
	return nil, fmt.Errorf("unknown op"), nil, false
}

func drawOp(rng *rand.Rand, p *types.Project) Op {
	all := append(p.ServiceNames(), p.DisabledServiceNames()...)
	pick := func() []string {
		var out []string
		for _, n := range all {
			if rng.Intn(3) == 0 {
				out = append(out, n)
			}
		}
		if rng.Intn(6) == 0 {
			out = append(out, "unknown-service")
		}
		return out
	}
	name := opNames[rng.Intn(len(opNames))]
	o := Op{Name: name}
	switch name {
	case "WithProfiles":
		o.Names = [][]string{nil, {"p"}, {"q"}, {"p", "q"}, {"*"}, {"zzz"}}[rng.Intn(6)]
		o.Flag = rng.Intn(4) == 0 && len(p.Profiles) > 0
	case "WithServicesEnabled", "WithServicesDisabled", "ForEachService":
		o.Names = pick()
		o.Policy = rng.Intn(3)
	case "WithSelectedServices":
		// only enabled names, otherwise the call fails (still a valid observation, but uninformative)
		for _, n := range p.ServiceNames() {
			if rng.Intn(2) == 0 {
				o.Names = append(o.Names, n)
			}
		}
		if rng.Intn(8) == 0 {
			o.Names = append(o.Names, "unknown-service")
		}
		o.Policy = rng.Intn(3)
	case "WithServicesEnvironmentResolved", "WithServicesLabelsResolved", "WithServicesTransform", "Marshal":
		o.Flag = rng.Intn(2) == 0
	}
	return o
}

// ---- one sequence ----------------------------------------------------------------

type seqCase struct {
	Source   string `json:"source"` // filled | loaded
	ProjSeed int64  `json:"proj_seed"`
	NSvc     int    `json:"nsvc"`
	Doc      int    `json:"doc"`
	Ops      []Op   `json:"ops"`
}

func equalExact(a, b any, ignore ...string) string {
	o := diff.Options{Exact: true, IgnoreField: map[string]bool{}}
	for _, i := range ignore {
		o.IgnoreField[i] = true
	}
	return diff.Compare(a, b, o)
}

func runSequence(s *core.Shard, sc seqCase, draw func(p *types.Project, step int) Op, nops int, sink func(map[string]string, string, map[string]any)) {
	if sink == nil {
		sink = s.Violation
	}
	dir := s.Scratch()
	var p0 *types.Project
	if sc.Source == "loaded" {
		c := docs[sc.Doc%len(docs)]()
		_, r := ld.Run(dir, c)
		if r.Panic != nil || r.Err != nil {
			s.Inconclusive(fmt.Sprintf("fixed document %d does not load: %v", sc.Doc, r.Err))
			return
		}
		p0 = r.Project
	} else {
		f := &filler{rng: rand.New(rand.NewSource(sc.ProjSeed)), dir: dir, seenF: map[string]bool{}, allF: map[string]bool{}}
		p0 = f.project(sc.NSvc)
		if sc.ProjSeed%50 == 0 {
			s.Add("fields_total", 0)
		}
		if s.Index == 0 && sc.ProjSeed == 0 {
			s.Add("fields_total", len(f.allF))
			s.Add("fields_filled", len(f.seenF))
			for n := range f.allF {
				if !f.seenF[n] {
					s.Cover("field-not-filled", n)
				}
			}
		}
	}
	history := []*types.Project{p0}
	cur := p0
	report := func(kind string, o Op, field, what string) {
		sc2 := sc
		sink(map[string]string{"kind": kind, "op": o.Name, "field": field}, fmt.Sprintf("%s: %s [%s]", o.Name, what, o), map[string]any{"case.json": sc2})
	}
	for step := 0; step < nops; step++ {
		var o Op
		if step < len(sc.Ops) {
			o = sc.Ops[step]
		} else {
			o = draw(cur, step)
			sc.Ops = append(sc.Ops, o)
		}
		s.Cover("operation", o.Name)
		before := snapshot(cur)
		s.Eval(1)
		s.Add("steps", 1)
		// operations without a project result
		if o.Name == "ForEachService" || o.Name == "Marshal" {
			var pi *core.PanicInfo
			if o.Name == "ForEachService" {
				pi = core.Guard(func() {
					_ = cur.ForEachService(o.Names, func(name string, svc *types.ServiceConfig) error {
						mutate(reflect.ValueOf(svc).Elem(), false)
						return nil
					}, policy(o.Policy))
				})
			} else {
				pi = core.Guard(func() {
					if o.Flag {
						_, _ = cur.MarshalYAML(types.WithSecretContent)
						_, _ = cur.MarshalJSON(types.WithSecretContent)
					} else {
						_, _ = cur.MarshalYAML()
						_, _ = cur.MarshalJSON()
					}
				})
			}
			if pi != nil {
				sink(map[string]string{"kind": "panic", "site": pi.Site, "class": pi.Class, "op": o.Name}, o.Name+" panicked: "+pi.Value, map[string]any{"case.json": sc, "stack.txt": pi.Stack})
				return
			}
			if d := equalExact(before, cur); d != "" {
				report("receiver-modified", o, stripIdx(diff.PathOf(d)), "receiver changed: "+d)
				return
			}
			continue
		}
		var (
			res       *types.Project
			err       error
			ignore    []string
			partition bool
		)
		pi := core.Guard(func() { res, err, ignore, partition = apply(cur, o) })
		if pi != nil {
			sink(map[string]string{"kind": "panic", "site": pi.Site, "class": pi.Class, "op": o.Name}, o.Name+" panicked: "+pi.Value, map[string]any{"case.json": sc, "stack.txt": pi.Stack})
			return
		}
		if d := equalExact(before, cur); d != "" {
			report("receiver-modified", o, stripIdx(diff.PathOf(d)), "receiver changed by the call: "+d)
			return
		}
		if err != nil || res == nil {
			s.Add("steps_error", 1)
			continue
		}
		if len(res.Services) > 0 {
			key, _ := json.Marshal(sc.Ops)
			s.Nontrivial(sc.Source, fmt.Sprint(sc.ProjSeed, sc.NSvc, sc.Doc), string(key))
		}
		// (2) unaffected fields are carried over
		ign := append([]string{}, ignore...)
		if partition {
			ign = append(ign, "Project.Services", "Project.DisabledServices")
		}
		if d := equalExact(cur, res, ign...); d != "" {
			report("field-lost", o, stripIdx(diff.PathOf(d)), "a field the operation does not concern differs: "+d)
		}
		if partition {
			if d := equalExact(cur.AllServices(), res.AllServices(), ignore...); d != "" {
				report("field-lost", o, "AllServices"+stripIdx(diff.PathOf(d)), "services differ beyond what the operation concerns: "+d)
			}
		}
		if o.Name == "WithoutUnnecessaryResources" {
			for _, pair := range [][2]any{{cur.Networks, res.Networks}, {cur.Volumes, res.Volumes}, {cur.Secrets, res.Secrets}, {cur.Configs, res.Configs}} {
				rv := reflect.ValueOf(pair[1])
				it := rv.MapRange()
				for it.Next() {
					ov := reflect.ValueOf(pair[0]).MapIndex(it.Key())
					if !ov.IsValid() {
						report("field-lost", o, "resources", fmt.Sprintf("resource %v appears from nowhere", it.Key()))
					} else if d := equalExact(ov.Interface(), it.Value().Interface()); d != "" {
						report("field-lost", o, "resources"+stripIdx(diff.PathOf(d)), "kept resource changed: "+d)
					}
				}
			}
		}
		// (3) no shared mutable state with the receiver or any earlier project of the sequence
		for hi, h := range history {
			if hit, ok := shared(h, res); ok {
				who := "receiver"
				if hi != len(history)-1 {
					who = fmt.Sprintf("project %d steps back", len(history)-1-hi)
				}
				path := hit[strings.Index(hit, "receiver")+len("receiver"):]
				path = path[:strings.Index(path, " == ")]
				report("shared-state", o, stripIdx(path), who+" and result share "+hit)
				break
			}
		}
		// (4) mutating everything reachable in the result leaves the receiver unchanged
		resCopy := snapshot(res)
		mutate(reflect.ValueOf(res).Elem(), false)
		if d := equalExact(before, cur); d != "" {
			report("mutation-visible", o, stripIdx(diff.PathOf(d)), "mutating the result changed the receiver: "+d)
			return
		}
		// and the other way round
		curCopy := snapshot(cur)
		mutate(reflect.ValueOf(curCopy).Elem(), false) // sanity of the mutator itself
		_ = curCopy
		history = append(history, resCopy)
		cur = resCopy
		if s.WantSample() && step == nops-1 && nops >= 3 {
			s.Sample(map[string]any{"project": sc.Source, "services": p0.ServiceNames(), "disabled": p0.DisabledServiceNames(), "ops": sc.Ops})
		}
	}
}

// ---- fixed documents -----------------------------------------------------------

var docs = []func() *ld.Case{
	func() *ld.Case {
		return &ld.Case{ComposeFiles: []string{"compose.yaml"}, Env: map[string]string{"FOO": "bar", "SEC": "s3cr3t"}, Files: map[string]string{
			"compose.yaml": "services:\n  web:\n    image: nginx\n    networks: {front: {aliases: [w]}}\n    volumes: [\"data:/d\", \"./x:/x\"]\n    secrets: [sec]\n    configs: [cfg]\n    depends_on: [db]\n    env_file: [a.env]\n    environment: [FOO]\n    labels: {a: b}\n    label_file: [l.labels]\n  db:\n    image: postgres\n    profiles: [p]\n    networks: [back]\n  job:\n    image: job\n    profiles: [q]\n    depends_on: {db: {condition: service_started, required: false}}\nnetworks:\n  front: {labels: {x: y}, ipam: {config: [{subnet: 10.0.0.0/24}]}}\n  back: {}\n  unused: {labels: {u: v}}\nvolumes:\n  data: {labels: {l: m}}\n  unusedv: {}\nsecrets:\n  sec: {environment: SEC}\n  other: {file: ./o.txt}\nconfigs:\n  cfg: {content: hello}\n",
			"a.env":        "A=1\n", "l.labels": "lf=1\n", "o.txt": "x"}, Opts: ld.Opts{Profiles: []string{"p"}}}
	},
	func() *ld.Case {
		return &ld.Case{ComposeFiles: []string{"compose.yaml"}, Files: map[string]string{
			"compose.yaml": "services:\n  a:\n    build: {context: ., args: {X: \"1\"}, secrets: [bs]}\n    deploy: {resources: {limits: {cpus: \"1\"}, reservations: {devices: [{capabilities: [gpu]}]}}}\n    ulimits: {nofile: 5}\n    extra_hosts: [\"h=1.1.1.1\"]\n    x-svc: {k: [1, 2]}\n  b:\n    image: b\n    network_mode: \"service:a\"\n  c:\n    image: c\n    links: [a]\n    volumes_from: [b]\nsecrets:\n  bs: {file: ./bs}\nx-top: {deep: {er: [1]}}\n",
			"bs":           "x"}}
	},
}

func run(s *core.Shard) {
	rng := s.Rand("sequences")
	n := s.Pick(2000, 16000)
	for i := 0; i < n; i++ {
		sc := seqCase{Source: "filled", ProjSeed: int64(i / 4), NSvc: 1 + (i/4)%6}
		if i%10 == 9 {
			sc = seqCase{Source: "loaded", Doc: i / 10}
		}
		nops := 1 + i%4
		opSeed := rng.Int63()
		if !s.Mine(i) {
			continue
		}
		if !s.Begin(fmt.Sprintf("seq/%d", i)) {
			continue
		}
		orng := rand.New(rand.NewSource(opSeed))
		runSequence(s, sc, func(p *types.Project, step int) Op { return drawOp(orng, p) }, nops, nil)
	}
}

func replay(s *core.Shard, dir string) {
	var sc seqCase
	if err := core.ReadJSON(filepath.Join(dir, "case.json"), &sc); err != nil {
		s.Inconclusive("replay: " + err.Error())
		return
	}
	runSequence(s, sc, nil, len(sc.Ops), nil)
}

func witness(s *core.Shard, f core.Finding) (bool, string) {
	var sc seqCase
	if err := json.Unmarshal(f.Witness, &sc); err != nil {
		return false, "bad witness"
	}
	hit := false
	detail := ""
	runSequence(s, sc, nil, len(sc.Ops), func(attrs map[string]string, what string, _ map[string]any) {
		if f.Matches(attrs) {
			hit = true
			detail = what
		}
	})
	return hit, detail
}
