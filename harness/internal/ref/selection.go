package ref

// Set-based reference model of profile / service selection (property C15).
//
// The model is written from the property statement only. A project is reduced
// to: the known services (profiles, dependency edges with their `required`
// flag, the names of the top-level resources each one references), the subset
// that is enabled, the active profile list and the declared top-level
// resources. Every operation is judged *relative to its receiver*: Judge takes
// the abstract state before and after one call and lists what contradicts the
// statement. Where the statement is silent the model leaves the point free
// (see the comments at each rule) instead of copying the implementation.

import (
	"fmt"
	"sort"
	"strings"
)

// SelService is one service of the abstract state.
type SelService struct {
	Profiles []string        `json:"profiles,omitempty"`
	Deps     map[string]bool `json:"deps,omitempty"` // dependency name -> required
	Enabled  bool            `json:"enabled"`
	Networks []string        `json:"networks,omitempty"`
	Volumes  []string        `json:"volumes,omitempty"` // named volumes only
	Secrets  []string        `json:"secrets,omitempty"` // service and build secrets
	Configs  []string        `json:"configs,omitempty"`
}

// SelState is the abstract state of a project.
type SelState struct {
	Services map[string]SelService `json:"services"`
	Active   []string              `json:"active,omitempty"` // Project.Profiles
	Networks []string              `json:"networks,omitempty"`
	Volumes  []string              `json:"volumes,omitempty"`
	Secrets  []string              `json:"secrets,omitempty"`
	Configs  []string              `json:"configs,omitempty"`
	// Overlap lists names present in both the enabled and the disabled set
	// (never produced by a generator; only by abstracting a broken result).
	Overlap []string `json:"overlap,omitempty"`
}

// Operation kinds.
const (
	OpProfiles = "WithProfiles"
	OpEnable   = "WithServicesEnabled"
	OpDisable  = "WithServicesDisabled"
	OpSelect   = "WithSelectedServices"
	OpPrune    = "WithoutUnnecessaryResources"
)

// Dependency policies of OpSelect.
const (
	PolDependencies = "IncludeDependencies"
	PolDependents   = "IncludeDependents"
	PolIgnore       = "IgnoreDependencies"
	PolDefault      = "" // no option given: the documented default is IncludeDependencies
)

// SelOp is one operation with its arguments.
type SelOp struct {
	Kind   string   `json:"kind"`
	Args   []string `json:"args,omitempty"` // profiles or service names
	Policy string   `json:"policy,omitempty"`
}

func (o SelOp) String() string {
	s := o.Kind + "(" + strings.Join(o.Args, ",") + ")"
	if o.Kind == OpSelect {
		p := o.Policy
		if p == "" {
			p = "default"
		}
		s += "/" + p
	}
	return s
}

// Mismatch is one contradiction between an observed step and the statement.
type Mismatch struct {
	Kind   string // stable class
	Field  string // stable sub-class (which part of the state)
	Detail string
}

func set(l []string) map[string]bool {
	m := map[string]bool{}
	for _, x := range l {
		m[x] = true
	}
	return m
}

func sorted(m map[string]bool) []string {
	var l []string
	for k, v := range m {
		if v {
			l = append(l, k)
		}
	}
	sort.Strings(l)
	return l
}

func sameSet(a, b map[string]bool) bool {
	return strings.Join(sorted(a), "\x00") == strings.Join(sorted(b), "\x00")
}

// EnabledSet returns the names of the enabled services.
func (s SelState) EnabledSet() map[string]bool {
	m := map[string]bool{}
	for n, sv := range s.Services {
		if sv.Enabled {
			m[n] = true
		}
	}
	return m
}

// ProfileMatch is the statement's rule: a service is enabled by a profile
// selection iff it has no profile, one of its profiles is listed, or `*` is listed.
func ProfileMatch(svc []string, selected []string) bool {
	if len(svc) == 0 {
		return true
	}
	for _, p := range selected {
		if p == "*" {
			return true
		}
		for _, q := range svc {
			if p == q {
				return true
			}
		}
	}
	return false
}

// ProfileConsistent reports whether every service with profiles is enabled iff
// it matches the active profiles (true for any state produced by selecting
// profiles and then enabling / disabling / selecting services, except that
// services may additionally be disabled).
func (s SelState) ProfileConsistent() bool {
	for _, sv := range s.Services {
		if sv.Enabled && !ProfileMatch(sv.Profiles, s.Active) {
			return false
		}
	}
	return true
}

// side expectations
const (
	sideFree = iota
	sideEnabled
	sideDisabled
)

// Closure computes what OpSelect must keep. errMust: the statement leaves no
// result (a named service is not an enabled service). errFree: the walk met a
// required dependency that is not enabled — the statement does not say whether
// that is an error; if the call succeeds the result must be the returned set.
func Closure(st SelState, names []string, policy string) (keep map[string]bool, errMust, errFree bool) {
	en := st.EnabledSet()
	keep = map[string]bool{}
	for _, n := range names {
		if !en[n] {
			return nil, true, false
		}
	}
	var walk func(n string)
	walk = func(n string) {
		if keep[n] {
			return
		}
		keep[n] = true
		switch policy {
		case PolIgnore:
		case PolDependents:
			for m := range en {
				if _, ok := st.Services[m].Deps[n]; ok {
					walk(m)
				}
			}
		default:
			for d, req := range st.Services[n].Deps {
				if en[d] {
					walk(d)
				} else if req {
					errFree = true
				}
			}
		}
	}
	for _, n := range names {
		walk(n)
	}
	return keep, false, errFree
}

// Judge compares one observed step with the statement.
func Judge(before SelState, op SelOp, gotErr bool, after SelState) []Mismatch {
	var out []Mismatch
	add := func(kind, field, f string, a ...any) {
		out = append(out, Mismatch{Kind: kind, Field: field, Detail: fmt.Sprintf(f, a...)})
	}
	enB := before.EnabledSet()

	// ---- error expectation ---------------------------------------------------
	var keep map[string]bool
	errMust, errFree := false, false
	if op.Kind == OpSelect && len(op.Args) > 0 {
		keep, errMust, errFree = Closure(before, op.Args, op.Policy)
	}
	if gotErr {
		if !errMust && !errFree {
			add("unexpected-error", "error", "the operation failed although every argument is acceptable")
		}
		return out
	}
	if errMust {
		add("missing-error", "error", "a named service is not an enabled service of the receiver, yet the selection succeeded")
		return out
	}

	// ---- partition: nothing lost, nothing duplicated --------------------------
	if len(after.Overlap) > 0 {
		add("duplicated-service", "partition", "in both the enabled and the disabled set: %v", after.Overlap)
	}
	for n := range before.Services {
		if _, ok := after.Services[n]; !ok {
			add("lost-service", "partition", "service %q is in neither set after the operation", n)
		}
	}
	for n := range after.Services {
		if _, ok := before.Services[n]; !ok {
			add("invented-service", "partition", "service %q did not exist in the receiver", n)
		}
	}
	if len(out) > 0 {
		return out
	}

	// ---- which side every service must be on ---------------------------------
	want := map[string]int{}
	wantActive := before.Active
	activeFree := false
	switch op.Kind {
	case OpProfiles:
		for n, sv := range before.Services {
			if ProfileMatch(sv.Profiles, op.Args) {
				want[n] = sideEnabled
			} else {
				want[n] = sideDisabled
			}
		}
		wantActive = op.Args
	case OpEnable:
		// "enabling a disabled service activates its profiles". Active profiles
		// afterwards = receiver's + those of every named disabled service.
		// Services with profiles are then decided by the profile rule; a named
		// known service must be enabled; an enabled service stays enabled.
		// Whether *other* disabled services without profiles come back is not
		// stated: free. With no name at all nothing is required to change.
		act := append([]string{}, before.Active...)
		for _, n := range op.Args {
			if sv, ok := before.Services[n]; ok && !sv.Enabled {
				act = append(act, sv.Profiles...)
			}
		}
		wantActive = act
		named := set(op.Args)
		for n, sv := range before.Services {
			switch {
			case len(op.Args) == 0:
				if sv.Enabled {
					want[n] = sideEnabled
				} else {
					want[n] = sideDisabled
				}
			case named[n] || sv.Enabled:
				want[n] = sideEnabled
			case len(sv.Profiles) > 0:
				if ProfileMatch(sv.Profiles, act) {
					want[n] = sideEnabled
				} else {
					want[n] = sideDisabled
				}
			default:
				want[n] = sideFree
			}
		}
	case OpDisable:
		named := set(op.Args)
		for n, sv := range before.Services {
			if sv.Enabled && !named[n] {
				want[n] = sideEnabled
			} else {
				want[n] = sideDisabled
			}
		}
	case OpSelect:
		if len(op.Args) == 0 {
			// "keeps exactly the named services" with no name: the statement
			// gives no reading (the library documents "all services"). Only a
			// disabled service may not come back.
			for n, sv := range before.Services {
				if sv.Enabled {
					want[n] = sideFree
				} else {
					want[n] = sideDisabled
				}
			}
		} else {
			for n := range before.Services {
				if keep[n] {
					want[n] = sideEnabled
				} else {
					want[n] = sideDisabled
				}
			}
		}
	case OpPrune:
		for n, sv := range before.Services {
			if sv.Enabled {
				want[n] = sideEnabled
			} else {
				want[n] = sideDisabled
			}
		}
	}
	var wrongE, wrongD []string
	for n, w := range want {
		got := after.Services[n].Enabled
		if w == sideEnabled && !got {
			wrongD = append(wrongD, n)
		}
		if w == sideDisabled && got {
			wrongE = append(wrongE, n)
		}
	}
	sort.Strings(wrongE)
	sort.Strings(wrongD)
	if len(wrongD) > 0 {
		add("wrong-partition", "missing-from-enabled", "must be enabled but are disabled: %v (enabled before: %v, after: %v)", wrongD, sorted(enB), sorted(after.EnabledSet()))
	}
	if len(wrongE) > 0 {
		add("wrong-partition", "wrongly-enabled", "must be disabled but are enabled: %v (enabled before: %v, after: %v)", wrongE, sorted(enB), sorted(after.EnabledSet()))
	}

	// ---- active profiles ------------------------------------------------------
	if !activeFree && !sameSet(set(wantActive), set(after.Active)) {
		add("wrong-profiles", "Profiles", "active profiles %v, expected the set %v", after.Active, wantActive)
	}

	// ---- dependencies ---------------------------------------------------------
	enA := after.EnabledSet()
	removedNow := map[string]bool{}
	switch op.Kind {
	case OpDisable:
		removedNow = set(op.Args)
	case OpSelect:
		for n := range enB {
			if !enA[n] {
				removedNow[n] = true
			}
		}
	}
	for n, svA := range after.Services {
		svB := before.Services[n]
		// never invent an edge, never change its required flag
		for d, req := range svA.Deps {
			reqB, ok := svB.Deps[d]
			if !ok {
				add("dependency-invented", "DependsOn", "service %q depends on %q after the operation but did not before", n, d)
			} else if req != reqB {
				add("dependency-changed", "DependsOn", "service %q -> %q changed its required flag", n, d)
			}
		}
		switch op.Kind {
		case OpDisable, OpSelect:
			if !svA.Enabled {
				// what a removed service still depends on is not stated
				continue
			}
			for d := range svB.Deps {
				_, still := svA.Deps[d]
				switch {
				case removedNow[d]:
					if still {
						add("dangling-dependency", "DependsOn", "remaining service %q still depends on removed service %q", n, d)
					}
				case enA[d]:
					if !still {
						add("dependency-lost", "DependsOn", "remaining service %q lost its dependency on remaining service %q", n, d)
					}
				default:
					// target was already outside the enabled set (optional
					// dependency on a disabled service): keeping or dropping
					// the edge are both compatible with the statement
				}
			}
		default:
			for d := range svB.Deps {
				if _, still := svA.Deps[d]; !still {
					add("dependency-lost", "DependsOn", "service %q lost its dependency on %q although nothing was removed", n, d)
				}
			}
		}
	}

	// ---- top-level resources --------------------------------------------------
	type res struct {
		name          string
		before, after []string
		refs          func(SelService) []string
	}
	for _, r := range []res{
		{"Networks", before.Networks, after.Networks, func(s SelService) []string { return s.Networks }},
		{"Volumes", before.Volumes, after.Volumes, func(s SelService) []string { return s.Volumes }},
		{"Secrets", before.Secrets, after.Secrets, func(s SelService) []string { return s.Secrets }},
		{"Configs", before.Configs, after.Configs, func(s SelService) []string { return s.Configs }},
	} {
		wantRes := set(r.before)
		if op.Kind == OpPrune {
			used := map[string]bool{}
			for _, sv := range before.Services {
				if sv.Enabled {
					for _, x := range r.refs(sv) {
						used[x] = true
					}
				}
			}
			for x := range wantRes {
				if !used[x] {
					delete(wantRes, x)
				}
			}
		}
		if !sameSet(wantRes, set(r.after)) {
			add("wrong-resources", r.name, "%s after the operation: %v, expected %v", r.name, sorted(set(r.after)), sorted(wantRes))
		}
	}
	return out
}
