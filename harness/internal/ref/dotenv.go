package ref

// Reference models for property C18 (the env-file grammar), written from the
// property statement and the published env-file syntax rules, not from
// compose-go's scanner.
//
// Two independent directions:
//
//   - forward / constructive: a file is a list of semantic lines (DotLine); the
//     value of an assignment is a list of pieces (literal text, variable
//     references). DotRenderValue writes a value in one of the three quoting
//     styles with the escapes that style requires, DotFold computes the map the
//     grammar defines (later assignments win, lookup first / earlier lines
//     second, single quotes literal).
//
//   - backward: DotParse reads an arbitrary byte string conservatively. It
//     returns a decided map, "must be an error" (empty key, invalid key,
//     unterminated quote, required variable missing) or "undecided" as soon as
//     the text leaves the part of the grammar the statement pins down.

import (
	"strconv"
	"strings"
	"unicode"
	"unicode/utf8"
)

// ---------------------------------------------------------------------------
// forward model

type DotStyle int

const (
	DotUnquoted DotStyle = iota
	DotSingle
	DotDouble
)

func (s DotStyle) String() string {
	return [...]string{"unquoted", "single", "double"}[s]
}

type DotKind int

const (
	DotAssign   DotKind = iota // KEY=VALUE, KEY: VALUE, export KEY=VALUE
	DotBare                    // KEY            (inherited from the lookup)
	DotSkip                    // comment or blank line
	DotMustFail                // a line the statement requires to be rejected (whole file => error)
)

// DotPiece is a literal (Ref == "") or a variable reference.
type DotPiece struct {
	Lit  string
	Ref  string // variable name
	Form string // "$" "{}" ":-" "-" ":+" "+" ":?" "?"
	Arg  string // literal default / replacement / message (no special characters)
}

// DotLine is the semantic content of one line.
type DotLine struct {
	Kind   DotKind
	Key    string
	Style  DotStyle
	Pieces []DotPiece
}

// DotResolve is the statement's resolution order for references: the lookup
// function first, earlier lines of the same file second.
func DotResolve(name string, lookup, earlier map[string]string) (string, bool) {
	if v, ok := lookup[name]; ok {
		return v, true
	}
	v, ok := earlier[name]
	return v, ok
}

// DotValue evaluates the pieces of one assignment. fail reports that the
// interpolation itself must fail (required variable missing).
func DotValue(l DotLine, lookup, earlier map[string]string) (value string, fail bool) {
	var sb strings.Builder
	for _, p := range l.Pieces {
		if p.Ref == "" {
			sb.WriteString(p.Lit)
			continue
		}
		v, set := DotResolve(p.Ref, lookup, earlier)
		switch p.Form {
		case "$", "{}":
			sb.WriteString(v)
		case ":-":
			if set && v != "" {
				sb.WriteString(v)
			} else {
				sb.WriteString(p.Arg)
			}
		case "-":
			if set {
				sb.WriteString(v)
			} else {
				sb.WriteString(p.Arg)
			}
		case ":+":
			if set && v != "" {
				sb.WriteString(p.Arg)
			}
		case "+":
			if set {
				sb.WriteString(p.Arg)
			}
		case ":?":
			if !set || v == "" {
				return "", true
			}
			sb.WriteString(v)
		case "?":
			if !set {
				return "", true
			}
			sb.WriteString(v)
		}
	}
	return sb.String(), false
}

// DotApply folds one line into env (the map built from the earlier lines).
func DotApply(l DotLine, lookup, env map[string]string) (fail bool) {
	switch l.Kind {
	case DotAssign:
		v, f := DotValue(l, lookup, env)
		if f {
			return true
		}
		env[l.Key] = v
	case DotBare:
		if v, ok := lookup[l.Key]; ok {
			env[l.Key] = v
		}
	case DotMustFail:
		return true
	}
	return false
}

// DotFold is the reference evaluation of a whole file.
func DotFold(lines []DotLine, lookup map[string]string) (env map[string]string, mustFail bool) {
	env = map[string]string{}
	for _, l := range lines {
		if DotApply(l, lookup, env) {
			return env, true
		}
	}
	return env, false
}

func isVarNameByte(c byte) bool {
	return c == '_' || c >= 'a' && c <= 'z' || c >= 'A' && c <= 'Z' || c >= '0' && c <= '9'
}

func renderRef(p DotPiece, nextIsNameChar bool, pick func(n int) int) string {
	switch p.Form {
	case "$":
		if nextIsNameChar {
			return "${" + p.Ref + "}"
		}
		return "$" + p.Ref
	case "{}":
		return "${" + p.Ref + "}"
	}
	return "${" + p.Ref + p.Form + p.Arg + "}"
}

// DotRenderValue writes the value of an assignment in the given style. pick(n)
// chooses among n equivalent spellings (escape vs. raw character). ok=false
// means the semantic value cannot be written in that style inside the part of
// the grammar the statement decides.
func DotRenderValue(style DotStyle, pieces []DotPiece, pick func(n int) int) (text string, ok bool) {
	var sb strings.Builder
	nextNameChar := func(i int) bool {
		for j := i + 1; j < len(pieces); j++ {
			if pieces[j].Ref != "" {
				return false // starts with `$`
			}
			if pieces[j].Lit != "" {
				return isVarNameByte(pieces[j].Lit[0])
			}
		}
		return false
	}
	switch style {
	case DotSingle:
		var lit strings.Builder
		for _, p := range pieces {
			if p.Ref != "" {
				return "", false
			}
			lit.WriteString(p.Lit)
		}
		s := lit.String()
		// the only documented escape is \' ; a backslash right before a quote
		// or as last character has no spelling
		for i := 0; i < len(s); i++ {
			if s[i] == '\\' && (i+1 == len(s) || s[i+1] == '\'') {
				return "", false
			}
		}
		return "'" + strings.ReplaceAll(s, "'", `\'`) + "'", true
	case DotDouble:
		sb.WriteByte('"')
		for i, p := range pieces {
			if p.Ref != "" {
				sb.WriteString(renderRef(p, nextNameChar(i), pick))
				continue
			}
			for _, r := range p.Lit {
				switch r {
				case '"':
					sb.WriteString(`\"`)
				case '\\':
					sb.WriteString(`\\`)
				case '$':
					if pick(2) == 0 {
						sb.WriteString(`\$`)
					} else {
						sb.WriteString(`$$`)
					}
				case '\n':
					if pick(2) == 0 {
						sb.WriteString(`\n`)
					} else {
						sb.WriteByte('\n')
					}
				case '\t':
					if pick(2) == 0 {
						sb.WriteString(`\t`)
					} else {
						sb.WriteByte('\t')
					}
				case '\r':
					if pick(2) == 0 {
						sb.WriteString(`\r`)
					} else {
						sb.WriteByte('\r')
					}
				default:
					sb.WriteRune(r)
				}
			}
		}
		sb.WriteByte('"')
		return sb.String(), true
	}
	// unquoted
	for i, p := range pieces {
		if p.Ref != "" {
			sb.WriteString(renderRef(p, nextNameChar(i), pick))
			continue
		}
		sb.WriteString(strings.ReplaceAll(p.Lit, "$", "$$"))
	}
	s := sb.String()
	if s == "" {
		return s, true
	}
	if strings.ContainsAny(s, "\n\r") || s[0] == '\'' || s[0] == '"' || s[0] == '#' {
		return "", false
	}
	first, _ := utf8.DecodeRuneInString(s)
	last, _ := utf8.DecodeLastRuneInString(s)
	if unicode.IsSpace(first) || unicode.IsSpace(last) || first == utf8.RuneError || last == utf8.RuneError {
		return "", false
	}
	if s[len(s)-1] == '\\' || strings.Contains(s, `\$`) {
		return "", false // line continuation / escaped dollar outside quotes: not documented
	}
	prevSpace := false
	for _, r := range s {
		if r == '#' && prevSpace {
			return "", false // would start an inline comment
		}
		prevSpace = unicode.IsSpace(r)
	}
	return s, true
}

// ---------------------------------------------------------------------------
// backward model

type DotStatus int

const (
	DotDecided   DotStatus = iota // Map is the result the grammar defines
	DotMustError                  // the statement requires an error (Reason says why)
	DotUndecided                  // outside what the statement pins down: only "no panic" applies
)

type DotOutcome struct {
	Status DotStatus
	Map    map[string]string
	Reason string
	Detail string // for Reason "invalid-key": stable name of the offending character
}

// DotCharName gives a stable, printable name to a character that cannot be part of a key.
func DotCharName(c byte) string {
	switch c {
	case ' ':
		return "space"
	case '\t':
		return "tab"
	case '\'':
		return "single-quote"
	case '"':
		return "double-quote"
	case '\\':
		return "backslash"
	}
	if c > 0x20 && c < 0x7f {
		return string(rune(c))
	}
	return "0x" + strconv.FormatUint(uint64(c), 16)
}

func isDotKeyByte(c byte) bool {
	return c == '_' || c == '.' || c == '-' || c >= 'a' && c <= 'z' || c >= 'A' && c <= 'Z' || c >= '0' && c <= '9'
}

// DotParse reads src against the documented line grammar.
func DotParse(src string, lookup map[string]string) DotOutcome {
	und := func(r string) DotOutcome { return DotOutcome{Status: DotUndecided, Reason: r} }
	bad := func(r string) DotOutcome { return DotOutcome{Status: DotMustError, Reason: r} }
	n := len(src)
	for i := 0; i < n; i++ {
		c := src[i]
		switch {
		case c == '\n' || c == '\t' || c >= 0x20 && c < 0x7f:
		case c == '\r' && i+1 < n && src[i+1] == '\n':
		default:
			return und("byte outside the modelled alphabet")
		}
	}
	env := map[string]string{}
	blank := func(c byte) bool { return c == ' ' || c == '\t' }
	eol := func(i int) bool { return i >= n || src[i] == '\n' || src[i] == '\r' }
	interpolate := func(tmpl string) (string, *DotOutcome) {
		if strings.Contains(tmpl, "${") && strings.Contains(tmpl, "\n") {
			o := und("line break and braced substitution in one value")
			return "", &o
		}
		items, st := Parse(tmpl)
		if st != InGrammar {
			o := und("value is not a template of the interpolation grammar")
			return "", &o
		}
		out := Eval(items, func(k string) (string, bool) { return DotResolve(k, lookup, env) })
		if out.Unspecified {
			o := und("interpolation outcome not specified")
			return "", &o
		}
		if out.Err {
			o := bad("required-variable")
			return "", &o
		}
		return out.Value, nil
	}
	// afterQuote checks what follows a closing quote on the same line.
	afterQuote := func(i int) (int, bool) {
		for i < n && blank(src[i]) {
			i++
		}
		if eol(i) {
			return i, true
		}
		if src[i] == '#' {
			for i < n && src[i] != '\n' {
				i++
			}
			return i, true
		}
		return i, false
	}
	i := 0
	for {
		for i < n && (blank(src[i]) || src[i] == '\n' || src[i] == '\r') {
			i++
		}
		if i >= n {
			break
		}
		if src[i] == '#' {
			for i < n && src[i] != '\n' {
				i++
			}
			continue
		}
		if strings.HasPrefix(src[i:], "export") && i+6 < n && blank(src[i+6]) {
			i += 6
			for i < n && blank(src[i]) {
				i++
			}
			if eol(i) {
				return und("export without a key")
			}
		}
		ks := i
		for i < n && isDotKeyByte(src[i]) {
			i++
		}
		key := src[ks:i]
		j := i
		for j < n && blank(src[j]) {
			j++
		}
		digitFirst := key != "" && key[0] >= '0' && key[0] <= '9'
		if key != "" && eol(j) {
			if digitFirst {
				return und("key starts with a digit")
			}
			if v, ok := lookup[key]; ok {
				env[key] = v
			} else if _, had := env[key]; had {
				return und("bare key absent from the lookup after an assignment of the same key")
			}
			i = j
			continue
		}
		c := src[j]
		if c != '=' && c != ':' {
			if c == '#' && j > i {
				return und("comment after a bare key")
			}
			if c == '[' || c == ']' {
				return und("brackets in a key")
			}
			o := bad("invalid-key")
			if j > i && key != "" {
				o.Detail = DotCharName(src[i]) // a blank inside the key
			} else {
				o.Detail = DotCharName(c)
			}
			return o
		}
		if key == "" {
			return bad("empty-key")
		}
		if digitFirst {
			return und("key starts with a digit")
		}
		if c == ':' && j+1 < n && !blank(src[j+1]) && !eol(j+1) {
			return und("`:` separator not followed by a blank")
		}
		i = j + 1
		for i < n && blank(src[i]) {
			i++
		}
		if eol(i) {
			env[key] = ""
			continue
		}
		switch src[i] {
		case '\'':
			var sb strings.Builder
			p := i + 1
			closed := false
			for p < n {
				ch := src[p]
				if ch == '\\' {
					q := p
					for q < n && src[q] == '\\' {
						q++
					}
					if q >= n {
						break // backslashes up to the end of input: no closing quote
					}
					if src[q] == '\'' {
						if q-p != 1 {
							return und("several backslashes before a single quote")
						}
						sb.WriteByte('\'')
						p = q + 1
						continue
					}
					sb.WriteString(src[p:q])
					p = q
					continue
				}
				if ch == '\'' {
					closed = true
					p++
					break
				}
				sb.WriteByte(ch)
				p++
			}
			if !closed {
				return bad("unterminated-quote")
			}
			next, ok := afterQuote(p)
			if !ok {
				return und("text after the closing quote")
			}
			env[key] = sb.String()
			i = next
		case '"':
			var tm strings.Builder
			p := i + 1
			closed, undocumented := false, false
			for p < n {
				ch := src[p]
				if ch == '\\' {
					if p+1 >= n {
						break
					}
					switch src[p+1] {
					case 'n':
						tm.WriteByte('\n')
					case 't':
						tm.WriteByte('\t')
					case 'r':
						tm.WriteByte('\r')
					case '\\':
						tm.WriteByte('\\')
					case '"':
						tm.WriteByte('"')
					case '$':
						tm.WriteString("$$")
					default:
						undocumented = true
					}
					p += 2
					continue
				}
				if ch == '"' {
					closed = true
					p++
					break
				}
				tm.WriteByte(ch)
				p++
			}
			if !closed {
				return bad("unterminated-quote")
			}
			if undocumented {
				return und("escape sequence outside the documented set")
			}
			next, ok := afterQuote(p)
			if !ok {
				return und("text after the closing quote")
			}
			v, o := interpolate(tm.String())
			if o != nil {
				return *o
			}
			env[key] = v
			i = next
		default:
			e := i
			for e < n && src[e] != '\n' {
				e++
			}
			raw := strings.TrimSuffix(src[i:e], "\r")
			if raw[0] == '#' {
				return und("`#` at the start of an unquoted value")
			}
			if strings.Contains(raw, "\t#") {
				return und("`#` after a tab")
			}
			if k := strings.Index(raw, " #"); k >= 0 {
				raw = raw[:k]
			}
			raw = strings.TrimRight(raw, " \t")
			if strings.Contains(raw, `\$`) || strings.HasSuffix(raw, `\`) {
				return und("backslash before `$` or at the end of an unquoted value")
			}
			v, o := interpolate(raw)
			if o != nil {
				return *o
			}
			env[key] = v
			i = e
		}
	}
	return DotOutcome{Status: DotDecided, Map: env}
}
