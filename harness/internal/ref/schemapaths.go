package ref

// Schema walker for C08: enumerates the scalar positions of a JSON schema
// (draft-07 subset used by compose-spec.json) together with the scalar JSON
// types admitted at each position. It is deliberately independent of
// compose-go: it reads the schema text only.

import (
	"encoding/json"
	"fmt"
	"sort"
	"strings"
)

// StepKind distinguishes the three ways a schema descends into a value.
type StepKind int

const (
	StepProp    StepKind = iota // a named property
	StepPattern                 // a patternProperties / additionalProperties entry (Name = regexp, "" for additionalProperties)
	StepItem                    // array items
)

// SchemaStep is one descent step.
type SchemaStep struct {
	Kind StepKind
	Name string
}

// SchemaLeaf is one scalar position of the schema.
type SchemaLeaf struct {
	Steps  []SchemaStep
	Types  map[string]bool // scalar JSON types admitted here, merged over oneOf/anyOf alternatives
	Format string
}

// String renders the full schema path, e.g. services.<^[a-z]+$>.volumes[].tmpfs.mode
func (l SchemaLeaf) String() string {
	var sb strings.Builder
	for i, st := range l.Steps {
		switch st.Kind {
		case StepProp:
			if i > 0 {
				sb.WriteByte('.')
			}
			sb.WriteString(st.Name)
		case StepPattern:
			if i > 0 {
				sb.WriteByte('.')
			}
			sb.WriteString("<" + st.Name + ">")
		case StepItem:
			sb.WriteString("[]")
		}
	}
	return sb.String()
}

// AttrPath is the stable attribute path: property names only, pattern keys
// rendered as "*" only when they are the last step, list steps dropped
// (services.blkio_config.weight, services.volumes.tmpfs.mode, services.ulimits.*).
func (l SchemaLeaf) AttrPath() string {
	var parts []string
	for i, st := range l.Steps {
		switch st.Kind {
		case StepProp:
			parts = append(parts, st.Name)
		case StepPattern:
			if i == len(l.Steps)-1 {
				parts = append(parts, "*")
			}
		case StepItem:
			if i == len(l.Steps)-1 {
				parts = append(parts, "[]")
			}
		}
	}
	return strings.Join(parts, ".")
}

// Shape is the path with pattern keys as "*" and list steps as "[]" (used to key carrier tables).
func (l SchemaLeaf) Shape() string { return ShapeOf(l.Steps) }

// ShapeOf renders steps with "*" for pattern keys and "[]" for items.
func ShapeOf(steps []SchemaStep) string {
	var sb strings.Builder
	for i, st := range steps {
		switch st.Kind {
		case StepProp:
			if i > 0 {
				sb.WriteByte('.')
			}
			sb.WriteString(st.Name)
		case StepPattern:
			if i > 0 {
				sb.WriteByte('.')
			}
			sb.WriteByte('*')
		case StepItem:
			sb.WriteString("[]")
		}
	}
	return sb.String()
}

// Admits reports whether JSON type t is admitted at the leaf.
func (l SchemaLeaf) Admits(t string) bool { return l.Types[t] }

type walker struct {
	defs   map[string]any
	leaves map[string]*SchemaLeaf
	order  []string
}

// SchemaLeaves walks the schema text and returns every scalar position
// (type string, boolean, integer or number), in a deterministic order.
func SchemaLeaves(schemaJSON string) ([]SchemaLeaf, error) {
	var root map[string]any
	if err := json.Unmarshal([]byte(schemaJSON), &root); err != nil {
		return nil, err
	}
	w := &walker{leaves: map[string]*SchemaLeaf{}}
	if d, ok := root["definitions"].(map[string]any); ok {
		w.defs = d
	} else if d, ok := root["$defs"].(map[string]any); ok {
		w.defs = d
	}
	w.walk(root, nil, map[string]bool{})
	sort.Strings(w.order)
	out := make([]SchemaLeaf, 0, len(w.order))
	for _, k := range w.order {
		out = append(out, *w.leaves[k])
	}
	if len(out) == 0 {
		return nil, fmt.Errorf("schema walk found no scalar position")
	}
	return out, nil
}

func refName(r string) string {
	i := strings.LastIndex(r, "/")
	return r[i+1:]
}

func (w *walker) walk(n map[string]any, steps []SchemaStep, seen map[string]bool) {
	if len(steps) > 14 {
		return
	}
	if r, ok := n["$ref"].(string); ok {
		name := refName(r)
		if seen[name] {
			return
		}
		d, ok := w.defs[name].(map[string]any)
		if !ok {
			return
		}
		s2 := map[string]bool{name: true}
		for k := range seen {
			s2[k] = true
		}
		w.walk(d, steps, s2)
		return
	}
	for _, comb := range []string{"oneOf", "anyOf", "allOf"} {
		if alts, ok := n[comb].([]any); ok {
			for _, a := range alts {
				if am, ok := a.(map[string]any); ok {
					w.walk(am, steps, seen)
				}
			}
		}
	}
	var types []string
	switch t := n["type"].(type) {
	case string:
		types = []string{t}
	case []any:
		for _, x := range t {
			if s, ok := x.(string); ok {
				types = append(types, s)
			}
		}
	}
	scalar := false
	for _, t := range types {
		if t == "string" || t == "boolean" || t == "integer" || t == "number" {
			scalar = true
		}
	}
	if scalar && len(steps) > 0 {
		l := SchemaLeaf{Steps: append([]SchemaStep(nil), steps...)}
		key := l.String()
		cur := w.leaves[key]
		if cur == nil {
			l.Types = map[string]bool{}
			cur = &l
			w.leaves[key] = cur
			w.order = append(w.order, key)
		}
		for _, t := range types {
			cur.Types[t] = true
		}
		if f, ok := n["format"].(string); ok {
			cur.Format = f
		}
	}
	if props, ok := n["properties"].(map[string]any); ok {
		names := make([]string, 0, len(props))
		for k := range props {
			names = append(names, k)
		}
		sort.Strings(names)
		for _, k := range names {
			if pm, ok := props[k].(map[string]any); ok {
				w.walk(pm, append(steps[:len(steps):len(steps)], SchemaStep{StepProp, k}), seen)
			}
		}
	}
	if pp, ok := n["patternProperties"].(map[string]any); ok {
		pats := make([]string, 0, len(pp))
		for k := range pp {
			pats = append(pats, k)
		}
		sort.Strings(pats)
		for _, k := range pats {
			if k == "^x-" {
				continue
			}
			if pm, ok := pp[k].(map[string]any); ok {
				w.walk(pm, append(steps[:len(steps):len(steps)], SchemaStep{StepPattern, k}), seen)
			}
		}
	}
	if ap, ok := n["additionalProperties"].(map[string]any); ok {
		w.walk(ap, append(steps[:len(steps):len(steps)], SchemaStep{StepPattern, ""}), seen)
	}
	if it, ok := n["items"].(map[string]any); ok {
		w.walk(it, append(steps[:len(steps):len(steps)], SchemaStep{StepItem, ""}), seen)
	}
}
