package ref

// Reference model for property C16: a service's environment (and labels) is
// the fold of its env files (label files) in order, overridden by the
// `environment` (`labels`) entries. Written from the statement only.

import "strings"

// LayerPiece is literal text or a reference ${Ref}, ${Ref-Def} (Op "-": Def
// when Ref is not defined) or ${Ref:-Def} (Op ":-": Def when Ref is not
// defined or empty).
type LayerPiece struct {
	Lit string `json:"lit,omitempty"`
	Ref string `json:"ref,omitempty"`
	Op  string `json:"op,omitempty"`
	Def string `json:"def,omitempty"`
}

// LayerExpand is the text a reference piece stands for. A name defined with
// an empty value is defined.
func LayerExpand(p LayerPiece, earlierFiles, project, earlierLines map[string]string) string {
	v, n := LayerLookup(p.Ref, earlierFiles, project, earlierLines)
	switch p.Op {
	case "-":
		if n == 0 {
			return p.Def
		}
	case ":-":
		if n == 0 || v == "" {
			return p.Def
		}
	}
	return v
}

// LayerLine is one KEY=VALUE line of an env/label file.
type LayerLine struct {
	Key    string       `json:"key"`
	Pieces []LayerPiece `json:"pieces"`
}

// LayerFile is one env_file / label_file entry. A file that is not present
// contributes nothing (legal only when the entry is marked not required).
type LayerFile struct {
	Present bool        `json:"present"`
	Lines   []LayerLine `json:"lines,omitempty"`
}

// Modes of an `environment` entry.
const (
	EnvValue   = "value" // KEY=VALUE / KEY: VALUE
	EnvEmpty   = "empty" // KEY=      / KEY: ""
	EnvNoValue = "none"  // KEY       / KEY: (null)
)

type EnvEntry struct {
	Key   string `json:"key"`
	Mode  string `json:"mode"`
	Value string `json:"value,omitempty"`
}

// LayerLookup resolves a reference made from a file: the statement allows
// earlier files, the project environment and earlier lines of the same file
// and does not order them; n is the number of sources defining the name (the
// generator keeps n <= 1, where every order agrees).
func LayerLookup(name string, earlierFiles, project, earlierLines map[string]string) (v string, n int) {
	for _, src := range []map[string]string{earlierFiles, project, earlierLines} {
		if x, ok := src[name]; ok {
			if n == 0 {
				v = x
			}
			n++
		}
	}
	return v, n
}

// LayerFoldFiles folds files in order, a later file overriding an earlier one.
func LayerFoldFiles(files []LayerFile, project map[string]string) map[string]string {
	env := map[string]string{}
	for _, f := range files {
		if !f.Present {
			continue
		}
		local := map[string]string{}
		for _, l := range f.Lines {
			var sb strings.Builder
			for _, p := range l.Pieces {
				if p.Ref == "" {
					sb.WriteString(p.Lit)
					continue
				}
				sb.WriteString(LayerExpand(p, env, project, local))
			}
			local[l.Key] = sb.String()
		}
		for k, v := range local {
			env[k] = v
		}
	}
	return env
}

// LayerEnvironment is the expected final environment of a service. open lists
// keys whose outcome the statement leaves open: written without a value in
// `environment` and absent from the project environment.
func LayerEnvironment(files []LayerFile, project map[string]string, entries []EnvEntry) (want map[string]string, open map[string]bool) {
	want = LayerFoldFiles(files, project)
	open = map[string]bool{}
	for _, e := range entries {
		switch e.Mode {
		case EnvValue:
			want[e.Key] = e.Value
		case EnvEmpty:
			want[e.Key] = ""
		case EnvNoValue:
			if v, ok := project[e.Key]; ok {
				want[e.Key] = v
			} else {
				delete(want, e.Key)
				open[e.Key] = true
			}
		}
	}
	return want, open
}

// LayerLabels is the expected final label set: label files in order (no
// project environment involved), overridden by `labels`.
func LayerLabels(files []LayerFile, labels map[string]string) map[string]string {
	want := LayerFoldFiles(files, nil)
	for k, v := range labels {
		want[k] = v
	}
	return want
}
