package ref

// Independent invariant checker for referential consistency (property C10).
//
// ConsModel is a plain-data projection of a loaded project (filled in by the
// check from the typed result); Check lists every rule of the statement the
// model breaks. The rules are transcribed from the property statement and the
// Compose specification, not from the library's validation code.

import (
	"fmt"
	"sort"
	"strings"
)

// ConsService is what the rules need to know about one enabled service.
type ConsService struct {
	Image            string
	HasBuild         bool
	Dockerfile       string
	DockerfileInline string
	NetworkMode      string
	Networks         []string
	NamedVolumes     []string // sources of mounts of type volume with a source
	Secrets          []string
	BuildSecrets     []string
	Configs          []string
	DependsOn        map[string]bool   // name -> required
	Namespaces       map[string]string // attribute (network_mode, ipc, pid) -> value
	VolumesFrom      []string
	Links            []string
	ContainerName    string
	Scale            *int
	Replicas         *int
	CPUs, LimitCPUs  float64 // 0 = not set
	MemLimit         int64
	LimitMemory      int64
	MemReservation   int64
	ReservedMemory   int64
	PidsLimit        int64
	LimitPids        int64
	Devices          []ConsDevice
}

// ConsDevice is one device request (deploy.resources.reservations.devices[] or gpus[]).
type ConsDevice struct {
	Count  int64 // 0 = not set, -1 = all
	NumIDs int
}

// ConsVolume is a top-level volume.
type ConsVolume struct {
	External   bool
	Driver     string
	DriverOpts int
	Labels     int
}

// ConsFileObject is a top-level secret or config.
type ConsFileObject struct {
	External bool
	Driver   string
	Sources  []string // which of file / environment / content are set
}

// ConsModel is the projection of a project.
type ConsModel struct {
	Services map[string]ConsService
	Disabled map[string]bool // services disabled by profiles
	Networks map[string]bool
	Volumes  map[string]ConsVolume
	Secrets  map[string]ConsFileObject
	Configs  map[string]ConsFileObject
}

// ConsViolation names a broken rule.
type ConsViolation struct {
	Rule   string // stable rule id
	Detail string
}

const servicePrefix = "service:"
const containerPrefix = "container:"

// Check returns the rules of the statement that m breaks (empty: consistent).
func (m ConsModel) Check() []ConsViolation {
	var out []ConsViolation
	add := func(rule, f string, a ...any) {
		out = append(out, ConsViolation{Rule: rule, Detail: fmt.Sprintf(f, a...)})
	}
	names := make([]string, 0, len(m.Services))
	for n := range m.Services {
		names = append(names, n)
	}
	sort.Strings(names)

	// a reference to a service must name an enabled one
	refService := func(rule, from, what, target string) {
		if _, ok := m.Services[target]; !ok {
			add(rule, "service %q: %s names %q which is not an enabled service", from, what, target)
		}
	}

	for _, n := range names {
		s := m.Services[n]
		// every service has an image or a build
		if s.Image == "" && !s.HasBuild {
			add("image-or-build", "service %q has neither image nor build", n)
		}
		// every network, volume, secret and config a service uses is declared
		for _, x := range s.Networks {
			if !m.Networks[x] {
				add("undeclared-network", "service %q uses network %q", n, x)
			}
		}
		for _, x := range s.NamedVolumes {
			if _, ok := m.Volumes[x]; !ok {
				add("undeclared-volume", "service %q mounts volume %q", n, x)
			}
		}
		for _, x := range s.Secrets {
			if _, ok := m.Secrets[x]; !ok {
				add("undeclared-secret", "service %q uses secret %q", n, x)
			}
		}
		for _, x := range s.BuildSecrets {
			if _, ok := m.Secrets[x]; !ok {
				add("undeclared-build-secret", "service %q uses build secret %q", n, x)
			}
		}
		for _, x := range s.Configs {
			if _, ok := m.Configs[x]; !ok {
				add("undeclared-config", "service %q uses config %q", n, x)
			}
		}
		// depends_on names an existing service, or an optional one disabled by profiles
		for d, required := range s.DependsOn {
			if _, ok := m.Services[d]; ok {
				continue
			}
			if m.Disabled[d] && !required {
				continue
			}
			add("dangling-depends_on", "service %q depends on %q (required=%v, disabled=%v)", n, d, required, m.Disabled[d])
		}
		// `service:` namespace references
		for _, attr := range []string{"network_mode", "ipc", "pid"} {
			if v := s.Namespaces[attr]; strings.HasPrefix(v, servicePrefix) {
				refService("dangling-"+attr, n, attr, v[len(servicePrefix):])
			}
		}
		for _, v := range s.VolumesFrom {
			if strings.HasPrefix(v, containerPrefix) {
				continue
			}
			refService("dangling-volumes_from", n, "volumes_from", strings.SplitN(v, ":", 2)[0])
		}
		for _, v := range s.Links {
			refService("dangling-links", n, "links", strings.SplitN(v, ":", 2)[0])
		}
		// mutually exclusive settings
		if s.NetworkMode != "" && len(s.Networks) > 0 {
			add("exclusive-network_mode-networks", "service %q sets network_mode and networks", n)
		}
		if s.Dockerfile != "" && s.DockerfileInline != "" {
			add("exclusive-dockerfile-dockerfile_inline", "service %q sets both", n)
		}
		for _, d := range s.Devices {
			if d.Count != 0 && d.NumIDs > 0 {
				add("exclusive-count-device_ids", "service %q: device request with count and device_ids", n)
			}
		}
		replicas := 1
		if s.Scale != nil {
			replicas = *s.Scale
		} else if s.Replicas != nil {
			replicas = *s.Replicas
		}
		if s.ContainerName != "" && replicas > 1 {
			add("exclusive-container_name-scale", "service %q has a container_name and %d replicas", n, replicas)
		}
		// paired settings agree
		if s.Scale != nil && s.Replicas != nil && *s.Scale != *s.Replicas {
			add("pair-scale-replicas", "service %q: scale %d, deploy.replicas %d", n, *s.Scale, *s.Replicas)
		}
		if s.CPUs != 0 && s.LimitCPUs != 0 && s.CPUs != s.LimitCPUs {
			add("pair-cpus", "service %q: cpus %v, deploy limit %v", n, s.CPUs, s.LimitCPUs)
		}
		if s.MemLimit != 0 && s.LimitMemory != 0 && s.MemLimit != s.LimitMemory {
			add("pair-mem_limit", "service %q: mem_limit %d, deploy limit %d", n, s.MemLimit, s.LimitMemory)
		}
		if s.MemReservation != 0 && s.ReservedMemory != 0 && s.MemReservation != s.ReservedMemory {
			add("pair-mem_reservation", "service %q: mem_reservation %d, deploy reservation %d", n, s.MemReservation, s.ReservedMemory)
		}
		if s.PidsLimit != 0 && s.LimitPids != 0 && s.PidsLimit != s.LimitPids {
			add("pair-pids_limit", "service %q: pids_limit %d, deploy limit %d", n, s.PidsLimit, s.LimitPids)
		}
	}

	// external volume together with creation parameters
	for n, v := range m.Volumes {
		if v.External && (v.Driver != "" || v.DriverOpts > 0 || v.Labels > 0) {
			add("external-volume-with-parameters", "volume %q is external and has driver/driver_opts/labels", n)
		}
	}
	// secrets / configs: exactly one source, unless external or driver-backed
	fo := func(kind string, objs map[string]ConsFileObject) {
		for n, o := range objs {
			switch {
			case len(o.Sources) > 1:
				add(kind+"-several-sources", "%s %q sets %v", kind, n, o.Sources)
			case len(o.Sources) == 0 && !o.External && o.Driver == "":
				add(kind+"-no-source", "%s %q has no source", kind, n)
			}
		}
	}
	fo("secret", m.Secrets)
	fo("config", m.Configs)

	// the dependency graph over enabled services is acyclic (own depth-first search;
	// every dependency edge counts, whatever produced it)
	if cyc := m.findCycle(names); cyc != nil {
		add("dependency-cycle", "cycle %s", strings.Join(cyc, " -> "))
	}
	sort.Slice(out, func(i, j int) bool {
		if out[i].Rule != out[j].Rule {
			return out[i].Rule < out[j].Rule
		}
		return out[i].Detail < out[j].Detail
	})
	return out
}

func (m ConsModel) edges(n string) []string {
	s := m.Services[n]
	set := map[string]bool{}
	for d := range s.DependsOn {
		set[d] = true
	}
	for _, attr := range []string{"network_mode", "ipc", "pid"} {
		if v := s.Namespaces[attr]; strings.HasPrefix(v, servicePrefix) {
			set[v[len(servicePrefix):]] = true
		}
	}
	for _, v := range s.VolumesFrom {
		if !strings.HasPrefix(v, containerPrefix) {
			set[strings.SplitN(v, ":", 2)[0]] = true
		}
	}
	for _, v := range s.Links {
		set[strings.SplitN(v, ":", 2)[0]] = true
	}
	var out []string
	for d := range set {
		if _, ok := m.Services[d]; ok {
			out = append(out, d)
		}
	}
	sort.Strings(out)
	return out
}

func (m ConsModel) findCycle(names []string) []string {
	const (
		white = iota
		grey
		black
	)
	colour := map[string]int{}
	var stack []string
	var visit func(n string) []string
	visit = func(n string) []string {
		colour[n] = grey
		stack = append(stack, n)
		for _, d := range m.edges(n) {
			switch colour[d] {
			case grey:
				for i, x := range stack {
					if x == d {
						return append(append([]string{}, stack[i:]...), d)
					}
				}
			case white:
				if c := visit(d); c != nil {
					return c
				}
			}
		}
		stack = stack[:len(stack)-1]
		colour[n] = black
		return nil
	}
	for _, n := range names {
		if colour[n] == white {
			if c := visit(n); c != nil {
				return c
			}
		}
	}
	return nil
}
