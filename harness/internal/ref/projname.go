package ref

// Reference statement of property C17 (project name and project environment
// precedence), written from the property text only.

// ValidProjectName reports whether s has the form [a-z0-9][a-z0-9_-]*.
func ValidProjectName(s string) bool {
	if s == "" {
		return false
	}
	for i := 0; i < len(s); i++ {
		c := s[i]
		alnum := c >= 'a' && c <= 'z' || c >= '0' && c <= '9'
		if i == 0 && !alnum {
			return false
		}
		if !alnum && c != '_' && c != '-' {
			return false
		}
	}
	return true
}

// NormalizeProjectName is the documented normalisation: lower-case, drop every
// character outside [a-z0-9_-], drop leading '_' and '-'. Only ASCII letters
// are folded (generators avoid non-ASCII characters whose lower-case form is
// ASCII, where the statement is silent).
func NormalizeProjectName(s string) string {
	out := make([]byte, 0, len(s))
	for i := 0; i < len(s); i++ {
		c := s[i]
		if c >= 'A' && c <= 'Z' {
			c += 'a' - 'A'
		}
		if c >= 'a' && c <= 'z' || c >= '0' && c <= '9' || c == '_' || c == '-' {
			out = append(out, c)
		}
	}
	i := 0
	for i < len(out) && (out[i] == '_' || out[i] == '-') {
		i++
	}
	return string(out[i:])
}

// NameInputs are the sources of the project name, already resolved by source.
type NameInputs struct {
	Explicit string // "" = not requested
	// EnvName is COMPOSE_PROJECT_NAME as found in the project environment
	// (after explicit > OS > later .env > earlier .env); EnvSet says whether
	// any source defines it.
	EnvName string
	EnvSet  bool
	// FileNames holds, per compose file in order, the interpolated `name`
	// value; FileSets says whether the file carries a `name` key with a
	// non-empty text.
	FileNames []string
	FileSets  []bool
	DirBase   string
}

// NameVerdict is what the statement requires.
type NameVerdict struct {
	// Err: the load (or the construction of the options) must fail.
	Err bool
	// Accept: the names the statement admits (one, or two where the statement
	// can be read both ways).
	Accept []string
	// Source names the deciding source: explicit | env | file | dir | none.
	Source string
	// ErrTolerated: Accept is non-empty but one admissible reading of the
	// statement ends in a rejection (the last file's name normalises to empty,
	// an earlier file's does not, the directory name normalises to empty).
	ErrTolerated bool
	// Weak: COMPOSE_PROJECT_NAME is defined but empty — the statement does not
	// say whether that is "absent" or "invalid"; only the universal part
	// (non-empty valid name, exported, or an error) is required.
	Weak bool
}

// ExpectedName applies the stated precedence.
func ExpectedName(in NameInputs) NameVerdict {
	if in.Explicit != "" {
		if !ValidProjectName(in.Explicit) {
			return NameVerdict{Err: true, Source: "explicit"}
		}
		return NameVerdict{Accept: []string{in.Explicit}, Source: "explicit"}
	}
	weak := false
	if in.EnvSet {
		if in.EnvName == "" {
			weak = true
		} else {
			if !ValidProjectName(in.EnvName) {
				return NameVerdict{Err: true, Source: "env"}
			}
			return NameVerdict{Accept: []string{in.EnvName}, Source: "env"}
		}
	}
	// last compose file that sets a name, after interpolation and normalisation;
	// a name that normalises to empty falls through. Whether it falls through to
	// an earlier file's name or to the directory is not decided by the text:
	// both are accepted.
	var accept []string
	last := true
	for i := len(in.FileNames) - 1; i >= 0; i-- {
		if !in.FileSets[i] {
			continue
		}
		n := NormalizeProjectName(in.FileNames[i])
		if n != "" {
			accept = append(accept, n)
			if last {
				return NameVerdict{Accept: accept, Source: "file", Weak: weak}
			}
			break
		}
		last = false
	}
	d := NormalizeProjectName(in.DirBase)
	if len(accept) > 0 {
		if d != "" {
			accept = append(accept, d)
		}
		return NameVerdict{Accept: accept, Source: "file-or-dir", Weak: weak, ErrTolerated: d == ""}
	}
	if d == "" {
		return NameVerdict{Err: true, Source: "none", Weak: weak}
	}
	return NameVerdict{Accept: []string{d}, Source: "dir", Weak: weak}
}

// EnvSource is one layer of the project environment, highest precedence first
// when passed to ExpectedEnv.
type EnvSource map[string]string

// ExpectedEnv returns the value of key from the first (highest-precedence)
// source defining it.
func ExpectedEnv(key string, highestFirst ...EnvSource) (string, bool) {
	for _, s := range highestFirst {
		if v, ok := s[key]; ok {
			return v, true
		}
	}
	return "", false
}
