// Package ref holds small, independent, executable statements of the rules the
// properties quantify over. Nothing here is derived from compose-go's code.
package ref

import "strings"

// Template AST for the grammar
//   T ::= (literal | $$ | $NAME | ${NAME} | ${NAME op T})*

type ItemKind int

const (
	Lit ItemKind = iota
	Esc          // $$
	Var          // $NAME or ${NAME}
	Op           // ${NAME op T}
)

type Item struct {
	Kind   ItemKind
	Text   string // literal text
	Name   string
	Braced bool
	Oper   string // :- - :+ + :? ?
	Sub    []Item
}

// Render writes the template text of an AST.
func Render(t []Item) string {
	var sb strings.Builder
	for _, it := range t {
		switch it.Kind {
		case Lit:
			sb.WriteString(it.Text)
		case Esc:
			sb.WriteString("$$")
		case Var:
			if it.Braced {
				sb.WriteString("${" + it.Name + "}")
			} else {
				sb.WriteString("$" + it.Name)
			}
		case Op:
			sb.WriteString("${" + it.Name + it.Oper + Render(it.Sub) + "}")
		}
	}
	return sb.String()
}

// Outcome of the reference evaluation.
type Outcome struct {
	// Unspecified: the statement does not decide this template/environment
	// (an error inside a branch that is not used, `$` followed by something
	// that is neither a name, `{` nor `$`, a bare `{` inside a nested text).
	Unspecified bool
	// Err: the substitution must fail.
	Err bool
	// ErrVar/ErrMsg: when the failing construct is a top-level `?`/`:?` whose
	// message evaluates cleanly, the variable and interpolated message the
	// error must carry ("" ErrVar => only "some error" is required).
	ErrVar string
	ErrMsg string
	Value  string
}

type Env func(string) (string, bool)

// Eval evaluates an AST under env exactly as the statement words it.
func Eval(t []Item, env Env) Outcome {
	var sb strings.Builder
	var first *Outcome
	for _, it := range t {
		o := evalItem(it, env)
		if o.Unspecified {
			return Outcome{Unspecified: true}
		}
		if o.Err {
			if first == nil {
				oo := o
				first = &oo
			}
			continue
		}
		sb.WriteString(o.Value)
	}
	if first != nil {
		return *first
	}
	return Outcome{Value: sb.String()}
}

func evalItem(it Item, env Env) Outcome {
	switch it.Kind {
	case Lit:
		return Outcome{Value: it.Text}
	case Esc:
		return Outcome{Value: "$"}
	case Var:
		v, _ := env(it.Name)
		return Outcome{Value: v} // never expanded again
	}
	v, set := env(it.Name)
	sub := Eval(it.Sub, env)
	if sub.Unspecified {
		return sub
	}
	used := false
	switch it.Oper {
	case ":-":
		used = !set || v == ""
	case "-":
		used = !set
	case ":+":
		used = set && v != ""
	case "+":
		used = set
	case ":?":
		used = !set || v == ""
	case "?":
		used = !set
	}
	if sub.Err {
		if !used {
			// whether an unused branch is evaluated at all is not stated
			return Outcome{Unspecified: true}
		}
		return Outcome{Err: true}
	}
	switch it.Oper {
	case ":-", "-":
		if used {
			return Outcome{Value: sub.Value}
		}
		return Outcome{Value: v}
	case ":+", "+":
		if used {
			return Outcome{Value: sub.Value}
		}
		return Outcome{Value: ""}
	default: // :? ?
		if used {
			return Outcome{Err: true, ErrVar: it.Name, ErrMsg: sub.Value}
		}
		return Outcome{Value: v}
	}
}

func isNameStart(c byte) bool {
	return c == '_' || c >= 'a' && c <= 'z' || c >= 'A' && c <= 'Z'
}
func isNameChar(c byte) bool { return isNameStart(c) || c >= '0' && c <= '9' }

// ParseStatus classifies an arbitrary string against the grammar.
type ParseStatus int

const (
	InGrammar   ParseStatus = iota // parsed: Eval decides value and error
	Malformed                      // a `${` substitution that is not of the grammar: must be an error
	Unspecified                    // outside what the statement talks about
)

// Parse reads s as a template of the grammar.
func Parse(s string) ([]Item, ParseStatus) {
	items, rest, st := parseT(s, false)
	if st != InGrammar {
		return nil, st
	}
	if rest != "" {
		return nil, Unspecified
	}
	return items, InGrammar
}

// parseT parses until end of input (nested=false) or the unmatched `}` (nested=true),
// which is left in rest.
func parseT(s string, nested bool) (items []Item, rest string, st ParseStatus) {
	var lit strings.Builder
	flush := func() {
		if lit.Len() > 0 {
			items = append(items, Item{Kind: Lit, Text: lit.String()})
			lit.Reset()
		}
	}
	i := 0
	for i < len(s) {
		c := s[i]
		if nested && c == '}' {
			flush()
			return items, s[i:], InGrammar
		}
		if nested && c == '{' {
			return nil, "", Unspecified // brace matching inside nested text is not defined by the grammar
		}
		if c != '$' {
			lit.WriteByte(c)
			i++
			continue
		}
		if i+1 >= len(s) {
			return nil, "", Unspecified // lone trailing `$`
		}
		n := s[i+1]
		switch {
		case n == '$':
			flush()
			items = append(items, Item{Kind: Esc})
			i += 2
		case isNameStart(n):
			j := i + 1
			for j < len(s) && isNameChar(s[j]) {
				j++
			}
			flush()
			items = append(items, Item{Kind: Var, Name: s[i+1 : j]})
			i = j
		case n == '{':
			j := i + 2
			if j >= len(s) || !isNameStart(s[j]) {
				return nil, "", Malformed
			}
			k := j
			for k < len(s) && isNameChar(s[k]) {
				k++
			}
			name := s[j:k]
			if k >= len(s) {
				return nil, "", Malformed
			}
			if s[k] == '}' {
				flush()
				items = append(items, Item{Kind: Var, Name: name, Braced: true})
				i = k + 1
				continue
			}
			op := ""
			for _, cand := range []string{":-", ":+", ":?", "-", "+", "?"} {
				if strings.HasPrefix(s[k:], cand) {
					op = cand
					break
				}
			}
			if op == "" {
				return nil, "", Malformed
			}
			sub, r, st := parseT(s[k+len(op):], true)
			if st != InGrammar {
				return nil, "", st
			}
			if !strings.HasPrefix(r, "}") {
				return nil, "", Malformed // unterminated
			}
			flush()
			items = append(items, Item{Kind: Op, Name: name, Oper: op, Sub: sub})
			i = len(s) - len(r) + 1
		default:
			return nil, "", Unspecified // `$` followed by something else
		}
	}
	if nested {
		return nil, "", Malformed // ran out of input inside ${...
	}
	flush()
	return items, "", InGrammar
}
