package c02

import (
	"context"
	"fmt"
	"os"
	"path/filepath"
	"strings"

	"github.com/compose-spec/compose-go/v2/cli"
	"github.com/compose-spec/compose-go/v2/loader"
	"github.com/compose-spec/compose-go/v2/types"
	"gopkg.in/yaml.v3"

	"verif/harness/internal/core"
)

// runReuse loads several times with one and the same caller-side value (a types.ConfigDetails with
// its Environment map, a cli.ProjectOptions): "the same files, environment, working directory and
// options" then means literally the same Go values, and every load must give what the first gave.
func runReuse(s *core.Shard, offset int) {
	docs := []struct{ id, doc string }{
		{"name-from-variable-default", "name: ${COMPOSE_PROJECT_NAME:-x}-s\nservices:\n  a:\n    image: img-${COMPOSE_PROJECT_NAME:-none}\n"},
		{"name-literal", "name: demo\nservices:\n  a:\n    image: img\n    labels: {p: \"${COMPOSE_PROJECT_NAME:-none}\"}\n"},
		{"no-name", "services:\n  a:\n    image: \"img-${COMPOSE_PROJECT_NAME:-none}\"\n    environment: [A, COMPOSE_PROJECT_NAME]\n"},
	}
	k := 0
	for _, d := range docs {
		for _, mode := range []string{"details/name-not-set", "details/name-set-not-imperatively", "details/name-imperative", "cli-options", "details/pre-parsed-config", "details/pre-parsed-config-no-interpolation"} {
			k++
			if !s.Mine(offset + k) {
				continue
			}
			id := d.id + "/" + mode
			if !s.Begin("reuse/" + id) {
				continue
			}
			differs, detail, files, ok := reuseCase(s, d.doc, mode)
			if differs {
				s.Violation(map[string]string{"kind": "reused-inputs-differ", "mode": mode, "doc": d.id}, detail, files)
			}
			if ok {
				s.Cover("reused-caller-values", mode)
				s.Nontrivial("reuse", id)
			}
		}
	}
}

// reuseCase runs one document under one mode of reuse; differs reports a later load that
// disagrees with the first, ok that the first load succeeded.
func reuseCase(s *core.Shard, doc, mode string) (differs bool, detail string, files map[string]any, ok bool) {
	d := struct{ doc string }{doc}
	for once := true; once; once = false {
		dir := filepath.Join(s.Scratch(), "reuse")
		_ = os.RemoveAll(dir)
		_ = os.MkdirAll(dir, 0o755)
		file := filepath.Join(dir, "compose.yaml")
		_ = os.WriteFile(file, []byte(d.doc), 0o644)
		var load func() (*types.Project, error)
		if mode == "cli-options" {
			po, err := cli.NewProjectOptions([]string{file}, cli.WithWorkingDirectory(dir), cli.WithEnv([]string{"A=1"}))
			if err != nil {
				s.Inconclusive("reuse: " + err.Error())
				return
			}
			load = func() (*types.Project, error) { return po.LoadProject(context.Background()) }
		} else {
			details := types.ConfigDetails{WorkingDir: dir, ConfigFiles: []types.ConfigFile{{Filename: file}}, Environment: types.Mapping{"A": "1"}}
			if strings.HasPrefix(mode, "details/pre-parsed-config") {
				// the caller parsed the file itself and hands the dictionary over, several times
				var parsed map[string]any
				if err := yaml.Unmarshal([]byte(d.doc+"volumes:\n  data: {}\nsecrets:\n  tok: {environment: A}\n"), &parsed); err != nil {
					s.Inconclusive("reuse: " + err.Error())
					return
				}
				details.ConfigFiles = []types.ConfigFile{{Filename: file, Config: parsed}}
			}
			load = func() (*types.Project, error) {
				return loader.LoadWithContext(context.Background(), details, func(o *loader.Options) {
					switch mode {
					case "details/pre-parsed-config":
						o.SetProjectName("base", true)
					case "details/pre-parsed-config-no-interpolation":
						o.SetProjectName("base", true)
						o.SkipInterpolation = true
					case "details/name-set-not-imperatively":
						o.SetProjectName("base", false)
					case "details/name-imperative":
						o.SetProjectName("base", true)
					}
				})
			}
		}
		var first *result
		for n := 0; n < 4; n++ {
			var p *types.Project
			var err error
			pi := core.Guard(func() { p, err = load() })
			s.Eval(1)
			r := &result{Class: "ok"}
			switch {
			case pi != nil:
				r.Class, r.Err = "panic:"+pi.Site, pi.Value
			case err != nil:
				r.Class, r.Err = "error", err.Error()
			default:
				r.YAML, r.YAMLErr = render(p, "yaml")
			}
			if first == nil {
				first = r
				continue
			}
			if r.Class != first.Class || r.YAML != first.YAML {
				differs = true
				detail = fmt.Sprintf("load #%d with the very same %s gives another outcome than load #1: %s %q vs %s %q", n+1, mode, r.Class, firstDiff(first.YAML, r.YAML)+r.Err, first.Class, first.Err)
				files = map[string]any{"case.json": map[string]any{"kind": "reuse", "doc": d.doc, "mode": mode}, "first.yaml": first.YAML, "later.yaml": r.YAML}
				break
			}
		}
		ok = first != nil && first.Class == "ok"
	}
	return
}

func firstDiff(a, b string) string {
	la, lb := splitLines(a), splitLines(b)
	for i := 0; i < len(la) || i < len(lb); i++ {
		var x, y string
		if i < len(la) {
			x = la[i]
		}
		if i < len(lb) {
			y = lb[i]
		}
		if x != y {
			return fmt.Sprintf("line %d: %q / first load %q", i+1, y, x)
		}
	}
	return ""
}

func splitLines(s string) []string {
	var out []string
	cur := ""
	for _, c := range s {
		if c == '\n' {
			out = append(out, cur)
			cur = ""
			continue
		}
		cur += string(c)
	}
	return append(out, cur)
}
