package c02

import (
	"fmt"
	"reflect"
	"sort"
	"strings"
)

// canon renders a value as one line per leaf, "path = value", with map keys
// sorted, nil distinguished from empty and unexported fields included. Two
// values are deeply equal iff their canonical texts are equal, which lets
// results of different processes be compared.
func canon(v any) string {
	var sb strings.Builder
	canonValue(&sb, reflect.ValueOf(v), "")
	return sb.String()
}

func canonValue(sb *strings.Builder, v reflect.Value, path string) {
	if !v.IsValid() {
		fmt.Fprintf(sb, "%s = <invalid>\n", path)
		return
	}
	switch v.Kind() {
	case reflect.Ptr, reflect.Interface:
		if v.IsNil() {
			fmt.Fprintf(sb, "%s = <nil %s>\n", path, v.Kind())
			return
		}
		if v.Kind() == reflect.Interface {
			fmt.Fprintf(sb, "%s : %s\n", path, v.Elem().Type())
		}
		canonValue(sb, v.Elem(), path)
	case reflect.Struct:
		t := v.Type()
		for i := 0; i < v.NumField(); i++ {
			canonValue(sb, v.Field(i), path+"."+t.Field(i).Name)
		}
	case reflect.Map:
		if v.IsNil() {
			fmt.Fprintf(sb, "%s = <nil map>\n", path)
			return
		}
		if v.Len() == 0 {
			fmt.Fprintf(sb, "%s = <empty map>\n", path)
			return
		}
		type kv struct {
			k string
			v reflect.Value
		}
		var kvs []kv
		it := v.MapRange()
		for it.Next() {
			kvs = append(kvs, kv{fmt.Sprint(it.Key()), it.Value()})
		}
		sort.Slice(kvs, func(i, j int) bool { return kvs[i].k < kvs[j].k })
		for _, e := range kvs {
			canonValue(sb, e.v, path+"["+e.k+"]")
		}
	case reflect.Slice:
		if v.IsNil() {
			fmt.Fprintf(sb, "%s = <nil slice>\n", path)
			return
		}
		fallthrough
	case reflect.Array:
		if v.Len() == 0 {
			fmt.Fprintf(sb, "%s = <empty slice>\n", path)
			return
		}
		for i := 0; i < v.Len(); i++ {
			canonValue(sb, v.Index(i), fmt.Sprintf("%s[%d]", path, i))
		}
	case reflect.Bool:
		fmt.Fprintf(sb, "%s = %v\n", path, v.Bool())
	case reflect.Int, reflect.Int8, reflect.Int16, reflect.Int32, reflect.Int64:
		fmt.Fprintf(sb, "%s = %d\n", path, v.Int())
	case reflect.Uint, reflect.Uint8, reflect.Uint16, reflect.Uint32, reflect.Uint64, reflect.Uintptr:
		fmt.Fprintf(sb, "%s = %d\n", path, v.Uint())
	case reflect.Float32, reflect.Float64:
		fmt.Fprintf(sb, "%s = %v\n", path, v.Float())
	case reflect.String:
		fmt.Fprintf(sb, "%s = %q\n", path, v.String())
	case reflect.Func, reflect.Chan, reflect.UnsafePointer:
		fmt.Fprintf(sb, "%s = <%s nil=%v>\n", path, v.Kind(), v.IsNil())
	default:
		fmt.Fprintf(sb, "%s = <%s>\n", path, v.Kind())
	}
}

// firstDifferingPath returns the path of the first line at which two canonical texts differ.
func firstDifferingPath(a, b string, skip func(path string) bool) (string, string) {
	la, lb := strings.Split(a, "\n"), strings.Split(b, "\n")
	filter := func(ls []string) []string {
		out := ls[:0:0]
		for _, l := range ls {
			p, _, _ := strings.Cut(l, " ")
			if skip != nil && skip(p) {
				continue
			}
			out = append(out, l)
		}
		return out
	}
	la, lb = filter(la), filter(lb)
	for i := 0; i < len(la) || i < len(lb); i++ {
		var x, y string
		if i < len(la) {
			x = la[i]
		}
		if i < len(lb) {
			y = lb[i]
		}
		if x != y {
			p, _, _ := strings.Cut(x, " ")
			if p == "" {
				p, _, _ = strings.Cut(y, " ")
			}
			return p, fmt.Sprintf("%s  vs  %s", x, y)
		}
	}
	return "", ""
}
